(* Run_C09.v — correspondence: evaluate Model_VirtualState on the blocks the
   harness ran through the real executeTxsSequential / executeTxsConcurrent
   under forced schedules, and compare with what was observed. *)
From Coq Require Import List Arith Bool NArith ZArith.
From Goloop Require Import lib.Bytes Model_VirtualState.
Import ListNotations.
Local Open Scope nat_scope.

(* how the concurrent run was driven:
   SSerial order: every transaction but the last was dispatched first; then the
     workers ran to completion one at a time in `order`; then the last
     transaction was dispatched and ran (deterministic; the model follows the
     same schedule, which matters for blocks with a world read lock);
   SPicks seed: some interleaving at access granularity chosen by the harness
     gates / the Go scheduler; the model runs a pseudo-random interleaving
     derived from seed (at every step the (x mod m)-th of the m enabled actors
     moves, x from a linear congruential generator). *)
Inductive sched := SSerial (order : list nat) | SPicks (seed : N).

(* input: concurrency level, initial balances (index = account, 0 = system
   account), transactions (lock requests as passed to ctx.GetFuture, program,
   and for every failing first attempt the number of instructions it executes
   before it returns a retryable error), schedule;
   observed: final balances and per-transaction observations of the concurrent
   run, the same of the sequential run *)
Inductive case :=
| Case (level : nat) (init : list Z) (txs : list (list lockreq * list instr * list nat)) (s : sched)
       (c_final : list Z) (c_obs : list (list Z)) (s_final : list Z) (s_obs : list (list Z)).

Definition world_of (l : list Z) : world := fun a => nth a l 0%Z.
Definition instrs_of (x : list lockreq * list instr * list nat) : list instr := snd (fst x).
Definition mk_tx (x : list lockreq * list instr * list nat) : tx :=
  mkTx (fst (fst x)) (compile_fails (instrs_of x) (snd x)).

Fixpoint zs_eqb (a b : list Z) : bool :=
  match a, b with
  | [], [] => true
  | x :: a', y :: b' => Z.eqb x y && zs_eqb a' b'
  | _, _ => false
  end.
Definition ozs_eqb (a : option (list Z)) (b : list Z) : bool :=
  match a with Some x => zs_eqb x b | None => false end.

(* an upper bound of the number of steps of a complete run *)
Definition fuel_of (txs : list (list lockreq * list instr * list nat)) : nat :=
  fold_left (fun acc x => acc + (6 * length (instrs_of x) + 8) * (1 + length (snd x))) txs 8.

Definition lcg (x : N) : N := ((x * 1103515245 + 12345) mod 2147483648)%N.

(* pseudo-random interleaving *)
Fixpoint guided (txs : list tx) (g : gstate) (x : N) (fuel : nat) : gstate :=
  match fuel with
  | O => g
  | S f =>
      match enabled txs g with
      | [] => g
      | a0 :: en =>
          let a := nth (N.to_nat ((x / 65536) mod (N.of_nat (length (a0 :: en))))%N) (a0 :: en) a0 in
          match step txs g a with
          | Some g' => guided txs g' (lcg x) f
          | None => g
          end
      end
  end.

(* a spawned worker that has not reached its first gate runs freely: its
   GetSnapshot / UpdateSystemInfo step happens as soon as it can *)
Definition starting (txs : list tx) (g : gstate) : option actor :=
  find (fun a => match a with
                 | AWorker i => match g_work g i with
                                | Some WStart => can_step txs g a
                                | _ => false
                                end
                 | ADisp => false
                 end) (actors txs).

Fixpoint serial_loop (txs : list tx) (prio : list actor) (g : gstate) (fuel : nat) : gstate :=
  match fuel with
  | O => g
  | S f =>
      let pick := match starting txs g with
                  | Some a => Some a
                  | None => find (can_step txs g) prio
                  end in
      match pick with
      | Some a => match step txs g a with
                  | Some g' => serial_loop txs prio g' f
                  | None => g
                  end
      | None => g
      end
  end.

Definition run_serial (txs : list tx) (g0 : gstate) (order : list nat) (fuel : nat) : gstate :=
  let n := length txs in
  let g1 := run txs g0 (repeat ADisp (2 * (n - 1))) in
  serial_loop txs (map AWorker order ++ [ADisp; AWorker (n - 1)]) g1 fuel.

Definition check (c : case) : bool :=
  match c with
  | Case level init ctxs s c_final c_obs s_final s_obs =>
      let txs := map mk_tx ctxs in
      let w0 := world_of init in
      let n := length txs in
      let accts := seq 0 (length init) in
      let fuel := fuel_of ctxs in
      let g := match s with
               | SSerial order => run_serial txs (init_state level w0) order fuel
               | SPicks seed => guided txs (init_state level w0) (lcg seed) fuel
               end in
      (* the hypothesis of the theorems: programs touch only what they declared *)
      forallb (fun x => forallb (instr_ok (mk_tx x)) (instrs_of x)) ctxs &&
      Nat.eqb (length c_obs) n && Nat.eqb (length s_obs) n &&
      (* sequential executor *)
      zs_eqb (map (seq_world txs w0) accts) s_final &&
      forallb (fun i => ozs_eqb (observed_seq txs w0 i) (nth i s_obs [])) (seq 0 n) &&
      (* concurrent executor under the schedule *)
      complete g &&
      match g_final g with
      | Some w => zs_eqb (map w accts) c_final
      | None => false
      end &&
      forallb (fun i => ozs_eqb (g_rcts g i) (nth i c_obs [])) (seq 0 n)
  end.

Definition mismatches (l : list case) : list nat := failing check l.
