(* Run_C13.v — correspondence: evaluate Model_TxVerify on what the harness
   observed on transaction.Verify / verifySignature, crypto.ParseSignature /
   ParseSignatureVRS / Serialize* and NewAccountAddressFromPublicKey.

   The two primitives are tables supplied with each case: `recover` lists what
   decred's ecdsa.RecoverCompact (called by the harness directly, not through
   goloop) returns for the internal signature bytes and the hash of the case;
   H lists SHA3-256 (golang.org/x/crypto/sha3) of the key bodies involved. *)
From Goloop Require Import lib.Bytes Model_Address Model_TxSerialize Model_TxVerify.
From GoloopRun Require Export Pack_Bytes.
Open Scope N_scope.

Fixpoint tab_lookup (k : bytes) (t : list (bytes * bytes)) : option bytes :=
  match t with
  | [] => None
  | (a, b) :: r => if bytes_eqb k a then Some b else tab_lookup k r
  end.
Definition Htab (t : list (bytes * bytes)) (p : bytes) : bytes :=
  match tab_lookup p t with Some h => h | None => [999] end.

Fixpoint rec_lookup (s h : bytes) (t : list (bytes * bytes * option bytes)) : option bytes :=
  match t with
  | [] => None
  | (a, b, r) :: rest => if bytes_eqb s a && bytes_eqb h b then r else rec_lookup s h rest
  end.

Definition sig_obs := option (bool * option bytes * option bytes * option bytes).

Definition opt_eqb (a b : option bytes) := opt_bytes_eqb a b.

Definition sig_obs_of (o : option tsig) : sig_obs :=
  match o with
  | None => None
  | Some s => Some (has_v s, serialize_rs s, serialize_rsv s, serialize_vrs s)
  end.

Definition sig_obs_eqb (a b : sig_obs) : bool :=
  match a, b with
  | None, None => true
  | Some (v1, a1, b1, c1), Some (v2, a2, b2, c2) =>
      Bool.eqb v1 v2 && opt_eqb a1 a2 && opt_eqb b1 b2 && opt_eqb c1 c2
  | _, _ => false
  end.

Inductive case :=
(* a transaction with sender `from`, signature bytes `sig` (as handed to
   Signature.UnmarshalBinary / base64-decoded; [] = none) and id `id`;
   res: 0 = the signature bytes are refused when the transaction is parsed,
        1 = Verify / verifySignature succeed, 2 = they fail *)
| CVerify (rtab : list (bytes * bytes * option bytes)) (htab : list (bytes * bytes))
          (from_contract : bool) (from_id : bytes) (sig : bytes) (id : bytes) (res : N)
(* a JSON submission whose id the model computes itself: from_json decides
   struct path / raw fallback (is_raw) and gives the id; verify is evaluated on
   that id.  res as above (0 = not accepted as a transaction). *)
| CVerifyTx (rtab : list (bytes * bytes * option bytes)) (htab btab : list (bytes * bytes))
            (m : list (bytes * json)) (is_raw : bool) (idobs : bytes) (res : N)
(* crypto.ParseSignature(b) and crypto.ParseSignatureVRS(b):
   None = error, Some (HasV, SerializeRS, SerializeRSV, SerializeVRS) *)
| CSig (b : bytes) (rsv : sig_obs) (vrs : sig_obs)
(* NewAccountAddressFromPublicKey(pk).Bytes() *)
| CAddr (htab : list (bytes * bytes)) (pk : bytes) (addr : bytes).

Definition check (c : case) : bool :=
  match c with
  | CVerify rtab htab fc fid sg id res =>
      let from := {| a_contract := fc; a_id := fid |} in
      match sig_of_bytes sg with
      | None => res =? 0
      | Some s =>
          match verify_signature (Htab htab) (fun a b => rec_lookup a b rtab) from s id with
          | VOk => res =? 1
          | _ => res =? 2
          end
      end
  | CVerifyTx rtab htab btab m is_raw idobs res =>
      let H := Htab htab in
      match from_json H (fun s => tab_lookup s btab) (JObj m) with
      | Ok t =>
          Bool.eqb (match t with TxRaw _ _ => true | TxStruct _ => false end) is_raw
          && bytes_eqb (id H t) idobs
          && match verify H (fun a b => rec_lookup a b rtab) (fields t) true (id H t) with
             | VOk => res =? 1
             | _ => res =? 2
             end
      | Reject => res =? 0
      | NotV3 => false
      | Unsup => true
      end
  | CSig b rsv vrs =>
      sig_obs_eqb (sig_obs_of (if is_nil b then None else parse_signature b)) rsv
      && sig_obs_eqb (sig_obs_of (parse_signature_vrs b)) vrs
  | CAddr htab pk addr =>
      match addr_of_pub (Htab htab) pk with
      | Some a => bytes_eqb (to_bytes a) addr
      | None => false
      end
  end.

Definition mismatches (l : list case) : list nat := failing check l.
