(* Run_C15.v — correspondence for C15 (fees and transfers conserve ICX):
   the case type and `mismatches` are shared with C16 (Run_TxExec). *)
From GoloopRun Require Export Run_TxExec.
From Goloop Require Export Model_TxExec.
