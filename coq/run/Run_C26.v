(* Run_C26.v — correspondence: evaluate Model_Bloom on the log sets the harness
   fed to txresult.LogsBloom (AddLog / Merge / Contain / CompressedBytes) and
   report the indices of cases where an observation differs.
   The compressed form itself is C25's business (Run_C25); here only the bloom
   that comes back from CompressedBytes -> NewLogsBloomFromCompressed is compared.
   SHA3-256 is not computed in Coq: every case carries the (preimage, digest)
   pairs the model needs; a missing preimage makes the case fail. *)
From Goloop Require Import lib.Bytes Model_Bloom.
Open Scope N_scope.

(* how the harness merged: a leaf is one bloom that accumulated the listed logs
   with AddLog (a receipt); a node is a.Merge(b) *)
Inductive shape :=
| SLeaf (logs : list nat)
| SNode (a b : shape).

Inductive query :=
| QAddr (a : bytes)
| QIdx (pos : N) (v : bytes).

Inductive case :=
| CBloom (tbl : list (bytes * bytes))
         (logs : list (bytes * list (option bytes)))
         (sh : shape)
         (final_log_bytes final_bytes : bytes)
         (rt_log_bytes : option bytes)    (* None: observed equal to final_log_bytes *)
         (queries : list (list query * bool * bool)).

Fixpoint tbl_find (tbl : list (bytes * bytes)) (pre : bytes) : option bytes :=
  match tbl with
  | [] => None
  | (p, d) :: r => if bytes_eqb p pre then Some d else tbl_find r pre
  end.

Definition tbl_H (tbl : list (bytes * bytes)) (pre : bytes) : N :=
  match tbl_find tbl pre with Some d => be_val d | None => 0 end.

Definition tbl_has (tbl : list (bytes * bytes)) (pre : bytes) : bool :=
  match tbl_find tbl pre with Some d => Nat.eqb (length d) 32 && bytes_ok d | None => false end.

Definition mk_log (p : bytes * list (option bytes)) : log := {| l_addr := fst p; l_indexed := snd p |}.

Definition query_item (q : query) : bytes :=
  match q with QAddr a => addr_item a | QIdx p v => indexed_item p v end.

Fixpoint pick (ls : list log) (idx : list nat) : option (list log) :=
  match idx with
  | [] => Some []
  | i :: r => match nth_error ls i, pick ls r with
              | Some l, Some t => Some (l :: t)
              | _, _ => None
              end
  end.

Fixpoint eval_shape (H : bytes -> N) (ls : list log) (s : shape) : option bloom :=
  match s with
  | SLeaf idx => option_map (receipt_bloom H) (pick ls idx)
  | SNode a b => match eval_shape H ls a, eval_shape H ls b with
                 | Some x, Some y => Some (merge x y)
                 | _, _ => None
                 end
  end.

Definition check (c : case) : bool :=
  match c with
  | CBloom tbl logs sh flb fb rlb queries =>
      let ls := map mk_log logs in
      let H := tbl_H tbl in
      forallb (fun l => forallb (tbl_has tbl) (items_of l)) ls &&
      forallb (fun q => forallb (fun x => tbl_has tbl (query_item x)) (fst (fst q))) queries &&
      match eval_shape H ls sh with
      | None => false
      | Some b =>
          bytes_eqb (bloom_log_bytes b) flb &&
          bytes_eqb (bloom_bytes b) fb &&
          bytes_eqb (bloom_log_bytes b) (match rlb with Some x => x | None => flb end) &&
          forallb (fun q =>
                     let m := query_bloom H (map query_item (fst (fst q))) in
                     Bool.eqb (contain b m) (snd (fst q)) && Bool.eqb (contain b m) (snd q))
                  queries
      end
  end.

Definition mismatches (l : list case) : list nat := failing check l.
