(* Run_C22.v — correspondence for C22.
   CKey: the index key of i as the implementation computes it, and the index the
         transaction iterator decodes from that key.
   CList: a transaction or receipt list built from [items] (their Bytes()): the
         observed root hash, the observed iteration (index, position of the item
         in [items] or 1000000 when the returned bytes are none of them) and
         Get(i) for probed indices (same encoding; None = error / not found). *)
From Goloop Require Import lib.Bytes Model_RlpBytes Model_Trie Model_TxList.
From GoloopRun Require Import Run_TrieTbl.
Open Scope N_scope.

Inductive case :=
| CKey (i : N) (key : bytes) (decoded : option N)
| CList (t : list (bytes * bytes)) (items : list bytes) (root : bytes)
        (iter : list (N * nat)) (gets : list (N * option nat)).

Definition item_eqb (items : list bytes) (v : bytes) (pos : nat) : bool :=
  match nth_error items pos with
  | Some x => bytes_eqb x v
  | None => false
  end.

Fixpoint iter_eqb (items : list bytes) (m : list (N * bytes)) (o : list (N * nat)) : bool :=
  match m, o with
  | [], [] => true
  | (i, v) :: m', (j, p) :: o' => (i =? j) && item_eqb items v p && iter_eqb items m' o'
  | _, _ => false
  end.

Definition optN_eqb (a b : option N) : bool :=
  match a, b with
  | Some x, Some y => x =? y
  | None, None => true
  | _, _ => false
  end.

Definition check (c : case) : bool :=
  match c with
  | CKey i k d => bytes_eqb (index_key i) k && optN_eqb (index_of_key k) d
  | CList t items r iter gets =>
      let H := H_tbl (mk_tbl t) in
      let tr := from_slice items in
      bytes_eqb (root H tr) r &&
      match iterate tr with
      | Some m => iter_eqb items m iter
      | None => false
      end &&
      forallb (fun g : N * option nat =>
                 match get_at tr (fst g), snd g with
                 | Some v, Some p => item_eqb items v p
                 | None, None => true
                 | _, _ => false
                 end) gets
  end.

Definition mismatches (l : list case) : list nat := failing check l.
