(* Run_C23.v — correspondence: evaluate Model_Rlp on the cases the harness observed on
   codec.RLP.MarshalToBytes / UnmarshalFromBytes, report differing indices. *)
From Goloop Require Export lib.Bytes Model_Rlp.
Open Scope N_scope.

(* long runs of one byte in the cases files *)
Definition rpt (n c : N) : bytes := repeat c (N.to_nat n).

Inductive case :=
(* a generated Go value v of type t: the bytes MarshalToBytes produced and the value
   UnmarshalFromBytes gave back for them *)
| CEnc (t : ty) (v : value) (out : bytes) (back : value)
(* arbitrary bytes decoded into a fresh value of type t:
   obs = Some (value, returned remainder) or None with the error class
   (1 io.EOF, 2 ErrNilValue, 3 any other error); dirty = the pooled decoder was
   returned with an un-closed child reader (the next call lost input bytes) *)
| CDec (t : ty) (inp : bytes) (obs : option (value * bytes)) (cls : N) (dirty : bool).

Definition check (c : case) : bool :=
  match c with
  | CEnc t v out back =>
      ty_ok t && wtb t v && bytes_eqb (marshal v) out &&
      match unmarshal t out with
      | ROk x ([], p) => value_eqb x back && value_eqb (canon t v) back && (p =? 0)
      | _ => false
      end
  | CDec t inp obs cls dirty =>
      match unmarshal t inp, obs with
      | ROk x (r, p), Some (y, r') => value_eqb x y && bytes_eqb r r' && Bool.eqb (0 <? p) dirty
      | REof _, None => cls =? 1
      | RNil _, None => cls =? 2
      | RErr, None => cls =? 3
      | _, _ => false
      end
  end.

Definition mismatches (l : list case) : list nat := failing check l.
