(* Run_C17.v — correspondence for C17: a case is one history of operations on a
   trie.Mutable (ompt.mptForBytes) with everything the implementation returned;
   the model replays the history from the empty trie and compares every
   observation.  Snapshot, flush, reload, clear-cache and clone are identities
   on the model state. *)
From Goloop Require Import lib.Bytes Model_RlpBytes Model_Trie.
From GoloopRun Require Import Run_TrieTbl.
Open Scope N_scope.

Inductive op :=
| OSet (k v : bytes) (old : option bytes)
| ODel (k : bytes) (old : option bytes)
| OGet (k : bytes) (res : option bytes)
| OSnap                                   (* GetSnapshot: the model remembers the tree *)
| OReset (i : nat)                        (* Mutable.Reset to the i-th snapshot taken *)
| OIdent                                  (* flush / reload / clear-cache / clone *)
| ORoot (h : bytes) (empty : bool)        (* Hash(), Empty() of the current content *)
| OIter (items : list (bytes * bytes))
| OFilter (p : bytes) (items : list (bytes * bytes)).

Inductive case := CHist (t : list (bytes * bytes)) (ops : list op).

Fixpoint run (H : bytes -> bytes) (ops : list op) (t : node) (snaps : list node) : bool :=
  match ops with
  | [] => true
  | o :: r =>
      match o with
      | OSet k v old =>
          let nk := bytes_to_nibs k in
          opt_bytes_eqb (get t nk) old && run H r (set t nk v) snaps
      | ODel k old =>
          let nk := bytes_to_nibs k in
          opt_bytes_eqb (get t nk) old && run H r (delete t nk) snaps
      | OGet k res => opt_bytes_eqb (get t (bytes_to_nibs k)) res && run H r t snaps
      | OSnap => run H r t (snaps ++ [t])
      | OReset i =>
          match nth_error snaps i with
          | Some t' => run H r t' snaps
          | None => false
          end
      | OIdent => run H r t snaps
      | ORoot h e => bytes_eqb (root H t) h && Bool.eqb (is_empty t) e && run H r t snaps
      | OIter items => kvs_eqb (as_bytes (to_list t)) items && run H r t snaps
      | OFilter p items => kvs_eqb (as_bytes (filter t (bytes_to_nibs p))) items && run H r t snaps
      end
  end.

Definition check (c : case) : bool :=
  match c with
  | CHist t ops => run (H_tbl (mk_tbl t)) ops Empty []
  end.

Definition mismatches (l : list case) : list nat := failing check l.
