(* Run_C28.v — correspondence: evaluate Model_Hexary on the operation scripts the
   harness ran against hexary.Accumulator / hexary.MerkleTree, report the
   scripts on which an observation differs.

   Hashes: as in Run_C27 the model runs with the table of SHA3-256 pairs the
   harness recorded (every node of the reference layered tree of every
   sequence met, and every altered proof node), all checked against
   x/crypto/sha3 by the harness.  The model only concatenates, splits, compares
   and measures hashes, so every distinct 32-byte value is renamed to the token
   [tok id] (an injective renaming) and ids are printed.  Byte strings whose
   length is not a multiple of 32 are printed raw. *)
From Coq Require Import Uint63.
From Goloop Require Import lib.Bytes lib.BytesMap Model_Hexary.
Open Scope N_scope.

Definition n_of (i : int) : N := Z.to_N (Uint63.to_Z i).
Definition nat_of (i : int) : nat := N.to_nat (n_of i).
Definition bytes_of (l : list int) : bytes := map n_of l.

Definition tok (i : N) : bytes :=
  (i / 65536) mod 256 :: (i / 256) mod 256 :: i mod 256 :: repeat 255 29.
Definition tk (i : int) : bytes := tok (n_of i).

(* node bytes on the wire: hashes by id, or raw bytes *)
Inductive pnode := PT (ids : list int) | PR (raw : list int).
Definition pbytes (p : pnode) : bytes :=
  match p with PT ids => concat (map tk ids) | PR raw => bytes_of raw end.

(* H (concat children) = d *)
Inductive tent := TN (children : pnode) (d : int).

(* header: root id + 1 (0 = nil), leaves *)
Inductive hobs := HO (root : int) (leaves : int) | HE (cls : int).

Inductive pobs := POk (proof : list (list int)) | PErr (cls : int).

Inductive sop :=
| SAdd (h : int) (cls : int)                       (* Add (tok h) *)
| SAddRaw (h : list int) (cls : int)               (* Add of a hash of another length *)
| SHeader (o : hobs)                               (* GetMerkleHeader *)
| SFinalize (o : hobs)
| SSetLen (l : int) (cls : int)
| SReopen (o : hobs)                               (* NewAccumulator on the same buckets; GetMerkleHeader *)
| SProve (key : int) (from : int) (o : pobs)       (* Finalize; NewMerkleTree(tree bucket); Prove; from = 0 is -1, k+1 is k *)
| SVerify (key : int) (h : int) (proof : list pnode) (cls : int)
                                                   (* Finalize; NewMerkleTree(empty bucket); Add *)
| SBuilderNew                                      (* Finalize; builder := NewMerkleTree(empty bucket) *)
| SBuilderAdd (key : int) (h : int) (proof : list pnode) (cls : int).

Inductive case := Case (tbl : list tent) (ops : list sop).

Definition Htbl (t : bmap bytes) (x : bytes) : bytes :=
  match bm_get x t with Some d => d | None => [256] end.

(* classes: 0 ok, 1 ErrVerify / IllegalArgument, 2 any other error, 9 panic *)
Definition ecls (e : herr) : N :=
  match e with HVerify => 1 | HArg => 1 | HPanic => 9 | _ => 2 end.

Definition root_code (r : option bytes) (o : int) : bool :=
  match r with
  | None => n_of o =? 0
  | Some b => negb (n_of o =? 0) && bytes_eqb b (tok (n_of o - 1))
  end.

Definition hobs_ok (r : hres header) (o : hobs) : bool :=
  match r, o with
  | HOk hd, HO root leaves => root_code (hd_root hd) root && (hd_leaves hd =? n_of leaves)
  | HErr e, HE c => ecls e =? n_of c
  | _, _ => false
  end.

Fixpoint proof_eqb (p : list bytes) (o : list (list int)) : bool :=
  match p, o with
  | [], [] => true
  | a :: p', b :: o' => bytes_eqb a (concat (map tk b)) && proof_eqb p' o'
  | _, _ => false
  end.

Section Run.
Variable H : bytes -> bytes.

Record rst := mkR { r_st : hstate; r_builder : option mtree; r_ok : bool }.

Definition upd (s : rst) (st : hstate) (ok : bool) : rst := mkR st (r_builder s) (r_ok s && ok).

Definition res_cls {A} (r : hres A) : N := match r with HOk _ => 0 | HErr e => ecls e end.

Definition rstep (s : rst) (o : sop) : rst :=
  let st := r_st s in
  match o with
  | SAdd h c =>
      let r := acc_add H st (tk h) in
      upd s (match r with HOk st' => st' | HErr _ => st end) (res_cls r =? n_of c)
  | SAddRaw h c =>
      let r := acc_add H st (bytes_of h) in
      upd s (match r with HOk st' => st' | HErr _ => st end) (res_cls r =? n_of c)
  | SHeader ob => upd s st (hobs_ok (get_header H st) ob)
  | SFinalize ob =>
      match finalize H st with
      | HOk (hd, st') => upd s st' (hobs_ok (HOk hd) ob)
      | HErr e => upd s st (hobs_ok (HErr e) ob)
      end
  | SSetLen l c =>
      let r := set_len H st (n_of l) in
      upd s (match r with HOk st' => st' | HErr _ => st end) (res_cls r =? n_of c)
  | SReopen ob =>
      let st' := reopen st in upd s st' (hobs_ok (get_header H st') ob)
  | SProve key from ob =>
      match finalize H st with
      | HErr e => upd s st (match ob with PErr c => ecls e =? n_of c | _ => false end)
      | HOk (hd, st') =>
          let r := match new_mtree (hs_tree st') hd with
                   | HErr e => HErr e
                   | HOk mt => prove mt (n_of key)
                                 (if n_of from =? 0 then None else Some (nat_of from - 1)%nat)
                   end in
          upd s st' (match r, ob with
                     | HOk p, POk op => proof_eqb p op
                     | HErr e, PErr c => ecls e =? n_of c
                     | _, _ => false
                     end)
      end
  | SVerify key h proof c =>
      match finalize H st with
      | HErr e => upd s st (ecls e =? n_of c)
      | HOk (hd, st') =>
          let r := match new_mtree bm_empty hd with
                   | HErr e => HErr e
                   | HOk mt => mt_add H mt (n_of key) (tk h) (map pbytes proof)
                   end in
          upd s st' (res_cls r =? n_of c)
      end
  | SBuilderNew =>
      match finalize H st with
      | HErr e => upd s st false
      | HOk (hd, st') =>
          match new_mtree bm_empty hd with
          | HErr _ => upd s st' false
          | HOk mt => mkR st' (Some mt) (r_ok s)
          end
      end
  | SBuilderAdd key h proof c =>
      match r_builder s with
      | None => upd s st false
      | Some mt =>
          let r := mt_add H mt (n_of key) (tk h) (map pbytes proof) in
          mkR st (match r with HOk mt' => Some mt' | HErr _ => Some mt end)
              (r_ok s && (res_cls r =? n_of c))
      end
  end.
End Run.

Definition tbl_add (m : bmap bytes) (e : tent) : bmap bytes :=
  match e with TN c d => bm_set (pbytes c) (tk d) m end.

Definition check (c : case) : bool :=
  match c with
  | Case tbl ops =>
      let t := fold_left tbl_add tbl bm_empty in
      r_ok (fold_left (rstep (Htbl t)) ops (mkR hstate_init None true))
  end.

Definition mismatches (l : list case) : list nat := failing check l.
