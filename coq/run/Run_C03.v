(* Run_C03.v — correspondence: evaluate Model_Wal (instantiated with the
   executable CRC-32C) on the histories the harness ran against consensus/wal.go
   on real files, and report the indices where model and observation differ. *)
From Coq Require Import String Ascii.
From Goloop Require Import lib.Bytes lib.Crc32c Model_Wal.
Open Scope N_scope.

(* ---- compact notations for the case files (parsing list-of-N literals is slow) ---- *)
(* hx "0aff" = [10; 255] *)
Definition hexval (c : ascii) : N :=
  let n := N_of_ascii c in
  if n <? 58 then n - 48 else n - 87.
Fixpoint hx (s : string) : bytes :=
  match s with
  | String a (String b r) => (hexval a * 16 + hexval b) :: hx r
  | _ => []
  end.
(* pg seed len: the harness's payload generator (prngBytes) for payloads that are
   not printed literally: xorshift32, one byte (the low one) per step *)
Definition xs32 (x : N) : N :=
  let m := 4294967295 in
  let x := N.lxor x (N.land (N.shiftl x 13) m) in
  let x := N.lxor x (N.shiftr x 17) in
  N.lxor x (N.land (N.shiftl x 5) m).
Fixpoint pg_aux (n : nat) (x : N) : bytes :=
  match n with
  | O => []
  | S k => let x' := xs32 x in N.land x' 255 :: pg_aux k x'
  end.
Definition pg (seed len : N) : bytes := pg_aux (N.to_nat len) (N.lor seed 1).

(* pgb seed len: payloads of megabytes — the 4096-byte block pg seed 4096 repeated
   and cut to len (the harness's bigBytes); generating every byte by xs32 would
   dominate the run *)
Fixpoint rep_app (n : nat) (blk acc : bytes) : bytes :=
  match n with O => acc | S k => rep_app k blk (blk ++ acc) end.
Definition pgb (seed len : N) : bytes :=
  firstn (N.to_nat len) (rep_app (N.to_nat (len / 4096 + 1)) (pg seed 4096) []).

(* an observed byte string: literal, or length and CRC-32C (computed by Go's
   hash/crc32 in the harness) when it is long *)
Inductive blob := Lit (b : bytes) | Dig (len crc : N).
Definition blob_eqb (m : bytes) (o : blob) : bool :=
  match o with
  | Lit b => bytes_eqb m b
  | Dig l c => (N.of_nat (length m) =? l) && (crc32c m =? c)
  end.

(* what one recovery was observed to do: payloads returned by the ReadBytes
   loop, class of the final error (0 EOF, 1 UnexpectedEOF, 2 Corrupted), and
   the bytes of every segment file after CloseAndRepair / before reopening *)
Inductive obs := Obs (recs : list blob) (err : N) (files : list (N * blob)).

Inductive case :=
| CHist (ops : list op) (observed : list obs) (final : list (N * blob))
    (* a history from an empty directory; one obs per Recover; final = the
       segment files as they are on disk after the last operation *)
| CDisk (d : list (N * bytes)) (o : obs)
    (* recovery of an arbitrary directory content (malformed stream) *)
| CCrc (b : bytes) (c : N).
    (* validation of lib/Crc32c against Go's crc32 (Castagnoli) *)

Definition err_code (e : rerr) : N :=
  match e with REof => 0 | RUnexpected => 1 | RCorrupt => 2 | RFuel => 99 end.

Fixpoint list_eqb {A B} (eq : A -> B -> bool) (a : list A) (b : list B) : bool :=
  match a, b with
  | [], [] => true
  | x :: a', y :: b' => eq x y && list_eqb eq a' b'
  | _, _ => false
  end.

Definition seg_eqb (a : N * bytes) (b : N * blob) : bool := (fst a =? fst b) && blob_eqb (snd a) (snd b).
Definition disk_eqb := list_eqb seg_eqb.
Definition recs_eqb := list_eqb blob_eqb.

Definition obs_eqb (m : list bytes * rerr * disk) (o : obs) : bool :=
  let '(recs, e, d) := m in
  match o with
  | Obs orecs oerr ofiles => recs_eqb recs orecs && (err_code e =? oerr) && disk_eqb d ofiles
  end.

Definition check (c : case) : bool :=
  match c with
  | CHist ops observed final =>
      let '(st, outs) := exec crc32c init ops in
      list_eqb obs_eqb outs observed && disk_eqb (disk_of st) final
  | CDisk d o => obs_eqb (recover_disk crc32c d) o
  | CCrc b c => crc32c b =? c
  end.

Definition mismatches (l : list case) : list nat := failing check l.
