(* Run_C03.v — correspondence: evaluate Model_Wal (instantiated with the
   executable CRC-32C) on the histories the harness ran against consensus/wal.go
   on real files, and report the indices where model and observation differ. *)
From Goloop Require Import lib.Bytes lib.Crc32c Model_Wal.
Open Scope N_scope.

(* what one recovery was observed to do: payloads returned by the ReadBytes
   loop, class of the final error (0 EOF, 1 UnexpectedEOF, 2 Corrupted), and
   the bytes of every segment file after CloseAndRepair / before reopening *)
Inductive obs := Obs (recs : list bytes) (err : N) (files : list (N * bytes)).

Inductive case :=
| CHist (ops : list op) (observed : list obs) (final : list (N * bytes))
    (* a history from an empty directory; one obs per Recover; final = the
       segment files as they are on disk after the last operation *)
| CDisk (d : list (N * bytes)) (o : obs)
    (* recovery of an arbitrary directory content (malformed stream) *)
| CCrc (b : bytes) (c : N).
    (* validation of lib/Crc32c against Go's crc32 (Castagnoli) *)

Definition err_code (e : rerr) : N :=
  match e with REof => 0 | RUnexpected => 1 | RCorrupt => 2 | RFuel => 99 end.

Fixpoint list_eqb {A B} (eq : A -> B -> bool) (a : list A) (b : list B) : bool :=
  match a, b with
  | [], [] => true
  | x :: a', y :: b' => eq x y && list_eqb eq a' b'
  | _, _ => false
  end.

Definition seg_eqb (a b : N * bytes) : bool := (fst a =? fst b) && bytes_eqb (snd a) (snd b).
Definition disk_eqb := list_eqb seg_eqb.
Definition recs_eqb := list_eqb bytes_eqb.

Definition obs_eqb (m : list bytes * rerr * disk) (o : obs) : bool :=
  let '(recs, e, d) := m in
  match o with
  | Obs orecs oerr ofiles => recs_eqb recs orecs && (err_code e =? oerr) && disk_eqb d ofiles
  end.

Definition check (c : case) : bool :=
  match c with
  | CHist ops observed final =>
      let '(st, outs) := exec crc32c init ops in
      list_eqb obs_eqb outs observed && disk_eqb (disk_of st) final
  | CDisk d o => obs_eqb (recover_disk crc32c d) o
  | CCrc b c => crc32c b =? c
  end.

Definition mismatches (l : list case) : list nat := failing check l.
