(* Run_TxExec.v — correspondence for C15 / C16: evaluate Model_TxExec on the
   blocks the harness executed on a real node (service.Transition.Execute on the
   basic platform) and report the indices where receipts, per-transaction world
   states or the final balances differ. *)
From Coq Require Import List NArith ZArith Bool.
From Goloop Require Import lib.Bytes Model_TxExec.
Import ListNotations.
Open Scope N_scope.

(* what was observed after one transaction (base.Platform.OnTransactionEnd) *)
Record txobs := mkO {
  o_status : N; o_used : Z; o_price : Z; o_logs : list logent; o_btp : list N;
  o_bals : list (N * Z);            (* balance of every account of the universe *)
  o_stos : list (N * N * N);        (* (account, key, value) for the whole key universe *)
  o_vals : list N;                  (* ValidatorState.Get(0..Len-1) *)
  o_idx : list (N * Z) }.           (* ValidatorState.IndexOf of every externally owned account *)

Inductive case :=
| Block (p : params) (bals : list (N * Z)) (stos : list (N * N * N)) (vals0 : list N) (txs : list tx)
        (obs : list txobs) (final : list (N * Z)).

Fixpoint lookupZ (l : list (N * Z)) (a : N) : Z :=
  match l with [] => 0%Z | (x, v) :: r => if x =? a then v else lookupZ r a end.
Fixpoint lookupS (l : list (N * N * N)) (a k : N) : N :=
  match l with [] => 0 | (x, y, v) :: r => if (x =? a) && (y =? k) then v else lookupS r a k end.

Definition mk_state (bals : list (N * Z)) (stos : list (N * N * N)) (vs : list N) : wstate :=
  mkW (lookupZ bals) (lookupS stos) vs.

Definition logent_eqb (a b : logent) : bool :=
  match a, b with
  | LScript x, LScript y => x =? y
  | LXfer t v, LXfer u w => (t =? u) && Z.eqb v w
  | _, _ => false
  end.

Fixpoint list_eqb {A} (e : A -> A -> bool) (a b : list A) : bool :=
  match a, b with
  | [], [] => true
  | x :: a', y :: b' => e x y && list_eqb e a' b'
  | _, _ => false
  end.

Definition bals_match (s : wstate) (l : list (N * Z)) : bool :=
  forallb (fun '(a, v) => Z.eqb (bal s a) v) l.
Definition stos_match (s : wstate) (l : list (N * N * N)) : bool :=
  forallb (fun '(a, k, v) => sto s a k =? v) l.

Definition vals_match (s : wstate) (o : txobs) : bool :=
  list_eqb N.eqb (vals s) (o_vals o) && forallb (fun '(a, i) => Z.eqb (index_of a (vals s)) i) (o_idx o).

Definition receipt_match (r : receipt) (o : txobs) : bool :=
  (r_status r =? o_status o) && Z.eqb (r_used r) (o_used o) && Z.eqb (r_price r) (o_price o)
  && list_eqb logent_eqb (r_logs r) (o_logs o) && list_eqb N.eqb (r_btp r) (o_btp o)
  && r_loop_ok r.

(* returns None on the first disagreement, else the state and receipts so far *)
Fixpoint replay (p : params) (txs : list tx) (obs : list txobs) (s : wstate) (acc : Z)
  : option (wstate * Z) :=
  match txs, obs with
  | [], [] => Some (s, acc)
  | t :: txs', o :: obs' =>
      let '(r, s1) := execute p t s in
      if receipt_match r o && bals_match s1 (o_bals o) && stos_match s1 (o_stos o) && vals_match s1 o
      then replay p txs' obs' s1 (acc + fee_of r)%Z
      else None
  | _, _ => None
  end.

Definition check (c : case) : bool :=
  match c with
  | Block p bals stos vals0 txs obs final =>
      match replay p txs obs (mk_state bals stos vals0) 0%Z with
      | None => false
      | Some (s, g) =>
          (* the block-level function must agree with the step-wise replay, and with the node *)
          let '(rs, sf) := exec_block p txs (mk_state bals stos vals0) in
          Z.eqb (gathered rs) g && bals_match sf final
          && bals_match (set_bal s (p_treasury p) (bal s (p_treasury p) + g)%Z) final
      end
  end.

Definition mismatches (l : list case) : list nat := failing check l.
