(* Run_Pack63.v — decoding of byte strings that harnesses print compactly
   (harness/hxpack): 7 bytes per primitive 63-bit integer literal, big-endian,
   the last word holding the remaining 1..7 bytes.  Used only by Run_* files
   (case data), never by models or theorems. *)
From Coq Require Import List NArith ZArith Uint63.
Import ListNotations.
Open Scope N_scope.

Definition tb (w : int) (k : int) (acc : N) : N :=
  if Uint63.eqb (Uint63.land (Uint63.lsr w k) 1%uint63) 0%uint63 then N.double acc else N.succ_double acc.

(* byte number j (0 = least significant) of w *)
Definition byte_of_word (w : int) (j : int) : N :=
  let v := Uint63.lsr w (Uint63.mul j 8%uint63) in
  tb v 0%uint63 (tb v 1%uint63 (tb v 2%uint63 (tb v 3%uint63 (tb v 4%uint63 (tb v 5%uint63 (tb v 6%uint63 (tb v 7%uint63 0))))))).

(* the k low-order bytes of w, most significant first *)
Definition word_bytes (k : nat) (w : int) : list N :=
  match k with
  | 0%nat => []
  | 1%nat => [byte_of_word w 0%uint63]
  | 2%nat => [byte_of_word w 1%uint63; byte_of_word w 0%uint63]
  | 3%nat => [byte_of_word w 2%uint63; byte_of_word w 1%uint63; byte_of_word w 0%uint63]
  | 4%nat => [byte_of_word w 3%uint63; byte_of_word w 2%uint63; byte_of_word w 1%uint63; byte_of_word w 0%uint63]
  | 5%nat => [byte_of_word w 4%uint63; byte_of_word w 3%uint63; byte_of_word w 2%uint63; byte_of_word w 1%uint63; byte_of_word w 0%uint63]
  | 6%nat => [byte_of_word w 5%uint63; byte_of_word w 4%uint63; byte_of_word w 3%uint63; byte_of_word w 2%uint63; byte_of_word w 1%uint63;
              byte_of_word w 0%uint63]
  | _ => [byte_of_word w 6%uint63; byte_of_word w 5%uint63; byte_of_word w 4%uint63; byte_of_word w 3%uint63; byte_of_word w 2%uint63;
          byte_of_word w 1%uint63; byte_of_word w 0%uint63]
  end.

Fixpoint unpack63 (n : nat) (ws : list int) : list N :=
  match ws with
  | [] => []
  | w :: r => if Nat.leb n 7 then word_bytes n w else word_bytes 7 w ++ unpack63 (n - 7) r
  end.

Example unpack63_ex : unpack63 9 [0x01020304050607%uint63; 0xfffe%uint63] = [1;2;3;4;5;6;7;255;254].
Proof. vm_compute. reflexivity. Qed.
