(* Run_C20.v — correspondence: run Model_Builder on the deliveries the harness made to a real
   merkle.Builder driven by real ompt tries, and compare every observation.

   The model is parametric in the hasher and in the reference extraction, so a case gives
   both as a TABLE: payload number p (the harness interns every byte string it ever
   delivers) -> (number of its sha3 hash, references the harness parsed out of the bytes
   when read as a trie node).  In the model the payload p is the byte string [p], the
   hash number i the byte string [i]; bucket 0 = db.MerkleTrie, 1 = db.BytesByHash
   (requesters of bucket 1 never follow references).

   A whole sync is some ten thousand small numbers; the case files carry them as a flat
   stream of primitive integers (I8 .. IE), which Coq reads several times faster than
   lists of N numerals; `dec` turns a stream into a readable `case`. *)
From Coq Require Export Uint63.
From Goloop Require Export lib.Bytes Model_Builder.
Open Scope N_scope.

Inductive cop :=
| cRaw                                              (* merkle.NewBuilderWithRawDatabase: no layer *)
| cStart (bk hid un res : N)                        (* Resolve / AddRequest of (bk, hid); counts after *)
| cData (pid out un res : N) (newk : list N)        (* OnData(payload): result class 0 ok / 1 NoRequester / 2 other,
                                                       counts after, buckets in which (bucket, H payload) became readable *)
| cFail (pid i k1 un res : N) (newk : list N)       (* OnData that failed at requester i (0-based): k1 = 0 its database write failed,
                                                       k1 = n+1 it returned an error after registering n references *)
| cNoH (pid un res : N)                             (* OnData under a bucket without hasher -> ErrNoHasher *)
| cFlush                                            (* Flush(true) returned nil *)
| cDataQ (pid : N)                                  (* OnData inside syncProcessor.HandleData: not observed individually *)
| cNoHQ (pid : N)                                   (* the same under a bucket without hasher *)
| cCount (un res : N)                               (* counts after a HandleData call *)
| cSweep (view : list (N * N)) (bmode : N) (base : list (N * N)) (reqs : list (N * list N)).
        (* full observation: (bucket, payload) readable through builder.Database() under the
           payload's hash; exact content of the underlying target database (bmode 0: the list
           base; 1: it is still the initial content pre; 2: it equals view — the harness
           compared them); Requests() in order as (hash, bucket ids) *)

Inductive case :=
| CRun (tbl : list (N * list (N * N))) (pre : list (N * N)) (ops : list cop)
| CBad.                                             (* undecodable stream *)

Section Tbl.
  Variable tbl : list (N * list (N * N)).
  Variable pre : list (N * N).

  Definition row (d : bytes) : option (N * list (N * N)) :=
    match d with
    | [p] => nth_error tbl (N.to_nat p)
    | _ => None
    end.
  Definition tH (d : bytes) : bytes :=
    match row d with Some (h, _) => [h] | None => [] end.
  Definition tC (bk : N) (d : bytes) : list ref :=
    if bk =? 0 then
      match row d with Some (_, cs) => map (fun c => (fst c, [snd c])) cs | None => [] end
    else [].

  (* (bucket, payload) readable under the payload's own hash *)
  Definition obs_ref (t : N * N) : ref := (fst t, tH [snd t]).

  (* the observed map and the model store are the same finite map *)
  Definition same_store (obs : list (N * N)) (e : store) : bool :=
    let o := map (fun t => (obs_ref t, snd t)) obs in
    forallb (fun t => opt_bytes_eqb (st_find e (fst t)) (Some [snd t])) o &&
    forallb (fun kv => existsb (fun t => ref_eqb (fst kv) (fst t)) o) e.

  Fixpoint nlist_eqb (a b : list N) : bool :=
    match a, b with
    | [], [] => true
    | x :: a', y :: b' => (x =? y) && nlist_eqb a' b'
    | _, _ => false
    end.

  Definition subset (a b : list N) : bool := forallb (fun x => existsb (N.eqb x) b) a.

  (* Requests() and the model's request list describe the same outstanding set: the same
     hashes, each with the same SET of bucket ids.  (The ORDER of the requests and the
     multiplicity of a bucket id — one entry per requester — are not compared: they are
     scheduling details of the implementation, not part of the property.) *)
  Definition reqs_eqb (obs : list (N * list N)) (p : list req) : bool :=
    (length obs =? length p)%nat &&
    forallb (fun o => match find_req p [fst o] with
                      | Some bks => subset (snd o) bks && subset bks (snd o)
                      | None => false
                      end) obs.

  Definition counts_ok (s : state) (un res : N) : bool :=
    (N.of_nat (unresolved s) =? un) && (N.of_nat (resolved s) =? res).

  Definition out_code (o : out) : N :=
    match o with ROk => 0 | RNoRequester => 1 | RNoHasher => 3 | RFail => 2 end.

  (* buckets in which (bucket, h) became readable by a delivery; every added entry must be keyed by h *)
  Definition new_buckets (h : bytes) (s s' : state) : option (list N) :=
    let e := entries (dbs s) in let e' := entries (dbs s') in
    let added := firstn (length e' - length e) e' in
    if forallb (fun kv => bytes_eqb (snd (fst kv)) h) added
    then Some (filter (fun bk => negb (db_has (dbs s) (bk, h))) (map (fun kv => fst (fst kv)) added))
    else None.

  Definition check_op (s : state) (c : cop) : state * bool :=
    match c with
    | cRaw => (fst (step tH tC s OFlush), true)
    | cStart bk hid un res =>
        let s' := start s (bk, [hid]) in (s', counts_ok s' un res)
    | cData pid o un res newk =>
        let r := on_data tH tC s [pid] in
        let s' := fst r in
        (s', (out_code (snd r) =? o) && counts_ok s' un res &&
             match new_buckets (tH [pid]) s s' with
             | Some bs => subset bs newk && subset newk bs
             | None => false
             end)
    | cFail pid i k1 un res newk =>
        let k := if k1 =? 0 then None else Some (N.to_nat (k1 - 1)) in
        let r := on_data_fail tH tC s [pid] (N.to_nat i) k in
        let s' := fst r in
        (s', (out_code (snd r) =? 2) && counts_ok s' un res &&
             match new_buckets (tH [pid]) s s' with
             | Some bs => subset bs newk && subset newk bs
             | None => false
             end)
    | cNoH pid un res =>
        let r := step tH tC s (ONoHasher [pid]) in
        (fst r, (out_code (snd r) =? 3) && counts_ok (fst r) un res)
    | cFlush => (fst (step tH tC s OFlush), true)
    | cDataQ pid => (fst (on_data tH tC s [pid]), true)
    | cNoHQ pid => (s, true)
    | cCount un res => (s, counts_ok s un res)
    | cSweep view bmode base reqs =>
        let b := if bmode =? 0 then base else if bmode =? 1 then pre else view in
        (s, same_store view (entries (dbs s)) && same_store b (underlying (dbs s)) &&
            reqs_eqb reqs (pending s))
    end.

  Fixpoint check_ops (s : state) (l : list cop) : bool :=
    match l with
    | [] => true
    | c :: t => let r := check_op s c in snd r && check_ops (fst r) t
    end.

  Definition check_run (ops : list cop) : bool :=
    let b0 := map (fun t => (obs_ref t, [snd t])) pre in
    check_ops (init (Layered [] b0)) ops.
End Tbl.

Definition check (c : case) : bool :=
  match c with
  | CRun tbl pre ops => check_run tbl pre ops
  | CBad => false
  end.

Definition mismatches (l : list case) : list nat := failing check l.

(* ---------- the compact stream ---------- *)

Inductive il := IE | I8 (a b c d e f g h : int) (r : il).
Arguments I8 (a b c d e f g h)%uint63_scope r.

Definition n_of (i : int) : N := Z.to_N (Uint63.to_Z i).

Fixpoint il_list (l : il) : list N :=
  match l with
  | IE => []
  | I8 a b c d e f g h r =>
      n_of a :: n_of b :: n_of c :: n_of d :: n_of e :: n_of f :: n_of g :: n_of h :: il_list r
  end.

Definition take (n : N) (s : list N) : option (list N * list N) :=
  let k := N.to_nat n in
  if (k <=? length s)%nat then Some (firstn k s, skipn k s) else None.

(* a packed pair: 2 * x + bucket *)
Definition unp (v : N) : N * N := (v mod 2, v / 2).

(* n table rows: hash, number of references, references (packed bucket/hash) *)
Fixpoint p_rows (n : nat) (s : list N) : option (list (N * list (N * N)) * list N) :=
  match n with
  | O => Some ([], s)
  | S n' =>
      match s with
      | h :: k :: s1 =>
          match take k s1 with
          | Some (ks, s2) =>
              match p_rows n' s2 with
              | Some (rows, s3) => Some ((h, map unp ks) :: rows, s3)
              | None => None
              end
          | None => None
          end
      | _ => None
      end
  end.

(* n requests: hash, number of bucket ids, bucket ids *)
Fixpoint p_reqs (n : nat) (s : list N) : option (list (N * list N) * list N) :=
  match n with
  | O => Some ([], s)
  | S n' =>
      match s with
      | h :: k :: s1 =>
          match take k s1 with
          | Some (bs, s2) =>
              match p_reqs n' s2 with
              | Some (rs, s3) => Some ((h, bs) :: rs, s3)
              | None => None
              end
          | None => None
          end
      | _ => None
      end
  end.

Definition mask_list (m : N) : list N :=
  (if N.odd m then [0] else []) ++ (if 2 <=? m then [1] else []).

Fixpoint p_ops (fuel : nat) (s : list N) : option (list cop) :=
  match fuel with
  | O => None
  | S f =>
      let k (c : cop) (r : list N) := option_map (cons c) (p_ops f r) in
      match s with
      | [] => None
      | o :: r =>
          if o =? 9 then Some [] else
          if o =? 0 then k cRaw r else
          if o =? 4 then k cFlush r else
          match r with
          | [] => None
          | a :: r1 =>
              if o =? 5 then k (cDataQ a) r1 else
              if o =? 6 then k (cNoHQ a) r1 else
              if o =? 8 then
                match take a r1 with
                | Some (vs, bm :: nb :: r2) =>
                    match take nb r2 with
                    | Some (bs, nr :: r3) =>
                        match p_reqs (N.to_nat nr) r3 with
                        | Some (rs, r4) => k (cSweep (map unp vs) bm (map unp bs) rs) r4
                        | None => None
                        end
                    | _ => None
                    end
                | _ => None
                end
              else
              match r1 with
              | [] => None
              | b :: r2 =>
                  if o =? 7 then k (cCount a b) r2 else
                  match r2 with
                  | [] => None
                  | c :: r3 =>
                      if o =? 1 then k (cStart (a mod 2) (a / 2) b c) r3 else
                      if o =? 3 then k (cNoH a b c) r3 else
                      match r3 with
                      | d :: e :: r4 =>
                          if o =? 2 then k (cData a b c d (mask_list e)) r4 else
                          match r4 with
                          | g :: r5 => if o =? 10 then k (cFail a b c d e (mask_list g)) r5 else None
                          | [] => None
                          end
                      | _ => None
                      end
                  end
              end
          end
      end
  end.

(* stream: number of rows, rows, number of preloaded entries, entries (packed bucket/payload), ops, 9 *)
Definition dec (l : il) : case :=
  match il_list l with
  | n :: s =>
      match p_rows (N.to_nat n) s with
      | Some (tbl, np :: s1) =>
          match take np s1 with
          | Some (ps, s2) =>
              match p_ops (S (length s2)) s2 with
              | Some ops => CRun tbl (map unp ps) ops
              | None => CBad
              end
          | None => CBad
          end
      | _ => CBad
      end
  | [] => CBad
  end.
