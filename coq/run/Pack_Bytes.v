(* Pack_Bytes.v — compact notation for long byte strings in the case files of
   C12 and C13 (correspondence runs only; no theorem uses it). *)
From Coq Require Export Uint63.
From Goloop Require Import lib.Bytes.
Open Scope N_scope.

(* Long byte strings are written by the harness as (pw n (W8 w1 .. w8 (W8 .. WE))):
   n bytes, 7 per 63-bit word, big-endian, the last used word right-aligned,
   padded with zero words.  Such a term is read about twenty times faster than
   a list of numerals.  Only the case files use this; no theorem does. *)
Inductive wl := WE | W8 (a b c d e f g h : int) (r : wl).
Fixpoint wl_words (l : wl) : list int :=
  match l with
  | WE => []
  | W8 a b c d e f g h r => a :: b :: c :: d :: e :: f :: g :: h :: wl_words r
  end.
Fixpoint words_bytes (ws : list int) (remaining : nat) : bytes :=
  match ws with
  | [] => []
  | w :: r =>
      let v := Z.to_N (Uint63.to_Z w) in
      if Nat.leb remaining 7 then be_bytes remaining v
      else N.land (N.shiftr v 48) 255 :: N.land (N.shiftr v 40) 255 :: N.land (N.shiftr v 32) 255
           :: N.land (N.shiftr v 24) 255 :: N.land (N.shiftr v 16) 255 :: N.land (N.shiftr v 8) 255
           :: N.land v 255 :: words_bytes r (remaining - 7)
  end.
Definition pw (n : int) (l : wl) : bytes := words_bytes (wl_words l) (Z.to_nat (Uint63.to_Z n)).

