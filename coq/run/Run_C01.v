(* Run_C01.v — correspondence for C01 (consensus agreement), multi-node runs.

   The harness (harness/cmd/c01) runs k REAL consensus engines and the
   Byzantine validators it plays itself over a scrambling network, with crashes
   and restarts, over several heights.  Two kinds of cases come out of a run:

   CNode c   the observed event trace of ONE real node over ONE height, in the
             format of Run_C02 (slots renamed so that the height looks like
             height 1 to the node model).  [check]:
               (a) Run_C02's replay: after every event the model's outputs and
                   state tuple equal the observation;
               (b) every decision in the model's ghost log satisfies its guard
                   (boolean form [gev_okb] of Proofs_ConsensusNode_C01.gev_ok:
                   locked => prevote the locked block, block precommit => lock
                   (r,b), lock / unlock / commit only on +2/3 votes of one
                   round), and a decided block has a GCommit entry.
   CNet nc   ALL events of one height of one net in global order (deliveries,
             timeouts, callbacks, crashes, restarts of every real node, and the
             votes the Byzantine validators made public as ByzSend), run through
             Model_ConsensusNet.run_net.  [check]:
               (c1) the model's legality filter drops nothing: every vote that
                    was delivered was in the model's [csoup] at that moment (a
                    ByzSend, or an own vote record in the synced round WAL of a
                    correct node's model);
               (c2) every node's final model state equals the last observation
                    (status, round, step, lockedRound, locked block, ...) and
                    its decided block equals the block the real node finalized;
               (c3) no two correct nodes of the model decided differently. *)
From Coq Require Import List ZArith NArith Bool Arith.
From Goloop Require Import Model_ConsensusNet.
From GoloopRun Require Export Run_C02.
Import ListNotations.
Open Scope N_scope.

(* ------------------------------------------------------------------ (b) guards *)

Fixpoint vs_wfb_from (i : nat) (r : Z) (t : vtype) (vs : vset) : bool :=
  match vs with
  | [] => true
  | None :: rest => vs_wfb_from (S i) r t rest
  | Some v :: rest =>
      Z.eqb (v_from v) (Z.of_nat i) && Z.eqb (v_round v) r && vtype_eqb (v_type v) t
      && vs_wfb_from (S i) r t rest
  end.

(* boolean quorum_ev: one slot per validator, slot i signed by i, round r, type
   t, and more than 2n/3 of the slots vote w *)
Definition quorum_evb (n : nat) (r : Z) (t : vtype) (w : option N) (ev : vset) : bool :=
  Nat.eqb (length ev) n && vs_wfb_from 0 r t ev && over23 (vs_count_dec ev w) n.

Definition gev_okb (n : nat) (e : gev) : bool :=
  match e with
  | GVote r Prevote d (Some (lr, b)) => dec_eqb d (Some b)
  | GVote r Precommit (Some b) lk =>
      match lk with Some (lr, b') => Z.eqb lr r && N.eqb b' b | None => false end
  | GVote _ _ _ _ => true
  | GLock r b ev => quorum_evb n r Prevote (Some b) ev
  | GUnlock lr b r w ev => Z.leb lr r && negb (dec_eqb w (Some b)) && quorum_evb n r Prevote w ev
  | GCommit b r ev => quorum_evb n r Precommit (Some b) ev
  end.

Definition decided_justified (s : st) : bool :=
  match decided s with
  | None => true
  | Some b => existsb (fun e => match e with GCommit b' _ _ => N.eqb b' b | _ => false end) (glog s)
  end.

Definition guards_ok (n : nat) (s : st) : bool :=
  forallb (gev_okb n) (glog s) && decided_justified s.

(* ------------------------------------------------------------------ cases *)

Inductive gitem :=
| GNode (i : nat) (e : tev)      (* node i processes e (t_outs is not used here) *)
| GByz (v : vote).               (* a Byzantine validator publishes v *)

Record netcase := mkNC {
  nc_n : N;
  nc_byz : list nat;
  nc_blocks : list blk;
  nc_evs : list gitem;
  nc_finals : list (nat * obs * option N)    (* node, last observed state, finalized block *)
}.

Inductive case :=
| CNode (c : Run_C02.case)
| CNet (nc : netcase).

(* (a) + (b) *)
Definition check_node (c : Run_C02.case) : bool :=
  let n := N.to_nat (c_n c) in
  let r := fold_left (check_ev n (Z.of_N (c_own c)) (c_blocks c)) (c_evs c) (true, init) in
  fst r && guards_ok n (snd r).

Definition byzf (l : list nat) (k : nat) : bool := existsb (Nat.eqb k) l.

(* Legality of a delivery is the model's own: Model_ConsensusNet.net_step
   ignores a node event unless every current-height vote it delivers is in
   [csoup byz net] = the Byzantine sends + the own vote records in the synced
   round WAL of every correct engine.  (The WAL, not the ghost history [sent]:
   an own vote that was logged but whose broadcast was cut by a crash is put
   back into the height vote set at the restart and can reach the network later
   inside the POL vote list of a re-proposal — found by this correspondence on a
   real trace; [soup] = what was broadcast vote by vote is a subset.) *)
Section NetReplay.
  Variable n : nat.
  Variable byz : nat -> bool.
  Variable blocks : list blk.

  (* one global event through net_step; [ok] records that the model's legality
     filter dropped nothing so far *)
  Definition net_ev (acc : bool * netstate) (g : gitem) : bool * netstate :=
    let '(ok, net) := acc in
    match g with
    | GNode i e =>
        let legal := Nat.ltb i n && legal_event (csoup byz net) (t_ev e) in
        (ok && legal, net_step n byz blocks net (NodeEv i (t_ev e, t_cut e, t_delay e)))
    | GByz v => (ok && legal_byz n byz v, net_step n byz blocks net (ByzSend v))
    end.

  (* number of node events whose votes are durable but were not all broadcast one by one *)
  Definition net_ev_strict (acc : nat * netstate) (g : gitem) : nat * netstate :=
    let '(k, net) := acc in
    let k' := match g with
              | GNode i e => if legal_event (soup byz net) (t_ev e) then k else S k
              | GByz _ => k
              end in
    (k', snd (net_ev (true, net) g)).

  Definition final_ok (net : netstate) (f : nat * obs * option N) : bool :=
    let '(i, o, d) := f in
    match node_of net i with
    | Some s => obs_eqb (obs_of blocks s) o && optN_eqb (decided s) d && guards_ok n s
    | None => false
    end.

  (* all correct slots that decided, decided the same block *)
  Definition agree (net : netstate) : bool :=
    let ds := flat_map (fun i => if byz i then [] else
                                 match decided_of net i with Some b => [b] | None => [] end) (seq 0 n) in
    match ds with
    | [] => true
    | b :: rest => forallb (N.eqb b) rest
    end.
End NetReplay.

Definition check_net (nc : netcase) : bool :=
  let n := N.to_nat (nc_n nc) in
  let byz := byzf (nc_byz nc) in
  let r := fold_left (net_ev n byz (nc_blocks nc)) (nc_evs nc) (true, net_init n) in
  fst r && forallb (final_ok n (nc_blocks nc) (snd r)) (nc_finals nc) && agree n byz (snd r).

Definition check (c : case) : bool :=
  match c with
  | CNode c => check_node c
  | CNet nc => check_net nc
  end.

(* debugging aids *)
Definition net_replay (nc : netcase) : bool * netstate :=
  let n := N.to_nat (nc_n nc) in
  fold_left (net_ev n (byzf (nc_byz nc)) (nc_blocks nc)) (nc_evs nc) (true, net_init n).

Fixpoint net_first_illegal (n : nat) (byz : nat -> bool) (blocks : list blk) (k : nat) (net : netstate) (l : list gitem) : option nat :=
  match l with
  | [] => None
  | g :: r => let '(ok, net') := net_ev n byz blocks (true, net) g in
              if ok then net_first_illegal n byz blocks (S k) net' r else Some k
  end.

Definition net_extended_only (nc : netcase) : nat :=
  let n := N.to_nat (nc_n nc) in
  fst (fold_left (net_ev_strict n (byzf (nc_byz nc)) (nc_blocks nc)) (nc_evs nc) (O, net_init n)).

Definition where_bad_node (c : Run_C02.case) : option nat := where_bad c.

Definition mismatches (l : list case) : list nat := failing check l.
