(* Run_C07.v — correspondence: evaluate Model_BlockImport on what the harness observed on
   CommitVoteList.Timestamp, manager.verifyNewBlock (through the shim, explicit parent) and
   BlockManager.Import / ImportBlock of a real test node; report the differing indices. *)
From Goloop Require Import lib.Bytes lib.GoInt Model_BlockImport.
Open Scope N_scope.

Inductive case :=
(* Timestamp() of a commit vote list whose items carry these timestamps, in list order *)
| CMedian (ts : list Z) (obs : Z)
(* verifyNewBlock(candidate, p) returned nil (true) / an error (false) *)
| CVerify (p : parent) (c : candidate) (accepted : bool)
(* the candidate was handed to the manager whose node map holds `nodes`:
   reader = Some v : as bytes through Import, v = version field of the encoded header,
                     active = versions of the active handlers;
   reader = None   : as a BlockData value through ImportBlock (Version() = c_version).
   cls: 0 accepted, 1 refused by the call, 2 refused through the callback *)
| CImport (nodes : list parent) (c : candidate) (reader : option Z) (active : list Z) (cls : N).

(* short constructors for the cases files.  Block ids are 32-byte hashes; the model only
   compares them, and parsing thousands of 256-bit literals dominates the run, so the
   harness numbers the distinct ids of a run (injectively) and writes `idt k` for the k-th;
   the empty id is [] *)
Definition idt (k : N) : bytes := be_bytes 4 k.
Definition mkP (h : Z) (id : bytes) (ts ver : Z) (voters : option (list N)) : parent :=
  {| p_height := h; p_id := id; p_ts := ts; p_next_version := ver; p_voters := voters |}.
Definition mkV (ts : Z) (signer : option N) (for_id : bytes) : vote :=
  {| v_ts := ts; v_signer := signer; v_for := for_id |}.
Definition mkC (h : Z) (prev : bytes) (ver ts : Z) (votes : list vote) (exec_ok : bool) : candidate :=
  {| c_height := h; c_prev := prev; c_version := ver; c_ts := ts; c_votes := votes;
     c_exec_ok := exec_ok |}.

Definition is_accept (v : verdict) : bool :=
  match v with Accept => true | _ => false end.

Definition check (c : case) : bool :=
  match c with
  | CMedian ts obs => (median ts =? obs)%Z
  | CVerify p cd accepted => Bool.eqb (is_accept (verify_new_block p cd)) accepted
  | CImport nodes cd reader active cls =>
      let v := match reader with
               | Some hv => import_reader active nodes hv cd
               | None => import_block nodes cd
               end in
      verdict_class v =? cls
  end.

Definition mismatches (l : list case) : list nat := failing check l.
