(* Run_C21.v — correspondence: evaluate Model_ContainerKey on what the harness observed on
   common/containerdb (key builders, SplitKeys, ToBytes, VarDB/ArrayDB/DictDB over a
   map-backed store).
   Long byte strings travel run-length encoded (rle); the hash of the hashed builders is
   instantiated by a finite table (preimage -> SHA3-256 digest) that the harness computed
   with Go's sha3 on preimages produced by its own reference encoder: a preimage the table
   does not hold hashes to [] and the case mismatches.
   In container histories (CHist) store keys are never observed, only the results of the
   container operations; there the hash is instantiated by the identity (an injective
   function), the digests themselves being covered by the CKey cases. *)
From Goloop Require Export lib.Bytes Model_ContainerKey.
Open Scope N_scope.

(* ---- run-length encoded byte strings ---- *)
Inductive seg := L (b : bytes) | R (n x : N).
Definition rle := list seg.
Definition seg_bytes (s : seg) : bytes :=
  match s with
  | L b => b
  | R n x => N.iter n (cons x) []
  end.
Definition unrle (r : rle) : bytes := concat (map seg_bytes r).

(* ---- typed values as handed to ToBytes ---- *)
Inductive tv :=
| TInt (z : Z) | TBool (b : bool) | TAddr (c : bool) (id : bytes)
| TStr (s : rle) | TBytes (s : rle) | TByte (b : N)
| TS (s : bytes) | TB (s : bytes).          (* short literal string / byte slice *)
Definition kv_of (t : tv) : kval :=
  match t with
  | TInt z => VInt z | TBool b => VBool b | TAddr c id => VAddr c id
  | TStr s => VStr (unrle s) | TBytes s => VBytes (unrle s) | TByte b => VByte b
  | TS s => VStr s | TB s => VBytes s
  end.
Definition tb (t : tv) : bytes := to_bytes (kv_of t).
Definition tbs (l : list tv) : list bytes := map tb l.

(* ---- hash by table ---- *)
Definition tabH (t : kvstore) (x : bytes) : bytes :=
  match kv_get t x with Some d => d | None => [] end.


(* ---- container descriptors and history operations ---- *)
Inductive cdesc :=
| DVar (t : ktype) (parts : list tv)
| DArr (t : ktype) (parts : list tv)
| DDict (t : ktype) (parts : list tv) (depth : nat).

Inductive hop :=
| HVSet (c : N) (v : tv)
| HVGet (c : N)
| HVDel (c : N)
| HAPut (c : N) (v : tv)
| HAPop (c : N)
| HAGet (c : N) (i : Z)
| HASet (c : N) (i : Z) (v : tv)
| HASize (c : N)
| HDGet (c : N) (chain : list (list tv)) (keys : list tv)
| HDSet (c : N) (chain : list (list tv)) (keys : list tv) (v : tv)
| HDSet0 (c : N) (chain : list (list tv))
| HDDel (c : N) (chain : list (list tv)) (keys : list tv)
| HSnap          (* the harness copies the store ... *)
| HRollback.     (* ... and later resets it to that copy, keeping every container handle *)

Definition cres_eqb (a b : cres) : bool :=
  match a, b with
  | ROk, ROk | RAccess, RAccess | RNil, RNil | RPanic, RPanic => true
  | RVal x, RVal y => opt_bytes_eqb x y
  | RInt x, RInt y => (x =? y)%Z
  | _, _ => false
  end.

Inductive case :=
| CKey (t : ktype) (first : list tv) (apps : list (list tv)) (htab : list (bytes * bytes)) (built : option rle)
| CSplit (key : rle) (res : option (list rle))
| CToBytes (v : tv) (out : bytes) (back : option Z)     (* back: Int64() of a Value holding out, for ints *)
| CHist (cs : list cdesc) (ops : list (hop * cres))
(* keys of sibling paths root++s below one parent over the caller's prefix pre:
   observed right after construction (early), at the end (late), and with tail appended at the end (deep) *)
| CSib (hashed : bool) (pre : rle) (root : list tv) (sibs : list (list tv)) (tail : list tv)
       (htab : list (bytes * bytes)) (early late deep : list rle).

Section WithH.
  Variable H : bytes -> bytes.

  Definition build_key (t : ktype) (first : list tv) (apps : list (list tv)) : option bytes :=
    match to_key t (tbs first) with
    | None => None
    | Some b => Some (b_build H (fold_left (fun b ps => b_append b (tbs ps)) apps b))
    end.

  Definition cbuilder (d : cdesc) : option builder :=
    match d with
    | DVar t p | DArr t p | DDict t p _ => to_key t (tbs p)
    end.

  Definition hstep (cs : list cdesc) (s : kvstore) (o : hop) : kvstore * cres :=
    let bad := (s, RPanic) in
    let withc c f := match nth_error cs (N.to_nat c) with
                     | Some d => match cbuilder d with Some b => f d b | None => bad end
                     | None => bad end in
    let chain_b ch := map tbs ch in
    match o with
    | HVSet c v => withc c (fun d b => match d with DVar _ _ => var_step (b_build H b) s (VSet (tb v)) | _ => bad end)
    | HVGet c => withc c (fun d b => match d with DVar _ _ => var_step (b_build H b) s VGet | _ => bad end)
    | HVDel c => withc c (fun d b => match d with DVar _ _ => var_step (b_build H b) s VDelete | _ => bad end)
    | HAPut c v => withc c (fun d b => match d with DArr _ _ => array_step H b s (APut (tb v)) | _ => bad end)
    | HAPop c => withc c (fun d b => match d with DArr _ _ => array_step H b s APop | _ => bad end)
    | HAGet c i => withc c (fun d b => match d with DArr _ _ => array_step H b s (AGet i) | _ => bad end)
    | HASet c i v => withc c (fun d b => match d with DArr _ _ => array_step H b s (ASet i (tb v)) | _ => bad end)
    | HASize c => withc c (fun d b => match d with DArr _ _ => array_step H b s ASize | _ => bad end)
    | HDGet c ch ks => withc c (fun d b => match d with DDict _ _ n =>
          dict_chain_step H {| d_key := b; d_depth := n |} s (chain_b ch) (DGet (tbs ks)) | _ => bad end)
    | HDSet c ch ks v => withc c (fun d b => match d with DDict _ _ n =>
          dict_chain_step H {| d_key := b; d_depth := n |} s (chain_b ch) (DSet (tbs ks) (tb v)) | _ => bad end)
    | HDSet0 c ch => withc c (fun d b => match d with DDict _ _ n =>
          dict_chain_step H {| d_key := b; d_depth := n |} s (chain_b ch) DSet0 | _ => bad end)
    | HDDel c ch ks => withc c (fun d b => match d with DDict _ _ n =>
          dict_chain_step H {| d_key := b; d_depth := n |} s (chain_b ch) (DDelete (tbs ks)) | _ => bad end)
    | HSnap | HRollback => (s, ROk)
    end.

  (* the model has no per-handle state: an operation is a function of the store and the key,
     whichever handle it goes through; snap is the store copy taken by the last HSnap *)
  Fixpoint hrun (cs : list cdesc) (s snap : kvstore) (ops : list (hop * cres)) : bool :=
    match ops with
    | [] => true
    | (HSnap, obs) :: r => cres_eqb ROk obs && hrun cs s s r
    | (HRollback, obs) :: r => cres_eqb ROk obs && hrun cs snap snap r
    | (o, obs) :: r =>
        let '(s1, x) := hstep cs s o in
        cres_eqb x obs && hrun cs s1 snap r
    end.
End WithH.

Definition opt_rle_eqb (m : option bytes) (o : option rle) : bool :=
  match m, o with
  | None, None => true
  | Some a, Some b => bytes_eqb a (unrle b)
  | _, _ => false
  end.

Definition check (c : case) : bool :=
  match c with
  | CKey t first apps htab built => opt_rle_eqb (build_key (tabH htab) t first apps) built
  | CSplit key res =>
      match split_keys (unrle key), res with
      | SOk ps, Some qs => lbytes_eqb ps (map unrle qs)
      | SErr, None => true
      | _, _ => false
      end
  | CToBytes v out back =>
      bytes_eqb (tb v) out &&
      match v, back with
      | TInt z, Some z' => (z =? z')%Z && match bytes_to_int64 out with Some w => (w =? z')%Z | None => false end
      | TInt _, None => false
      | _, _ => true
      end
  | CHist cs ops => hrun (fun x => x) cs [] [] ops
  | CSib hashed pre root sibs tail htab early late deep =>
      let key (parts : list bytes) : bytes :=
        if hashed then b_build (tabH htab) (b_append (new_hash_key (unrle pre) (tbs root)) parts)
        else append_keys (append_keys (unrle pre) (tbs root)) parts in
      let ks := map (fun s => key (tbs s)) sibs in
      let kd := map (fun s => key (tbs s ++ tbs tail)) sibs in
      lbytes_eqb ks (map unrle early) && lbytes_eqb ks (map unrle late) && lbytes_eqb kd (map unrle deep)
  end.

Definition mismatches (l : list case) : list nat := failing check l.
