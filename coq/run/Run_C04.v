(* Run_C04.v — correspondence: replay on Model_VoteSet the operation sequences the
   harness ran on the real consensus.voteSet and compare, after EVERY operation,
   what the implementation showed with what the model computes. *)
From Goloop Require Import lib.Bytes Model_VoteSet.
Open Scope Z_scope.

(* observation after one operation:
     panic    the operation panicked (state untouched: add indexes msgs first)
     ret      add's return value (false for a query step)
     count    vs.count
     has      hasOverTwoThirds()
     dec      decision id of the digest returned by getOverTwoThirdsRoundDecisionDigest
              (None when ok = false)
     psidnil  the *PartSetID returned by getOverTwoThirdsPartSetID is nil
     round    getRound()
     cnts     vs.counters as (decision id, count), sorted by decision id *)
Record obs := mkObs {
  o_panic : bool; o_ret : bool; o_count : Z; o_has : bool; o_dec : option N;
  o_psidnil : bool; o_round : Z; o_cnts : list (N * Z) }.

Inductive case := CSeq (n : nat) (steps : list (op * obs)).

Definition optN_eqb (a b : option N) : bool :=
  match a, b with
  | None, None => true
  | Some x, Some y => (x =? y)%N
  | _, _ => false
  end.

Fixpoint strictly_inc (l : list (N * Z)) : bool :=
  match l with
  | (d1, _) :: (((d2, _) :: _) as r) => (d1 <? d2)%N && strictly_inc r
  | _ => true
  end.

Definition cnts_match (cs : list counter) (l : list (N * Z)) : bool :=
  Nat.eqb (length cs) (length l) && strictly_inc l &&
  forallb (fun p => counter_of cs (fst p) =? snd p) l.

Definition state_matches (s : voteset) (o : obs) : bool :=
  (vs_count s =? o_count o) && Bool.eqb (has_over23 s) (o_has o) &&
  match over23_decision s, over23_psid s with
  | Some r, Some (p, _) =>
      optN_eqb r (o_dec o) && Bool.eqb (match p with None => true | Some _ => false end) (o_psidnil o)
  | _, _ => false
  end &&
  (vs_round s =? o_round o) && cnts_match (vs_counters s) (o_cnts o).

Fixpoint replay (s : voteset) (steps : list (op * obs)) : bool :=
  match steps with
  | [] => true
  | (OAdd i v, o) :: r =>
      match add s i v with
      | None => o_panic o && state_matches s o && replay s r
      | Some (s', b) =>
          negb (o_panic o) && Bool.eqb b (o_ret o) && state_matches s' o && replay s' r
      end
  | (OQuery, o) :: r =>
      match query s with
      | None => o_panic o && replay s r
      | Some (s', _) => negb (o_panic o) && state_matches s' o && replay s' r
      end
  end.

Definition check (c : case) : bool :=
  match c with CSeq n steps => replay (init n) steps end.

Definition mismatches (l : list case) : list nat := failing check l.
