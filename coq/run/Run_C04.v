(* Run_C04.v — correspondence: replay on Model_VoteSet the operation sequences the
   harness ran on the real consensus.voteSet and compare, after EVERY operation,
   what the implementation showed with what the model computes. *)
From Goloop Require Import lib.Bytes Model_VoteSet.
Open Scope Z_scope.

(* observation after one operation:
     panic    the operation panicked (state untouched: add indexes msgs first)
     ret      add's return value (false for a query step)
     count    vs.count
     has      hasOverTwoThirds()
     dec      decision id of the digest returned by getOverTwoThirdsRoundDecisionDigest
              (None when ok = false)
     psidnil  the *PartSetID returned by getOverTwoThirdsPartSetID is nil
     round    getRound()
     cnts     vs.counters as (decision id, count), sorted by decision id *)
Record obs := mkObs {
  o_panic : bool; o_ret : bool; o_count : Z; o_has : bool; o_dec : option N;
  o_psidnil : bool; o_round : Z; o_cnts : list (N * Z) }.

Definition optN_eqb (a b : option N) : bool :=
  match a, b with
  | None, None => true
  | Some x, Some y => (x =? y)%N
  | _, _ => false
  end.

Fixpoint strictly_inc (l : list (N * Z)) : bool :=
  match l with
  | (d1, _) :: (((d2, _) :: _) as r) => (d1 <? d2)%N && strictly_inc r
  | _ => true
  end.

Definition cnts_match (cs : list counter) (l : list (N * Z)) : bool :=
  Nat.eqb (length cs) (length l) && strictly_inc l &&
  forallb (fun p => counter_of cs (fst p) =? snd p) l.

Definition state_matches (s : voteset) (o : obs) : bool :=
  (vs_count s =? o_count o) && Bool.eqb (has_over23 s) (o_has o) &&
  match over23_decision s, over23_psid s with
  | Some r, Some (p, _) =>
      optN_eqb r (o_dec o) && Bool.eqb (match p with None => true | Some _ => false end) (o_psidnil o)
  | _, _ => false
  end &&
  (vs_round s =? o_round o) && cnts_match (vs_counters s) (o_cnts o).

(* one observed operation: Some = next model state, None = model and observation differ *)
Definition step_check (s : voteset) (st : op * obs) : option voteset :=
  let (o_, o) := st in
  match o_ with
  | OAdd i v =>
      match add s i v with
      | None => if o_panic o && state_matches s o then Some s else None
      | Some (s', b) =>
          if negb (o_panic o) && Bool.eqb b (o_ret o) && state_matches s' o then Some s' else None
      end
  | OQuery =>
      match query s with
      | None => if o_panic o then Some s else None
      | Some (s', _) => if negb (o_panic o) && state_matches s' o then Some s' else None
      end
  end.

Fixpoint replay (s : voteset) (steps : list (op * obs)) : option voteset :=
  match steps with
  | [] => Some s
  | st :: r => match step_check s st with Some s' => replay s' r | None => None end
  end.

(* exhaustive enumeration: all continuations of a prefix, sharing prefixes *)
Inductive tree := T (children : list (op * obs * tree)).

Fixpoint replay_tree (s : voteset) (t : tree) : bool :=
  match t with
  | T ch => forallb (fun c => match step_check s (fst c) with
                              | Some s' => replay_tree s' (snd c)
                              | None => false
                              end) ch
  end.

Inductive case :=
| CSeq (n : nat) (steps : list (op * obs))
| CTree (n : nat) (prefix : list (op * obs)) (t : tree).

Definition check (c : case) : bool :=
  match c with
  | CSeq n steps => match replay (init n) steps with Some _ => true | None => false end
  | CTree n prefix t =>
      match replay (init n) prefix with Some s => replay_tree s t | None => false end
  end.

Definition mismatches (l : list case) : list nat := failing check l.

(* compact constructors for the generated case files *)
Definition Ad (i : nat) (d : N) (ts r : Z) : op := OAdd i (mkVote d ts 10 r 1).
Definition Ad5 (i : nat) (d : N) (ts h r : Z) (t : N) : op := OAdd i (mkVote d ts h r t).
Definition Qy : op := OQuery.
Definition Ob (ret : bool) (count : Z) (has : bool) (dec : option N) (psidnil : bool) (round : Z)
  (cnts : list (N * Z)) : obs := mkObs false ret count has dec psidnil round cnts.
Definition ObP (count : Z) (has : bool) (dec : option N) (psidnil : bool) (round : Z)
  (cnts : list (N * Z)) : obs := mkObs true false count has dec psidnil round cnts.
Definition cn (d : N) (k : Z) : N * Z := (d, k).
