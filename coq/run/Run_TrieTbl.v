(* Run_TrieTbl.v — running Model_Trie against the implementation: the hash is a
   lookup table of (preimage, digest) pairs computed by the harness with
   SHA3-256.  A preimage that is not in the table gets the empty digest, which
   never equals an observed 32-byte hash: the case is reported as a mismatch. *)
From Coq Require Import FMapPositive Uint63.
From Goloop Require Import lib.Bytes Model_RlpBytes Model_Trie.
Open Scope N_scope.

(* Compact literals for byte strings in the cases files: [bx len ws] is the
   string of [len] bytes whose big-endian chunks of 7 bytes (the last one
   shorter) are the 63-bit integers [ws].  (Coq parses primitive integer
   literals much faster than lists of N literals.) *)
Fixpoint bits_to_N (n : nat) (w : int) : N :=
  match n with
  | O => 0
  | S n' => (if Uint63.is_zero (Uint63.land w 1%uint63) then 0 else 1) + 2 * bits_to_N n' (Uint63.lsr w 1%uint63)
  end.

Fixpoint chunk_acc (k : nat) (w : int) (acc : bytes) : bytes :=
  match k with
  | O => acc
  | S k' => chunk_acc k' (Uint63.lsr w 8%uint63) (bits_to_N 8 (Uint63.land w 255%uint63) :: acc)
  end.

Fixpoint bx (len : nat) (ws : list int) : bytes :=
  match ws with
  | [] => []
  | w :: r => let k := Nat.min len 7 in chunk_acc k w [] ++ bx (len - k) r
  end.
Arguments bx len%nat_scope ws%uint63_scope.

Definition enc (b : bytes) : positive :=
  match fold_left (fun acc x => N.shiftl acc 8 + x) b 1 with
  | Npos p => p
  | N0 => xH
  end.

Definition tbl := PositiveMap.t bytes.

Definition mk_tbl (l : list (bytes * bytes)) : tbl :=
  fold_left (fun m pd => PositiveMap.add (enc (fst pd)) (snd pd) m) l (PositiveMap.empty bytes).

Definition H_tbl (m : tbl) (x : bytes) : bytes :=
  match PositiveMap.find (enc x) m with
  | Some d => d
  | None => []
  end.

Definition kv_eqb (a b : bytes * bytes) : bool :=
  bytes_eqb (fst a) (fst b) && bytes_eqb (snd a) (snd b).

Fixpoint kvs_eqb (a b : list (bytes * bytes)) : bool :=
  match a, b with
  | [], [] => true
  | x :: a', y :: b' => kv_eqb x y && kvs_eqb a' b'
  | _, _ => false
  end.

(* iterator keys are returned as bytes (keysToBytes) *)
Definition as_bytes (l : list (nibs * bytes)) : list (bytes * bytes) :=
  map (fun kv => (nibs_to_bytes (fst kv), snd kv)) l.

Fixpoint blist_eqb (a b : list bytes) : bool :=
  match a, b with
  | [], [] => true
  | x :: a', y :: b' => bytes_eqb x y && blist_eqb a' b'
  | _, _ => false
  end.
