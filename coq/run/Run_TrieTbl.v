(* Run_TrieTbl.v — running Model_Trie against the implementation: the hash is a
   lookup table of (preimage, digest) pairs computed by the harness with
   SHA3-256.  A preimage that is not in the table gets the empty digest, which
   never equals an observed 32-byte hash: the case is reported as a mismatch. *)
From Coq Require Import FMapPositive.
From Goloop Require Import lib.Bytes Model_RlpBytes Model_Trie.
Open Scope N_scope.

Definition enc (b : bytes) : positive :=
  match fold_left (fun acc x => N.shiftl acc 8 + x) b 1 with
  | Npos p => p
  | N0 => xH
  end.

Definition tbl := PositiveMap.t bytes.

Definition mk_tbl (l : list (bytes * bytes)) : tbl :=
  fold_left (fun m pd => PositiveMap.add (enc (fst pd)) (snd pd) m) l (PositiveMap.empty bytes).

Definition H_tbl (m : tbl) (x : bytes) : bytes :=
  match PositiveMap.find (enc x) m with
  | Some d => d
  | None => []
  end.

Definition kv_eqb (a b : bytes * bytes) : bool :=
  bytes_eqb (fst a) (fst b) && bytes_eqb (snd a) (snd b).

Fixpoint kvs_eqb (a b : list (bytes * bytes)) : bool :=
  match a, b with
  | [], [] => true
  | x :: a', y :: b' => kv_eqb x y && kvs_eqb a' b'
  | _, _ => false
  end.

(* iterator keys are returned as bytes (keysToBytes) *)
Definition as_bytes (l : list (nibs * bytes)) : list (bytes * bytes) :=
  map (fun kv => (nibs_to_bytes (fst kv), snd kv)) l.

Fixpoint blist_eqb (a b : list bytes) : bool :=
  match a, b with
  | [], [] => true
  | x :: a', y :: b' => bytes_eqb x y && blist_eqb a' b'
  | _, _ => false
  end.
