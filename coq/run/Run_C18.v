(* Run_C18.v — correspondence for C18: a case is one trie (built by sets then
   deletes), its observed root, and a list of GetProof / Prove observations.
   Byte strings that occur in proofs are given once, in [blobs], together with
   their SHA3-256 digest (computed by the harness); proofs refer to them by
   index, and the same list is the hash table of the model. *)
From Goloop Require Import lib.Bytes Model_RlpBytes Model_Trie.
From GoloopRun Require Import Run_TrieTbl.
Open Scope N_scope.

Inductive pobs := RVal (v : bytes) | RNil | RNotFound | RIllegal | ROther.

Inductive query :=
| QGetProof (k : bytes) (p : list nat)                 (* [] = nil result *)
| QProve (r : bytes) (k : bytes) (p : list nat) (res : pobs).

Inductive case :=
| CTrie (blobs : list (bytes * bytes)) (kvs : list (bytes * bytes)) (dels : list bytes)
        (root : bytes) (qs : list query).

Definition res_eqb (m : presult) (o : pobs) : bool :=
  match m, o with
  | PVal a, RVal b => bytes_eqb a b
  | PNil, RNil => true
  | PNotFound, RNotFound => true
  | PIllegal, RIllegal => true
  | PBad, ROther => true
  | _, _ => false
  end.

Fixpoint deref (blobs : list (bytes * bytes)) (p : list nat) : option (list bytes) :=
  match p with
  | [] => Some []
  | i :: r =>
      match nth_error blobs i, deref blobs r with
      | Some b, Some l => Some (fst b :: l)
      | _, _ => None
      end
  end.

Definition build (kvs : list (bytes * bytes)) (dels : list bytes) : node :=
  fold_left (fun t k => delete t (bytes_to_nibs k)) dels
    (fold_left (fun t kv => set t (bytes_to_nibs (fst kv)) (snd kv)) kvs Empty).

Definition check_query (H : bytes -> bytes) (blobs : list (bytes * bytes)) (t : node) (q : query) : bool :=
  match q with
  | QGetProof k p =>
      match deref blobs p, proof H t (bytes_to_nibs k) with
      | Some [], None => true
      | Some (x :: l), Some l' => blist_eqb (x :: l) l'
      | _, _ => false
      end
  | QProve r k p res =>
      match deref blobs p with
      | Some l => res_eqb (prove H r (bytes_to_nibs k) l) res
      | None => false
      end
  end.

Definition check (c : case) : bool :=
  match c with
  | CTrie blobs kvs dels r qs =>
      let H := H_tbl (mk_tbl blobs) in
      let t := build kvs dels in
      bytes_eqb (root H t) r && forallb (check_query H blobs t) qs
  end.

Definition mismatches (l : list case) : list nat := failing check l.
