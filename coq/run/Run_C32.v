(* Run_C32.v - correspondence: evaluate Model_Authenticator on the cases the
   harness ran through Authenticator.onPacket / VerifySignature.  The
   primitives are instantiated with the ground truth the harness computed
   independently of the code under test (its own secp256k1 point parser,
   crypto/ecdsa over the curve, x/crypto sha3): whether the presented key
   parses and its uncompressed form, the two hashes, and whether R|S verifies
   under the presented key over the hash of the content. *)
From Goloop Require Export lib.Bytes Model_Authenticator.
Open Scope N_scope.

Record truth := mkT {
  t_pub : option bytes;     (* uncompressed 65-byte form of the presented key, None = not a key *)
  t_hcontent : bytes;       (* SHA3-256 of the content / of this session's secret *)
  t_hpub : bytes;           (* SHA3-256 of the 64 coordinate bytes *)
  t_sigok : bool            (* R|S verifies under the presented key over t_hcontent *)
}.

Inductive case :=
(* Authenticator.VerifySignature(pub, sig, content) = (id?, err?) *)
| CVerify (pub sig content : bytes) (t : truth) (obs_id : option bytes) (obs_err : bool)
(* handleSignatureRequest (server = true) / handleSignatureResponse on a peer whose
   wait info is `wait` and session secret `extra`, packet sub protocol `sub` *)
| CHandle (server : bool) (self : bytes) (wait : option (N * bool)) (sub : N) (extra : bytes) (m : inmsg) (t : truth)
          (obs_closed obs_next : bool) (obs_id : option bytes) (obs_resp : option bool)
(* the handshake public keys one Authenticator sent in successive sessions
   (accepting side: SecureResponse.SecureParam, dialling side: SecureRequest.SecureParam)
   and the session secrets it derived; the other end supplied `supplied` *)
| CFresh (own_keys : list bytes) (supplied : list bytes) (extras : list bytes).

Section INST.
  Variables (pub content : bytes) (t : truth).
  Definition iparse (b : bytes) : option bytes := if bytes_eqb b pub then t_pub t else None.
  Definition iH (m : bytes) : bytes :=
    if bytes_eqb m content then t_hcontent t
    else match t_pub t with
         | Some u => if bytes_eqb m (skipn 1 u) then t_hpub t else []
         | None => []
         end.
  Definition iverify (k h rs : bytes) : bool := bytes_eqb h (t_hcontent t) && t_sigok t.
End INST.

Definition obytes_eqb (a b : option bytes) : bool :=
  match a, b with
  | None, None => true
  | Some x, Some y => bytes_eqb x y
  | _, _ => false
  end.
Definition obool_eqb (a b : option bool) : bool :=
  match a, b with
  | None, None => true
  | Some x, Some y => Bool.eqb x y
  | _, _ => false
  end.

Definition msg_pub (m : inmsg) : bytes := match m with Msg pub _ _ => pub | Undecodable => [] end.

Definition check (c : case) : bool :=
  match c with
  | CVerify pub sig content t oid oerr =>
      let '(id, err) := verify_signature bytes (iH content t) (iparse pub t) (fun u => u) (iverify t) pub sig content in
      obytes_eqb id oid && Bool.eqb err oerr
  | CHandle server self wait sub extra m t oclosed onext oid oresp =>
      let p := {| p_wait := wait; p_extra := extra; p_id := None; p_closed := false; p_next := false |} in
      let pub := msg_pub m in
      (* the dispatch of Authenticator.onPacket on the sub protocol (whatever the role) *)
      if sub =? SUB_SIGREQ then
        let '(p', r) := on_sigreq bytes (iH extra t) (iparse pub t) (fun u => u) (iverify t) self p m in
        Bool.eqb (p_closed p') oclosed && Bool.eqb (p_next p') onext && obytes_eqb (p_id p') oid && obool_eqb r oresp
      else if sub =? SUB_SIGRESP then
        let p' := on_sigresp bytes (iH extra t) (iparse pub t) (fun u => u) (iverify t) p m in
        Bool.eqb (p_closed p') oclosed && Bool.eqb (p_next p') onext && obytes_eqb (p_id p') oid && obool_eqb None oresp
      else false
  | CFresh own _ extras =>
      (* newSecureKey per session: keys pairwise different, hence secrets pairwise different *)
      nodup_bytes own && nodup_bytes extras
  end.

Definition mismatches (l : list case) : list nat := failing check l.
