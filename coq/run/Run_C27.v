(* Run_C27.v — correspondence: evaluate Model_Mta on the operation scripts the
   harness ran against mta.Accumulator, report the scripts on which an
   observation differs.

   Hashes: the harness records every (preimage, digest) pair of
   crypto.SHA3Sum256 that the implementation computed (bucket writes, in-memory
   node dump, Verify rounds); the model runs with that table as its hash
   function and yields a sentinel for a preimage the implementation never
   hashed (which then differs from every observed hash).
   Observed hashes are written as indices into [pool]. *)
From Coq Require Import FMapPositive.
From Goloop Require Import lib.Bytes lib.BytesMap Model_Mta.
Open Scope N_scope.

Inductive tent :=
| TB (l r d : N)                 (* H (pool l ++ pool r) = pool d *)
| TD (data : bytes) (d : N)      (* H data = pool d *)
| TR (pre dig : bytes).          (* H pre = dig *)

(* a witness element is 2 * pool index + (1 if Right) *)
Inductive qres := QOk (w : list N) (v : N) | QErr (e : N).

Inductive sop :=
| SAdd (it : item) (w : list N) (v : N)
| SFlush
| SFlushRecover (roots : list (option N)) (len : N)
| SQueryAll (obs : list qres)
| SQuery (idx : N) (obs : qres)
| SVerify (ws : list (bool * bytes)) (h : bytes) (v : N).

Inductive case := Case (pool : list bytes) (tbl : list tent) (ops : list sop).

Definition pmap := PositiveMap.t bytes.
Fixpoint pool_from (i : N) (l : list bytes) (m : pmap) : pmap :=
  match l with
  | [] => m
  | b :: r => pool_from (i + 1) r (PositiveMap.add (N.succ_pos i) b m)
  end.
Definition pool_get (p : pmap) (i : N) : option bytes := PositiveMap.find (N.succ_pos i) p.
Definition pool_get' (p : pmap) (i : N) : bytes :=
  match pool_get p i with Some b => b | None => [257] end.

Definition tbl_add (p : pmap) (m : bmap bytes) (e : tent) : bmap bytes :=
  match e with
  | TB l r d => bm_set (pool_get' p l ++ pool_get' p r) (pool_get' p d) m
  | TD data d => bm_set data (pool_get' p d) m
  | TR pre dig => bm_set pre dig m
  end.

Definition Htbl (t : bmap bytes) (x : bytes) : bytes :=
  match bm_get x t with Some d => d | None => [256] end.

(* error classes: queries 1 = not found, 2 = other error, 9 = panic;
   verify 0 = accepted, 1 = rejected *)
Definition qclass (e : err) : N :=
  match e with ENotFound => 1 | EPanic => 9 | _ => 2 end.
Definition vclass (r : result unit) : N := match r with Ok _ => 0 | Err _ => 1 end.

Definition welt_eqb (p : pmap) (w : witness) (o : N) : bool :=
  Bool.eqb (match w_dir w with Right => true | Left => false end) (N.odd o)
  && opt_bytes_eqb (pool_get p (N.div2 o)) (Some (w_hash w)).

Fixpoint wit_eqb (p : pmap) (ws : list witness) (os : list N) : bool :=
  match ws, os with
  | [], [] => true
  | w :: ws', o :: os' => welt_eqb p w o && wit_eqb p ws' os'
  | _, _ => false
  end.

Fixpoint roots_eqb (p : pmap) (rs : list (option node)) (os : list (option N)) : bool :=
  match rs, os with
  | [], [] => true
  | None :: rs', None :: os' => roots_eqb p rs' os'
  | Some n :: rs', Some o :: os' =>
      opt_bytes_eqb (pool_get p o) (Some (node_hash n)) && roots_eqb p rs' os'
  | _, _ => false
  end.

Section Run.
Variable H : bytes -> bytes.
Variable p : pmap.

(* run state: accumulator, store, leaf hashes (newest first), all comparisons so far *)
Record rst := mkR { r_acc : acc; r_store : store; r_leaves : list bytes; r_n : nat; r_ok : bool }.

Definition leaf_at (st : rst) (idx : N) : option bytes :=
  let i := N.to_nat idx in
  if Nat.ltb i (r_n st) then nth_error (r_leaves st) (r_n st - 1 - i) else None.

Definition query (st : rst) (idx : N) (o : qres) : rst :=
  let (a', rw) := witness_for (r_store st) (r_acc st) idx in
  let ok :=
    match rw, o with
    | Ok w, QOk ow v =>
        wit_eqb p w ow &&
        match leaf_at st idx with
        | Some lh => vclass (verify H a' w lh) =? v
        | None => false
        end
    | Err e, QErr c => qclass e =? c
    | _, _ => false
    end in
  mkR a' (r_store st) (r_leaves st) (r_n st) (r_ok st && ok).

Fixpoint query_all (st : rst) (idx : N) (obs : list qres) : rst :=
  match obs with
  | [] => st
  | o :: r => query_all (query st idx o) (idx + 1) r
  end.

Definition to_w (x : bool * bytes) : witness := mkW (if fst x then Right else Left) (snd x).

Definition rstep (st : rst) (o : sop) : rst :=
  match o with
  | SAdd it ow v =>
      let (a', w) := add H (r_acc st) it in
      let lh := item_hash H it in
      mkR a' (r_store st) (lh :: r_leaves st) (S (r_n st))
          (r_ok st && wit_eqb p w ow && (vclass (verify H a' w lh) =? v))
  | SFlush =>
      let (a', s') := flush (r_acc st) (r_store st) in
      mkR a' s' (r_leaves st) (r_n st) (r_ok st)
  | SFlushRecover oroots olen =>
      let (_, s') := flush (r_acc st) (r_store st) in
      let a' := recover s' in
      mkR a' s' (r_leaves st) (r_n st)
          (r_ok st && roots_eqb p (a_roots a') oroots && (a_len a' =? olen))
  | SQueryAll obs => query_all st 0 obs
  | SQuery idx o => query st idx o
  | SVerify ws h v =>
      mkR (r_acc st) (r_store st) (r_leaves st) (r_n st)
          (r_ok st && (vclass (verify H (r_acc st) (map to_w ws) h) =? v))
  end.
End Run.

Definition check (c : case) : bool :=
  match c with
  | Case pool tbl ops =>
      let p := pool_from 0 pool (PositiveMap.empty _) in
      let t := fold_left (tbl_add p) tbl bm_empty in
      r_ok (fold_left (rstep (Htbl t) p) ops (mkR acc_empty store_empty [] 0 true))
  end.

Definition mismatches (l : list case) : list nat := failing check l.
