(* Run_C27.v — correspondence: evaluate Model_Mta on the operation scripts the
   harness ran against mta.Accumulator, report the scripts on which an
   observation differs.

   Hashes.  The harness records every (preimage, digest) pair of
   crypto.SHA3Sum256 that the implementation computed (bucket writes, in-memory
   node dump, Verify rounds) and checks each against x/crypto/sha3; the model
   runs with that table as its hash function and yields a sentinel for a
   preimage the implementation never hashed (which differs from every observed
   hash).  The model only concatenates, compares and measures hashes, so in
   well-formed scripts (all hashes 32 bytes long) the harness renames every
   distinct hash value to a 32-byte token [tok id] (an injective renaming) and
   prints ids; scripts with hashes of other lengths carry the real bytes in
   [pool].  Numbers are primitive integers only because their literals are
   cheap to read; they are converted to N before the model sees them. *)
From Coq Require Import FMapPositive Uint63.
From Goloop Require Import lib.Bytes lib.BytesMap Model_Mta.
Open Scope N_scope.

Definition n_of (i : int) : N := Z.to_N (Uint63.to_Z i).
Definition bytes_of (l : list int) : bytes := map n_of l.

Inductive tent :=
| TB (l r d : int)               (* H (hash l ++ hash r) = hash d *)
| TR (pre : list int) (d : int). (* H pre = hash d *)

(* a witness element is 2 * hash id + (1 if Right).
   QD s fresh v: the witness is fresh ++ skipn s (witness of the previous query
   of the same SQueryAll), Verify class v *)
Inductive qobs := QD (s : int) (fresh : list int) (v : int) | QE (e : int).

Inductive sop :=
| SAddH (h : int) (w : list int) (v : int)          (* AddHash (hash h) *)
| SAddD (d : list int) (w : list int) (v : int)     (* AddData d *)
| SFlush
| SFlushRecover (roots : list int) (len : int)      (* 0 = empty slot, id + 1 *)
| SQueryAll (obs : list qobs)
| SQuery (idx : int) (obs : qobs)
| SVerify (ws : list int) (h : int) (v : int).

Inductive case := Case (pool : list (list int)) (tbl : list tent) (ops : list sop).

Definition pmap := PositiveMap.t bytes.
Fixpoint pool_from (i : N) (l : list (list int)) (m : pmap) : pmap :=
  match l with
  | [] => m
  | b :: r => pool_from (i + 1) r (PositiveMap.add (N.succ_pos i) (bytes_of b) m)
  end.

Definition tok (i : N) : bytes :=
  (i / 65536) mod 256 :: (i / 256) mod 256 :: i mod 256 :: repeat 255 29.

Definition hash_of (p : pmap) (i : N) : bytes :=
  match PositiveMap.find (N.succ_pos i) p with Some b => b | None => tok i end.

Definition tbl_add (p : pmap) (m : bmap bytes) (e : tent) : bmap bytes :=
  match e with
  | TB l r d => bm_set (hash_of p (n_of l) ++ hash_of p (n_of r)) (hash_of p (n_of d)) m
  | TR pre d => bm_set (bytes_of pre) (hash_of p (n_of d)) m
  end.

Definition Htbl (t : bmap bytes) (x : bytes) : bytes :=
  match bm_get x t with Some d => d | None => [256] end.

(* error classes: queries 1 = not found, 2 = other error, 9 = panic;
   verify 0 = accepted, 1 = rejected *)
Definition qclass (e : err) : N :=
  match e with ENotFound => 1 | EPanic => 9 | _ => 2 end.
Definition vclass (r : result unit) : N := match r with Ok _ => 0 | Err _ => 1 end.

Definition welt (p : pmap) (o : int) : witness :=
  let n := n_of o in mkW (if N.odd n then Right else Left) (hash_of p (N.div2 n)).

Definition witness_eqb (a b : witness) : bool :=
  match w_dir a, w_dir b with
  | Left, Left | Right, Right => bytes_eqb (w_hash a) (w_hash b)
  | _, _ => false
  end.

Fixpoint wit_eqb (ws os : list witness) : bool :=
  match ws, os with
  | [], [] => true
  | w :: ws', o :: os' => witness_eqb w o && wit_eqb ws' os'
  | _, _ => false
  end.

Fixpoint roots_eqb (p : pmap) (rs : list (option node)) (os : list int) : bool :=
  match rs, os with
  | [], [] => true
  | r :: rs', o :: os' =>
      let n := n_of o in
      match r with
      | None => n =? 0
      | Some x => negb (n =? 0) && bytes_eqb (node_hash x) (hash_of p (n - 1))
      end && roots_eqb p rs' os'
  | _, _ => false
  end.

Section Run.
Variable H : bytes -> bytes.
Variable p : pmap.

(* run state: accumulator, store, leaf hashes (newest first), the previous
   observed witness of the running SQueryAll, conjunction of all comparisons *)
Record rst := mkR { r_acc : acc; r_store : store; r_leaves : list bytes; r_n : nat;
                    r_prev : list witness; r_ok : bool }.

Definition leaf_at (st : rst) (idx : N) : option bytes :=
  let i := N.to_nat idx in
  if Nat.ltb i (r_n st) then nth_error (r_leaves st) (r_n st - 1 - i) else None.

Definition query (st : rst) (idx : N) (o : qobs) : rst :=
  let (a', rw) := witness_for (r_store st) (r_acc st) idx in
  let '(ok, prev) :=
    match rw, o with
    | Ok w, QD s fresh v =>
        let ow := map (welt p) fresh ++ skipn (N.to_nat (n_of s)) (r_prev st) in
        (wit_eqb w ow &&
         match leaf_at st idx with
         | Some lh => vclass (verify H a' w lh) =? n_of v
         | None => false
         end, ow)
    | Err e, QE c => (qclass e =? n_of c, r_prev st)
    | _, _ => (false, r_prev st)
    end in
  mkR a' (r_store st) (r_leaves st) (r_n st) prev (r_ok st && ok).

Fixpoint query_all (st : rst) (idx : N) (obs : list qobs) : rst :=
  match obs with
  | [] => st
  | o :: r => query_all (query st idx o) (idx + 1) r
  end.

Definition with_prev (st : rst) (w : list witness) : rst :=
  mkR (r_acc st) (r_store st) (r_leaves st) (r_n st) w (r_ok st).

Definition do_add (st : rst) (it : item) (ow : list int) (v : int) : rst :=
  let (a', w) := add H (r_acc st) it in
  let lh := item_hash H it in
  mkR a' (r_store st) (lh :: r_leaves st) (S (r_n st)) []
      (r_ok st && wit_eqb w (map (welt p) ow) && (vclass (verify H a' w lh) =? n_of v)).

Definition rstep (st : rst) (o : sop) : rst :=
  match o with
  | SAddH h ow v => do_add st (IHash (hash_of p (n_of h))) ow v
  | SAddD d ow v => do_add st (IData (bytes_of d)) ow v
  | SFlush =>
      let (a', s') := flush (r_acc st) (r_store st) in
      mkR a' s' (r_leaves st) (r_n st) [] (r_ok st)
  | SFlushRecover oroots olen =>
      let (_, s') := flush (r_acc st) (r_store st) in
      let a' := recover s' in
      mkR a' s' (r_leaves st) (r_n st) []
          (r_ok st && roots_eqb p (a_roots a') oroots && (a_len a' =? n_of olen))
  | SQueryAll obs => query_all (with_prev st []) 0 obs
  | SQuery idx o => query (with_prev st []) (n_of idx) o
  | SVerify ws h v =>
      mkR (r_acc st) (r_store st) (r_leaves st) (r_n st) []
          (r_ok st && (vclass (verify H (r_acc st) (map (welt p) ws) (hash_of p (n_of h))) =? n_of v))
  end.
End Run.

Definition check (c : case) : bool :=
  match c with
  | Case pool tbl ops =>
      let p := pool_from 0 pool (PositiveMap.empty _) in
      let t := fold_left (tbl_add p) tbl bm_empty in
      r_ok (fold_left (rstep (Htbl t) p) ops (mkR acc_empty store_empty [] 0 [] true))
  end.

Definition mismatches (l : list case) : list nat := failing check l.
