(* Run_C16.v — correspondence for C16 (a failed transaction changes nothing
   but the fee): the case type and `mismatches` are shared with C15 (Run_TxExec). *)
From GoloopRun Require Export Run_TxExec.
From Goloop Require Export Model_TxExec.
