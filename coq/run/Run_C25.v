(* Run_C25.v — correspondence: evaluate Model_Lzw on the inputs the harness fed to
   common.Compress / common.Decompress and report the indices of the cases whose
   observed bytes differ from the model's. *)
From Goloop Require Import lib.Bytes Model_Lzw.
Open Scope N_scope.

Inductive case :=
| CComp (x comp dec : bytes)     (* comp = common.Compress x, dec = common.Decompress comp *)
| CCompRT (x comp : bytes)       (* the same when dec was observed to be equal to x (printed once) *)
| CSeq (l : list (bytes * bytes))  (* several Compress calls in a row, results held: (x, comp) *)
| CDecomp (stream out : bytes).  (* out = common.Decompress stream, any stream *)

Definition check (c : case) : bool :=
  match c with
  | CComp x comp dec =>
      bytes_eqb (compress x) comp && bytes_eqb (decompress_lenient comp) dec
  | CCompRT x comp =>
      bytes_eqb (compress x) comp && bytes_eqb (decompress_lenient comp) x
  | CSeq l => forallb (fun p => bytes_eqb (compress (fst p)) (snd p)) l
  | CDecomp stream out =>
      bytes_eqb (decompress_lenient stream) out
  end.

Definition mismatches (l : list case) : list nat := failing check l.
