(* Run_C19.v — correspondence: run Model_LayerDb on the histories the harness executed on
   db.NewLayerDB(db.NewMapDB()) and compare every observed result.
   A case carries its bucket-id table and key table; operations refer to them by index
   and carry the observed result of the implementation (compact, to keep the files small). *)
From Goloop Require Export lib.Bytes Model_LayerDb.
Open Scope N_scope.

Inductive cop :=
| cS (b k : N) (v : option bytes)       (* layer Set, returned nil error *)
| cD (b k : N)                          (* layer Delete, returned nil error *)
| cG (b k : N) (r : option bytes)       (* layer Get, observed value (None = nil slice) *)
| cH (b k : N) (r : bool)               (* layer Has *)
| cF (w : bool) (ok : bool)             (* Flush(w); ok = returned nil error *)
| bS (b k : N) (v : option bytes)       (* the same four on the underlying MapDB *)
| bD (b k : N)
| bG (b k : N) (r : option bytes)
| bH (b k : N) (r : bool)
| cE (o : cop).                         (* the operation o returned an error (its own observation is ignored) *)

Inductive case := CHist (bks keys : list bytes) (ops : list cop).

Definition out_eqb (a b : out) : bool :=
  match a, b with
  | RUnit, RUnit => true
  | RVal x, RVal y => opt_bytes_eqb x y
  | RBool x, RBool y => Bool.eqb x y
  | RErr, RErr => true
  | _, _ => false
  end.

Fixpoint outs_eqb (a b : list out) : bool :=
  match a, b with
  | [], [] => true
  | x :: a', y :: b' => out_eqb x y && outs_eqb a' b'
  | _, _ => false
  end.

Section Decode.
  Variables bks keys : list bytes.
  Definition tb (i : N) : bytes := nth (N.to_nat i) bks [].
  Definition tk (i : N) : bytes := nth (N.to_nat i) keys [].

  Fixpoint dec (c : cop) : op * out :=
    match c with
    | cS b k v => (OSet (tb b) (tk k) v, RUnit)
    | cD b k => (ODel (tb b) (tk k), RUnit)
    | cG b k r => (OGet (tb b) (tk k), RVal r)
    | cH b k r => (OHas (tb b) (tk k), RBool r)
    | cF w ok => (OFlush w, if ok then RUnit else RErr)
    | bS b k v => (BSet (tb b) (tk k) v, RUnit)
    | bD b k => (BDel (tb b) (tk k), RUnit)
    | bG b k r => (BGet (tb b) (tk k), RVal r)
    | bH b k r => (BHas (tb b) (tk k), RBool r)
    | cE o => (fst (dec o), RErr)
    end.
End Decode.

Definition check (c : case) : bool :=
  match c with
  | CHist bks keys ops =>
      let d := map (dec bks keys) ops in
      outs_eqb (snd (run (init []) (map fst d))) (map snd d)
  end.

Definition mismatches (l : list case) : list nat := failing check l.
