(* Run_C12.v — correspondence: evaluate Model_TxSerialize on what the harness
   observed on service/transaction (SerializeValue, NewTransactionFromJSON,
   Bytes, NewTransaction, MarshalJSON), report differing indices.

   SHA3-256 and base64 are tables supplied with each case: the harness hashes
   (with golang.org/x/crypto/sha3, not through the code under test) the
   pre-images its own reference serializer produces; the model must arrive at
   the same pre-image to find the entry, and the entry must equal the id the
   implementation reported. *)
From Goloop Require Import lib.Bytes Model_Address Model_TxSerialize.
From GoloopRun Require Export Pack_Bytes.
Open Scope N_scope.

Fixpoint tab_lookup (k : bytes) (t : list (bytes * bytes)) : option bytes :=
  match t with
  | [] => None
  | (a, b) :: r => if bytes_eqb k a then Some b else tab_lookup k r
  end.
Fixpoint tab_rlookup (v : bytes) (t : list (bytes * bytes)) : option bytes :=
  match t with
  | [] => None
  | (a, b) :: r => if bytes_eqb v b then Some a else tab_rlookup v r
  end.

(* a pre-image that is not in the table hashes to a value no id equals *)
Definition Htab (t : list (bytes * bytes)) (p : bytes) : bytes :=
  match tab_lookup p t with Some h => h | None => [999] end.
Definition dec_tab (t : list (bytes * bytes)) (s : bytes) : option bytes := tab_lookup s t.
Definition enc_tab (t : list (bytes * bytes)) (b : bytes) : bytes :=
  match tab_rlookup b t with Some s => s | None => [999] end.

(* ---------- equality tests on observations ---------- *)

Fixpoint json_eqb (a b : json) : bool :=
  match a, b with
  | JNull, JNull => true
  | JStr s, JStr t => bytes_eqb s t
  | JNum x, JNum y => Z.eqb x y
  | JBool x, JBool y => Bool.eqb x y
  | JList l, JList l' =>
      (fix go (l l' : list json) : bool :=
         match l, l' with
         | [], [] => true
         | x :: r, y :: r' => json_eqb x y && go r r'
         | _, _ => false
         end) l l'
  | JObj m, JObj m' =>
      (fix go (m m' : list (bytes * json)) : bool :=
         match m, m' with
         | [], [] => true
         | (k, x) :: r, (k', y) :: r' => bytes_eqb k k' && json_eqb x y && go r r'
         | _, _ => false
         end) m m'
  | _, _ => false
  end.

(* keys sorted at every level (Go maps have no order) *)
Fixpoint canon (v : json) : json :=
  match v with
  | JList l => JList (map canon l)
  | JObj m => JObj (ksort (map (fun kv => (fst kv, canon (snd kv))) m))
  | _ => v
  end.
Definition json_same (a b : json) : bool := json_eqb (canon a) (canon b).

Definition optz_eqb (a b : option Z) : bool :=
  match a, b with
  | None, None => true
  | Some x, Some y => Z.eqb x y
  | _, _ => false
  end.

Definition tdata_eqb (a b : tdata) : bool :=
  match a, b with
  | DNone, DNone | DEmpty, DEmpty | DBad, DBad => true
  | DTree x, DTree y => json_same x y
  | _, _ => false
  end.

Definition tsig_eqb (a b : tsig) : bool :=
  match a, b with
  | SigNone, SigNone => true
  | SigV x, SigV y => bytes_eqb x y
  | SigRS x, SigRS y => bytes_eqb x y
  | _, _ => false
  end.

Definition txdata_eqb (a b : txdata) : bool :=
  (t_version a =? t_version b) && addr_eqb (t_from a) (t_from b) && addr_eqb (t_to a) (t_to b)
  && optz_eqb (t_value a) (t_value b) && Z.eqb (t_stepLimit a) (t_stepLimit b)
  && Z.eqb (t_timestamp a) (t_timestamp b) && optz_eqb (t_nid a) (t_nid b)
  && optz_eqb (t_nonce a) (t_nonce b) && tsig_eqb (t_sig a) (t_sig b)
  && opt_bytes_eqb (t_dataType a) (t_dataType b) && tdata_eqb (t_data a) (t_data b).

Definition binv3_eqb (a b : binv3) : bool :=
  bytes_eqb (b_version a) (b_version b) && bytes_eqb (b_from a) (b_from b)
  && bytes_eqb (b_to a) (b_to b) && opt_bytes_eqb (b_value a) (b_value b)
  && bytes_eqb (b_stepLimit a) (b_stepLimit b) && bytes_eqb (b_timestamp a) (b_timestamp b)
  && opt_bytes_eqb (b_nid a) (b_nid b) && opt_bytes_eqb (b_nonce a) (b_nonce b)
  && bytes_eqb (b_sig a) (b_sig b) && opt_bytes_eqb (b_dataType a) (b_dataType b)
  && tdata_eqb (b_data a) (b_data b).

Definition bin_eqb (a b : bin) : bool :=
  match a, b with
  | BRlp x, BRlp y => binv3_eqb x y
  | BJson x, BJson y => json_same x y
  | _, _ => false
  end.

(* ---------- cases ---------- *)

(* what is observed of one transaction object *)
Record obs := { o_raw : bool; o_id : bytes; o_f : txdata }.

Inductive case :=
(* SerializeValue(j) *)
| CSer (j : json) (out : option bytes)
(* NewTransactionFromJSON(text of m): None = not accepted as a v3 transaction;
   Some (o, Bytes(), what NewTransaction(Bytes()) gives, MarshalJSON as a map,
         what NewTransactionFromJSON(MarshalJSON) gives) *)
| CJson (htab btab : list (bytes * bytes)) (m : list (bytes * json))
        (r : option (obs * option bin * option obs * option (list (bytes * json)) * option obs))
(* NewTransaction(RLP of b) *)
| CBin (htab btab : list (bytes * bytes)) (b : binv3)
       (r : option (obs * option (list (bytes * json)) * option obs)).

Definition obs_match (H : bytes -> bytes) (t : tx) (o : obs) : bool :=
  Bool.eqb (match t with TxRaw _ _ => true | TxStruct _ => false end) (o_raw o)
  && bytes_eqb (id H t) (o_id o) && txdata_eqb (fields t) (o_f o).

Definition res_match (H : bytes -> bytes) (r : result tx) (o : option obs) : bool :=
  match r, o with
  | Ok t, Some o => obs_match H t o
  | Reject, None | NotV3, None => true
  | Unsup, _ => true
  | _, _ => false
  end.

Definition opt_json_match (a : option json) (b : option (list (bytes * json))) : bool :=
  match a, b with
  | Some x, Some m => json_same x (JObj m)
  | None, None => true
  | _, _ => false
  end.

Definition check (c : case) : bool :=
  match c with
  | CSer j out => opt_bytes_eqb (ser_value j) out
  | CJson htab btab m r =>
      let H := Htab htab in let dec := dec_tab btab in let enc := enc_tab btab in
      match from_json H dec (JObj m), r with
      | Unsup, _ => true
      | Reject, None | NotV3, None => true
      | Ok t, Some (o, ob, o2, tj, o3) =>
          obs_match H t o
          && match to_bin t, ob with
             | Some b, Some b' => bin_eqb b b' && res_match H (from_bin H dec b') o2
             | None, None => true
             | _, _ => false
             end
          && opt_json_match (to_json H enc t) tj
          && match tj with
             | Some m' => res_match H (from_json H dec (JObj m')) o3
             | None => true
             end
      | _, _ => false
      end
  | CBin htab btab b r =>
      let H := Htab htab in let dec := dec_tab btab in let enc := enc_tab btab in
      match from_bin H dec (BRlp b), r with
      | Ok t, Some (o, tj, o3) =>
          obs_match H t o
          && opt_json_match (to_json H enc t) tj
          && match tj with
             | Some m' => res_match H (from_json H dec (JObj m')) o3
             | None => true
             end
      | Reject, None => true
      | _, _ => false
      end
  end.

Definition mismatches (l : list case) : list nat := failing check l.
