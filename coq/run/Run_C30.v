(* Run_C30.v — correspondence: evaluate Model_Packet on what the harness observed on
   network.Packet / PacketWriter / PacketReader.  The hash is evaluated with
   fnv1a_fast (= fnv1a, Prop_C30.C30_fast_hash_agrees). *)
From Goloop Require Import lib.Bytes Model_Packet.
Open Scope N_scope.

Definition P := Build_packet.

Definition stopN (s : stop) : N := match s with StopEOF => 0 | StopBad => 1 | StopFuel => 2 end.

Fixpoint packets_eqb (a b : list packet) : bool :=
  match a, b with
  | [], [] => true
  | x :: a', y :: b' => packet_eqb x y && packets_eqb a' b'
  | _, _ => false
  end.

Definition res_eqb (m : list packet * stop) (obs : list packet) (st : N) : bool :=
  packets_eqb (fst m) obs && (stopN (snd m) =? st).

(* the first n bytes of pat repeated for ever (large payloads are described, not listed) *)
Definition expand (pat : bytes) (n : N) : bytes :=
  match pat with
  | [] => []
  | _ => firstn (N.to_nat n) (concat (repeat pat (N.to_nat (n / lenN pat + 1))))
  end.

Definition with_payload (p : packet) (pl : bytes) : packet :=
  {| p_proto := p_proto p; p_sub := p_sub p; p_src := p_src p; p_dest := p_dest p;
     p_ttl := p_ttl p; p_payload := pl; p_hint := p_hint p; p_ext := p_ext p |}.

Inductive case :=
(* a packet with these fields was written with PacketWriter.WritePacket: the bytes that arrived *)
| CEnc (p : packet) (wire : bytes)
(* a byte stream handed to the reader in these chunks: the packets ReadPacket returned
   before the first error and the class of that error (0 io.EOF, 1 anything else) *)
| CStream (chunks : list bytes) (obs : list packet) (st : N)
(* wire ++ tail with byte i replaced by b, for each listed (i, b): what the reader returned *)
| CCorrupt (wire tail : bytes) (obs : list (N * N * list packet * N))
(* a packet whose payload is expand pat n: observed header and footer bytes, total length
   written, and what reading it back gave (fields without payload; payload compared in Go) *)
| CBig (p0 : packet) (pat : bytes) (n : N) (hdr ftr : bytes) (total : N)
       (back : option packet) (payload_same : bool).

Definition check (c : case) : bool :=
  match c with
  | CEnc p wire => bytes_eqb (encode fnv1a_fast p) wire
  | CStream chunks obs st => res_eqb (parse_chunked fnv1a_fast chunks) obs st
  | CCorrupt wire tail obs =>
      forallb (fun '(i, b, pk, st) =>
                 res_eqb (parse_stream fnv1a_fast (subst_at (N.to_nat i) b wire ++ tail)) pk st) obs
  | CBig p0 pat n hdr ftr total back same =>
      let pl := expand pat n in
      let p := with_payload p0 pl in
      bytes_eqb (header p) hdr && bytes_eqb (footer fnv1a_fast p) ftr &&
      (30 + lenN pl + 10 + lenN (ext_out p) =? total) &&
      match parse_stream fnv1a_fast (hdr ++ pl ++ ftr ++ ext_out p), back with
      | ([q], StopEOF), Some q0 => packet_eqb (with_payload q []) q0 && bytes_eqb (p_payload q) pl && same
      | _, _ => false
      end
  end.

Definition mismatches (l : list case) : list nat := failing check l.
