(* Run_C10.v — correspondence: evaluate Model_BlockExec on the blocks the harness
   ran through the real executeTxs / executeTxsSequential / executeTxsConcurrent
   and compare with what was observed. *)
From Coq Require Import List Arith Bool NArith.
From Goloop Require Import lib.Bytes Model_BlockExec.
Import ListNotations.
Local Open Scope nat_scope.

Inductive mode := MSeqDirect | MConcDirect | MDispatch.

(* input: mode, ctx.SkipTransactionEnabled(), concurrency level, IsSkippable per
   transaction, scripted outcomes per transaction and attempt, numbers that pick
   the model's interleaving;
   observed: err != nil, the receipt buffer, number of Prepare calls (= workers
   dispatched, concurrent mode), number of Execute calls per transaction *)
Inductive case :=
| Case (m : mode) (skipping : bool) (level : nat) (skips : list bool) (scr : list (list outcome))
       (picks : list N)
       (o_err : bool) (o_slots : slots) (o_started : nat) (o_attempts : list nat).

(* attempts beyond the scripted ones are answered with a non-retryable error by the harness *)
Definition script_of (scr : list (list outcome)) : script := fun i k =>
  match nth_error scr i with
  | Some l => match nth_error l k with Some o => o | None => OFatal end
  | None => OFatal
  end.

(* a schedule built from a list of numbers: at every step the (k mod m)-th of
   the m enabled actors moves *)
Fixpoint guided (v : variant) (n : nat) (s : script) (st : cstate) (picks : list nat) : list actor :=
  match picks with
  | [] => []
  | k :: rest =>
      match enabled v n s st with
      | [] => []
      | a0 :: en =>
          let a := nth (k mod (length (a0 :: en))) (a0 :: en) a0 in
          match step v n s st a with
          | Some st' => a :: guided v n s st' rest
          | None => []
          end
      end
  end.

Definition receipt_eqb (a b : receipt) : bool :=
  match a, b with
  | RExec x, RExec y => N.eqb x y
  | RSkip, RSkip => true
  | _, _ => false
  end.
Definition slot_eqb (a b : option receipt) : bool :=
  match a, b with
  | None, None => true
  | Some x, Some y => receipt_eqb x y
  | _, _ => false
  end.
Fixpoint slots_eqb (a b : slots) : bool :=
  match a, b with
  | [], [] => true
  | x :: a', y :: b' => slot_eqb x y && slots_eqb a' b'
  | _, _ => false
  end.
Fixpoint nats_eqb (a b : list nat) : bool :=
  match a, b with
  | [], [] => true
  | x :: a', y :: b' => Nat.eqb x y && nats_eqb a' b'
  | _, _ => false
  end.

(* Execute calls per transaction in sequential mode: the loop stops at the first failing transaction *)
Fixpoint seq_attempts (skipping : bool) (s : script) (txs : list tx) (cnt : nat) : list nat :=
  match txs with
  | [] => []
  | t :: rest =>
      if skipping && tx_skippable t then 0 :: seq_attempts skipping s rest (S cnt)
      else match run_tx (s cnt) with
           | TxOk _ => tx_attempts (s cnt) :: seq_attempts skipping s rest (S cnt)
           | _ => tx_attempts (s cnt) :: repeat 0 (length rest)
           end
  end.

Definition tx_failsb (s : script) (i : nat) : bool :=
  match run_tx (s i) with TxOk _ => false | _ => true end.

(* concurrent mode, error returned: workers 0..started-1 were dispatched, one of
   them fails; a dispatched worker may still be running, so its Execute count is
   only bounded; nothing beyond `started` ran *)
Fixpoint conc_err_attempts_ok (s : script) (started i : nat) (obs : list nat) : bool :=
  match obs with
  | [] => true
  | a :: rest =>
      (if i <? started then a <=? tx_attempts (s i) else Nat.eqb a 0)
      && conc_err_attempts_ok s started (S i) rest
  end.

Definition sequential (m : mode) (skipping : bool) (level : nat) : bool :=
  match m with
  | MSeqDirect => true
  | MConcDirect => false
  | MDispatch => skipping || negb (1 <? level)
  end.

Definition check (c : case) : bool :=
  match c with
  | Case m skipping level skips scr picks o_err o_slots o_started o_attempts =>
      let txs := map (fun b => {| tx_skippable := b |}) skips in
      let n := length txs in
      let s := script_of scr in
      let sched := guided current n s (init level n) (map N.to_nat picks) in
      let r := match m with
               | MSeqDirect => exec_seq skipping txs s
               | MConcDirect => exec_conc level txs s sched
               | MDispatch => exec_txs skipping level txs s sched
               end in
      Nat.eqb (length o_attempts) n &&
      match r with
      | Unfinished => false
      | Ok rs =>
          negb o_err && slots_eqb rs o_slots &&
          (if sequential m skipping level
           then nats_eqb o_attempts (seq_attempts skipping s txs 0)
           else Nat.eqb o_started n && nats_eqb o_attempts (map (fun i => tx_attempts (s i)) (seq 0 n)))
      | Err =>
          o_err &&
          (if sequential m skipping level
           then nats_eqb o_attempts (seq_attempts skipping s txs 0)
           else (o_started <=? n) && existsb (tx_failsb s) (seq 0 o_started)
                && conc_err_attempts_ok s o_started 0 o_attempts)
      end
  end.

Definition mismatches (l : list case) : list nat := failing check l.
