(* Run_C33.v — correspondence: evaluate Model_Flood on what the harness observed on
   network.PacketPool and PeerToPeer.onPacket / protocolHandler.onPacketResult.
   All numbers in cases are Z (peer ids are indices into the harness' id table). *)
From Coq Require Import List ZArith Bool.
From Goloop Require Import lib.Bytes Model_Flood.
Import ListNotations.
Open Scope Z_scope.

Inductive pool_op :=
| OpPut (h : Z) (was_new : bool)
| OpContains (h : Z) (r : bool)
| OpClear.

(* a peer, a packet, and what was observed: callback invoked, peer closed, hash in the pool afterwards *)
Definition ev := (peer * pkt * (bool * bool * bool))%type.

Inductive case :=
| CPool (nb lb : Z) (ops : list pool_op)
| CNode (nb lb self : Z) (cbs : list Z) (evs : list ev)
| CRelay (isRelay : bool) (ttl dest : Z) (relayed : bool)
(* the same new hash offered by n concurrent callers, released together, many rounds:
   the smallest and largest number of callers told "new" (resp. of deliveries) in a round.
   Put is atomic in the model: the callers are serialised in some order, all orders are
   the same sequence of n Puts of one hash *)
| CConcurrent (nb lb n min_new max_new : Z).

Definition Pr := Build_peer.
Definition Pk := Build_pkt.

Fixpoint run_ops (NB : nat) (LB : Z) (p : pool) (ops : list pool_op) : bool :=
  match ops with
  | [] => true
  | OpPut h r :: rest =>
      match put NB LB p h with
      | Some (p', r') => Bool.eqb r r' && run_ops NB LB p' rest
      | None => false
      end
  | OpContains h r :: rest =>
      match contains NB p h with
      | Some r' => Bool.eqb r r' && run_ops NB LB p rest
      | None => false
      end
  | OpClear :: rest => run_ops NB LB (clear p) rest
  end.

Fixpoint run_evs (NB : nat) (LB : Z) (n : node) (evs : list ev) : bool :=
  match evs with
  | [] => true
  | (p, k, (dl, cl, inp)) :: rest =>
      match on_packet NB LB n p k with
      | Some (n', o) =>
          Bool.eqb (delivered o) dl && Bool.eqb (closes o) cl &&
          match contains NB (nd_pool n') (k_hash k) with
          | Some c => Bool.eqb c inp
          | None => false
          end && run_evs NB LB n' rest
      | None => false
      end
  end.

Definition check (c : case) : bool :=
  match c with
  | CPool nb lb ops => run_ops (Z.to_nat nb) lb (new_pool (Z.to_nat nb)) ops
  | CNode nb lb self cbs evs => run_evs (Z.to_nat nb) lb (new_node (Z.to_nat nb) self cbs) evs
  | CRelay isRelay ttl dest relayed => Bool.eqb (relay_decision isRelay ttl dest) relayed
  | CConcurrent nb lb n mn mx =>
      match puts (Z.to_nat nb) lb (new_pool (Z.to_nat nb)) (repeat 7 (Z.to_nat n)) with
      | Some (_, rs) =>
          let w := Z.of_nat (length (filter (fun b => b) rs)) in (w =? mn) && (w =? mx)
      | None => false
      end
  end.

Definition mismatches (l : list case) : list nat := failing check l.
