(* Run_C08.v — correspondence: evaluate Model_BlockCodec on the cases the harness observed on
   blockV2.MarshalHeader/MarshalBody/ID and BlockDataFactory.NewBlockDataFromReader.
   The model's Section variables (hash, list root, transaction / vote / digest / result /
   bloom parsers) are instantiated per case by the finite tables the harness recorded from
   the real functions; an argument that is not in a table gets a value no real result
   equals, so a model that asks for something the implementation did not compute shows up
   as a mismatch. *)
From Coq Require Export Uint63.
From Goloop Require Export lib.Bytes Model_Rlp Model_BlockCodec.
Open Scope N_scope.

(* Long byte strings are written by the harness as (pw n (W8 w1 .. w8 (W8 .. WE))):
   n bytes, 7 per 63-bit word, big-endian, the last used word right-aligned, padded with
   zero words — read much faster than a list of numerals.  Case files only. *)
Inductive wl := WE | W8 (a b c d e f g h : int) (r : wl).
Fixpoint wl_words (l : wl) : list int :=
  match l with
  | WE => []
  | W8 a b c d e f g h r => a :: b :: c :: d :: e :: f :: g :: h :: wl_words r
  end.
Fixpoint words_bytes (ws : list int) (remaining : nat) : bytes :=
  match ws with
  | [] => []
  | w :: r =>
      let v := Z.to_N (Uint63.to_Z w) in
      if Nat.leb remaining 7 then be_bytes remaining v
      else N.land (N.shiftr v 48) 255 :: N.land (N.shiftr v 40) 255 :: N.land (N.shiftr v 32) 255
           :: N.land (N.shiftr v 24) 255 :: N.land (N.shiftr v 16) 255 :: N.land (N.shiftr v 8) 255
           :: N.land v 255 :: words_bytes r (remaining - 7)
  end.
Definition pw (n : int) (l : wl) : bytes := words_bytes (wl_words l) (Z.to_nat (Uint63.to_Z n)).

Record env := {
  e_H : list (bytes * bytes);
  e_root : list (list bytes * option bytes);
  e_tx : list (bytes * option bytes);
  e_votes : list (option bytes * option bytes);
  e_digest : list (bytes * option (option bytes));
  e_result : list (option bytes * option (option bytes));
  e_bloom : list (option bytes * bytes)
}.

Fixpoint lookup {K V} (eqb : K -> K -> bool) (k : K) (l : list (K * V)) (d : V) : V :=
  match l with
  | [] => d
  | (k', v) :: r => if eqb k k' then v else lookup eqb k r d
  end.

Definition missing : bytes := [238; 238].

Definition env_H (e : env) (b : bytes) : bytes := lookup bytes_eqb b (e_H e) missing.
Definition env_root (e : env) (l : list bytes) : option bytes :=
  lookup bytes_list_eqb l (e_root e) (Some missing).
Definition env_tx (e : env) (b : bytes) : option bytes := lookup bytes_eqb b (e_tx e) None.
Definition env_votes (e : env) (o : option bytes) : option bytes :=
  lookup opt_bytes_eqb o (e_votes e) None.
Definition env_digest (e : env) (b : bytes) : option (option bytes) :=
  lookup bytes_eqb b (e_digest e) None.
Definition env_result (e : env) (o : option bytes) : option (option bytes) :=
  lookup opt_bytes_eqb o (e_result e) None.
Definition env_bloom (e : env) (o : option bytes) : bytes :=
  lookup opt_bytes_eqb o (e_bloom e) missing.

Definition m_decode (e : env) : bytes -> option (block * bytes) :=
  decode (env_H e) (env_root e) (env_tx e) (env_votes e) (env_digest e) (env_result e) (env_bloom e).
Definition m_id (e : env) : block -> bytes := block_id (env_H e) (env_root e).

Inductive case :=
(* a block a node produced, as module.Block shows it; the bytes MarshalHeader and
   MarshalBody wrote; ID() *)
| CEnc (e : env) (b : block) (hb bb : bytes) (id : bytes)
(* bytes given to NewBlockDataFromReader: None = error, Some (block as module.BlockData
   shows it, ID(), number of bytes left unread in the reader) *)
| CDec (e : env) (inp : bytes) (obs : option (block * bytes * N)).

Definition check (c : case) : bool :=
  match c with
  | CEnc e b hb bb id =>
      bytes_eqb (encode_header (env_H e) (env_root e) b) hb &&
      bytes_eqb (encode_body b) bb &&
      bytes_eqb (m_id e b) id &&
      match m_decode e (hb ++ bb) with
      | Some (b', []) => block_eqb b b'
      | _ => false
      end
  | CDec e inp obs =>
      match m_decode e inp, obs with
      | Some (b, r), Some (b', id, n) => block_eqb b b' && bytes_eqb (m_id e b) id && (len r =? n)
      | None, None => true
      | _, _ => false
      end
  end.

Definition mismatches (l : list case) : list nat := failing check l.
