(* Run_C14.v — correspondence: run Model_WorldState on the histories the harness executed on
   state.NewWorldState over db.NewMapDB() and compare every observation; state hashes are
   compared as equality classes: the harness numbers the distinct hashes it saw (over both
   histories of a case), the model predicts the same partition of the snapshots from the
   logical equality of their contents (trie_equivb) — no SHA3 in Coq.
   A case carries its account-id table and key table; operations refer to them by index. *)
From Goloop Require Export lib.Bytes Model_WorldState.
From GoloopRun Require Export Pack_Bytes.
Open Scope N_scope.

(* everything the harness reads from one account: balance, IsContract, owner, state flags,
   the deposits (GetDepositInfo), the value under every key of the key table (None = nil) *)
Inductive aobs := AO (bal : Z) (isc : bool) (own : option bytes) (flg : N) (deps : list deposit) (vals : list (option bytes)).

Inductive cop :=
| cTouch (a : N)                                   (* GetAccountState only *)
| cBal (a : N) (v : Z)                             (* SetBalance *)
| cSet (a k : N) (v : bytes) (old : option bytes)  (* SetValue, observed old value *)
| cDel (a k : N) (old : option bytes)              (* DeleteValue, observed old value *)
| cInit (a : N) (owner : bytes) (r : bool)         (* InitContractAccount, observed result *)
| cBlock (a : N) (b : bool)
| cDisable (a : N) (b : bool)
| cAddDep (a : N) (c : dctx) (v : Z) (ok : bool)                          (* AddDeposit; ok = nil error *)
| cWithdraw (a : N) (c : dctx) (id : bytes) (v : option Z) (r : option (Z * Z))  (* WithdrawDeposit; None = error, else (amount, fee) *)
| cPay (a : N) (c : dctx) (steps : Z) (paid byd : option Z)                (* PaySteps; None = nil *)
| cLive (a : N) (o : aobs)                         (* read through GetAccountState *)
| cPeek (a : N) (o : aobs)                         (* read through ws.GetAccountSnapshot *)
| cObs (i : nat) (o : list (option aobs))          (* snapshot i, every account of the table; None = nil *)
| cRO (i : nat) (o : list aobs)                    (* NewReadOnlyWorldState(snapshot i), every account *)
| cSnap (cls : N) (o : list (option aobs))         (* GetSnapshot: hash class + observation of the new snapshot *)
| cReset (i : nat)
| cClear
| cFlush (i : nat)
| cReload (i : nat)
| cFromSnap (i : nat)
| cLoad (i : nat) (cls : N) (o : list (option aobs)).   (* NewWorldSnapshot from the hash of snapshot i *)

(* a case is written by the harness either as a term (CHist; the canaries) or, because a
   large term is slow to read, as one packed byte string (CPacked (pw ..)) in the format
   parsed by p_case below *)
Inductive case :=
| CHist (accts keys : list bytes) (h1 h2 : list cop)
| CPacked (b : bytes).

(* ---------- the packed format ---------- *)
Definition parser (A : Type) := bytes -> option (A * bytes).
Definition pret {A} (x : A) : parser A := fun s => Some (x, s).
Definition pbind {A B} (p : parser A) (f : A -> parser B) : parser B :=
  fun s => match p s with Some (x, r) => f x r | None => None end.
Notation "x <- p ;; q" := (pbind p (fun x => q)) (at level 61, p at next level, right associativity).

Definition p_byte : parser N := fun s => match s with b :: r => Some (b, r) | [] => None end.
Fixpoint p_take (n : nat) : parser bytes :=
  match n with O => pret [] | S k => b <- p_byte ;; r <- p_take k ;; pret (b :: r) end.
Definition p_bytes : parser bytes := n <- p_byte ;; p_take (N.to_nat n).          (* length byte, data *)
Definition p_bool : parser bool := b <- p_byte ;; pret (negb (b =? 0)).
Definition p_opt {A} (p : parser A) : parser (option A) :=
  t <- p_byte ;; if t =? 0 then pret None else (x <- p ;; pret (Some x)).
Fixpoint p_rep {A} (n : nat) (p : parser A) : parser (list A) :=
  match n with O => pret [] | S k => x <- p ;; r <- p_rep k p ;; pret (x :: r) end.
Definition p_Z : parser Z :=                                                      (* sign byte, length byte, big-endian magnitude *)
  sg <- p_byte ;; bs <- p_bytes ;;
  let v := Z.of_N (be_val bs) in pret (if sg =? 0 then v else (- v)%Z).
Definition p_nat : parser nat := b <- p_byte ;; pret (N.to_nat b).
Definition p_n2 : parser nat := a <- p_byte ;; b <- p_byte ;; pret (N.to_nat (a * 256 + b)).

Definition p_deposit : parser deposit :=
  t <- p_byte ;;
  if t =? 1 then (i <- p_bytes ;; a <- p_Z ;; r <- p_Z ;; e <- p_Z ;; s <- p_Z ;; u <- p_Z ;; pret (DV1 i a r e s u))
  else (r <- p_Z ;; pret (DV2 r)).

Definition p_dctx : parser dctx :=
  pr <- p_Z ;; h <- p_Z ;; tm <- p_Z ;; rt <- p_Z ;; tid <- p_bytes ;; on <- p_bool ;; pret (mkDC pr h tm rt tid on).

Definition p_aobs (nk : nat) : parser aobs :=
  bal <- p_Z ;; isc <- p_bool ;; own <- p_opt p_bytes ;; flg <- p_byte ;;
  nd <- p_nat ;; deps <- p_rep nd p_deposit ;; vals <- p_rep nk (p_opt p_bytes) ;;
  pret (AO bal isc own flg deps vals).

Definition p_cop (na nk : nat) : parser cop :=
  tag <- p_byte ;;
  match tag with
  | 0 => a <- p_byte ;; pret (cTouch a)
  | 1 => a <- p_byte ;; v <- p_Z ;; pret (cBal a v)
  | 2 => a <- p_byte ;; k <- p_byte ;; v <- p_bytes ;; old <- p_opt p_bytes ;; pret (cSet a k v old)
  | 3 => a <- p_byte ;; k <- p_byte ;; old <- p_opt p_bytes ;; pret (cDel a k old)
  | 4 => a <- p_byte ;; ow <- p_bytes ;; r <- p_bool ;; pret (cInit a ow r)
  | 5 => a <- p_byte ;; b <- p_bool ;; pret (cBlock a b)
  | 6 => a <- p_byte ;; b <- p_bool ;; pret (cDisable a b)
  | 7 => a <- p_byte ;; o <- p_aobs nk ;; pret (cLive a o)
  | 8 => a <- p_byte ;; o <- p_aobs nk ;; pret (cPeek a o)
  | 9 => i <- p_nat ;; o <- p_rep na (p_opt (p_aobs nk)) ;; pret (cObs i o)
  | 10 => i <- p_nat ;; o <- p_rep na (p_aobs nk) ;; pret (cRO i o)
  | 11 => c <- p_byte ;; o <- p_rep na (p_opt (p_aobs nk)) ;; pret (cSnap c o)
  | 12 => i <- p_nat ;; pret (cReset i)
  | 13 => pret cClear
  | 14 => i <- p_nat ;; pret (cFlush i)
  | 15 => i <- p_nat ;; pret (cReload i)
  | 16 => i <- p_nat ;; pret (cFromSnap i)
  | 17 => i <- p_nat ;; c <- p_byte ;; o <- p_rep na (p_opt (p_aobs nk)) ;; pret (cLoad i c o)
  | 18 => a <- p_byte ;; c <- p_dctx ;; v <- p_Z ;; ok <- p_bool ;; pret (cAddDep a c v ok)
  | 19 => a <- p_byte ;; c <- p_dctx ;; id <- p_bytes ;; v <- p_opt p_Z ;;
          r <- p_opt (x <- p_Z ;; y <- p_Z ;; pret (x, y)) ;; pret (cWithdraw a c id v r)
  | 20 => a <- p_byte ;; c <- p_dctx ;; st <- p_Z ;; pd <- p_opt p_Z ;; bd <- p_opt p_Z ;; pret (cPay a c st pd bd)
  | _ => fun _ => None
  end.

Definition p_case : parser case :=
  na <- p_nat ;; accts <- p_rep na p_bytes ;;
  nk <- p_nat ;; keys <- p_rep nk p_bytes ;;
  n1 <- p_n2 ;; h1 <- p_rep n1 (p_cop na nk) ;;
  n2 <- p_n2 ;; h2 <- p_rep n2 (p_cop na nk) ;;
  pret (CHist accts keys h1 h2).

(* the whole string must be consumed *)
Definition unpack (b : bytes) : option case :=
  match p_case b with Some (c, []) => Some c | _ => None end.

Definition out_eqb (a b : out) : bool :=
  match a, b with
  | RUnit, RUnit => true
  | RIllegal, RIllegal => true
  | RNil, RNil => true
  | RBal x, RBal y => (x =? y)%Z
  | RVal x, RVal y => opt_bytes_eqb x y
  | RInfo c o f, RInfo c' o' f' => Bool.eqb c c' && opt_bytes_eqb o o' && (f =? f')
  | RBool x, RBool y => Bool.eqb x y
  | RDeps x, RDeps y => deposits_eqb x y
  | RDep x, RDep y => opt_eqb (fun p q => opt_eqb Z.eqb (fst p) (fst q) && opt_eqb Z.eqb (snd p) (snd q)) x y
  | _, _ => false
  end.

Fixpoint outs_eqb (a b : list out) : bool :=
  match a, b with
  | [] , [] => true
  | x :: a', y :: b' => out_eqb x y && outs_eqb a' b'
  | _, _ => false
  end.

Section Decode.
  Variables accts keys : list bytes.
  Definition ta (i : N) : bytes := nth (N.to_nat i) accts [].
  Definition tk (i : N) : bytes := nth (N.to_nat i) keys [].

  (* the reads that make up one account observation, with the expected results *)
  Definition reads (t : target) (o : aobs) : list (op * out) :=
    match o with
    | AO bal isc own flg deps vals =>
        (ORead t QBalance, RBal bal) :: (ORead t QInfo, RInfo isc own flg) :: (ORead t QDeposits, RDeps deps) ::
        map (fun kv => (ORead t (QValue (fst kv)), RVal (snd kv))) (combine keys vals)
    end.

  Definition reads_opt (i : nat) (a : bytes) (o : option aobs) : list (op * out) :=
    match o with
    | None => [(ORead (TSnap i a) QBalance, RNil)]
    | Some x => reads (TSnap i a) x
    end.

  Definition obs_all (i : nat) (o : list (option aobs)) : list (op * out) :=
    flat_map (fun ao => reads_opt i (fst ao) (snd ao)) (combine accts o).

  (* decoding needs the index the next snapshot will get *)
  Definition dec (nsnap : nat) (c : cop) : list (op * out) * option N :=
    match c with
    | cTouch a => ([(OTouch (ta a), RUnit)], None)
    | cBal a v => ([(OSetBalance (ta a) v, RUnit)], None)
    | cSet a k v old => ([(OSetValue (ta a) (tk k) v, RVal old)], None)
    | cDel a k old => ([(ODelValue (ta a) (tk k), RVal old)], None)
    | cInit a owner r => ([(OInitContract (ta a) owner, RBool r)], None)
    | cBlock a b => ([(OSetBlock (ta a) b, RUnit)], None)
    | cDisable a b => ([(OSetDisable (ta a) b, RUnit)], None)
    | cAddDep a c v ok => ([(OAddDeposit (ta a) c v, RDep (if ok then Some (None, None) else None))], None)
    | cWithdraw a c id v r =>
        ([(OWithdrawDeposit (ta a) c id v, RDep (option_map (fun xy => (Some (fst xy), Some (snd xy))) r))], None)
    | cPay a c st pd bd => ([(OPaySteps (ta a) c st, RDep (Some (pd, bd)))], None)
    | cLive a o => (reads (TLive (ta a)) o, None)
    | cPeek a o => (reads (TPeek (ta a)) o, None)
    | cObs i o => (obs_all i o, None)
    | cRO i o => (flat_map (fun ao => reads (TRO i (fst ao)) (snd ao)) (combine accts o), None)
    | cSnap cls o => ((OGetSnapshot, RUnit) :: obs_all nsnap o, Some cls)
    | cReset i => ([(OReset i, RUnit)], None)
    | cClear => ([(OClearCache, RUnit)], None)
    | cFlush i => ([(OFlush i, RUnit)], None)
    | cReload i => ([(OReload i, RUnit)], None)
    | cFromSnap i => ([(OFromSnap i, RUnit)], None)
    | cLoad i cls o => ((OLoadSnap i, RUnit) :: obs_all nsnap o, Some cls)
    end.

  Fixpoint dec_all (nsnap : nat) (l : list cop) : list (op * out) * list N :=
    match l with
    | [] => ([], [])
    | c :: r =>
        let '(x, cl) := dec nsnap c in
        let n' := match cl with Some _ => S nsnap | None => nsnap end in
        let '(xs, cls) := dec_all n' r in
        (x ++ xs, match cl with Some q => q :: cls | None => cls end)
    end.

  (* run one history from the empty database: do the outputs agree, and which (class, snapshot) pairs arise *)
  Definition run_hist (l : list cop) : bool * list (N * trie) :=
    let '(d, cls) := dec_all 0 l in
    let '(s, outs) := run init (map fst d) in
    (outs_eqb outs (map snd d) && Nat.eqb (length cls) (length (s_snaps s)), combine cls (s_snaps s)).
End Decode.

(* equal class <-> logically equal contents, for every pair *)
Fixpoint part_ok (l : list (N * trie)) : bool :=
  match l with
  | [] => true
  | (c, t) :: r =>
      forallb (fun ct => Bool.eqb (c =? fst ct) (trie_equivb t (snd ct))) r && part_ok r
  end.

Definition check_hist (accts keys : list bytes) (h1 h2 : list cop) : bool :=
  let '(ok1, p1) := run_hist accts keys h1 in
  let '(ok2, p2) := run_hist accts keys h2 in
  ok1 && ok2 && part_ok (p1 ++ p2).

Definition check (c : case) : bool :=
  match c with
  | CHist accts keys h1 h2 => check_hist accts keys h1 h2
  | CPacked b =>
      match unpack b with
      | Some (CHist accts keys h1 h2) => check_hist accts keys h1 h2
      | _ => false
      end
  end.

Definition mismatches (l : list case) : list nat := failing check l.
