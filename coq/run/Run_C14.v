(* Run_C14.v — correspondence: run Model_WorldState on the histories the harness executed on
   state.NewWorldState over db.NewMapDB() and compare every observation; state hashes are
   compared as equality classes: the harness numbers the distinct hashes it saw (over both
   histories of a case), the model predicts the same partition of the snapshots from the
   logical equality of their contents (trie_equivb) — no SHA3 in Coq.
   A case carries its account-id table and key table; operations refer to them by index. *)
From Goloop Require Export lib.Bytes Model_WorldState.
Open Scope N_scope.

(* everything the harness reads from one account: balance, IsContract, owner, state flags,
   the value under every key of the key table (None = nil) *)
Inductive aobs := AO (bal : Z) (isc : bool) (own : option bytes) (flg : N) (vals : list (option bytes)).

Inductive cop :=
| cTouch (a : N)                                   (* GetAccountState only *)
| cBal (a : N) (v : Z)                             (* SetBalance *)
| cSet (a k : N) (v : bytes) (old : option bytes)  (* SetValue, observed old value *)
| cDel (a k : N) (old : option bytes)              (* DeleteValue, observed old value *)
| cInit (a : N) (owner : bytes) (r : bool)         (* InitContractAccount, observed result *)
| cBlock (a : N) (b : bool)
| cDisable (a : N) (b : bool)
| cLive (a : N) (o : aobs)                         (* read through GetAccountState *)
| cPeek (a : N) (o : aobs)                         (* read through ws.GetAccountSnapshot *)
| cObs (i : nat) (o : list (option aobs))          (* snapshot i, every account of the table; None = nil *)
| cRO (i : nat) (o : list aobs)                    (* NewReadOnlyWorldState(snapshot i), every account *)
| cSnap (cls : N) (o : list (option aobs))         (* GetSnapshot: hash class + observation of the new snapshot *)
| cReset (i : nat)
| cClear
| cFlush (i : nat)
| cReload (i : nat)
| cFromSnap (i : nat)
| cLoad (i : nat) (cls : N) (o : list (option aobs)).   (* NewWorldSnapshot from the hash of snapshot i *)

Inductive case := CHist (accts keys : list bytes) (h1 h2 : list cop).

Definition out_eqb (a b : out) : bool :=
  match a, b with
  | RUnit, RUnit => true
  | RIllegal, RIllegal => true
  | RNil, RNil => true
  | RBal x, RBal y => (x =? y)%Z
  | RVal x, RVal y => opt_bytes_eqb x y
  | RInfo c o f, RInfo c' o' f' => Bool.eqb c c' && opt_bytes_eqb o o' && (f =? f')
  | RBool x, RBool y => Bool.eqb x y
  | _, _ => false
  end.

Fixpoint outs_eqb (a b : list out) : bool :=
  match a, b with
  | [] , [] => true
  | x :: a', y :: b' => out_eqb x y && outs_eqb a' b'
  | _, _ => false
  end.

Section Decode.
  Variables accts keys : list bytes.
  Definition ta (i : N) : bytes := nth (N.to_nat i) accts [].
  Definition tk (i : N) : bytes := nth (N.to_nat i) keys [].

  (* the reads that make up one account observation, with the expected results *)
  Definition reads (t : target) (o : aobs) : list (op * out) :=
    match o with
    | AO bal isc own flg vals =>
        (ORead t QBalance, RBal bal) :: (ORead t QInfo, RInfo isc own flg) ::
        map (fun kv => (ORead t (QValue (fst kv)), RVal (snd kv))) (combine keys vals)
    end.

  Definition reads_opt (i : nat) (a : bytes) (o : option aobs) : list (op * out) :=
    match o with
    | None => [(ORead (TSnap i a) QBalance, RNil)]
    | Some x => reads (TSnap i a) x
    end.

  Definition obs_all (i : nat) (o : list (option aobs)) : list (op * out) :=
    flat_map (fun ao => reads_opt i (fst ao) (snd ao)) (combine accts o).

  (* decoding needs the index the next snapshot will get *)
  Definition dec (nsnap : nat) (c : cop) : list (op * out) * option N :=
    match c with
    | cTouch a => ([(OTouch (ta a), RUnit)], None)
    | cBal a v => ([(OSetBalance (ta a) v, RUnit)], None)
    | cSet a k v old => ([(OSetValue (ta a) (tk k) v, RVal old)], None)
    | cDel a k old => ([(ODelValue (ta a) (tk k), RVal old)], None)
    | cInit a owner r => ([(OInitContract (ta a) owner, RBool r)], None)
    | cBlock a b => ([(OSetBlock (ta a) b, RUnit)], None)
    | cDisable a b => ([(OSetDisable (ta a) b, RUnit)], None)
    | cLive a o => (reads (TLive (ta a)) o, None)
    | cPeek a o => (reads (TPeek (ta a)) o, None)
    | cObs i o => (obs_all i o, None)
    | cRO i o => (flat_map (fun ao => reads (TRO i (fst ao)) (snd ao)) (combine accts o), None)
    | cSnap cls o => ((OGetSnapshot, RUnit) :: obs_all nsnap o, Some cls)
    | cReset i => ([(OReset i, RUnit)], None)
    | cClear => ([(OClearCache, RUnit)], None)
    | cFlush i => ([(OFlush i, RUnit)], None)
    | cReload i => ([(OReload i, RUnit)], None)
    | cFromSnap i => ([(OFromSnap i, RUnit)], None)
    | cLoad i cls o => ((OLoadSnap i, RUnit) :: obs_all nsnap o, Some cls)
    end.

  Fixpoint dec_all (nsnap : nat) (l : list cop) : list (op * out) * list N :=
    match l with
    | [] => ([], [])
    | c :: r =>
        let '(x, cl) := dec nsnap c in
        let n' := match cl with Some _ => S nsnap | None => nsnap end in
        let '(xs, cls) := dec_all n' r in
        (x ++ xs, match cl with Some q => q :: cls | None => cls end)
    end.

  (* run one history from the empty database: do the outputs agree, and which (class, snapshot) pairs arise *)
  Definition run_hist (l : list cop) : bool * list (N * trie) :=
    let '(d, cls) := dec_all 0 l in
    let '(s, outs) := run init (map fst d) in
    (outs_eqb outs (map snd d) && Nat.eqb (length cls) (length (s_snaps s)), combine cls (s_snaps s)).
End Decode.

(* equal class <-> logically equal contents, for every pair *)
Fixpoint part_ok (l : list (N * trie)) : bool :=
  match l with
  | [] => true
  | (c, t) :: r =>
      forallb (fun ct => Bool.eqb (c =? fst ct) (trie_equivb t (snd ct))) r && part_ok r
  end.

Definition check (c : case) : bool :=
  match c with
  | CHist accts keys h1 h2 =>
      let '(ok1, p1) := run_hist accts keys h1 in
      let '(ok2, p2) := run_hist accts keys h2 in
      ok1 && ok2 && part_ok (p1 ++ p2)
  end.

Definition mismatches (l : list case) : list nat := failing check l.
