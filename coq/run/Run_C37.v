(* Run_C37.v — correspondence: evaluate Model_TxPool (over the locator model of
   C11) on what the harness observed on the REAL service manager:
   TransactionPool.Candidate through ProposeTransition / GetPatches, and the
   validation of a not-yet-validated transition (ensureRecordTXIDs +
   validateTxs) through Transition.Execute.  Reports differing indices. *)
From Goloop Require Import lib.Bytes Model_Locator Model_TxPool.
Open Scope Z_scope.

(* the locator state of a case is given by the history of tracker operations
   the transitions of the scenario performed so far (`h`, replayed by
   Model_Locator.run) and cross-checked against a snapshot of the real manager:
   the keys of m.locators and maxTSInDB of both groups *)
Record snapshot := { sn_locs : list N; sn_maxp : Z; sn_maxn : Z }.

Inductive case :=
| CCand (h : list op) (sn : snapshot)
        (p : nat)                         (* tracker (of group g) of the parent transition *)
        (fe : fee) (g : bool) (ms bts maxB maxC : Z)
        (pool : list pelem)               (* the pool in iteration order *)
        (perr : list N)                   (* class of e.err per element BEFORE the call (elements that
                                             stayed in the pool after an earlier Candidate call) *)
        (bal : list (N * Z))              (* balances of the parent's world state *)
        (sel : list N)                    (* observed: ids returned by Candidate, in order *)
        (errs : list N)                   (* observed: class of e.err per element after the call *)
        (removed : option (list bool))    (* observed: element no longer in the pool (None: not observed) *)
        (verdict : N)                     (* observed: class of the validation of the proposed list *)
| CVal (h : list op) (sn : snapshot) (p : nat)
       (fe : fee) (g : bool) (ms bts : Z)
       (txs : list tx) (bal : list (N * Z))
       (verdict : N).                     (* observed: class of the validation of txs *)

(* short constructors for the cases files *)
Definition T (id : N) (g : bool) (from to : N) (value step cnt ts size : Z) : tx :=
  {| x_id := id; x_grp := g; x_from := from; x_to := to; x_value := value;
     x_step := step; x_cnt := cnt; x_ts := ts; x_size := size |}.
Definition E (t : tx) (d : bool) : pelem := {| p_tx := t; p_direct := d |}.
Definition F (price cdefault cinput : Z) : fee :=
  {| f_price := price; f_default := cdefault; f_input := cinput |}.
Definition SN (l : list N) (p n : Z) : snapshot := {| sn_locs := l; sn_maxp := p; sn_maxn := n |}.

Definition bal_of (l : list (N * Z)) : balances :=
  fun a => match find (fun q => (fst q =? a)%N) l with
           | Some q => snd q
           | None => 0
           end.

Fixpoint list_eqb {A} (eqb : A -> A -> bool) (a b : list A) : bool :=
  match a, b with
  | [], [] => true
  | x :: a', y :: b' => eqb x y && list_eqb eqb a' b'
  | _, _ => false
  end.

Definition subset (a b : list N) : bool := forallb (fun x => mem x b) a.

Definition snap_ok (st : state) (sn : snapshot) : bool :=
  let m := s_mgr st in
  subset (m_locs m) (sn_locs sn) && subset (sn_locs sn) (m_locs m)
  && (c_max (m_cp m) =? sn_maxp sn) && (c_max (m_cn m) =? sn_maxn sn).

(* the class of e.err Candidate leaves on an element *)
Definition err_of (v : verdict) : N :=
  match v with
  | VExpired => cExpired
  | VHas => cState            (* InvalidStateError "AlreadyProcessed" *)
  | VPre c _ => c
  | _ => cOk
  end.

(* e.err is sticky: Expired / PreValidate write it only when it is nil,
   AlreadyProcessed overwrites, nothing clears it *)
Definition err_after (prior : N) (v : verdict) : N :=
  match v with
  | VHas => cState
  | VExpired | VPre _ _ => if (prior =? cOk)%N then err_of v else prior
  | _ => prior
  end.

Fixpoint errs_after (perr : list N) (vs : list verdict) : list N :=
  match vs with
  | [] => []
  | v :: r => match perr with
              | [] => err_after cOk v :: errs_after [] r
              | q :: perr' => err_after q v :: errs_after perr' r
              end
  end.

Definition removed_of (v : verdict) : bool :=
  match v with
  | VExpired | VHas => true
  | VPre _ d => d
  | _ => false
  end.

Definition check (c : case) : bool :=
  match c with
  | CCand h sn p fe g ms bts maxB maxC pool perr bal sel errs removed verdict =>
      let st := run init h in
      let b := bal_of bal in
      let vs := cand_verdicts (s_mgr st) fe g ms bts maxB maxC pool b in
      let chosen := selected pool vs in
      snap_ok st sn
      && list_eqb N.eqb (map x_id chosen) sel
      && list_eqb N.eqb (errs_after perr vs) errs
      && match removed with
         | None => true
         | Some r => list_eqb Bool.eqb (map removed_of vs) r
         end
      && match validate_block st p fe g ms bts chosen b with
         | Some v => (v =? verdict)%N
         | None => false
         end
  | CVal h sn p fe g ms bts txs bal verdict =>
      let st := run init h in
      snap_ok st sn
      && match validate_block st p fe g ms bts txs (bal_of bal) with
         | Some v => (v =? verdict)%N
         | None => false
         end
  end.

Definition mismatches (l : list case) : list nat := failing check l.
