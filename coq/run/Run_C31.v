(* Run_C31.v - correspondence: evaluate Model_SecureChan on the sessions and key
   set-ups the harness ran on network/secure.go and report differing indices.
   The AEAD of the model run is the stand-in toy_seal/toy_open (the harness
   checks the real ciphertexts itself); what is compared is every value the two
   ends return: (n, bytes, error class) of each Read, n of each Write, and the
   header and length of every frame put on the wire. *)
From Goloop Require Export lib.Bytes Model_SecureChan.
Open Scope N_scope.

Inductive side := SA | SB.

(* man-in-the-middle operations on the queue of frames of one direction *)
Inductive mut :=
| MFlip (idx pos : N) (mask : N)      (* xor one byte of queued chunk idx *)
| MSwap (i j : N)
| MDup (i : N)
| MDrop (i : N)
| MTrunc (i keep : N).                (* cut chunk i to its first `keep` bytes (keep >= 1) *)

(* the bytes of a Write, written compactly: the harness generated them with the
   same rule (the case files stay small; Coq's parser is the bottleneck) *)
Inductive dsrc :=
| DLcg (seed : N) (len : N)        (* x := (x*75+74) mod 65537; byte := x mod 256 *)
| DConst (v : N) (len : N)
| DCount (len : N)                 (* i mod 256 *)
| DLit (b : bytes).

Fixpoint lcg_bytes (len : nat) (x : N) : bytes :=
  match len with
  | O => []
  | S k => let x' := (x * 75 + 74) mod 65537 in x' mod 256 :: lcg_bytes k x'
  end.
Definition gen_data (d : dsrc) : bytes :=
  match d with
  | DLcg seed len => lcg_bytes (N.to_nat len) seed
  | DConst v len => repeat v (N.to_nat len)
  | DCount len => map (fun i => N.of_nat i mod 256) (seq 0 (N.to_nat len))
  | DLit b => b
  end.

(* the bytes a Read left in the caller's buffer: literally, or as "bytes off..off+len
   of what was written on that direction" (the harness writes the reference only
   when the buffer content equals that slice byte for byte) *)
Inductive odata := OLit (b : bytes) | ORef (off len : N).

Inductive sop :=
| SWrite (s : side) (data : dsrc)
| SRead (s : side) (size : N)
| SClose (s : side)
| SMitm (from : side) (m : mut).

Inductive sobs :=
| OW (n : N)
| OR (n : N) (data : odata) (err : option rerr)
| ONone.

Inductive case :=
| CSess (oh : N) (nonceAB nonceBA : bytes) (ops : list sop) (obs : list sobs)
        (framesAB framesBA : list (bytes * N))
| CKeys (ax ay bx by_ : N) (da db : bool) (sa : suite) (num : N) (a_ok b_ok : bool)
        (obsA obsB : option (bool * list bytes * bytes * option (bytes * bytes))).

(* ---------------- the frame queue of the harness pipe ---------------- *)
Fixpoint drop_bytes (k : nat) (q : list bytes) : list bytes :=
  match q with
  | [] => []
  | c :: r => if (length c <=? k)%nat then drop_bytes (k - length c) r else skipn k c :: r
  end.

Fixpoint upd {A} (i : nat) (f : A -> list A) (l : list A) : list A :=
  match l, i with
  | [], _ => []
  | x :: r, O => f x ++ r
  | x :: r, S i' => x :: upd i' f r
  end.

Fixpoint flip_at (pos : nat) (mask : N) (c : bytes) : bytes :=
  match c, pos with
  | [], _ => []
  | b :: r, O => N.lxor b mask :: r
  | b :: r, S p => b :: flip_at p mask r
  end.

Definition apply_mut (m : mut) (q : list bytes) : list bytes :=
  match m with
  | MFlip idx pos mask => upd (N.to_nat idx) (fun c => [flip_at (N.to_nat pos) mask c]) q
  | MSwap i j =>
      match nth_error q (N.to_nat i), nth_error q (N.to_nat j) with
      | Some ci, Some cj => upd (N.to_nat i) (fun _ => [cj]) (upd (N.to_nat j) (fun _ => [ci]) q)
      | _, _ => q
      end
  | MDup i => upd (N.to_nat i) (fun c => [c; c]) q
  | MDrop i => upd (N.to_nat i) (fun _ => []) q
  | MTrunc i keep => upd (N.to_nat i) (fun c => [firstn (N.to_nat keep) c]) q
  end.

(* ---------------- one direction ---------------- *)
Record dir := { d_key : bytes; d_wnonce : bytes; d_q : list bytes; d_closed : bool; d_rst : rstate;
                d_frames : list (bytes * N); d_written : bytes }.

Definition dir_init (key nonce : bytes) : dir :=
  {| d_key := key; d_wnonce := nonce; d_q := []; d_closed := false;
     d_rst := {| rs_nonce := nonce; rs_pending := [] |}; d_frames := []; d_written := [] |}.

Definition d_write (oh : nat) (d : dir) (data : bytes) : dir :=
  let (fs, n') := write (toy_seal oh) (d_key d) (d_wnonce d) data in
  {| d_key := d_key d; d_wnonce := n'; d_q := d_q d ++ fs; d_closed := d_closed d; d_rst := d_rst d;
     d_frames := d_frames d ++ map (fun f => (firstn 4 f, N.of_nat (length f))) fs; d_written := d_written d ++ data |}.

Definition d_read (oh : nat) (d : dir) (size : nat) : dir * rres :=
  let flat := concat (d_q d) in
  let '(res, st', rest) := read (toy_open oh) oh (d_key d) (d_rst d) flat (d_closed d) size in
  ({| d_key := d_key d; d_wnonce := d_wnonce d; d_q := drop_bytes (length flat - length rest) (d_q d);
      d_closed := d_closed d; d_rst := st'; d_frames := d_frames d; d_written := d_written d |}, res).

Definition d_close (d : dir) : dir :=
  {| d_key := d_key d; d_wnonce := d_wnonce d; d_q := d_q d; d_closed := true; d_rst := d_rst d;
     d_frames := d_frames d; d_written := d_written d |}.

Definition d_mitm (d : dir) (m : mut) : dir :=
  {| d_key := d_key d; d_wnonce := d_wnonce d; d_q := apply_mut m (d_q d); d_closed := d_closed d;
     d_rst := d_rst d; d_frames := d_frames d; d_written := d_written d |}.

(* ---------------- a session: A->B is `ab`, B->A is `ba` ---------------- *)
(* what the model expects one step to return; read data stays literal *)
Inductive mobs := MW (n : N) | MR (n : N) (data : bytes) (err : option rerr) (written : bytes) | MNone.

Definition sstep (oh : nat) (st : dir * dir) (o : sop) : (dir * dir) * mobs :=
  let (ab, ba) := st in
  match o with
  | SWrite SA src => let data := gen_data src in ((d_write oh ab data, ba), MW (N.of_nat (length data)))
  | SWrite SB src => let data := gen_data src in ((ab, d_write oh ba data), MW (N.of_nat (length data)))
  | SRead SB size => let (ab', r) := d_read oh ab (N.to_nat size) in ((ab', ba), MR (r_n r) (r_data r) (r_err r) (d_written ab))
  | SRead SA size => let (ba', r) := d_read oh ba (N.to_nat size) in ((ab, ba'), MR (r_n r) (r_data r) (r_err r) (d_written ba))
  | SClose SA => ((d_close ab, ba), MNone)
  | SClose SB => ((ab, d_close ba), MNone)
  | SMitm SA m => ((d_mitm ab m, ba), MNone)
  | SMitm SB m => ((ab, d_mitm ba m), MNone)
  end.

Fixpoint srun (oh : nat) (st : dir * dir) (ops : list sop) : list mobs * (dir * dir) :=
  match ops with
  | [] => ([], st)
  | o :: r => let (st1, x) := sstep oh st o in
              let (xs, st2) := srun oh st1 r in (x :: xs, st2)
  end.

Definition rerr_eqb (a b : rerr) : bool :=
  match a, b with
  | EEof, EEof | EShort, EShort | EAuth, EAuth | EBlock, EBlock => true
  | _, _ => false
  end.
Definition oerr_eqb (a b : option rerr) : bool :=
  match a, b with
  | None, None => true
  | Some x, Some y => rerr_eqb x y
  | _, _ => false
  end.
Definition resolve (written : bytes) (d : odata) : bytes :=
  match d with
  | OLit b => b
  | ORef off len => firstn (N.to_nat len) (skipn (N.to_nat off) written)
  end.
Definition sobs_eqb (a : mobs) (b : sobs) : bool :=
  match a, b with
  | MW n, OW m => n =? m
  | MR n d e w, OR m d' e' => (n =? m) && bytes_eqb d (resolve w d') && oerr_eqb e e'
  | MNone, ONone => true
  | _, _ => false
  end.
Fixpoint list_eqb {A B} (f : A -> B -> bool) (a : list A) (b : list B) : bool :=
  match a, b with
  | [], [] => true
  | x :: a', y :: b' => f x y && list_eqb f a' b'
  | _, _ => false
  end.
Definition frame_eqb (a b : bytes * N) : bool := bytes_eqb (fst a) (fst b) && (snd a =? snd b).

(* ---------------- key set-up ---------------- *)
Definition pair_eqb (a b : bytes * bytes) : bool := bytes_eqb (fst a) (fst b) && bytes_eqb (snd a) (snd b).
Definition opair_eqb (a b : option (bytes * bytes)) : bool :=
  match a, b with
  | None, None => true
  | Some x, Some y => pair_eqb x y
  | _, _ => false
  end.

(* the model's view of one end, with the HKDF blocks the harness saw at that end *)
Definition end_view (mine peer : pubkey) (peer_ok : bool) (dflt : bool) (sa : suite) (num : nat)
           (blocks : list bytes) : option (bool * list bytes * bytes * option (bytes * bytes)) :=
  match setup pubkey unit (fun p => p) (fun _ _ => tt) (fun _ _ i => nth i blocks [])
              mine (if peer_ok then Some peer else None) dflt sa num with
  | None => None
  | Some k => Some (k_lower k, k_secret k, k_extra k, conn_secrets k sa)
  end.

Definition view_eqb (a b : option (bool * list bytes * bytes * option (bytes * bytes))) : bool :=
  match a, b with
  | None, None => true
  | Some (l1, s1, e1, c1), Some (l2, s2, e2, c2) =>
      Bool.eqb l1 l2 && list_eqb bytes_eqb s1 s2 && bytes_eqb e1 e2 && opair_eqb c1 c2
  | _, _ => false
  end.

Definition blocks_of (o : option (bool * list bytes * bytes * option (bytes * bytes))) : list bytes :=
  match o with Some (_, s, e, _) => s ++ [e] | None => [] end.

Definition check (c : case) : bool :=
  match c with
  | CSess oh nab nba ops obs fab fba =>
      let '(xs, (ab, ba)) := srun (N.to_nat oh) (dir_init [1] nab, dir_init [2] nba) ops in
      list_eqb sobs_eqb xs obs && list_eqb frame_eqb (d_frames ab) fab && list_eqb frame_eqb (d_frames ba) fba
  | CKeys ax ay bx by_ da db sa num' a_ok b_ok obsA obsB =>
      let num := N.to_nat num' in
      let pa := {| pk_x := ax; pk_y := ay |} in
      let pb := {| pk_x := bx; pk_y := by_ |} in
      (* each end against the model, fed with the blocks seen at that end ... *)
      view_eqb (end_view pa pb b_ok da sa num (blocks_of obsA)) obsA &&
      view_eqb (end_view pb pa a_ok db sa num (blocks_of obsB)) obsB &&
      (* ... and both ends against the model fed with the blocks of end A (ECDH agrees) *)
      (match obsA, obsB with
       | Some _, Some _ => view_eqb (end_view pb pa a_ok db sa num (blocks_of obsA)) obsB
       | _, _ => true
       end)
  end.

Definition mismatches (l : list case) : list nat := failing check l.
