(* Run_C29.v — correspondence: Model_BTPProof evaluated on the proofs the
   harness put through BTPProofContext.Verify / VerifyPart and
   proofContextMap.Verify, with the harness's ground truth for every signature. *)
From Goloop Require Export lib.Bytes Model_Quorum Model_BTPProof.
Open Scope N_scope.

Inductive part_obs :=
| PIndex (i : N)     (* VerifyPart returned this index, nil error *)
| PError
| PCrash.

Inductive hist_op :=
| HUpdate (from : N) (changed : list (Z * list (option N))) (inactivated : list Z)
| HVerify (on : N) (src : bytes) (height round : Z) (digests : list (Z * bytes))
          (proofs : list (option (list (option bsig)))) (accepted : bool)
| HHas (on : N) (ntid : Z) (present : bool).
Arguments HVerify on%N src height%Z round%Z digests proofs accepted.
Arguments HHas on%N ntid%Z present.

(* key numbers are printed as N numerals and converted here *)
Inductive case :=
(* pc.Verify(decision hash, proof) *)
| CVerify (d : decision) (vals : list (option N)) (sigs : list (option bsig)) (accepted : bool)
(* pc.VerifyPart(decision hash, part{idx, sig}) *)
| CPart (d : decision) (vals : list (option N)) (idx : Z) (s : option bsig) (o : part_obs)
(* ONE decoded part object, VerifyPart called on it once per decision, in order *)
| CPartSeq (vals : list (option N)) (idx : Z) (s : option bsig) (calls : list (decision * part_obs))
(* ONE proof object (decoded, or built with NewProof + Add), Verify called once per decision *)
| CVerifySeq (vals : list (option N)) (sigs : list (option bsig)) (calls : list (decision * bool))
(* a history over proof-context-map versions: version 0 = m0, each HUpdate derives
   a new version from an existing one through proofContextMap.Update; HVerify and
   HHas query any version, with the observed answer *)
| CPcmHist (m0 : list (Z * list (option N))) (ops : list hist_op)
(* proofContextMap.Verify(src, height, round, digest, proofs) *)
| CPcm (src : bytes) (height round : Z) (ctxs : list (Z * list (option N)))
       (digests : list (Z * bytes)) (proofs : list (option (list (option bsig)))) (accepted : bool).
Arguments CPart d vals idx%Z s o.
Arguments CPartSeq vals idx%Z s calls.
Arguments CPcm src height%Z round%Z ctxs digests proofs accepted.

(* printing helpers for the harness *)
Fixpoint le_sh (n : nat) (v : N) : bytes :=
  match n with
  | O => []
  | S k => N.land v 255 :: le_sh k (N.shiftr v 8)
  end.
Definition hx (n : nat) (v : N) : bytes := rev (le_sh n v).
Arguments hx n%nat v%N.

Definition Dc (src : bytes) (ntid height round : Z) (h : bytes) : decision := Decision src ntid height round h.
Arguments Dc src ntid%Z height%Z round%Z h.

Definition Sg (k : N) (d : decision) : option bsig := Some (BSigned (N.to_nat k) d).
Definition Jk : option bsig := Some BJunk.
Definition Un : option bsig := Some BUnrec.
Definition No : option bsig := None.
Definition Cx (ntid : Z) (vals : list (option N)) : Z * list (option N) := (ntid, vals).
Arguments Cx ntid%Z vals.
Definition Dg (ntid : Z) (h : bytes) : Z * bytes := (ntid, h).
Arguments Dg ntid%Z h.

Definition keys (l : list (option N)) : list (option nat) := map (option_map N.to_nat) l.

Definition part_obs_ok (m : option nat) (o : part_obs) : bool :=
  match m, o with
  | Some i, PIndex j => Nat.eqb i (N.to_nat j)
  | None, PError => true
  | _, _ => false
  end.

Fixpoint all2 {A B} (f : A -> B -> bool) (a : list A) (b : list B) : bool :=
  match a, b with
  | [], [] => true
  | x :: a', y :: b' => f x y && all2 f a' b'
  | _, _ => false
  end.

Definition kctxs (l : list (Z * list (option N))) : list (Z * list (option baddr)) :=
  bt_ctxs (map (fun kv => (fst kv, keys (snd kv))) l).

Definition hist_model_op (o : hist_op) : pcm_op :=
  match o with
  | HUpdate from ch inact => PUpdate (N.to_nat from) (kctxs ch) inact
  | HVerify on src h r dg pf _ => PVerify (N.to_nat on) src h r dg pf
  | HHas on ntid _ => PHas (N.to_nat on) ntid
  end.

Definition hist_obs (o : hist_op) : option bool :=
  match o with
  | HUpdate _ _ _ => None
  | HVerify _ _ _ _ _ _ a => Some a
  | HHas _ _ p => Some p
  end.

Definition opt_bool_eqb (a b : option bool) : bool :=
  match a, b with
  | None, None => true
  | Some x, Some y => Bool.eqb x y
  | _, _ => false
  end.

Definition check (c : case) : bool :=
  match c with
  | CPcmHist m0 ops =>
      all2 opt_bool_eqb (pcm_run baddr_eqb bt_recover [kctxs m0] (map hist_model_op ops)) (map hist_obs ops)
  | CPartSeq vals idx s calls =>
      all2 part_obs_ok (bt_part_session (keys vals) idx s (map fst calls)) (map snd calls)
  | CVerifySeq vals sigs calls =>
      all2 Bool.eqb (bt_verify_session (keys vals) sigs (map fst calls)) (map snd calls)
  | CVerify d vals sigs acc => Bool.eqb (bt_verify d (keys vals) sigs) acc
  | CPart d vals idx s o =>
      match bt_verify_part d (keys vals) idx s, o with
      | Some i, PIndex j => Nat.eqb i (N.to_nat j)
      | None, PError => true
      | _, _ => false
      end
  | CPcm src h r ctxs digests proofs acc =>
      Bool.eqb (bt_pcm_verify src h r (map (fun kv => (fst kv, keys (snd kv))) ctxs) digests proofs) acc
  end.

Definition mismatches (l : list case) : list nat := failing check l.
