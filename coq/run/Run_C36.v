(* Run_C36.v — correspondence: evaluate Model_Address on the cases the harness
   observed on common.Address / jsonrpc validator, report differing indices. *)
From Goloop Require Import lib.Bytes Model_Address.
Open Scope N_scope.

Inductive case :=
| CStr (s : bytes) (strict : option (bool * bytes)) (regex : bool)
| CAddr (contract : bool) (id : bytes) (str : bytes) (bin : bytes)
| CBytes (b : bytes) (res : option (bool * bytes)).

Definition proj (o : option address) : option (bool * bytes) :=
  option_map (fun a => (a_contract a, a_id a)) o.

Definition obs_eqb (a b : option (bool * bytes)) : bool :=
  match a, b with
  | None, None => true
  | Some (c1, i1), Some (c2, i2) => Bool.eqb c1 c2 && bytes_eqb i1 i2
  | _, _ => false
  end.

Definition check (c : case) : bool :=
  match c with
  | CStr s strict regex =>
      obs_eqb (proj (parse_strict s)) strict && Bool.eqb (rpc_regex s) regex
  | CAddr c id str bin =>
      let a := {| a_contract := c; a_id := id |} in
      bytes_eqb (to_string a) str && bytes_eqb (to_bytes a) bin
  | CBytes b res => obs_eqb (proj (of_bytes b)) res
  end.

Definition mismatches (l : list case) : list nat := failing check l.
