(* Run_C02.v — correspondence: replay the event histories the harness observed on
   one real consensus engine in Model_ConsensusNode and compare, after EVERY
   event, (a) the exact sequence of outputs of the engine (WAL writes with the
   decoded record, WAL syncs, votes / proposals / parts / vote lists handed to
   the network, Propose / ImportBlock / Finalize calls) and (b) the state tuple
   (status, round, step, lockedRound, locked block, proposal POL round, current
   part set id and its complete / has-block / validated flags, timer armed).
   A crash inside an event is replayed with the model's fuse. *)
From Goloop Require Export lib.Bytes Model_ConsensusNode.
From Coq Require Import ZArith.
Open Scope N_scope.

Record obs := mkObs {
  o_status : N;          (* 0 running, 1 down, 2 decided *)
  o_round : Z; o_step : N; o_lr : Z; o_locked : option N; o_pol : Z;
  o_cur : option N; o_complete : bool; o_block : bool; o_valid : bool; o_timer : bool
}.

Record tev := mkEv {
  t_ev : event;
  t_delay : bool;
  t_outs : list out;
  t_post : option obs;
  t_cut : option nat
}.

Record case := mkCase { c_n : N; c_own : N; c_blocks : list blk; c_evs : list tev }.

Definition vote_eq (a b : vote) : bool := vote_eqb a b.

Fixpoint list_eqb {A} (f : A -> A -> bool) (a b : list A) : bool :=
  match a, b with
  | [], [] => true
  | x :: a', y :: b' => f x y && list_eqb f a' b'
  | _, _ => false
  end.

Definition wal_eqb (a b : wal) : bool :=
  match a, b with WRound, WRound | WLock, WLock | WCommit, WCommit => true | _, _ => false end.

Definition wrec_eqb (a b : wrec) : bool :=
  match a, b with
  | RVote v, RVote w => vote_eq v w
  | RProposal r b p, RProposal r' b' p' => Z.eqb r r' && N.eqb b b' && Z.eqb p p'
  | RVoteList l, RVoteList l' => list_eqb vote_eq l l'
  | RPart b i, RPart b' i' => N.eqb b b' && N.eqb i i'
  | _, _ => false
  end.

Definition out_eqb (a b : out) : bool :=
  match a, b with
  | OWrite w r, OWrite w' r' => wal_eqb w w' && wrec_eqb r r'
  | OSync w, OSync w' => wal_eqb w w'
  | OSendVote v, OSendVote v' => vote_eq v v'
  | OSendProposal r b p, OSendProposal r' b' p' => Z.eqb r r' && N.eqb b b' && Z.eqb p p'
  | OSendPart b i, OSendPart b' i' => N.eqb b b' && N.eqb i i'
  | OSendVoteList l, OSendVoteList l' => list_eqb vote_eq l l'
  | OImportReq b f e, OImportReq b' f' e' => N.eqb b b' && Bool.eqb f f' && Bool.eqb e e'
  | OProposeReq e, OProposeReq e' => Bool.eqb e e'
  | OFinalize b, OFinalize b' => N.eqb b b'
  | _, _ => false
  end.

Definition optN_eqb (a b : option N) : bool :=
  match a, b with
  | None, None => true
  | Some x, Some y => N.eqb x y
  | _, _ => false
  end.

Definition status_code (s : status) : N :=
  match s with Running => 0 | Down => 1 | Decided => 2 end.

Definition obs_of (blocks : list blk) (s : st) : obs :=
  mkObs (status_code (status_ s)) (round s) (step_code (stp s)) (locked_round s) (bps_id (locked s))
        (pol_round s) (bps_id (cur s)) (cur_complete blocks s) (cur_hasblock s) (cur_valid s) (timer s).

Definition obs_eqb (a b : obs) : bool :=
  N.eqb (o_status a) (o_status b) &&
  (negb (N.eqb (o_status a) 0) ||
   (Z.eqb (o_round a) (o_round b) && N.eqb (o_step a) (o_step b) && Z.eqb (o_lr a) (o_lr b)
    && optN_eqb (o_locked a) (o_locked b) && Z.eqb (o_pol a) (o_pol b) && optN_eqb (o_cur a) (o_cur b)
    && Bool.eqb (o_complete a) (o_complete b) && Bool.eqb (o_block a) (o_block b)
    && Bool.eqb (o_valid a) (o_valid b) && Bool.eqb (o_timer a) (o_timer b))).

Section Replay.
  Variable n : nat.
  Variable own : Z.
  Variable blocks : list blk.

  (* (all events so far agree, model state) *)
  Definition check_ev (acc : bool * st) (e : tev) : bool * st :=
    let '(ok, s) := acc in
    let full := step_ev n own blocks (t_delay e) (t_ev e) None s in
    let ok1 := list_eqb out_eqb (outs full) (t_outs e) in
    let ok2 := match t_post e with
               | Some o => obs_eqb (obs_of blocks full) o
               | None => true
               end in
    let next := match t_cut e with
                | None => full
                | Some j => step_ev n own blocks (t_delay e) (t_ev e) (Some j) s
                end in
    (ok && ok1 && ok2, next).

  (* index of the first disagreeing event (debugging aid) *)
  Fixpoint first_bad (i : nat) (s : st) (l : list tev) : option nat :=
    match l with
    | [] => None
    | e :: r => let '(ok, s') := check_ev (true, s) e in
                if ok then first_bad (S i) s' r else Some i
    end.
End Replay.

Definition check (c : case) : bool :=
  fst (fold_left (check_ev (N.to_nat (c_n c)) (Z.of_N (c_own c)) (c_blocks c)) (c_evs c) (true, init)).

Definition where_bad (c : case) : option nat :=
  first_bad (N.to_nat (c_n c)) (Z.of_N (c_own c)) (c_blocks c) 0 init (c_evs c).

(* model state / outputs after the first k events (debugging aid) *)
Definition replay_to (c : case) (k : nat) : st :=
  snd (fold_left (check_ev (N.to_nat (c_n c)) (Z.of_N (c_own c)) (c_blocks c)) (firstn k (c_evs c)) (true, init)).

Definition mismatches (l : list case) : list nat := failing check l.
