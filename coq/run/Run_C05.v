(* Run_C05.v — correspondence: Model_CommitVoteList evaluated on the lists the
   harness put through CommitVoteList.VerifyBlock (and through block proposal /
   import), with the harness's ground truth for every signature. *)
From Goloop Require Export lib.Bytes Model_Quorum Model_CommitVoteList.
From Goloop Require Import Model_VoteSet Model_FastSync.
Open Scope N_scope.

Inductive obs :=
| OAccept (voted : list bool)
| OReject
| OCrash.

(* key numbers and counts are printed as N numerals and converted here *)
Inductive case :=
(* VerifyBlock(block{height,bid}, vals) on a list {round, ps, items} *)
| CVerify (height round : Z) (bid : bytes) (ps : psid) (vals : option (list N))
          (items : list (Z * gsig)) (o : obs)
(* ONE decoded list object, VerifyBlock called once per (height, block id), in order *)
| CVerifySeq (round : Z) (ps : psid) (vals : option (list N)) (items : list (Z * gsig))
             (calls : list (Z * bytes * obs))
(* the same list carried by a block that is proposed / imported on a fixture chain *)
| CChain (height round : Z) (bid : bytes) (ps : psid) (vals : list N)
         (items : list (Z * gsig)) (accepted : bool)
(* the list handed to consensus together with block `bid` by fast sync
   (ReceiveBlockResult -> processBlock) on a node without votes of that round;
   real = the block's own part-set id (count, hash); consumed = not rejected *)
| CFastSync (height round : Z) (bid : bytes) (ps : psid) (real : N * bytes) (vals : list N)
            (items : list (Z * gsig)) (consumed : bool)
(* fast sync with history: `prior` = precommits of round r that reached the node
   by gossip before ((validator position, decision id), timestamp), decision ids:
   0 nil, others as numbered by the harness; then the list (round r, part set ps,
   items) is delivered with block bid; dl = decision id of the list's own votes;
   good = the decision ids whose part set is the delivered block's *)
| CFastSyncH (prior : list (N * N * Z)) (height round : Z) (bid : bytes) (ps : psid) (dl : N)
             (good : list N) (vals : list N) (items : list (Z * gsig)) (consumed : bool)
(* enoughVote(voted, voters) *)
| CEnough (voted voters : N) (r : bool).
Arguments CFastSyncH prior height%Z round%Z bid ps dl good vals items consumed.
Arguments CFastSync height%Z round%Z bid ps real vals items consumed.
Arguments CVerify height%Z round%Z bid ps vals items o.
Arguments CVerifySeq round%Z ps vals items calls.
Arguments CChain height%Z round%Z bid ps vals items accepted.

(* printing helpers for the harness.
   hx n v: the n-byte big-endian string of v (shifts and masks only, so that
   vm_compute stays cheap on 256-bit values). *)
Fixpoint le_sh (n : nat) (v : N) : bytes :=
  match n with
  | O => []
  | S k => N.land v 255 :: le_sh k (N.shiftr v 8)
  end.
Definition hx (n : nat) (v : N) : bytes := rev (le_sh n v).
Arguments hx n%nat v%N.

(* a correct signature of key k over the message (h, r, type, bid, ps, ts) *)
Definition Sg (k : N) (h r : Z) (precommit : bool) (bid : bytes) (ps : psid) (ts : Z) : gsig :=
  Signed (N.to_nat k) (VoteMsg h r (if precommit then Precommit else Prevote) bid ps ts).
Arguments Sg k%N h%Z r%Z precommit bid ps ts%Z.

(* an item: carried timestamp and signature *)
Definition It (ts : Z) (s : gsig) : Z * gsig := (ts, s).
Arguments It ts%Z s.

(* the usual item: key k's precommit signature over (h, r, bid, ps) and the
   very timestamp the item carries *)
(* a gossiped precommit: validator position, decision id, timestamp *)
Definition Pv (i d : N) (ts : Z) : N * N * Z := (i, d, ts).
Arguments Pv i%N d%N ts%Z.

Definition Ok (h r : Z) (bid : bytes) (ps : psid) (k : N) (ts : Z) : Z * gsig :=
  (ts, Sg k h r true bid ps ts).
Arguments Ok h%Z r%Z bid ps k%N ts%Z.

Fixpoint bools_eqb (a b : list bool) : bool :=
  match a, b with
  | [], [] => true
  | x :: a', y :: b' => Bool.eqb x y && bools_eqb a' b'
  | _, _ => false
  end.

Definition keys (l : list N) : list nat := map N.to_nat l.

Definition obs_ok (m : outcome) (o : obs) : bool :=
  match m, o with
  | Accept v, OAccept v' => bools_eqb v v'
  | Reject, OReject => true
  | _, _ => false
  end.

Fixpoint all2 {A B} (f : A -> B -> bool) (a : list A) (b : list B) : bool :=
  match a, b with
  | [], [] => true
  | x :: a', y :: b' => f x y && all2 f a' b'
  | _, _ => false
  end.

(* one call of a sequence: height, block id, observed verdict *)
Definition Cl (h : Z) (bid : bytes) (o : obs) : Z * bytes * obs := (h, bid, o).
Arguments Cl h%Z bid o.

Definition check (c : case) : bool :=
  match c with
  | CVerifySeq r ps vals items calls =>
      all2 obs_ok (gt_verify_session r ps (option_map keys vals) items (map fst calls)) (map snd calls)
  | CVerify h r bid ps vals items o =>
      match gt_verify_block h r bid ps (option_map keys vals) items, o with
      | Accept v, OAccept v' => bools_eqb v v'
      | Reject, OReject => true
      | _, _ => false
      end
  | CChain h r bid ps vals items acc =>
      match gt_verify_block h r bid ps (Some (keys vals)) items with
      | Accept _ => acc
      | Reject => negb acc
      end
  | CFastSync h r bid ps real vals items consumed =>
      Bool.eqb (gt_fs_accept h r bid ps real (keys vals) items) consumed
  | CFastSyncH prior h r bid ps dl good vals items consumed =>
      Bool.eqb (gt_fs_process (map (fun p => (N.to_nat (fst (fst p)), snd (fst p), snd p)) prior)
                              h r bid ps dl good (keys vals) items) consumed
  | CEnough c n r => Bool.eqb (enough (N.to_nat c) (N.to_nat n)) r
  end.

Definition mismatches (l : list case) : list nat := failing check l.
