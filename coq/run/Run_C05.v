(* Run_C05.v — correspondence: Model_CommitVoteList evaluated on the lists the
   harness put through CommitVoteList.VerifyBlock (and through block proposal /
   import), with the harness's ground truth for every signature. *)
From Goloop Require Import lib.Bytes Model_Quorum Model_CommitVoteList.
Open Scope N_scope.

Inductive obs :=
| OAccept (voted : list bool)
| OReject
| OCrash.

Inductive case :=
(* VerifyBlock(block{height,bid}, vals) on a list {round, ps, items} *)
| CVerify (height round : Z) (bid : bytes) (ps : psid) (vals : option (list nat))
          (items : list (Z * gsig)) (o : obs)
(* the same list carried by a block that is proposed / imported on a fixture chain *)
| CChain (height round : Z) (bid : bytes) (ps : psid) (vals : list nat)
         (items : list (Z * gsig)) (accepted : bool)
(* enoughVote(voted, voters) *)
| CEnough (voted voters : nat) (r : bool).

(* printing helper for the harness: a signature of key k over the message *)
Definition Sg (k : nat) (h r : Z) (precommit : bool) (bid : bytes) (ps : psid) (ts : Z) : gsig :=
  Signed k (VoteMsg h r (if precommit then Precommit else Prevote) bid ps ts).

Fixpoint bools_eqb (a b : list bool) : bool :=
  match a, b with
  | [], [] => true
  | x :: a', y :: b' => Bool.eqb x y && bools_eqb a' b'
  | _, _ => false
  end.

Definition check (c : case) : bool :=
  match c with
  | CVerify h r bid ps vals items o =>
      match gt_verify_block h r bid ps vals items, o with
      | Accept v, OAccept v' => bools_eqb v v'
      | Reject, OReject => true
      | _, _ => false
      end
  | CChain h r bid ps vals items acc =>
      match gt_verify_block h r bid ps (Some vals) items with
      | Accept _ => acc
      | Reject => negb acc
      end
  | CEnough c n r => Bool.eqb (enough c n) r
  end.

Definition mismatches (l : list case) : list nat := failing check l.
