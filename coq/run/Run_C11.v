(* Run_C11.v — correspondence: evaluate Model_Locator on the histories the
   harness drove through common/txlocator (and service.TXIDManager /
   NewTimestampRange), report the indices where the observations differ. *)
From Goloop Require Export lib.Bytes Model_Locator Model_TxChain.
Open Scope Z_scope.

(* one cached list as observed: ts, th, live ids *)
Definition olist := (Z * Z * list N)%type.

Inductive ev :=
| EOp (o : op) (r : out)            (* an operation and what the implementation answered *)
| ESnap (locs : list N)             (* keys of m.locators *)
        (cp : list olist) (maxp : Z) (* patch cache, maxTSInDB *)
        (cn : list olist) (maxn : Z) (* normal cache, maxTSInDB *)
        (db : list N).              (* ids of the universe present in the bucket *)

(* transition layer: an operation of Model_TxChain and the verdict of the real
   validation (0 accepted, 1 DuplicateTx, 2 Expired, 3 Future), or a manager snapshot *)
Inductive bev :=
| BEv (o : bop) (verdict : N)
| BSnap (locs : list N) (cp : list olist) (maxp : Z) (cn : list olist) (maxn : Z) (db : list N).

Inductive case :=
| CHist (evs : list ev)
| CWin (bts th ts : Z) (cls : N)    (* NewTimestampRange(bts,th).CheckTx: 0 ok, 1 expired, 2 future *)
| CChain (evs : list bev).          (* real service transitions on a test node *)

Definition subset (a b : list N) : bool := forallb (fun x => mem x b) a.
Definition set_eqb (a b : list N) : bool := subset a b && subset b a.

Definition out_eqb (a b : out) : bool :=
  match a, b with
  | RNone, RNone => true
  | RBool x, RBool y => Bool.eqb x y
  | RAdd c1 k1, RAdd c2 k2 => Nat.eqb c1 c2 && N.eqb k1 k2
  | RBadRef, RBadRef => true
  | _, _ => false
  end.

Fixpoint lists_eqb (ms : list txlist) (os : list olist) : bool :=
  match ms, os with
  | [], [] => true
  | m :: ms', (ts, th, ids) :: os' =>
      (l_ts m =? ts) && (l_th m =? th) && set_eqb (l_ids m) ids && lists_eqb ms' os'
  | _, _ => false
  end.

Definition snap_eqb (m : manager) locs cp maxp cn maxn db : bool :=
  set_eqb (m_locs m) locs &&
  lists_eqb (c_lists (m_cp m)) cp && (c_max (m_cp m) =? maxp) &&
  lists_eqb (c_lists (m_cn m)) cn && (c_max (m_cn m) =? maxn) &&
  set_eqb (m_db m) db.

Fixpoint check_evs (st : state) (evs : list ev) : bool :=
  match evs with
  | [] => true
  | EOp o r :: rest =>
      let '(st', r') := step st o in
      out_eqb r r' && check_evs st' rest
  | ESnap locs cp maxp cn maxn db :: rest =>
      snap_eqb (s_mgr st) locs cp maxp cn maxn db && check_evs st rest
  end.

Fixpoint check_bevs (b : bstate) (evs : list bev) : bool :=
  match evs with
  | [] => true
  | BEv o v :: rest =>
      let '(b', v') := bstep b o in
      N.eqb v v' && check_bevs b' rest
  | BSnap locs cp maxp cn maxn db :: rest =>
      snap_eqb (s_mgr (b_loc b)) locs cp maxp cn maxn db && check_bevs b rest
  end.

Definition check (c : case) : bool :=
  match c with
  | CHist evs => check_evs init evs
  | CWin bts th ts cls => N.eqb (range_check bts th ts) cls
  | CChain evs => check_bevs binit evs
  end.

Definition mismatches (l : list case) : list nat := failing check l.

