(* Run_C34.v -- correspondence: replay in Model_Staking the operation history the
   harness ran on the icsim simulator (real IISS extension code) and compare, after
   every operation its accept/reject outcome and after every block the projected
   state (balances, stakes, unstake slots, delegations, bonds, unbonds, bonder
   lists, P-Rep status/delegated/bonded, network totals, total supply, height).

   The case terms are built from MONOMORPHIC constructors only (no list / pair
   notations): elaborating polymorphic literals of this size is an order of
   magnitude slower than evaluating the model. *)
From Coq Require Import List ZArith Bool.
From Goloop Require Export lib.Bytes Model_Staking.
Import ListNotations.
Open Scope Z_scope.

(* ---------- wire types ---------- *)
Inductive wvotes := WVN | WV (t : nat) (v : Z) (r : wvotes).
Inductive wslots := WSN | WS (v e : Z) (r : wslots).
Inductive wubs := WUN | WU (t : nat) (v e : Z) (r : wubs).
Inductive wnats := WNN | WN (n : nat) (r : wnats).
Inductive wzs := WZN | WZ (v : Z) (r : wzs).

Inductive wop :=
| WTransfer (f t : nat) (v : Z)
| WSetStake (a : nat) (v lock : Z)
| WSetDelegation (a : nat) (ds : wvotes)
| WSetBond (a : nat) (bs : wvotes)
| WSetBonderList (p : nat) (bl : wnats)
| WRegister (a : nat)
| WUnregister (a : nat)
| WClaim (a : nat) (icx : Z)
| WIssue (amt : Z)
| WEndBlock.

(* observed account: balance, stake, unstake slots in Go slice order (earliest
   first), delegations, bonds, unbonds, P-Rep status code (0 none/NotReady,
   1 Active, 2 Unregistered), delegated, bonded, bonder list *)
Inductive wacct :=
| WA (bal stake : Z) (us : wslots) (ds bs : wvotes) (ubs : wubs)
     (pstat : nat) (pdeleg pbond : Z) (bonders : wnats).
(* an observation lists only the accounts whose observable fields differ from the
   previous observation (increasing positions); the others must be unchanged *)
Inductive wchg := WCN | WC (i : nat) (a : wacct) (r : wchg).
Inductive wobs := WNoObs | WObs (l : wchg) (h supply tstake tdeleg tbond : Z).
Inductive wevs := WEN | WE (o : wop) (accepted : bool) (obs : wobs) (r : wevs).

Inductive case :=
| CHist (slot_max unbond_max : nat) (unbond_period : Z) (deleg_max bond_max bonder_max : nat)
        (reg_fee : Z) (treasury : nat) (bals : wzs) (evs : wevs).

(* ---------- decoding ---------- *)
Fixpoint votes_of (w : wvotes) : list (nat * Z) :=
  match w with WVN => [] | WV t v r => (t, v) :: votes_of r end.
Fixpoint slots_of (w : wslots) : list (Z * Z) :=
  match w with WSN => [] | WS v e r => (v, e) :: slots_of r end.
Fixpoint ubs_of (w : wubs) : list (nat * Z * Z) :=
  match w with WUN => [] | WU t v e r => (t, v, e) :: ubs_of r end.
Fixpoint nats_of (w : wnats) : list nat :=
  match w with WNN => [] | WN n r => n :: nats_of r end.
Fixpoint zs_of (w : wzs) : list Z :=
  match w with WZN => [] | WZ v r => v :: zs_of r end.

Definition op_of (w : wop) : op :=
  match w with
  | WTransfer f t v => OTransfer f t v
  | WSetStake a v l => OSetStake a v l
  | WSetDelegation a ds => OSetDelegation a (votes_of ds)
  | WSetBond a bs => OSetBond a (votes_of bs)
  | WSetBonderList p bl => OSetBonderList p (nats_of bl)
  | WRegister a => ORegister a
  | WUnregister a => OUnregister a
  | WClaim a v => OClaim a v
  | WIssue v => OIssue v
  | WEndBlock => OEndBlock
  end.

(* ---------- comparison ---------- *)
Fixpoint list_eqb {A B} (eq : A -> B -> bool) (a : list A) (b : list B) : bool :=
  match a, b with
  | [], [] => true
  | x :: a', y :: b' => eq x y && list_eqb eq a' b'
  | _, _ => false
  end.

Definition zz_eqb (a b : Z * Z) : bool := (fst a =? fst b) && (snd a =? snd b).
Definition nz_eqb (a b : nat * Z) : bool := Nat.eqb (fst a) (fst b) && (snd a =? snd b).
Definition nzz_eqb (a b : nat * Z * Z) : bool := nz_eqb (fst a) (fst b) && (snd a =? snd b).

Definition pstat_code (p : pstatus) : nat :=
  match p with PNone => 0 | PActive => 1 | PUnreg => 2 end.

Definition acct_matches (x : acct) (w : wacct) : bool :=
  match w with
  | WA wbal wstake us ds bs ubs ps pd pb bl =>
      (bal x =? wbal) && (stake x =? wstake) &&
      list_eqb zz_eqb (rev (unstakes x)) (slots_of us) &&
      list_eqb nz_eqb (delegs x) (votes_of ds) &&
      list_eqb nz_eqb (bonds x) (votes_of bs) &&
      list_eqb nzz_eqb (unbonds x) (ubs_of ubs) &&
      Nat.eqb (pstat_code (pstat x)) ps &&
      (pdeleg x =? pd) && (pbond x =? pb) &&
      list_eqb Nat.eqb (bonders x) (nats_of bl)
  end.

Definition proj_eqb (x y : acct) : bool :=
  (bal x =? bal y) && (stake x =? stake y) &&
  list_eqb zz_eqb (unstakes x) (unstakes y) &&
  list_eqb nz_eqb (delegs x) (delegs y) &&
  list_eqb nz_eqb (bonds x) (bonds y) &&
  list_eqb nzz_eqb (unbonds x) (unbonds y) &&
  Nat.eqb (pstat_code (pstat x)) (pstat_code (pstat y)) &&
  (pdeleg x =? pdeleg y) && (pbond x =? pbond y) &&
  list_eqb Nat.eqb (bonders x) (bonders y).

Fixpoint accts_match (i : nat) (cur prev : list acct) (w : wchg) : bool :=
  match cur, prev with
  | [], [] => match w with WCN => true | _ => false end
  | x :: cur', p :: prev' =>
      match w with
      | WC j a w' =>
          if Nat.eqb i j then acct_matches x a && accts_match (S i) cur' prev' w'
          else proj_eqb x p && accts_match (S i) cur' prev' w
      | WCN => proj_eqb x p && accts_match (S i) cur' prev' WCN
      end
  | _, _ => false
  end.

Definition state_matches (s : state) (prev : list acct) (w : wobs) : bool :=
  match w with
  | WNoObs => true
  | WObs l h sup ts td tb =>
      accts_match 0 (accts s) prev l &&
      (height s =? h) && (supply s =? sup) && (tstake s =? ts) &&
      (tdeleg s =? td) && (tbond s =? tb)
  end.

Fixpoint replay (cfg : config) (s : state) (prev : list acct) (evs : wevs) : bool :=
  match evs with
  | WEN => true
  | WE o acc ob r =>
      let (s', b) := step cfg s (op_of o) in
      Bool.eqb b acc && state_matches s' prev ob &&
      replay cfg s' (match ob with WNoObs => prev | _ => accts s' end) r
  end.

Definition check (c : case) : bool :=
  match c with
  | CHist sm um up dm bm brm fee tre bals evs =>
      let g := genesis (zs_of bals) in replay (mkConfig sm um up dm bm brm fee tre) g (accts g) evs
  end.

Definition mismatches (l : list case) : list nat := failing check l.
