(* Run_C35.v -- correspondence: evaluate Model_Reward.calculate on the terms the
   harness ran through the real iiss4Reward.Calculate and compare every number:
   the period budgets, totalAccumulatedPower, every P-Rep's status, votes,
   power, rank, accumulated votes/power, commission, voter reward, wage and
   rewardability, the rank order, and every I-Score credit (P-Rep and voter). *)
From Coq Require Import List ZArith NArith Bool.
From Goloop Require Import lib.Bytes.
From Goloop Require Export Model_Reward.
Import ListNotations.
Open Scope Z_scope.

Record prep_obs := mkPO {
  po_addr : addr; po_status : Z; po_delegated : Z; po_bonded : Z; po_power : Z; po_rank : Z;
  po_accv : Z; po_accp : Z; po_comm : Z; po_vr : Z; po_wage : Z; po_rewardable : bool }.

Record obs_go := mkObs {
  o_treward : Z;           (* fundToPeriodIScore(Iprep amount, period) *)
  o_minwage : Z;           (* fundToPeriodIScore(Iwage amount, period) *)
  o_total : Z;             (* totalAccumulatedPower *)
  o_preps : list prep_obs; (* all of PRepInfo.preps *)
  o_rank : list addr;
  o_prep_credits : list (addr * Z);
  o_voter_credits : list (addr * Z) }.

Inductive outcome := OError | OPanic | OOk (o : obs_go).

Inductive case := CTerm (i : input) (wf : bool) (o : outcome).

Definition prep_matches (elected : Z) (m : amap prep) (po : prep_obs) : bool :=
  match aget (po_addr po) m with
  | None => false
  | Some p =>
      (p_status p =? po_status po) && (p_delegated p =? po_delegated po) && (p_bonded p =? po_bonded po)
      && (p_power p =? po_power po) && (p_rank p =? po_rank po) && (p_accv p =? po_accv po)
      && (p_accp p =? po_accp po) && (p_comm p =? po_comm po) && (p_vr p =? po_vr po)
      && (p_wage p =? po_wage po) && Bool.eqb (is_rewardable elected p) (po_rewardable po)
      && N.eqb (p_owner p) (po_addr po)
  end.

Definition credits_match (model go : list (addr * Z)) : bool :=
  Nat.eqb (length model) (length go)
  && forallb (fun c => match aget (fst c) model with Some x => x =? snd c | None => false end) go.

Fixpoint addrs_eqb (a b : list addr) : bool :=
  match a, b with
  | [], [] => true
  | x :: a', y :: b' => N.eqb x y && addrs_eqb a' b'
  | _, _ => false
  end.

Definition obs_eqb (i : input) (m : obs) (o : obs_go) : bool :=
  (budget_prep i =? o_treward o) && (budget_wage i =? o_minwage o)
  && (pi_total (m_info m) =? o_total o)
  && Nat.eqb (length (pi_preps (m_info m))) (length (o_preps o))
  && forallb (prep_matches (i_elected i) (pi_preps (m_info m))) (o_preps o)
  && addrs_eqb (pi_rank (m_info m)) (o_rank o)
  && credits_match (m_prep_credits m) (o_prep_credits o)
  && credits_match (m_voter_credits m) (o_voter_credits o).

Definition check (c : case) : bool :=
  match c with
  | CTerm i wf o =>
      Bool.eqb (wf_inputb i) wf
      && match calculate i, o with
         | RErr, OError => true
         | RPanic, OPanic => true
         | ROk m, OOk g => obs_eqb i m g
         | _, _ => false
         end
  end.

Definition mismatches (l : list case) : list nat := failing check l.
