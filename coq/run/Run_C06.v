(* Run_C06.v — correspondence: evaluate Model_DoubleSign on what the harness observed on
   consensus.matchNID / IsConflictWith / dsmLog / DoubleSignReport / PreValidate /
   DSRHandler / dsrManager, report the differing indices. *)
From Goloop Require Import lib.Bytes Model_DoubleSign.
Open Scope N_scope.

Inductive case :=
(* matchNID(a, b) = obs *)
| CNid (a b : N) (obs : bool)
(* a.IsConflictWith(b) = ab, b.IsConflictWith(a) = ba *)
| CPair (a b : msg) (ab ba : bool)
(* a log of capacity cap fed with the messages; rnds = the numbers the store's random
   source handed out during that call; outs = what each call returned; final = for each
   message, the hash of the message stored under its key at the end (None = absent) *)
| CLog (cap : Z) (steps : list (msg * list N)) (outs : list (option (msg * msg)))
       (final : list (option bytes))
(* a report {tag, data, ctx}; vdec/pdec/cdec = what DecodeDoubleSignData("vote"/"proposal")
   and the context decoder returned for each byte string involved; pv = class of
   PreValidate (0 ok, 1 invalid-state, 2 invalid-format); hres = class of DoExecuteSync
   (0 inner call made, 1 access denied, 2 invalid parameter, 3 nil status without call) *)
| CReport (r : report) (vdec pdec : list (bytes * msg)) (cdec : list (bytes * dsctx))
          (rev from : bool) (pv : N)
          (fs : bool) (blk : Z) (hist : list (Z * bytes)) (hres : N)
(* dsrManager with firstHeight = first; results of successive Add calls
   (0 queued, 1 dropped as known, 2 illegal argument, 3 invalid state) and len(todo) *)
| CAdd (first : Z) (adds : list (list msg * option dsctx)) (obs : list N) (todo : nat).

Definition msg_eqb (a b : msg) : bool :=
  bytes_eqb (signer a) (signer b) && (height a =? height b)%Z && (round a =? round b)%Z
  && kind_eqb (mkind a) (mkind b) && (vtype a =? vtype b) && (nid a =? nid b)
  && bytes_eqb (hash a) (hash b) && (cost a =? cost b)%Z
  && bytes_eqb (unsigned_ext a) (unsigned_ext b).

Definition out_eqb (a b : option (msg * msg)) : bool :=
  match a, b with
  | None, None => true
  | Some (x1, y1), Some (x2, y2) => msg_eqb x1 x2 && msg_eqb y1 y2
  | _, _ => false
  end.

Fixpoint list_eqb {A} (f : A -> A -> bool) (a b : list A) : bool :=
  match a, b with
  | [], [] => true
  | x :: a', y :: b' => f x y && list_eqb f a' b'
  | _, _ => false
  end.

Fixpoint lookup {A} (tbl : list (bytes * A)) (b : bytes) : option A :=
  match tbl with
  | [] => None
  | (k, v) :: r => if bytes_eqb k b then Some v else lookup r b
  end.

Definition pv_class (r : pv_result) : N :=
  match r with
  | PVOk => 0
  | PVDisabled => 1
  | _ => 2
  end.

Definition h_class (r : h_result) : N :=
  match r with
  | HCall _ _ _ => 0
  | HAccessDenied => 1
  | HNoConflict => 3      (* InvalidParameterError.Wrap(nil, ...) is nil *)
  | _ => 2
  end.

Definition add_class (r : add_result) : N :=
  match r with
  | AddQueued => 0
  | AddDropped => 1
  | AddBadArgs | AddNoConflict | AddNoSigner => 2
  | AddBadState => 3
  end.

Fixpoint run_adds (st : dsm) (adds : list (list msg * option dsctx)) : list N * dsm :=
  match adds with
  | [] => ([], st)
  | (d, c) :: r =>
      let '(res, st1) := dsm_add st d c in
      let '(l, st2) := run_adds st1 r in
      (add_class res :: l, st2)
  end.

Definition check (c : case) : bool :=
  match c with
  | CNid a b obs => Bool.eqb (match_nid a b) obs
  | CPair a b ab ba => Bool.eqb (is_conflict a b) ab && Bool.eqb (is_conflict b a) ba
  | CLog cap steps outs final =>
      match run_exact (make_cache cap) steps with
      | Some (cf, outs') =>
          list_eqb out_eqb outs' outs
          && list_eqb opt_bytes_eqb
               (map (fun s => option_map hash (kv_get (key_of (fst s)) (c_kv cf))) steps) final
      | None => false
      end
  | CReport r vdec pdec cdec rev from pv fs blk hist hres =>
      (pv_class (pre_validate (lookup vdec) (lookup pdec) (lookup cdec) rev from r) =? pv)
      && (h_class (handler_exec (lookup vdec) (lookup pdec) (lookup cdec) fs blk hist r) =? hres)
  | CAdd first adds obs todo =>
      let '(l, st) := run_adds (mkDsm first [] []) adds in
      list_eqb N.eqb l obs && Nat.eqb (length (dsm_todo st)) todo
  end.

Definition mismatches (l : list case) : list nat := failing check l.
