(* Run_C24.v — correspondence: evaluate Model_IntConv on the cases the harness
   observed on common/intconv and common.HexInt*, report differing indices. *)
From Goloop Require Import lib.Bytes Model_IntConv.
Open Scope N_scope.

Inductive case :=
(* encoders on one value: BigIntToBytes; Int64ToBytes / Uint64ToBytes / SizeToBytes
   when the value is in the type's range (None otherwise) *)
| CEnc (v : Z) (big : bytes) (i64 u64 sz : option bytes)
(* decoders on one byte string: BigIntSetBytes; SafeBytesToInt64, SafeBytesToUint64,
   SafeBytesToSize64, SafeBytesToSize (None = not ok / the Bytes.. variant panics) *)
| CDec (bs : bytes) (big : Z) (i64 : option Z) (u64 sz64 sz : option N)
(* formatters: FormatBigInt; FormatInt / FormatUint when in range *)
| CFmt (v : Z) (big : bytes) (i64 u64 : option bytes)
(* parsers on one text: ParseBigInt, ParseInt(s,16/32/64), ParseUint(s,16/32/64).
   json = true: observed through HexInt / HexInt16.. / HexUint16.. UnmarshalJSON of
   the JSON string with that content *)
| CParse (json : bool) (s : bytes) (big : option Z) (i16 i32 i64 : option Z) (u16 u32 u64 : option N)
(* UnmarshalJSON of raw input that is not a JSON string: HexInt, HexInt64, HexUint64 *)
| CRaw (s : bytes) (big : option Z) (i64 : option Z) (u64 : option N).

Definition optZ_eqb (a b : option Z) : bool :=
  match a, b with
  | None, None => true
  | Some x, Some y => (x =? y)%Z
  | _, _ => false
  end.
Definition optN_eqb (a b : option N) : bool :=
  match a, b with
  | None, None => true
  | Some x, Some y => x =? y
  | _, _ => false
  end.

Definition check (c : case) : bool :=
  match c with
  | CEnc v big i64 u64 sz =>
      bytes_eqb (bigint_to_bytes v) big
      && opt_bytes_eqb (if in_int64 v then Some (int64_to_bytes v) else None) i64
      && opt_bytes_eqb (if in_uint64 v then Some (uint64_to_bytes (Z.to_N v)) else None) u64
      && opt_bytes_eqb (if in_uint64 v then Some (size_to_bytes (Z.to_N v)) else None) sz
  | CDec bs big i64 u64 sz64 sz =>
      (bigint_set_bytes bs =? big)%Z
      && optZ_eqb (bytes_to_int64 bs) i64
      && optN_eqb (bytes_to_uint64 bs) u64
      && optN_eqb (bytes_to_size64 bs) sz64
      && optN_eqb (bytes_to_size bs) sz
  | CFmt v big i64 u64 =>
      bytes_eqb (format_bigint v) big
      && opt_bytes_eqb (if in_int64 v then Some (format_int v) else None) i64
      && opt_bytes_eqb (if in_uint64 v then Some (format_uint (Z.to_N v)) else None) u64
  | CParse _ s big i16 i32 i64 u16 u32 u64 =>
      optZ_eqb (parse_bigint s) big
      && optZ_eqb (parse_int s 16) i16 && optZ_eqb (parse_int s 32) i32 && optZ_eqb (parse_int s 64) i64
      && optN_eqb (parse_uint s 16) u16 && optN_eqb (parse_uint s 32) u32 && optN_eqb (parse_uint s 64) u64
  | CRaw s big i64 u64 =>
      optZ_eqb (hexint_unmarshal_raw s) big
      && optZ_eqb (parse_int s 64) i64 && optN_eqb (parse_uint s 64) u64
  end.

Definition mismatches (l : list case) : list nat := failing check l.
