(* Proofs_FastSync.v — what processBlock consumes when the node already holds
   votes, and the tie of the fast-sync thresholds to the kernels generated from
   consensus/voteset.go. *)
From Coq Require Import Arith ZArith Lia Bool List.
From Goloop Require Import lib.Bytes lib.GoInt Model_VoteSet Proofs_VoteSet Model_CommitVoteList Proofs_CommitVoteList Model_FastSync.
From Goloop Require Import Proofs_K_tactics Proofs_K_hasOverTwoThirds Proofs_K_overTwoThirdsDecision.
From Goloop.gen Require Export K_hasOverTwoThirds K_overTwoThirdsDecision.
Import ListNotations.

(* consumed => after the list's votes were added, more than two thirds of the
   validator slots hold a precommit for ONE non-nil decision whose part set is
   the delivered block's (whatever part set the list names) *)
Theorem fs_process_sound n prior h r dl good idxs tss :
  fs_process n prior h r dl good idxs tss = true ->
  exists is_ s d,
    idxs = Some is_ /\
    run n (prior ++ list_ops h r dl is_ tss) = Some s /\
    d <> 0%N /\ good d = true /\
    (3 * votes_for s d > 2 * Z.of_nat n)%Z.
Proof.
  unfold fs_process. destruct idxs as [is_|]; [|discriminate].
  destruct (run n (prior ++ list_ops h r dl is_ tss)) as [s|] eqn:Hr; [|discriminate].
  unfold over23_psid. destruct (over23_decision s) as [[d|]|] eqn:Hd; try discriminate.
  unfold psid_of. destruct (d =? 0)%N eqn:E; [discriminate|].
  intro Hg. exists is_, s, d. repeat split; auto.
  - apply N.eqb_neq. exact E.
  - apply (reports_iff n _ s d Hr). exact Hd.
Qed.

(* and conversely: the decision with more than two thirds decides *)
Theorem fs_process_complete n prior h r dl good is_ tss s d :
  run n (prior ++ list_ops h r dl is_ tss) = Some s ->
  (3 * votes_for s d > 2 * Z.of_nat n)%Z -> d <> 0%N ->
  fs_process n prior h r dl good (Some is_) tss = good d.
Proof.
  intros Hr Hq Hd. unfold fs_process. rewrite Hr.
  apply (reports_iff n _ s d Hr) in Hq. unfold over23_psid. rewrite Hq.
  unfold psid_of. apply N.eqb_neq in Hd. rewrite Hd. reflexivity.
Qed.

(* ---------- kernel link ---------- *)

Ltac Zify.zify_post_hook ::= Z.to_euclidean_division_equations.

Definition max_slots : Z := 4611686018427387903.

(* the threshold of fs_accept (Model_CommitVoteList) IS the test inside
   getOverTwoThirdsRoundDecisionDigest, and voteSet.hasOverTwoThirds, of the
   current Go source *)
Lemma fs_threshold_is_overTwoThirdsDecision (c n : nat) :
  (Z.of_nat n <= max_slots)%Z ->
  Nat.ltb (n * 2 / 3) c = overTwoThirdsDecision (Z.of_nat c) (Z.of_nat n).
Proof.
  unfold max_slots. intro Hn. apply bool_eq_iff.
  rewrite two_thirds_lt. rewrite overTwoThirdsDecision_spec by lia. lia.
Qed.

Lemma fs_threshold_is_hasOverTwoThirds (c n : nat) :
  (Z.of_nat n <= max_slots)%Z ->
  Nat.ltb (n * 2 / 3) c = hasOverTwoThirds (Z.of_nat c) (Z.of_nat n).
Proof.
  unfold max_slots. intro Hn. apply bool_eq_iff.
  rewrite two_thirds_lt. rewrite hasOverTwoThirds_spec by lia. lia.
Qed.

Lemma fs_threshold_is_kernels (c n : nat) :
  (Z.of_nat n <= max_slots)%Z ->
  Nat.ltb (n * 2 / 3) c = overTwoThirdsDecision (Z.of_nat c) (Z.of_nat n) /\
  Nat.ltb (n * 2 / 3) c = hasOverTwoThirds (Z.of_nat c) (Z.of_nat n).
Proof.
  intro Hn. split;
    [apply fs_threshold_is_overTwoThirdsDecision | apply fs_threshold_is_hasOverTwoThirds]; exact Hn.
Qed.

(* fs_accept restated with the generated kernel in the place of its threshold *)
Theorem fs_accept_kernel {sigT addrT : Type} (addr_eqb : addrT -> addrT -> bool)
        (recover : vote_msg -> sigT -> option addrT) height round bid ps real vals items :
  (Z.of_nat (length vals) <= max_slots)%Z ->
  fs_accept addr_eqb recover height round bid ps real vals items =
  match indices addr_eqb recover (item_msg height round bid ps) vals items with
  | None => false
  | Some idxs =>
      overTwoThirdsDecision (Z.of_nat (length (dedup idxs))) (Z.of_nat (length vals)) &&
      ps_id_matches ps real
  end.
Proof.
  intro Hn. unfold fs_accept.
  destruct (indices addr_eqb recover (item_msg height round bid ps) vals items); [|reflexivity].
  rewrite fs_threshold_is_overTwoThirdsDecision by exact Hn. reflexivity.
Qed.

(* the vote-set model used by fs_process tests with the same kernels *)
Lemma over23_is_kernels c n :
  (0 <= n <= max_slots)%Z ->
  over23 c n = overTwoThirdsDecision c n /\ over23 c n = hasOverTwoThirds c n.
Proof.
  unfold max_slots. intro Hn. split; apply bool_eq_iff.
  - rewrite over23_spec by lia. rewrite overTwoThirdsDecision_spec by lia. reflexivity.
  - rewrite over23_spec by lia. rewrite hasOverTwoThirds_spec by lia. reflexivity.
Qed.

Definition fs_kernel_params_pinned : Prop :=
  hasOverTwoThirds_params = ["vs.count"; "len(vs.msgs)"]%string /\
  overTwoThirdsDecision_params = ["max"; "len(vs.msgs)"]%string.

Lemma fs_kernel_params_ok : fs_kernel_params_pinned.
Proof. split; [exact hasOverTwoThirds_params_ok | exact overTwoThirdsDecision_params_ok]. Qed.

(* ---------- concrete instances ---------- *)

(* four validators; three precommits for decision 1 (block B) arrived by gossip;
   a list naming decision 2 (block B') with no item, or with one item, does not
   make B' acceptable; B itself is acceptable with an empty list *)
Definition ex_prior : list op :=
  [OAdd 0 (list_vote 1 0 1 10); OAdd 1 (list_vote 1 0 1 11); OAdd 2 (list_vote 1 0 1 12)].

Example ex_history :
  fs_process 4 ex_prior 1 0 2 (fun d => N.eqb d 2) (Some []) [] = false /\
  fs_process 4 ex_prior 1 0 2 (fun d => N.eqb d 2) (Some [3%nat]) [13%Z] = false /\
  fs_process 4 ex_prior 1 0 2 (fun d => N.eqb d 2) (Some [0%nat; 1%nat; 3%nat]) [13; 14; 15]%Z = false /\
  fs_process 4 ex_prior 1 0 1 (fun d => N.eqb d 1) (Some []) [] = true /\
  fs_process 4 [OAdd 0 (list_vote 1 0 1 10)] 1 0 1 (fun d => N.eqb d 1) (Some [1%nat; 2%nat]) [11; 12]%Z = true /\
  fs_process 4 [OAdd 0 (list_vote 1 0 1 10)] 1 0 1 (fun d => N.eqb d 1) (Some [0%nat; 2%nat]) [10; 12]%Z = false.
Proof. vm_compute. repeat split. Qed.
