(* Proofs_KX_psidAppData_roundtrip.v -- destructPSIDAppData inverts psidAppData
   Split out of Proofs_Kernels.v: this file imports ONLY the generated kernel(s)
   gen/K_psidAppData.v, gen/K_destructPSIDAppData.v, so an edit of another kernel's Go source cannot break it.
   Style: stdlib only; arithmetic closed by lia with the euclidean-division hook. *)
From Coq Require Import ZArith Bool String List Lia.
From Coq Require Import ZifyBool.
From Goloop Require Import lib.GoInt Proofs_K_tactics Proofs_K_psidAppData Proofs_K_destructPSIDAppData.
From Goloop.gen Require Import K_psidAppData K_destructPSIDAppData.
Import ListNotations.
Local Open Scope Z_scope.

Ltac Zify.zify_post_hook ::= Z.to_euclidean_division_equations.

Lemma psidAppData_roundtrip nid cnt :
  0 <= nid <= max_u32 -> 0 <= cnt <= max_u16 ->
  destructPSIDAppData (psidAppData nid cnt) = (nid, cnt).
Proof.
  intros Hn Hc. rewrite psidAppData_spec by lia.
  rewrite destructPSIDAppData_spec by lia. f_equal; lia.
Qed.
