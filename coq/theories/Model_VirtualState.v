(* Model_VirtualState.v — executable model of goloop's parallel transaction
   execution: service/state/worldvirtualstate.go (lock requests, GetFuture /
   applyLockRequests, depend pointers, getAccountStateInLock, Commit, Realize,
   realizeBaseInLock, GetSnapshot), service/state/worldcontext.go (GetFuture adds
   the system read lock; UpdateSystemInfo reads the system account) and
   service/transition_pe.go (executeTxsConcurrent: dispatcher + one worker
   goroutine per transaction, bounded by the concurrency level).
   No proofs here; see Proofs_VirtualState.v / Prop_C09.v.

   A world maps accounts to values.  A transaction is a list of lock requests
   plus a program; a program is a resumption over account reads and writes (the
   most general deterministic program: what it does next is an arbitrary function
   of everything it has read) that ends with its receipt.

   Goroutines are modelled as actors taking atomic steps; a schedule is the
   list of actors chosen, in order (an actor chosen while it is blocked does
   nothing).  Not modelled: the Go scheduler, sync.Mutex / sync.Cond and the Go
   memory model.  In particular Realize holds the mutexes of the virtual states
   it waits for; that only delays other goroutines, so the real interleavings
   are a subset of the model's.  A failed attempt is reset and retried (Reset);
   the bound RetryCount and the error latch are C10's subject and not modelled.
   Style: stdlib. *)
From Coq Require Import List Arith Bool ZArith.
Import ListNotations.

(* ------------------------------------------------------------------ *)
(* worlds and programs                                                  *)

Definition acct := nat.
(* state.SystemID: every transaction holds (at least) a read lock on it and
   reads it before it executes *)
Definition SYS : acct := 0.

Definition world := acct -> Z.
Definition upd (w : world) (a : acct) (v : Z) : world :=
  fun x => if Nat.eqb x a then v else w x.

Inductive prog :=
| Done (r : list Z)                       (* return the receipt *)
| Read (a : acct) (k : Z -> prog)         (* GetAccountState(a).GetBalance() *)
| Write (a : acct) (v : Z) (k : prog)     (* GetAccountState(a).SetBalance(v) *)
| Fail (k : prog).                        (* this attempt returns ExecutionFailError / CriticalRerunError:
                                             the executor resets the state and runs k (the next attempt) *)

(* sequential execution of one program from the world s the transaction started
   in: final world and receipt.  A failed attempt is undone: ctx.Reset(wcs) with
   wcs = the snapshot taken before the first attempt. *)
Fixpoint run_from (s : world) (p : prog) (w : world) : world * list Z :=
  match p with
  | Done r => (w, r)
  | Read a k => run_from s (k (w a)) w
  | Write a v k => run_from s k (upd w a v)
  | Fail k => run_from s k s
  end.
Definition run_prog (p : prog) (w : world) : world * list Z := run_from w p w.

(* ------------------------------------------------------------------ *)
(* lock requests                                                        *)

Inductive lockid := LWorld | LAcct (a : acct).     (* WorldIDStr | account id *)
Inductive lkind := LRead | LWrite.                 (* AccountReadLock | AccountWriteLock *)
Definition lockreq := (lockid * lkind)%type.

Record tx := mkTx { tx_locks : list lockreq; tx_prog : prog }.

(* AccountNoLock = 0, AccountReadLock = 1, AccountWriteLock = 2, AccountWriteUnlock = 3 *)
Inductive lock := NoLock | ReadLock | WriteLock | WriteUnlock.

Definition lockid_eqb (x y : lockid) : bool :=
  match x, y with
  | LWorld, LWorld => true
  | LAcct a, LAcct b => Nat.eqb a b
  | _, _ => false
  end.
Definition lkind_eqb (x y : lkind) : bool :=
  match x, y with LRead, LRead => true | LWrite, LWrite => true | _, _ => false end.

(* the request list contains {id, k} *)
Definition wants (reqs : list lockreq) (id : lockid) (k : lkind) : bool :=
  existsb (fun r => lockid_eqb (fst r) id && lkind_eqb (snd r) k) reqs.

(* worldContext.GetFuture: lq2 = lq ++ [{SystemID, AccountReadLock}] *)
Definition reqs_of (t : tx) : list lockreq := tx_locks t ++ [(LAcct SYS, LRead)].

(* applyLockRequests, first loop: worldLock = the strongest world request *)
Definition world_lock (reqs : list lockreq) : lock :=
  if wants reqs LWorld LWrite then WriteLock
  else if wants reqs LWorld LRead then ReadLock
  else NoLock.

(* applyLockRequests, second loop: the lock of the accountStates entry kept for
   account a.  With a world write lock the function returns before the map is
   made; a request with Lock <= worldLock is skipped; of several requests for
   one account the strongest stays. *)
Definition entry (reqs : list lockreq) (a : acct) : option lock :=
  match world_lock reqs with
  | WriteLock => None
  | ReadLock => if wants reqs (LAcct a) LWrite then Some WriteLock else None
  | _ => if wants reqs (LAcct a) LWrite then Some WriteLock
         else if wants reqs (LAcct a) LRead then Some ReadLock else None
  end.

(* the accounts named by the requests (a superset of the keys of accountStates) *)
Definition keys (reqs : list lockreq) : list acct :=
  flat_map (fun r => match fst r with LAcct a => [a] | LWorld => [] end) reqs.

(* ------------------------------------------------------------------ *)
(* virtual states                                                       *)

(* lockedAccountState: depend != nil (state == nil)  |  state = the live account
   of the real world state  |  state = a read-only account of a snapshot *)
Inductive lstate := SDep (d : nat) | SLive | SRO (v : Z).
Record las := mkLas { l_lock : lock; l_st : lstate }.

(* worldVirtualSnapshot taken by the worker before its first attempt (wvss) *)
Record snapshot := mkSnap {
  s_base : option world;          (* base *)
  s_accts : acct -> option Z      (* accountSnapshots *)
}.

Record vstate := mkV {
  v_wlock : lock;                 (* worldLock *)
  v_accts : acct -> option las;   (* accountStates *)
  v_keys : list acct;             (* its keys (superset) *)
  v_base : option world;          (* base *)
  v_committed : option world;     (* committed *)
  v_done : bool;                  (* waiter == nil *)
  v_lbase : acct -> option Z;     (* lockedAccountState.base: snapshot taken when the depend was resolved *)
  v_snap : option snapshot        (* wvss of the worker goroutine (a local of it) *)
}.

(* worker goroutine of one transaction *)
Inductive wphase :=
| WStart              (* about to call wvs.GetSnapshot(), ctx.UpdateSystemInfo() *)
| WRun (p : prog)     (* inside Execute, p is what remains; Done r: about to store the receipt and Commit *)
| WRelease            (* committed; about to call ec.Done() *)
| WFinished.

(* the dispatching goroutine (the body of executeTxsConcurrent) *)
Inductive dphase :=
| DPrepare (i : nat)  (* loop head for transaction i: Prepare = GetFuture; after the last one: Realize *)
| DSpawn (i : nat)    (* blocked in ec.Ready(), then `go func…` *)
| DDone.

Record gstate := mkG {
  g_real : world;                      (* worldVirtualContext.real *)
  g_vs : nat -> option vstate;         (* the chain of virtual states; parent of i+1 is i *)
  g_lockers : acct -> option nat;      (* lastAccountLocker *)
  g_wlocker : option nat;              (* lastWorldLocker *)
  g_rocache : acct -> option Z;        (* roAccounts *)
  g_disp : dphase;
  g_tokens : nat;                      (* free slots of executionContext.waiter *)
  g_work : nat -> option wphase;
  g_rcts : nat -> option (list Z);     (* rctBuf *)
  g_final : option world               (* the world state when executeTxsConcurrent returns *)
}.

Definition set_vs (g : gstate) (i : nat) (v : vstate) : gstate :=
  mkG (g_real g) (fun j => if Nat.eqb j i then Some v else g_vs g j) (g_lockers g) (g_wlocker g)
      (g_rocache g) (g_disp g) (g_tokens g) (g_work g) (g_rcts g) (g_final g).
Definition set_work (g : gstate) (i : nat) (p : wphase) : gstate :=
  mkG (g_real g) (g_vs g) (g_lockers g) (g_wlocker g) (g_rocache g) (g_disp g) (g_tokens g)
      (fun j => if Nat.eqb j i then Some p else g_work g j) (g_rcts g) (g_final g).
Definition set_real (g : gstate) (w : world) : gstate :=
  mkG w (g_vs g) (g_lockers g) (g_wlocker g) (g_rocache g) (g_disp g) (g_tokens g)
      (g_work g) (g_rcts g) (g_final g).
Definition set_disp (g : gstate) (d : dphase) : gstate :=
  mkG (g_real g) (g_vs g) (g_lockers g) (g_wlocker g) (g_rocache g) d (g_tokens g)
      (g_work g) (g_rcts g) (g_final g).
Definition set_tokens (g : gstate) (k : nat) : gstate :=
  mkG (g_real g) (g_vs g) (g_lockers g) (g_wlocker g) (g_rocache g) (g_disp g) k
      (g_work g) (g_rcts g) (g_final g).
Definition set_rct (g : gstate) (i : nat) (r : list Z) : gstate :=
  mkG (g_real g) (g_vs g) (g_lockers g) (g_wlocker g) (g_rocache g) (g_disp g) (g_tokens g)
      (g_work g) (fun j => if Nat.eqb j i then Some r else g_rcts g j) (g_final g).
Definition set_final (g : gstate) (w : world) : gstate :=
  mkG (g_real g) (g_vs g) (g_lockers g) (g_wlocker g) (g_rocache g) (g_disp g) (g_tokens g)
      (g_work g) (g_rcts g) (Some w).
Definition set_ctx (g : gstate) (lk : acct -> option nat) (wl : option nat) (ro : acct -> option Z) : gstate :=
  mkG (g_real g) (g_vs g) lk wl ro (g_disp g) (g_tokens g) (g_work g) (g_rcts g) (g_final g).

Definition set_base (v : vstate) (b : option world) : vstate :=
  mkV (v_wlock v) (v_accts v) (v_keys v) b (v_committed v) (v_done v) (v_lbase v) (v_snap v).
Definition set_committed (v : vstate) (c : option world) : vstate :=
  mkV (v_wlock v) (v_accts v) (v_keys v) (v_base v) c (v_done v) (v_lbase v) (v_snap v).
Definition set_snap (v : vstate) (s : snapshot) : vstate :=
  mkV (v_wlock v) (v_accts v) (v_keys v) (v_base v) (v_committed v) (v_done v) (v_lbase v) (Some s).

(* accountStates[a] = l with las.base = b *)
Definition upd_accts (v : vstate) (a : acct) (l : las) (b : Z) : vstate :=
  mkV (v_wlock v) (fun x => if Nat.eqb x a then Some l else v_accts v x) (v_keys v) (v_base v)
      (v_committed v) (v_done v) (fun x => if Nat.eqb x a then Some b else v_lbase v x) (v_snap v).
Definition set_las (g : gstate) (i : nat) (a : acct) (l : las) (b : Z) : gstate :=
  match g_vs g i with
  | Some v => set_vs g i (upd_accts v a l b)
  | None => g
  end.

Definition is_done (g : gstate) (j : nat) : bool :=
  match g_vs g j with Some v => v_done v | None => false end.

(* ------------------------------------------------------------------ *)
(* GetFuture / NewWorldVirtualState + applyLockRequests                  *)

(* worldVirtualContext.getLocker for an account id *)
Definition get_locker (g : gstate) (a : acct) : option nat :=
  match g_lockers g a with Some d => Some d | None => g_wlocker g end.

(* third loop of applyLockRequests: depend = getLocker(id); without one the
   state is resolved at once: the live account for a writer, getROAccountState
   (cached read-only account of the real world state) for a reader.
   (For the first virtual state parent == nil forces depend = nil; both locker
   tables are empty then, so get_locker gives the same.) *)
Definition init_las (g : gstate) (a : acct) (l : lock) : las :=
  match get_locker g a with
  | Some d => mkLas l (SDep d)
  | None =>
      match l with
      | WriteLock => mkLas l SLive
      | _ => mkLas l (SRO (match g_rocache g a with Some v => v | None => g_real g a end))
      end
  end.

(* the virtual state for transaction i (GetFuture from the state of i-1;
   NewWorldVirtualState for i = 0) *)
Definition get_future (g : gstate) (i : nat) (t : tx) : gstate :=
  let reqs := reqs_of t in
  let base := match i with
              | O => Some (g_real g)                          (* nwvs.base = ws.GetSnapshot() *)
              | S j => match g_vs g j with Some p => v_committed p | None => None end  (* nwvs.base = wvs.committed *)
              end in
  match world_lock reqs with
  | WriteLock =>
      (* setLocker(WorldIDStr): new empty lastAccountLocker, lastWorldLocker = this *)
      set_ctx (set_vs g i (mkV WriteLock (fun _ => None) [] base None false (fun _ => None) None))
              (fun _ => None) (Some i) (g_rocache g)
  | wl =>
      let accts := fun a => match entry reqs a with Some l => Some (init_las g a l) | None => None end in
      set_ctx (set_vs g i (mkV wl accts (keys reqs) base None false (fun _ => None) None))
              (fun a => match entry reqs a with Some WriteLock => Some i | _ => g_lockers g a end)
              (g_wlocker g)
              (fun a => match entry reqs a, get_locker g a, g_rocache g a with
                        | Some ReadLock, None, None => Some (g_real g a)
                        | _, _, _ => g_rocache g a
                        end)
  end.

(* ------------------------------------------------------------------ *)
(* Realize / realizeBaseInLock                                          *)

(* the virtual states wvs_j.Realize() waits for: from j towards the root, up to
   (excluding) the first one with committed != nil, or up to (including) the
   first one with base != nil *)
Fixpoint chain (g : gstate) (j : nat) : list nat :=
  match g_vs g j with
  | None => []
  | Some v =>
      match v_committed v with
      | Some _ => []
      | None => j :: match v_base v with
                     | Some _ => []
                     | None => match j with O => [] | S j' => chain g j' end
                     end
      end
  end.

(* wvs_j.Realize(): blocks until every member of the chain has committed; then
   `if idx == 0 && ws.committed == nil { ws.committed = ws.real.GetSnapshot() }` *)
Definition realize (g : gstate) (j : nat) : option gstate :=
  if forallb (is_done g) (chain g j) then
    match g_vs g j with
    | Some v => match v_committed v with
                | None => Some (set_vs g j (set_committed v (Some (g_real g))))
                | Some _ => Some g
                end
    | None => Some g
    end
  else None.

(* wvs_i.realizeBaseInLock() *)
Definition realize_base (g : gstate) (i : nat) : option gstate :=
  match g_vs g i with
  | None => None
  | Some v =>
      match v_base v with
      | Some _ => Some g
      | None =>
          match i with
          | O => None       (* parent == nil; the first virtual state always has a base *)
          | S j =>
              match realize g j with
              | None => None
              | Some g' =>
                  match g_vs g' j, g_vs g' i with
                  | Some p, Some v' => Some (set_vs g' i (set_base v' (v_committed p)))
                  | _, _ => None
                  end
              end
          end
      end
  end.

(* ------------------------------------------------------------------ *)
(* account access through a virtual state                               *)

(* depend.GetAccountROState(a) for a depend that has committed: the value of
   the read-only account it hands out.  (None where the code would have to
   wait or realize again; the proofs show these are not reached.) *)
Definition peek (g : gstate) (d : nat) (a : acct) : option Z :=
  match g_vs g d with
  | None => None
  | Some v =>
      match v_accts v a with
      | Some (mkLas _ (SRO x)) => Some x
      | Some (mkLas _ SLive) => Some (g_real g a)
      | Some (mkLas _ (SDep _)) => None
      | None =>
          match v_wlock v, v_base v with
          | NoLock, _ => None
          | _, None => None
          | wl, Some b =>
              match v_committed v with
              | Some w => Some (w a)
              | None => match wl with WriteLock => Some (g_real g a) | _ => Some (b a) end
              end
          end
      end
  end.

(* what GetAccountState returns: the live account of the real world state, or a
   read-only account with a fixed value *)
Inductive handle := HLive | HRO (v : Z).

(* wvs_i.GetAccountState(a) = getAccountStateInLock.  None = blocked (waitCommit
   of the depend, Realize) or nil (no lock covers a). *)
Definition access (g : gstate) (i : nat) (a : acct) : option (gstate * handle) :=
  match g_vs g i with
  | None => None
  | Some v =>
      match v_accts v a with
      | Some (mkLas l (SDep d)) =>
          if is_done g d then                                   (* las.depend.waitCommit() *)
            match l with
            | WriteLock => Some (set_las g i a (mkLas l SLive) (g_real g a), HLive)   (* real.GetAccountState(id); las.base = its snapshot *)
            | _ => match peek g d a with                                   (* depend.GetAccountROState(id) *)
                   | Some x => Some (set_las g i a (mkLas l (SRO x)) x, HRO x)
                   | None => None
                   end
            end
          else None
      | Some (mkLas _ SLive) => Some (g, HLive)
      | Some (mkLas _ (SRO x)) => Some (g, HRO x)
      | None =>
          match v_wlock v with
          | NoLock => None                                      (* return nil *)
          | wl =>
              match realize_base g i with
              | None => None
              | Some g' =>
                  match g_vs g' i with
                  | None => None
                  | Some v' =>
                      match v_committed v' with
                      | Some w => Some (g', HRO (w a))
                      | None =>
                          match wl with
                          | WriteLock => Some (g', HLive)
                          | _ => match v_base v' with Some b => Some (g', HRO (b a)) | None => None end
                          end
                      end
                  end
              end
          end
      end
  end.

(* ------------------------------------------------------------------ *)
(* Commit                                                               *)

(* the loop body of Commit for one entry *)
Definition commit_las (g : gstate) (a : acct) (l : las) : option las :=
  match l_lock l with
  | WriteLock =>
      match l_st l with
      | SDep d =>                                               (* never touched: publish the depend's value *)
          if is_done g d then
            match peek g d a with Some x => Some (mkLas WriteUnlock (SRO x)) | None => None end
          else None
      | SLive => Some (mkLas WriteUnlock (SRO (g_real g a)))     (* newAccountROState(las.state.GetSnapshot()) *)
      | SRO x => Some (mkLas WriteUnlock (SRO x))
      end
  | _ => Some l
  end.

(* wvs_i.Commit() *)
Definition commit (g : gstate) (i : nat) : option gstate :=
  match g_vs g i with
  | None => None
  | Some v =>
      if v_done v then Some g
      else if forallb (fun a => match v_accts v a with
                                | Some l => match commit_las g a l with Some _ => true | None => false end
                                | None => true
                                end) (v_keys v)
      then
        let accts := fun a => match v_accts v a with
                              | Some l => match commit_las g a l with Some l' => Some l' | None => Some l end
                              | None => None
                              end in
        match v_wlock v with
        | WriteLock => Some (set_vs g i (mkV WriteUnlock accts (v_keys v) (v_base v) (Some (g_real g)) true (v_lbase v) (v_snap v)))
        | wl => Some (set_vs g i (mkV wl accts (v_keys v) (v_base v) (v_committed v) true (v_lbase v) (v_snap v)))
        end
      else None
  end.

(* ------------------------------------------------------------------ *)
(* GetSnapshot / Reset                                                  *)

(* wvs.GetSnapshot() (after realizeBaseInLock for a world locker): with
   committed != nil the base is committed; under the world write lock the base
   is real.GetSnapshot(); else base = wvs.base and accountSnapshots holds the
   snapshot of every write entry whose state is resolved *)
Definition take_snapshot (g : gstate) (v : vstate) : snapshot :=
  match v_committed v with
  | Some c => mkSnap (Some c) (fun _ => None)
  | None =>
      match v_wlock v with
      | WriteLock => mkSnap (Some (g_real g)) (fun _ => None)
      | _ => mkSnap (v_base v)
               (fun a => match v_accts v a with
                         | Some (mkLas WriteLock SLive) => Some (g_real g a)
                         | Some (mkLas WriteLock (SRO x)) => Some x
                         | _ => None
                         end)
      end
  end.

(* the loop body of Reset for account a: the value the live account is reset
   to; Some None = the entry is left alone (no write lock, or state == nil);
   None = las.state.Reset(las.base) with a nil base (panics) *)
Definition reset_val (v : vstate) (s : snapshot) (a : acct) : option (option Z) :=
  match v_accts v a with
  | Some (mkLas WriteLock st) =>
      match s_accts s a with
      | Some x => Some (Some x)                         (* las.state.Reset(ass) *)
      | None =>
          match st with
          | SDep _ => Some None                          (* las.state == nil *)
          | _ => match s_base s with
                 | Some b => Some (Some (b a))           (* wvss.base.GetAccountSnapshot(id), Clear() if absent *)
                 | None => match v_lbase v a with
                           | Some x => Some (Some x)     (* las.state.Reset(las.base) *)
                           | None => None
                           end
                 end
          end
      end
  | _ => Some None
  end.

(* wvs_i.Reset(wvss) *)
Definition reset (g : gstate) (i : nat) : option gstate :=
  match g_vs g i with
  | None => None
  | Some v =>
      if v_done v then None                              (* AlreadyCommitted *)
      else match v_snap v with
           | None => None
           | Some s =>
               match v_wlock v with
               | WriteLock =>
                   match s_base s with
                   | Some b => Some (set_real g b)       (* wvs.real.Reset(wvss.base) *)
                   | None => None
                   end
               | _ =>
                   if forallb (fun a => match reset_val v s a with Some _ => true | None => false end) (v_keys v)
                   then Some (set_real g (fun a => match reset_val v s a with
                                                   | Some (Some x) => x
                                                   | _ => g_real g a
                                                   end))
                   else None
               end
           end
  end.

(* ------------------------------------------------------------------ *)
(* the small-step system                                                *)

Inductive actor := ADisp | AWorker (i : nat).

Definition init_state (level : nat) (w0 : world) : gstate :=
  mkG w0 (fun _ => None) (fun _ => None) None (fun _ => None) (DPrepare 0) level
      (fun _ => None) (fun _ => None) None.

Definition step_disp (txs : list tx) (g : gstate) : option gstate :=
  match g_disp g with
  | DPrepare i =>
      match nth_error txs i with
      | Some t => Some (set_disp (get_future g i t) (DSpawn i))     (* txh.Prepare(ctx) *)
      | None =>
          (* if wvs := ctx.WorldVirtualState(); wvs != nil { wvs.Realize() }; return *)
          match i with
          | O => Some (set_disp (set_final g (g_real g)) DDone)
          | S j => match realize g j with
                   | Some g' => Some (set_disp (set_final g' (g_real g')) DDone)
                   | None => None
                   end
          end
      end
  | DSpawn i =>
      match g_tokens g with
      | O => None                                                   (* ec.Ready() blocks *)
      | S k => Some (set_disp (set_work (set_tokens g k) i WStart) (DPrepare (S i)))
      end
  | DDone => None
  end.

(* wvs.GetSnapshot() at the head of the worker, then ctx.UpdateSystemInfo() *)
Definition step_start (txs : list tx) (g : gstate) (i : nat) : option gstate :=
  match nth_error txs i, g_vs g i with
  | Some t, Some v =>
      let g1 := match v_committed v with
                | Some _ => Some g
                | None => match v_wlock v with
                          | WriteLock | ReadLock => realize_base g i
                          | _ => Some g
                          end
                end in
      match g1 with
      | None => None
      | Some g1 =>
          match g_vs g1 i with
          | None => None
          | Some v1 =>
              let g1' := set_vs g1 i (set_snap v1 (take_snapshot g1 v1)) in      (* wvss := wvs.GetSnapshot() *)
              match access g1' i SYS with
              | Some (g2, _) => Some (set_work g2 i (WRun (tx_prog t)))
              | None => None
              end
          end
      end
  | _, _ => None
  end.

Definition step_worker (txs : list tx) (g : gstate) (i : nat) : option gstate :=
  match g_work g i with
  | None => None
  | Some WStart => step_start txs g i
  | Some (WRun (Read a k)) =>
      match access g i a with
      | Some (g', h) =>
          let v := match h with HLive => g_real g' a | HRO x => x end in
          Some (set_work g' i (WRun (k v)))
      | None => None
      end
  | Some (WRun (Write a x k)) =>
      match access g i a with
      | Some (g', HLive) => Some (set_work (set_real g' (upd (g_real g') a x)) i (WRun k))
      | Some (_, HRO _) => None        (* accountROState.SetBalance panics *)
      | None => None
      end
  | Some (WRun (Fail k)) =>            (* retryable error: wvs.Reset(wvss); new handler; next attempt
                                          (its UpdateSystemInfo repeats an access already made) *)
      match reset g i with
      | Some g' => Some (set_work g' i (WRun k))
      | None => None
      end
  | Some (WRun (Done r)) =>            (* *rb = rct; break; wvs.Commit() *)
      match commit (set_rct g i r) i with
      | Some g' => Some (set_work g' i WRelease)
      | None => None
      end
  | Some WRelease => Some (set_work (set_tokens g (S (g_tokens g))) i WFinished)   (* ec.Done() *)
  | Some WFinished => None
  end.

Definition step (txs : list tx) (g : gstate) (a : actor) : option gstate :=
  match a with
  | ADisp => step_disp txs g
  | AWorker i => step_worker txs g i
  end.

(* run a schedule; an actor that is chosen while it is blocked (or does not
   exist, or has finished) does nothing *)
Fixpoint run (txs : list tx) (g : gstate) (sched : list actor) : gstate :=
  match sched with
  | [] => g
  | a :: rest =>
      match step txs g a with
      | Some g' => run txs g' rest
      | None => run txs g rest
      end
  end.

Definition exec (level : nat) (w0 : world) (txs : list tx) (sched : list actor) : gstate :=
  run txs (init_state level w0) sched.

(* executeTxsConcurrent has returned *)
Definition complete (g : gstate) : bool :=
  match g_disp g with DDone => true | _ => false end.

Definition actors (txs : list tx) : list actor := ADisp :: map AWorker (seq 0 (length txs)).
Definition can_step (txs : list tx) (g : gstate) (a : actor) : bool :=
  match step txs g a with Some _ => true | None => false end.
Definition enabled (txs : list tx) (g : gstate) : list actor := filter (can_step txs g) (actors txs).

(* ------------------------------------------------------------------ *)
(* sequential execution (executeTxsSequential): one by one in block order *)

Definition apply_tx (w : world) (t : tx) : world := fst (run_prog (tx_prog t) w).
Definition seq_world (txs : list tx) (w0 : world) : world := fold_left apply_tx txs w0.

(* the world transaction i starts from, and its receipt *)
Definition world_before (txs : list tx) (w0 : world) (i : nat) : world := seq_world (firstn i txs) w0.
Definition observed_seq (txs : list tx) (w0 : world) (i : nat) : option (list Z) :=
  match nth_error txs i with
  | Some t => Some (snd (run_prog (tx_prog t) (world_before txs w0 i)))
  | None => None
  end.

(* ------------------------------------------------------------------ *)
(* what a transaction may touch under its lock requests                  *)

Definition can_read (t : tx) (a : acct) : bool :=
  match world_lock (reqs_of t), entry (reqs_of t) a with
  | NoLock, None => false
  | _, _ => true
  end.
Definition can_write (t : tx) (a : acct) : bool :=
  match world_lock (reqs_of t), entry (reqs_of t) a with
  | WriteLock, _ => true
  | _, Some WriteLock => true
  | _, _ => false
  end.

(* the transaction effectively write-locks a: later lockers of a depend on it *)
Definition eff_writer (t : tx) (a : acct) : bool := can_write t a.

(* the last transaction before position i that effectively write-locks a *)
Fixpoint last_writer (txs : list tx) (i : nat) (a : acct) : option nat :=
  match i with
  | O => None
  | S j => match nth_error txs j with
           | Some t => if eff_writer t a then Some j else last_writer txs j a
           | None => last_writer txs j a
           end
  end.

(* per account: the value after all earlier transactions that write-lock it *)
Definition prefix_view (txs : list tx) (w0 : world) (i : nat) : world :=
  fun a => match last_writer txs i a with
           | Some j => world_before txs w0 (S j) a
           | None => w0 a
           end.

(* ------------------------------------------------------------------ *)
(* a small concrete language for the correspondence run                  *)

Inductive sinstr :=
| SRead (a : acct)               (* push balance(a) on the observation list *)
| STouch (a : acct)              (* GetAccountState(a) only *)
| SAdd (a : acct) (k : Z)        (* balance(a) += k *)
| SSet (a : acct) (k : Z)        (* balance(a) = k *)
| SXfer (a b : acct) (k : Z).    (* if balance(a) >= k { a -= k; b += k; push 1 } else { push 0 } *)
Inductive instr :=
| IDo (s : sinstr)
| IGuard (a : acct) (k : Z) (s : sinstr).   (* s only if balance(a) >= k *)

(* obs: what was observed so far, newest first *)
Definition compile_s (s : sinstr) (obs : list Z) (rest : list Z -> prog) : prog :=
  match s with
  | SRead a => Read a (fun v => rest (v :: obs))
  | STouch a => Read a (fun _ => rest obs)
  | SAdd a k => Read a (fun v => Write a (v + k)%Z (rest obs))
  | SSet a k => Write a k (rest obs)
  | SXfer a b k =>
      Read a (fun va =>
        if (k <=? va)%Z
        then Write a (va - k)%Z (Read b (fun vb => Write b (vb + k)%Z (rest (1%Z :: obs))))
        else rest (0%Z :: obs))
  end.

(* fin: what follows the last instruction, given the observations *)
Fixpoint compile_k (is : list instr) (obs : list Z) (fin : list Z -> prog) : prog :=
  match is with
  | [] => fin obs
  | IDo s :: r => compile_s s obs (fun o => compile_k r o fin)
  | IGuard a k s :: r =>
      Read a (fun v => if (k <=? v)%Z then compile_s s obs (fun o => compile_k r o fin) else compile_k r obs fin)
  end.
Definition compile (is : list instr) (obs : list Z) : prog := compile_k is obs (fun o => Done (rev o)).

(* a transaction whose first attempts fail after fails[0], fails[1], …
   instructions (what they observed is dropped), followed by the full program *)
Definition compile_fails (is : list instr) (fails : list nat) : prog :=
  fold_right (fun k rest => compile_k (firstn k is) [] (fun _ => Fail rest)) (compile is []) fails.

(* syntactic check that a program touches only what the transaction declared *)
Definition sinstr_ok (t : tx) (s : sinstr) : bool :=
  match s with
  | SRead a | STouch a => can_read t a
  | SAdd a _ => can_read t a && can_write t a
  | SSet a _ => can_write t a
  | SXfer a b _ => can_read t a && can_write t a && can_read t b && can_write t b
  end.
Definition instr_ok (t : tx) (i : instr) : bool :=
  match i with
  | IDo s => sinstr_ok t s
  | IGuard a _ s => can_read t a && sinstr_ok t s
  end.
