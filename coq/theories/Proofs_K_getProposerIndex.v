(* Proofs_K_getProposerIndex.v -- consensus getProposerIndex (round-robin proposer)
   Split out of Proofs_Kernels.v: this file imports ONLY the generated kernel(s)
   gen/K_getProposerIndex.v, so an edit of another kernel's Go source cannot break it.
   Style: stdlib only; arithmetic closed by lia with the euclidean-division hook. *)
From Coq Require Import ZArith Bool String List Lia.
From Coq Require Import ZifyBool.
From Goloop Require Import lib.GoInt Proofs_K_tactics.
From Goloop.gen Require Import K_getProposerIndex.
Import ListNotations.
Local Open Scope Z_scope.

Ltac Zify.zify_post_hook ::= Z.to_euclidean_division_equations.

Lemma getProposerIndex_spec height round n :
  0 <= height -> 0 <= round -> height + round <= max_i64 -> 0 < n <= max_i64 ->
  getProposerIndex height round n = (height + round) mod n.
Proof.
  intros. unfold getProposerIndex. rewrite !wrap_i64_small by lia.
  apply rem_nonneg; lia.
Qed.

Lemma getProposerIndex_range height round n :
  0 <= height -> 0 <= round -> height + round <= max_i64 -> 0 < n <= max_i64 ->
  0 <= getProposerIndex height round n < n.
Proof. intros. rewrite getProposerIndex_spec by lia. apply Z.mod_pos_bound. lia. Qed.

Lemma getProposerIndex_params_ok :
  getProposerIndex_params = ["height"; "round"; "validators.Len()"]%string.
Proof. reflexivity. Qed.
