(* Proofs_K_overTwoThirdsDecision.v -- the threshold test inside voteSet.getOverTwoThirdsRoundDecisionDigest
   Split out of Proofs_Kernels.v: this file imports ONLY the generated kernel(s)
   gen/K_overTwoThirdsDecision.v, so an edit of another kernel's Go source cannot break it.
   Style: stdlib only; arithmetic closed by lia with the euclidean-division hook. *)
From Coq Require Import ZArith Bool String List Lia.
From Coq Require Import ZifyBool.
From Goloop Require Import lib.GoInt Proofs_K_tactics.
From Goloop.gen Require Import K_overTwoThirdsDecision.
Import ListNotations.
Local Open Scope Z_scope.

Ltac Zify.zify_post_hook ::= Z.to_euclidean_division_equations.

(* the test inside getOverTwoThirdsRoundDecisionDigest: the best counter vs the same bound *)
Lemma overTwoThirdsDecision_spec max n :
  0 <= n <= half_i64 ->
  overTwoThirdsDecision max n = true <-> 3 * max > 2 * n.
Proof. unfold overTwoThirdsDecision. kernel_lia. Qed.

Lemma overTwoThirdsDecision_params_ok : overTwoThirdsDecision_params = ["max"; "len(vs.msgs)"]%string.
Proof. reflexivity. Qed.
