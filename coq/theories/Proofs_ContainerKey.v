(* Proofs_ContainerKey.v — lemmas about Model_ContainerKey (property C21). Style: stdlib only. *)
From Goloop Require Import lib.Bytes Model_ContainerKey.
From Coq Require Import ZifyBool ZifyN ZifyNat.
Ltac Zify.zify_post_hook ::= Z.div_mod_to_equations.
Open Scope N_scope.

(* ================================================================== *)
(* lists                                                              *)
(* ================================================================== *)
Lemma lenN_nil : lenN [] = 0.
Proof. reflexivity. Qed.
Lemma lenN_cons x l : lenN (x :: l) = N.succ (lenN l).
Proof. unfold lenN. cbn [length]. lia. Qed.
Lemma lenN_app a b : lenN (a ++ b) = lenN a + lenN b.
Proof. unfold lenN. rewrite app_length. lia. Qed.

Lemma takeN_app a x : takeN (lenN a) (a ++ x) = a.
Proof.
  induction a as [|y a IH]; cbn [app].
  - rewrite lenN_nil. destruct x; reflexivity.
  - cbn [takeN]. rewrite lenN_cons. destruct (N.succ (lenN a) =? 0) eqn:E; [lia|].
    f_equal. replace (N.succ (lenN a) - 1) with (lenN a) by lia. exact IH.
Qed.

Lemma dropN_app a x : dropN (lenN a) (a ++ x) = x.
Proof.
  induction a as [|y a IH]; cbn [app].
  - rewrite lenN_nil. destruct x; reflexivity.
  - cbn [dropN]. rewrite lenN_cons. destruct (N.succ (lenN a) =? 0) eqn:E; [lia|].
    replace (N.succ (lenN a) - 1) with (lenN a) by lia. exact IH.
Qed.

Lemma dropN_length n l : (length (dropN n l) <= length l)%nat.
Proof.
  revert n; induction l as [|x r IH]; intros n; cbn [dropN length]; [lia|].
  destruct (n =? 0); cbn [length]; [lia|]. specialize (IH (n - 1)). lia.
Qed.

Lemma firstn_exact {A} (a r : list A) n : length a = n -> firstn n (a ++ r) = a.
Proof. intros <-. induction a as [|x a IH]; cbn; [now destruct r | now rewrite IH]. Qed.

Lemma skipn_exact {A} (a r : list A) n : length a = n -> skipn n (a ++ r) = r.
Proof. intros <-. induction a as [|x a IH]; cbn; [reflexivity | exact IH]. Qed.

Lemma app_inj_len {A} (a c b d : list A) : length a = length c -> a ++ b = c ++ d -> a = c /\ b = d.
Proof.
  revert c; induction a as [|x a IH]; intros [|y c] Hl E; cbn in *; try discriminate.
  - auto.
  - inversion E; subst. destruct (IH c) as [-> ->]; auto.
Qed.

(* ================================================================== *)
(* big-endian                                                         *)
(* ================================================================== *)
Lemma fold_be l : forall acc, fold_left (fun a b => a * 256 + b) l acc = acc * 256 ^ lenN l + be_val l.
Proof.
  unfold be_val. induction l as [|x l IH]; intros acc; cbn [fold_left].
  - rewrite lenN_nil. cbn. lia.
  - rewrite (IH (acc * 256 + x)), (IH (0 * 256 + x)), lenN_cons, N.pow_succ_r'. ring.
Qed.

Lemma be_val_cons x l : be_val (x :: l) = x * 256 ^ lenN l + be_val l.
Proof. unfold be_val at 1. cbn [fold_left]. rewrite fold_be. ring. Qed.

Lemma be_val_app a b : be_val (a ++ b) = be_val a * 256 ^ lenN b + be_val b.
Proof. unfold be_val at 1. rewrite fold_left_app. fold (be_val a). apply fold_be. Qed.

Lemma be_bytes_length n v : length (be_bytes n v) = n.
Proof. induction n as [|k IH]; cbn [be_bytes length]; [reflexivity | now rewrite IH]. Qed.

Lemma pow256 k : 2 ^ (8 * k) = 256 ^ k.
Proof. rewrite N.pow_mul_r. reflexivity. Qed.

Lemma be_val_be_bytes n v : be_val (be_bytes n v) = v mod 256 ^ N.of_nat n.
Proof.
  induction n as [|k IH]; cbn [be_bytes].
  - cbn. now rewrite N.mod_1_r.
  - rewrite be_val_cons, IH. unfold lenN. rewrite be_bytes_length, pow256.
    rewrite Nat2N.inj_succ, N.pow_succ_r', (N.mul_comm 256).
    assert (Hp : 256 ^ N.of_nat k <> 0) by (apply N.pow_nonzero; lia).
    rewrite N.mod_mul_r by (assumption || lia). ring.
Qed.

(* ================================================================== *)
(* rlpCountBytesForSize                                               *)
(* ================================================================== *)
Lemma cnt_loop_bound fuel : forall b, (N.to_nat b <= fuel)%nat -> b < 256 ^ N.of_nat (cnt_loop fuel b).
Proof.
  induction fuel as [|f IH]; intros b Hb; cbn [cnt_loop].
  - cbn. lia.
  - destruct (0 <? b) eqn:E; [|cbn; lia].
    assert (Hd : (N.to_nat (b / 256) <= f)%nat) by lia.
    specialize (IH _ Hd). rewrite Nat2N.inj_succ, N.pow_succ_r'. lia.
Qed.

Lemma cnt_loop_min fuel : forall b, (0 < cnt_loop fuel b)%nat ->
  256 ^ N.of_nat (cnt_loop fuel b - 1) <= b.
Proof.
  induction fuel as [|f IH]; intros b Hc; cbn [cnt_loop] in *; [lia|].
  destruct (0 <? b) eqn:E; [|lia].
  cbn [Nat.sub]. rewrite Nat.sub_0_r.
  destruct (cnt_loop f (b / 256)) as [|c] eqn:Ec; [cbn; lia|].
  specialize (IH (b / 256)). rewrite Ec in IH. specialize (IH ltac:(lia)).
  cbn [Nat.sub] in IH. rewrite Nat.sub_0_r in IH.
  rewrite Nat2N.inj_succ, N.pow_succ_r'. lia.
Qed.

Lemma count_bound (l : bytes) : lenN l < 256 ^ N.of_nat (rlp_count_bytes (length l) (lenN l)).
Proof.
  unfold rlp_count_bytes.
  assert (H : (N.to_nat (lenN l / 256) <= length l)%nat) by (unfold lenN; lia).
  pose proof (cnt_loop_bound _ _ H). rewrite Nat2N.inj_succ, N.pow_succ_r'. lia.
Qed.

(* for sizes that fit a Go int the length field has at most 8 bytes *)
Lemma count_le8 (l : bytes) : lenN l <= max_int -> (rlp_count_bytes (length l) (lenN l) <= 8)%nat.
Proof.
  intros Hm. unfold rlp_count_bytes.
  destruct (le_lt_dec (cnt_loop (length l) (lenN l / 256)) 7) as [|Hgt]; [lia|].
  pose proof (cnt_loop_min (length l) (lenN l / 256) ltac:(lia)) as Hmin.
  assert (256 ^ 7 <= 256 ^ N.of_nat (cnt_loop (length l) (lenN l / 256) - 1)) by (apply N.pow_le_mono_r; lia).
  unfold max_int in Hm. change (256 ^ 7) with 72057594037927936 in *. lia.
Qed.

(* the first byte of the length field is not zero *)
Lemma count_lead (l : bytes) : 55 < lenN l ->
  let ts := rlp_count_bytes (length l) (lenN l) in
  exists k, ts = S k /\ (lenN l / 2 ^ (8 * N.of_nat k)) mod 256 <> 0.
Proof.
  intros Hl ts. subst ts. unfold rlp_count_bytes. set (c := cnt_loop (length l) (lenN l / 256)).
  exists c. split; [reflexivity|]. rewrite pow256.
  assert (Hub : lenN l < 256 ^ N.of_nat (S c)) by apply count_bound.
  rewrite Nat2N.inj_succ, N.pow_succ_r' in Hub.
  assert (Hp : 256 ^ N.of_nat c <> 0) by (apply N.pow_nonzero; lia).
  assert (Hlb : 256 ^ N.of_nat c <= lenN l).
  { destruct c as [|c'] eqn:Ec; [cbn; lia|].
    pose proof (cnt_loop_min (length l) (lenN l / 256)) as Hmin. fold c in Hmin. rewrite Ec in Hmin.
    specialize (Hmin ltac:(lia)). cbn [Nat.sub] in Hmin. rewrite Nat.sub_0_r in Hmin.
    rewrite Nat2N.inj_succ, N.pow_succ_r'. lia. }
  set (P := 256 ^ N.of_nat c) in *.
  assert (1 <= lenN l / P) by (apply N.div_le_lower_bound; lia).
  assert (lenN l / P < 256) by (apply N.div_lt_upper_bound; lia).
  rewrite N.mod_small by lia. lia.
Qed.

(* ================================================================== *)
(* the item encoding is prefix-free (no bound on the length)          *)
(* ================================================================== *)
(* a decoder without the size limits of rlpParseBytes, used only in proofs *)
Definition gparse (bs : bytes) : option (bytes * bytes) :=
  match bs with
  | [] => None
  | tag :: data =>
      if tag <? 128 then Some ([tag], data)
      else if tag <? 184 then Some (takeN (tag - 128) data, dropN (tag - 128) data)
      else let ts := N.to_nat (tag - 183) in
           let size := be_val (firstn ts data) in
           let d := skipn ts data in
           Some (takeN size d, dropN size d)
  end.

Lemma gparse_hdr b x : gparse (rlp_hdr_item b ++ x) = Some (b, x).
Proof.
  unfold rlp_hdr_item. destruct (lenN b <=? 55) eqn:E.
  - cbn [app gparse].
    destruct (128 + lenN b <? 128) eqn:E1; [lia|].
    destruct (128 + lenN b <? 184) eqn:E2; [|lia].
    replace (128 + lenN b - 128) with (lenN b) by lia.
    now rewrite takeN_app, dropN_app.
  - set (ts := rlp_count_bytes (length b) (lenN b)).
    assert (Hts : (1 <= ts)%nat) by (unfold ts, rlp_count_bytes; lia).
    cbn [app gparse].
    destruct (183 + N.of_nat ts <? 128) eqn:E1; [lia|].
    destruct (183 + N.of_nat ts <? 184) eqn:E2; [lia|].
    replace (183 + N.of_nat ts - 183) with (N.of_nat ts) by lia. rewrite Nat2N.id.
    rewrite <- app_assoc.
    rewrite firstn_exact by apply be_bytes_length.
    rewrite skipn_exact by apply be_bytes_length.
    rewrite be_val_be_bytes, N.mod_small by apply count_bound.
    now rewrite takeN_app, dropN_app.
Qed.

Lemma gparse_item b x : gparse (rlp_item b ++ x) = Some (b, x).
Proof.
  destruct b as [|y [|z r]]; unfold rlp_item; try apply gparse_hdr.
  destruct (y <? 128) eqn:E; [|apply gparse_hdr].
  cbn [app gparse]. now rewrite E.
Qed.

Lemma rlp_item_prefix_free a b x y : rlp_item a ++ x = rlp_item b ++ y -> a = b /\ x = y.
Proof.
  intros E. pose proof (gparse_item a x) as Ha. rewrite E, gparse_item in Ha.
  inversion Ha; auto.
Qed.

Lemma rlp_item_inj a b : rlp_item a = rlp_item b -> a = b.
Proof.
  intros E. apply (rlp_item_prefix_free a b [] []). now rewrite !app_nil_r.
Qed.

Lemma rlp_item_nonempty b : rlp_item b <> [].
Proof.
  intros E. pose proof (gparse_item b []) as H. rewrite E in H. cbn in H. discriminate.
Qed.

Lemma concat_items_inj ps : forall qs,
  concat (map rlp_item ps) = concat (map rlp_item qs) -> ps = qs.
Proof.
  induction ps as [|p ps IH]; intros [|q qs] E; cbn [map concat] in E.
  - reflexivity.
  - symmetry in E. apply app_eq_nil in E as [E _]. now apply rlp_item_nonempty in E.
  - apply app_eq_nil in E as [E _]. now apply rlp_item_nonempty in E.
  - apply rlp_item_prefix_free in E as [-> E]. now rewrite (IH _ E).
Qed.

Lemma append_injective pre ps qs : append_keys pre ps = append_keys pre qs -> ps = qs.
Proof. unfold append_keys. intros E. apply app_inv_head in E. now apply concat_items_inj. Qed.

Lemma append_injective_prefix pre1 pre2 ps qs : length pre1 = length pre2 ->
  append_keys pre1 ps = append_keys pre2 qs -> pre1 = pre2 /\ ps = qs.
Proof.
  unfold append_keys. intros Hl E. apply app_inj_len in E as [-> E]; [|exact Hl].
  split; [reflexivity | now apply concat_items_inj].
Qed.

Lemma append_keys_app pre ps qs : append_keys (append_keys pre ps) qs = append_keys pre (ps ++ qs).
Proof. unfold append_keys. now rewrite map_app, concat_app, app_assoc. Qed.

(* all produced bytes are bytes when the parts are and the lengths fit 8 bytes *)
Lemma be_bytes_ok n v : bytes_ok (be_bytes n v) = true.
Proof.
  induction n as [|k IH]; cbn [be_bytes bytes_ok forallb]; [reflexivity|].
  fold (bytes_ok (be_bytes k v)). rewrite IH. unfold byte_ok.
  destruct ((v / 2 ^ (8 * N.of_nat k)) mod 256 <? 256) eqn:E; [reflexivity | lia].
Qed.

Lemma bytes_ok_app a b : bytes_ok (a ++ b) = bytes_ok a && bytes_ok b.
Proof. unfold bytes_ok. apply forallb_app. Qed.

Lemma rlp_item_ok b : bytes_ok b = true -> lenN b <= max_int -> bytes_ok (rlp_item b) = true.
Proof.
  intros Hb Hm.
  assert (Hh : bytes_ok (rlp_hdr_item b) = true).
  { unfold rlp_hdr_item. destruct (lenN b <=? 55) eqn:E.
    - cbn [bytes_ok forallb]. fold (bytes_ok b). rewrite Hb. unfold byte_ok.
      destruct (128 + lenN b <? 256) eqn:E1; [reflexivity | lia].
    - pose proof (count_le8 b Hm).
      cbn [bytes_ok forallb]. fold (bytes_ok (be_bytes (rlp_count_bytes (length b) (lenN b)) (lenN b) ++ b)).
      rewrite bytes_ok_app, be_bytes_ok, Hb. unfold byte_ok.
      destruct (183 + N.of_nat (rlp_count_bytes (length b) (lenN b)) <? 256) eqn:E1; [reflexivity | lia]. }
  destruct b as [|y [|z r]]; unfold rlp_item; try exact Hh.
  destruct (y <? 128) eqn:E; [|exact Hh]. cbn. unfold byte_ok.
  destruct (y <? 256) eqn:E1; [reflexivity | lia].
Qed.

(* ================================================================== *)
(* rlpParseBytes / SplitKeys invert AppendKeys                        *)
(* ================================================================== *)
Lemma rlp_parse_hdr b x : lenN b <= max_int -> rlp_parse (rlp_hdr_item b ++ x) = Some (b, x).
Proof.
  intros Hm. unfold rlp_hdr_item. destruct (lenN b <=? 55) eqn:E.
  - cbn [app rlp_parse].
    destruct (128 + lenN b <? 128) eqn:E1; [lia|].
    destruct (128 + lenN b <? 184) eqn:E2; [|lia].
    replace (128 + lenN b - 128) with (lenN b) by lia.
    rewrite lenN_app. destruct (lenN b + lenN x <? lenN b) eqn:E3; [lia|].
    now rewrite takeN_app, dropN_app.
  - pose proof (count_le8 b Hm) as H8.
    destruct (count_lead b ltac:(lia)) as [k [Hk Hlead]].
    set (ts := rlp_count_bytes (length b) (lenN b)) in *.
    cbn [app rlp_parse].
    destruct (183 + N.of_nat ts <? 128) eqn:E1; [lia|].
    destruct (183 + N.of_nat ts <? 184) eqn:E2; [lia|].
    destruct (183 + N.of_nat ts <? 192) eqn:E3; [|lia].
    replace (183 + N.of_nat ts - 183) with (N.of_nat ts) by lia. rewrite Nat2N.id.
    rewrite <- app_assoc.
    assert (Hrs : rlp_read_size (be_bytes ts (lenN b) ++ b ++ x) ts = Some (lenN b)).
    { unfold rlp_read_size.
      destruct (length (be_bytes ts (lenN b) ++ b ++ x) <? ts)%nat eqn:E4.
      - rewrite app_length, be_bytes_length in E4. lia.
      - rewrite firstn_exact by apply be_bytes_length.
        rewrite be_val_be_bytes, N.mod_small by apply count_bound.
        rewrite Hk. cbn [be_bytes app].
        destruct (lenN b <? 56) eqn:E5; [lia|].
        destruct ((lenN b / 2 ^ (8 * N.of_nat k)) mod 256 =? 0) eqn:E6; [lia|].
        destruct (max_int <? lenN b) eqn:E7; [lia|]. reflexivity. }
    rewrite Hrs. rewrite skipn_exact by apply be_bytes_length.
    rewrite lenN_app. destruct (lenN b + lenN x <? lenN b) eqn:E8; [lia|].
    now rewrite takeN_app, dropN_app.
Qed.

Lemma rlp_parse_item b x : lenN b <= max_int -> rlp_parse (rlp_item b ++ x) = Some (b, x).
Proof.
  intros Hm. destruct b as [|y [|z r]]; unfold rlp_item; try (apply rlp_parse_hdr; exact Hm).
  destruct (y <? 128) eqn:E; [|apply rlp_parse_hdr; exact Hm].
  cbn [app rlp_parse]. now rewrite E.
Qed.

Lemma split_fuel_append ps : Forall (fun p => lenN p <= max_int) ps ->
  forall fuel, (length (concat (map rlp_item ps)) <= fuel)%nat ->
  split_fuel fuel (concat (map rlp_item ps)) = SOk ps.
Proof.
  induction 1 as [|p ps Hp Hps IH]; intros fuel Hf; cbn [map concat] in *.
  - destruct fuel; reflexivity.
  - destruct (rlp_item p ++ concat (map rlp_item ps)) as [|h t] eqn:K.
    + apply app_eq_nil in K as [K _]. now apply rlp_item_nonempty in K.
    + destruct fuel as [|f]; [cbn in Hf; lia|].
      cbn [split_fuel]. rewrite <- K, (rlp_parse_item _ _ Hp).
      rewrite IH; [reflexivity|].
      assert (1 <= length (rlp_item p))%nat.
      { destruct (rlp_item p) eqn:Ei; [now apply rlp_item_nonempty in Ei | cbn; lia]. }
      rewrite <- K, app_length in Hf. lia.
Qed.

Lemma split_append ps : Forall (fun p => lenN p <= max_int) ps ->
  split_keys (append_keys [] ps) = SOk ps.
Proof. intros H. unfold split_keys, append_keys. cbn [app]. now apply split_fuel_append. Qed.

(* the fuel of split_keys always suffices *)
Lemma rlp_parse_shrinks bs p r : rlp_parse bs = Some (p, r) -> (length r < length bs)%nat.
Proof.
  destruct bs as [|tag data]; cbn [rlp_parse]; [discriminate|].
  destruct (tag <? 128); [intros H; inversion H; subst; cbn; lia|].
  destruct (tag <? 184).
  - destruct (lenN data <? tag - 128); [discriminate|]. intros H; inversion H; subst.
    pose proof (dropN_length (tag - 128) data). cbn [length]. lia.
  - destruct (tag <? 192); [|discriminate].
    destruct (rlp_read_size data (N.to_nat (tag - 183))) as [size|]; [|discriminate].
    destruct (lenN (skipn (N.to_nat (tag - 183)) data) <? size); [discriminate|].
    intros H; inversion H; subst.
    pose proof (dropN_length size (skipn (N.to_nat (tag - 183)) data)).
    pose proof (skipn_length (N.to_nat (tag - 183)) data). cbn [length]. lia.
Qed.

Lemma split_fuel_enough fuel : forall key, (length key <= fuel)%nat -> split_fuel fuel key <> SFuel.
Proof.
  induction fuel as [|f IH]; intros key Hk.
  - destruct key; [cbn; discriminate | cbn in Hk; lia].
  - destruct key as [|h t]; [cbn; discriminate|]. cbn [split_fuel].
    destruct (rlp_parse (h :: t)) as [[p r]|] eqn:E; [|discriminate].
    apply rlp_parse_shrinks in E. specialize (IH r ltac:(cbn [length] in *; lia)).
    destruct (split_fuel f r); congruence.
Qed.

Lemma split_keys_total key : split_keys key <> SFuel.
Proof. apply split_fuel_enough. lia. Qed.

(* ================================================================== *)
(* Int64ToBytes / BytesToInt64                                        *)
(* ================================================================== *)

(* signed value of a big-endian two's complement byte string *)
Definition sval (bs : bytes) : Z :=
  match bs with
  | [] => 0%Z
  | b0 :: _ => if 128 <=? b0 then (Z.of_N (be_val bs) - 256 ^ Z.of_N (lenN bs))%Z else Z.of_N (be_val bs)
  end.

Lemma lowbyte_val v : Z.of_N (lowbyte v) = (v mod 256)%Z.
Proof. unfold lowbyte. lia. Qed.

Lemma be_val_single b : be_val [b] = b.
Proof. cbn. lia. Qed.

Lemma i64_single v : (-128 <= v <= 127)%Z -> sval [lowbyte v] = v /\ bytes_ok [lowbyte v] = true.
Proof.
  intros Hv. unfold sval. rewrite be_val_single. pose proof (lowbyte_val v) as Hl.
  split.
  - destruct (128 <=? lowbyte v) eqn:E; cbn; lia.
  - cbn. unfold byte_ok. destruct (lowbyte v <? 256) eqn:E; [reflexivity | lia].
Qed.

Lemma sval_snoc l x : l <> [] -> x < 256 -> sval (l ++ [x]) = (256 * sval l + Z.of_N x)%Z.
Proof.
  intros Hne Hx. destruct l as [|b0 t]; [contradiction|].
  unfold sval. cbn [app]. change (b0 :: t ++ [x]) with ((b0 :: t) ++ [x]).
  rewrite be_val_app, lenN_app. change (lenN [x]) with 1. rewrite be_val_single.
  set (L := lenN (b0 :: t)). set (V := be_val (b0 :: t)).
  change (256 ^ 1) with 256.
  replace (Z.of_N (L + 1)) with (Z.of_N L + 1)%Z by lia.
  rewrite Z.pow_add_r by lia. change (256 ^ 1)%Z with 256%Z.
  destruct (128 <=? b0); lia.
Qed.

Lemma i64_loop_spec k : forall v, (-128 * 256 ^ Z.of_nat k <= v < 128 * 256 ^ Z.of_nat k)%Z ->
  let l := i64_loop (S k) v in
  l <> [] /\ (length l <= S k)%nat /\ bytes_ok l = true /\ sval l = v.
Proof.
  induction k as [|k IH]; intros v Hv l; subst l.
  - cbn [i64_loop]. change (256 ^ Z.of_nat 0)%Z with 1%Z in Hv.
    unfold fits7. destruct ((-128 <=? v) && (v <=? 127))%Z eqn:E; [|lia].
    destruct (i64_single v ltac:(lia)) as [H1 H2]. repeat split; auto; try discriminate; try (cbn; lia).
  - change (i64_loop (S (S k)) v) with (if fits7 v then [lowbyte v] else i64_loop (S k) (v / 256) ++ [lowbyte v]).
    unfold fits7. destruct ((-128 <=? v) && (v <=? 127))%Z eqn:E.
    + destruct (i64_single v ltac:(lia)) as [H1 H2]. repeat split; auto; try discriminate; try (cbn; lia).
    + rewrite Nat2Z.inj_succ, Z.pow_succ_r in Hv by lia.
      assert (Hd : (-128 * 256 ^ Z.of_nat k <= v / 256 < 128 * 256 ^ Z.of_nat k)%Z) by lia.
      destruct (IH (v / 256)%Z Hd) as (Hne & Hlen & Hok & Hs).
      set (l' := i64_loop (S k) (v / 256)) in *.
      pose proof (lowbyte_val v) as Hl.
      assert (Hx : lowbyte v < 256) by lia.
      repeat split.
      * intros C. apply app_eq_nil in C as [_ C]. discriminate.
      * rewrite app_length. cbn [length]. lia.
      * rewrite bytes_ok_app, Hok. cbn. unfold byte_ok. destruct (lowbyte v <? 256) eqn:E1; [reflexivity | lia].
      * rewrite sval_snoc by assumption. rewrite Hs, Hl. lia.
Qed.

Lemma be_val_compl l : bytes_ok l = true ->
  be_val (map (fun b => 255 - b) l) + be_val l + 1 = 256 ^ lenN l.
Proof.
  induction l as [|x l IH]; cbn [map bytes_ok forallb]; intros H.
  - cbn. lia.
  - apply andb_true_iff in H as [Hx Hl]. unfold byte_ok in Hx. specialize (IH Hl).
    rewrite !be_val_cons, lenN_cons, N.pow_succ_r'. unfold lenN in *. rewrite map_length.
    set (P := 256 ^ N.of_nat (length l)) in *.
    replace ((255 - x) * P) with (255 * P - x * P) by (rewrite N.mul_sub_distr_r; reflexivity).
    assert (x * P <= 255 * P) by (apply N.mul_le_mono_r; lia). lia.
Qed.

Lemma bytes_to_int64_sval l : l <> [] -> (length l <= 8)%nat -> bytes_ok l = true ->
  bytes_to_int64 l = Some (sval l).
Proof.
  intros Hne Hlen Hok. destruct l as [|b0 t]; [contradiction|].
  unfold bytes_to_int64, sval.
  destruct (8 <? length (b0 :: t))%nat eqn:E; [lia|].
  destruct (128 <=? b0); [|reflexivity].
  pose proof (be_val_compl _ Hok) as Hc. f_equal.
  change (256 ^ Z.of_N (lenN (b0 :: t)))%Z with (Z.of_N 256 ^ Z.of_N (lenN (b0 :: t)))%Z.
  rewrite <- N2Z.inj_pow, <- Hc. lia.
Qed.

Lemma int64_roundtrip v : in_i64 v -> bytes_to_int64 (int64_to_bytes v) = Some v.
Proof.
  intros Hv. unfold int64_to_bytes. destruct (v =? 0)%Z eqn:E.
  - assert (v = 0%Z) by lia. subst. reflexivity.
  - unfold in_i64 in Hv.
    destruct (i64_loop_spec 7 v) as (Hne & Hlen & Hok & Hs).
    { change (256 ^ Z.of_nat 7)%Z with 72057594037927936%Z. lia. }
    rewrite bytes_to_int64_sval by assumption. now rewrite Hs.
Qed.

Lemma int64_to_bytes_inj v w : in_i64 v -> in_i64 w -> int64_to_bytes v = int64_to_bytes w -> v = w.
Proof.
  intros Hv Hw E. pose proof (int64_roundtrip v Hv) as H1. rewrite E, (int64_roundtrip w Hw) in H1.
  now inversion H1.
Qed.

Lemma int64_to_bytes_nonempty v : int64_to_bytes v <> [].
Proof.
  unfold int64_to_bytes. destruct (v =? 0)%Z; [discriminate|].
  cbn [i64_loop]. destruct (fits7 v); [discriminate|].
  intros C. apply app_eq_nil in C as [_ C]. discriminate.
Qed.

(* ================================================================== *)
(* ToBytes is injective on each type                                  *)
(* ================================================================== *)
Lemma to_bytes_int_inj v w : in_i64 v -> in_i64 w -> to_bytes (VInt v) = to_bytes (VInt w) -> v = w.
Proof. exact (int64_to_bytes_inj v w). Qed.

Lemma to_bytes_bool_inj a b : to_bytes (VBool a) = to_bytes (VBool b) -> a = b.
Proof. destruct a, b; cbn; intros H; try reflexivity; discriminate. Qed.

Lemma to_bytes_addr_inj c1 i1 c2 i2 : to_bytes (VAddr c1 i1) = to_bytes (VAddr c2 i2) -> c1 = c2 /\ i1 = i2.
Proof. destruct c1, c2; cbn; intros H; inversion H; auto. Qed.

Lemma to_bytes_str_inj a b : to_bytes (VStr a) = to_bytes (VStr b) -> a = b.
Proof. cbn. auto. Qed.

Lemma to_bytes_bytes_inj a b : to_bytes (VBytes a) = to_bytes (VBytes b) -> a = b.
Proof. cbn. auto. Qed.

(* by design, values of different types may have the same bytes *)
Example to_bytes_cross_type : to_bytes (VInt 97) = to_bytes (VStr [97]) /\ to_bytes (VBool true) = to_bytes (VInt 1).
Proof. split; reflexivity. Qed.

(* ================================================================== *)
(* builders                                                           *)
(* ================================================================== *)
Lemma bytes_dec (a b : bytes) : {a = b} + {a <> b}.
Proof. apply list_eq_dec. apply N.eq_dec. Qed.

Section BuilderFacts.
  Variable H : bytes -> bytes.
  Definition collision : Prop := exists a b : bytes, a <> b /\ H a = H b.

  Lemma b_append_app b x y : b_append (b_append b x) y = b_append b (x ++ y).
  Proof.
    destruct b; cbn [b_append]; rewrite ?append_keys_app; try reflexivity.
    unfold append_raw_keys. now rewrite concat_app, app_assoc.
  Qed.

  Lemma b_append_nil b : b_append b [] = b.
  Proof. destruct b; cbn [b_append]; unfold append_keys, append_raw_keys; cbn; now rewrite app_nil_r. Qed.

  (* RLP builder: equal keys, equal paths *)
  Lemma rlp_key_inj pre ps qs :
    b_build H (b_append (BRlp pre) ps) = b_build H (b_append (BRlp pre) qs) -> ps = qs.
  Proof. cbn. apply append_injective. Qed.

  (* hashed builder: equal keys, equal paths — or a collision of H is exhibited *)
  Lemma hashed_distinct_or_collision pre ps qs :
    b_build H (b_append (BHash pre) ps) = b_build H (b_append (BHash pre) qs) -> ps = qs \/ collision.
  Proof.
    cbn. intros E. destruct (bytes_dec (append_keys pre ps) (append_keys pre qs)) as [Ea|Ea].
    - left. now apply append_injective in Ea.
    - right. now exists (append_keys pre ps), (append_keys pre qs).
  Qed.

  Lemma prefixed_distinct_or_collision raw1 raw2 pre ps qs : length raw1 = length raw2 ->
    b_build H (b_append (BPrefixedHash raw1 pre) ps) = b_build H (b_append (BPrefixedHash raw2 pre) qs) ->
    (raw1 = raw2 /\ ps = qs) \/ collision.
  Proof.
    cbn. intros Hl E. apply append_injective_prefix in E as [-> E]; [|exact Hl].
    inversion E as [E'].
    destruct (bytes_dec (append_keys pre ps) (append_keys pre qs)) as [Ea|Ea].
    - left. split; [reflexivity|]. now apply append_injective in Ea.
    - right. now exists (append_keys pre ps), (append_keys pre qs).
  Qed.

  (* keys made by ToKey followed by Append calls *)
  Lemma to_key_hash_distinct_or_collision ps qs b1 b2 :
    to_key KHash ps = Some b1 -> to_key KHash qs = Some b2 -> b_build H b1 = b_build H b2 -> ps = qs \/ collision.
  Proof.
    unfold to_key. intros E1 E2 E. inversion E1; inversion E2; subst.
    apply (hashed_distinct_or_collision [] ps qs). exact E.
  Qed.

  Lemma to_key_rlp_inj ps qs b1 b2 :
    to_key KRlp ps = Some b1 -> to_key KRlp qs = Some b2 -> b_build H b1 = b_build H b2 -> ps = qs.
  Proof.
    unfold to_key. intros E1 E2 E. inversion E1; inversion E2; subst.
    cbn [b_build] in E. now apply append_injective in E.
  Qed.
End BuilderFacts.

(* ================================================================== *)
(* separation of containers                                           *)
(* ================================================================== *)
Lemma app_eq_prefix {A} (p q e1 e2 : list A) : p ++ e1 = q ++ e2 -> (exists r, p = q ++ r) \/ (exists r, q = p ++ r).
Proof.
  revert q; induction p as [|x p IH]; intros q E.
  - right. exists q. reflexivity.
  - destruct q as [|y q].
    + left. exists (x :: p). reflexivity.
    + cbn in E. inversion E; subst. destruct (IH q H1) as [[r ->]|[r ->]]; [left | right]; exists r; reflexivity.
Qed.

(* paths none of which extends the other: no slot below one is a slot below the other *)
Lemma prefix_separation pre (p q e1 e2 : list bytes) :
  (forall r, p <> q ++ r) -> (forall r, q <> p ++ r) ->
  append_keys pre (p ++ e1) <> append_keys pre (q ++ e2).
Proof.
  intros Hp Hq E. apply append_injective in E. apply app_eq_prefix in E as [[r E]|[r E]]; [now apply (Hp r) | now apply (Hq r)].
Qed.

Lemma tag_separation pre (t1 t2 : bytes) (p q e1 e2 : list bytes) : t1 <> t2 ->
  append_keys pre ((t1 :: p) ++ e1) <> append_keys pre ((t2 :: q) ++ e2).
Proof.
  intros Ht. apply prefix_separation; intros r E; cbn in E; inversion E; congruence.
Qed.

Lemma tag_separation_hashed (H : bytes -> bytes) pre (t1 t2 : bytes) (p q e1 e2 : list bytes) : t1 <> t2 ->
  H (append_keys pre ((t1 :: p) ++ e1)) = H (append_keys pre ((t2 :: q) ++ e2)) -> collision H.
Proof.
  intros Ht E. exists (append_keys pre ((t1 :: p) ++ e1)), (append_keys pre ((t2 :: q) ++ e2)).
  split; [now apply tag_separation | exact E].
Qed.

(* ================================================================== *)
(* the store                                                          *)
(* ================================================================== *)
Lemma bytes_eqb_neq a b : a <> b -> bytes_eqb a b = false.
Proof. intros H. destruct (bytes_eqb a b) eqn:E; [apply bytes_eqb_eq in E; contradiction | reflexivity]. Qed.

Lemma kv_get_del s k k' : kv_get (kv_del s k) k' = if bytes_eqb k k' then None else kv_get s k'.
Proof.
  induction s as [|[k2 v] r IH]; cbn [kv_del kv_get].
  - now destruct (bytes_eqb k k').
  - destruct (bytes_eqb k2 k) eqn:E.
    + apply bytes_eqb_eq in E; subst. rewrite IH. now destruct (bytes_eqb k k').
    + cbn [kv_get]. rewrite IH. destruct (bytes_eqb k2 k') eqn:E2; [|reflexivity].
      apply bytes_eqb_eq in E2; subst. destruct (bytes_eqb k k') eqn:E3; [|reflexivity].
      apply bytes_eqb_eq in E3; subst. now rewrite bytes_eqb_refl in E.
Qed.

Lemma kv_get_set s k v k' : kv_get (kv_set s k v) k' = if bytes_eqb k k' then Some v else kv_get s k'.
Proof.
  unfold kv_set. cbn [kv_get]. destruct (bytes_eqb k k') eqn:E; [reflexivity|].
  rewrite kv_get_del. now rewrite E.
Qed.

(* ================================================================== *)
(* lists                                                              *)
(* ================================================================== *)
Lemma set_nth_length n v l : length (set_nth n v l) = length l.
Proof. revert n; induction l as [|x r IH]; intros [|n]; cbn; auto. Qed.

Lemma nth_error_set_nth l : forall n v m, (n < length l)%nat ->
  nth_error (set_nth n v l) m = if Nat.eqb n m then Some v else nth_error l m.
Proof.
  induction l as [|x r IH]; intros n v m Hn; cbn [length] in Hn; [lia|].
  destruct n as [|n], m as [|m]; cbn; try reflexivity.
  apply IH. lia.
Qed.

Lemma nth_error_snoc (l : list bytes) v m :
  nth_error (l ++ [v]) m = if (m <? length l)%nat then nth_error l m else if Nat.eqb m (length l) then Some v else None.
Proof.
  destruct (m <? length l)%nat eqn:E.
  - apply nth_error_app1. lia.
  - rewrite nth_error_app2 by lia. destruct (Nat.eqb m (length l)) eqn:E2.
    + replace (m - length l)%nat with O by lia. reflexivity.
    + destruct (m - length l)%nat as [|k] eqn:E3; [lia|]. cbn. now destruct k.
Qed.

Lemma nth_error_firstn' (l : list bytes) : forall n m,
  nth_error (firstn n l) m = if (m <? n)%nat then nth_error l m else None.
Proof.
  induction l as [|x r IH]; intros n m.
  - rewrite firstn_nil. destruct (m <? n)%nat; now destruct m.
  - destruct n as [|n]; cbn [firstn].
    + now destruct m.
    + destruct m as [|m]; cbn [nth_error]; [reflexivity|]. rewrite IH.
      change (S m <? S n)%nat with (m <? n)%nat. reflexivity.
Qed.

Lemma nth_error_nil {A} n : nth_error (@nil A) n = None.
Proof. now destruct n. Qed.

(* ================================================================== *)
(* ArrayDB refines a list                                             *)
(* ================================================================== *)
Definition max_len : Z := 9223372036854775807%Z.

Section ArrayRefinement.
  Variable sizeK : bytes.
  Variable elemK : Z -> bytes.
  Hypothesis elem_inj : forall i j, in_i64 i -> in_i64 j -> elemK i = elemK j -> i = j.
  Hypothesis elem_size : forall i, in_i64 i -> elemK i <> sizeK.

  Definition arr_rel (s : kvstore) (l : list bytes) : Prop :=
    arr_size sizeK s = Some (Z.of_nat (length l)) /\
    forall i, in_i64 i -> kv_get s (elemK i) = if (i <? 0)%Z then None else nth_error l (Z.to_nat i).

  Lemma elem_eqb i j : in_i64 i -> in_i64 j -> bytes_eqb (elemK i) (elemK j) = (i =? j)%Z.
  Proof.
    intros Hi Hj. destruct (i =? j)%Z eqn:E.
    - assert (i = j) by lia. subst. apply bytes_eqb_refl.
    - apply bytes_eqb_neq. intros C. apply elem_inj in C; auto. lia.
  Qed.

  Lemma size_after_elem_set s i v : in_i64 i -> arr_size sizeK (kv_set s (elemK i) v) = arr_size sizeK s.
  Proof. intros Hi. unfold arr_size. rewrite kv_get_set, bytes_eqb_neq by auto. reflexivity. Qed.

  Lemma size_after_elem_del s i : in_i64 i -> arr_size sizeK (kv_del s (elemK i)) = arr_size sizeK s.
  Proof. intros Hi. unfold arr_size. rewrite kv_get_del, bytes_eqb_neq by auto. reflexivity. Qed.

  Lemma size_after_size_set s n : in_i64 n -> arr_size sizeK (kv_set s sizeK (int64_to_bytes n)) = Some n.
  Proof. intros Hn. unfold arr_size. rewrite kv_get_set, bytes_eqb_refl. now apply int64_roundtrip. Qed.

  Lemma arr_rel_init s0 : kv_get s0 sizeK = None -> (forall i, in_i64 i -> kv_get s0 (elemK i) = None) -> arr_rel s0 [].
  Proof.
    intros Hs He. split.
    - unfold arr_size. now rewrite Hs.
    - intros i Hi. rewrite (He i Hi), nth_error_nil. now destruct (i <? 0)%Z.
  Qed.

  Lemma arr_step_refines s l o : arr_rel s l -> aop_ok o -> (Z.of_nat (length l) < max_len)%Z ->
    arr_rel (fst (arr_step sizeK elemK s o)) (fst (lst_step l o)) /\
    snd (arr_step sizeK elemK s o) = snd (lst_step l o).
  Proof.
    intros [Hsz Hel] Hok Hb. unfold max_len in Hb.
    set (n := Z.of_nat (length l)) in *.
    assert (Hn : in_i64 n) by (unfold in_i64; lia).
    destruct o as [v| |i|i v|]; cbn [arr_step lst_step aop_ok] in *.
    - (* Put *)
      rewrite Hsz. cbn [fst snd]. split; [|reflexivity].
      assert (Hn1 : in_i64 (n + 1)) by (unfold in_i64 in *; lia).
      split.
      + rewrite size_after_size_set by assumption. rewrite app_length. cbn [length]. f_equal. lia.
      + intros i Hi. rewrite kv_get_set, (bytes_eqb_neq sizeK (elemK i)) by (intros C; exact (elem_size i Hi (eq_sym C))).
        rewrite kv_get_set, elem_eqb by assumption. rewrite nth_error_snoc.
        destruct (n =? i)%Z eqn:E1.
        * destruct (i <? 0)%Z eqn:E2; [lia|].
          destruct (Z.to_nat i <? length l)%nat eqn:E3; [lia|].
          destruct (Nat.eqb (Z.to_nat i) (length l)) eqn:E4; [reflexivity | lia].
        * rewrite (Hel i Hi). destruct (i <? 0)%Z eqn:E2; [reflexivity|].
          destruct (Z.to_nat i <? length l)%nat eqn:E3; [reflexivity|].
          destruct (Nat.eqb (Z.to_nat i) (length l)) eqn:E4; [lia|].
          apply nth_error_None. lia.
    - (* Pop *)
      rewrite Hsz. destruct (n =? 0)%Z eqn:E0.
      + assert (length l = O) by lia. rewrite H. cbn [fst snd]. split; [split; assumption | reflexivity].
      + destruct (length l) as [|k] eqn:El; [lia|].
        assert (Hk : in_i64 (n - 1)) by (unfold in_i64 in *; lia).
        assert (Hkk : Z.to_nat (n - 1) = k) by lia.
        assert (Hret : kv_get s (elemK (n - 1)) = nth_error l k).
        { rewrite (Hel _ Hk). destruct (n - 1 <? 0)%Z eqn:E; [lia|]. now rewrite Hkk. }
        assert (Hfl : length (firstn k l) = k) by (rewrite firstn_length; lia).
        assert (Hels : forall s', (forall i, in_i64 i -> kv_get s' (elemK i) = kv_get (kv_del s (elemK (n - 1))) (elemK i)) ->
                  forall i, in_i64 i -> kv_get s' (elemK i) = if (i <? 0)%Z then None else nth_error (firstn k l) (Z.to_nat i)).
        { intros s' Hs' i Hi. rewrite (Hs' i Hi), kv_get_del, elem_eqb by assumption.
          rewrite nth_error_firstn'. destruct (n - 1 =? i)%Z eqn:E1.
          - destruct (i <? 0)%Z; [reflexivity|]. destruct (Z.to_nat i <? k)%nat eqn:E2; [lia | reflexivity].
          - rewrite (Hel i Hi). destruct (i <? 0)%Z eqn:E2; [reflexivity|].
            destruct (Z.to_nat i <? k)%nat eqn:E3; [reflexivity|]. apply nth_error_None. lia. }
        destruct (1 <? n)%Z eqn:E1; cbn [fst snd]; (split; [|now rewrite Hret]); split.
        * rewrite size_after_size_set by assumption. rewrite Hfl. f_equal. lia.
        * apply Hels. intros i Hi. rewrite kv_get_set, (bytes_eqb_neq sizeK (elemK i)) by (intros C; exact (elem_size i Hi (eq_sym C))). reflexivity.
        * unfold arr_size. rewrite kv_get_del, bytes_eqb_refl. rewrite Hfl. f_equal. lia.
        * apply Hels. intros i Hi. rewrite kv_get_del, (bytes_eqb_neq sizeK (elemK i)) by (intros C; exact (elem_size i Hi (eq_sym C))). reflexivity.
    - (* Get *)
      cbn [fst snd]. split; [split; assumption|]. rewrite (Hel i Hok).
      destruct (i <? 0)%Z; [reflexivity|]. now destruct (nth_error l (Z.to_nat i)).
    - (* Set *)
      rewrite Hsz. fold n. destruct ((i <? 0) || (n <=? i))%Z eqn:E; cbn [fst snd]; [split; [split; assumption | reflexivity]|].
      split; [|reflexivity]. split.
      + rewrite size_after_elem_set by assumption. now rewrite set_nth_length.
      + intros j Hj. rewrite kv_get_set, elem_eqb by assumption.
        rewrite nth_error_set_nth by lia. rewrite (Hel j Hj).
        destruct (i =? j)%Z eqn:E1.
        * destruct (j <? 0)%Z eqn:E2; [lia|]. destruct (Nat.eqb (Z.to_nat i) (Z.to_nat j)) eqn:E3; [reflexivity | lia].
        * destruct (j <? 0)%Z eqn:E2; [reflexivity|]. destruct (Nat.eqb (Z.to_nat i) (Z.to_nat j)) eqn:E3; [lia | reflexivity].
    - (* Size *)
      rewrite Hsz. cbn [fst snd]. split; [split; assumption | reflexivity].
  Qed.

  Lemma lst_step_length l o : (length (fst (lst_step l o)) <= S (length l))%nat.
  Proof.
    destruct o as [v| |i|i v|]; cbn [lst_step fst].
    - rewrite app_length. cbn. lia.
    - destruct (length l) eqn:E; cbn [fst]; [lia|]. rewrite firstn_length. lia.
    - lia.
    - destruct ((i <? 0) || (Z.of_nat (length l) <=? i))%Z; cbn [fst]; [lia|]. rewrite set_nth_length. lia.
    - lia.
  Qed.

  Lemma arr_run_refines ops : forall s l, arr_rel s l -> Forall aop_ok ops ->
    (Z.of_nat (length l + length ops) < max_len)%Z ->
    arr_run sizeK elemK s ops = lst_run l ops.
  Proof.
    induction ops as [|o r IH]; intros s l R Hok Hb; [reflexivity|].
    inversion Hok as [|? ? Ho Hr]; subst. cbn [length] in Hb.
    destruct (arr_step_refines s l o R Ho ltac:(lia)) as [R1 E1].
    pose proof (lst_step_length l o) as Hlen.
    cbn [arr_run lst_run].
    destruct (arr_step sizeK elemK s o) as [s1 x]. destruct (lst_step l o) as [l1 y].
    cbn [fst snd] in *. subst y. f_equal. apply IH; auto. lia.
  Qed.

  (* the relation survives a history: whatever store a history reaches (e.g. the one a later
     rollback resets to), operations issued from there — through any handle, the model has no
     per-handle state — again return what the list reached by that history returns *)
  Lemma arr_exec_refines ops : forall s l, arr_rel s l -> Forall aop_ok ops ->
    (Z.of_nat (length l + length ops) < max_len)%Z ->
    arr_rel (arr_exec sizeK elemK s ops) (lst_exec l ops) /\
    (length (lst_exec l ops) <= length l + length ops)%nat.
  Proof.
    induction ops as [|o r IH]; intros s l R Hok Hb; cbn [arr_exec lst_exec length]; [split; [exact R | lia]|].
    inversion Hok as [|? ? Ho Hr]; subst. cbn [length] in Hb.
    destruct (arr_step_refines s l o R Ho ltac:(lia)) as [R1 _].
    pose proof (lst_step_length l o) as Hlen.
    destruct (IH _ _ R1 Hr ltac:(lia)) as [R2 L2]. split; [exact R2 | lia].
  Qed.

  Lemma arr_resume s0 ops1 ops2 : arr_rel s0 [] -> Forall aop_ok ops1 -> Forall aop_ok ops2 ->
    (Z.of_nat (length ops1 + length ops2) < max_len)%Z ->
    arr_run sizeK elemK (arr_exec sizeK elemK s0 ops1) ops2 = lst_run (lst_exec [] ops1) ops2.
  Proof.
    intros R H1 H2 Hb. destruct (arr_exec_refines ops1 s0 [] R H1 ltac:(cbn [length]; lia)) as [R1 L1].
    apply arr_run_refines; auto. cbn [length] in L1. lia.
  Qed.

  (* an array touches only its own slots *)
  Lemma arr_step_frame s o k : k <> sizeK -> (forall i, k <> elemK i) ->
    kv_get (fst (arr_step sizeK elemK s o)) k = kv_get s k.
  Proof.
    intros Hs He.
    assert (Hse : forall i, bytes_eqb (elemK i) k = false) by (intros i; apply bytes_eqb_neq; intros C; exact (He i (eq_sym C))).
    assert (Hss : bytes_eqb sizeK k = false) by (apply bytes_eqb_neq; congruence).
    destruct o as [v| |i|i v|]; cbn [arr_step]; try reflexivity.
    - destruct (arr_size sizeK s); cbn [fst]; [|reflexivity]. now rewrite !kv_get_set, Hss, Hse.
    - destruct (arr_size sizeK s) as [n|]; cbn [fst]; [|reflexivity].
      destruct (n =? 0)%Z; [reflexivity|]. destruct (1 <? n)%Z; cbn [fst].
      + now rewrite kv_get_set, Hss, kv_get_del, Hse.
      + now rewrite !kv_get_del, Hss, Hse.
    - destruct (arr_size sizeK s) as [n|]; [|reflexivity].
      destruct ((i <? 0) || (n <=? i))%Z; cbn [fst]; [reflexivity|]. now rewrite kv_get_set, Hse.
  Qed.
End ArrayRefinement.

(* ================================================================== *)
(* ArrayDB built with NewArrayDB(store, key)                          *)
(* ================================================================== *)
Section ArrayBuilt.
  Variable H : bytes -> bytes.

  (* the slots of an array are pairwise distinct storage keys *)
  Definition array_slots_ok (key : builder) : Prop :=
    (forall i j, in_i64 i -> in_i64 j -> array_elem_key H key i = array_elem_key H key j -> i = j) /\
    (forall i, in_i64 i -> array_elem_key H key i <> array_size_key H key).

  Lemma rlp_array_slots acc : array_slots_ok (BRlp acc).
  Proof.
    split; unfold array_elem_key, array_size_key; cbn [b_append b_build].
    - intros i j Hi Hj E. apply append_injective in E. inversion E. now apply int64_to_bytes_inj.
    - intros i Hi E. unfold append_keys in E. rewrite <- (app_nil_r acc) in E at 2.
      apply app_inv_head in E. cbn in E. rewrite app_nil_r in E. now apply rlp_item_nonempty in E.
  Qed.

  Lemma raw_array_slots acc : array_slots_ok (BRaw acc).
  Proof.
    split; unfold array_elem_key, array_size_key; cbn [b_append b_build]; unfold append_raw_keys; cbn [concat]; rewrite ?app_nil_r.
    - intros i j Hi Hj E. apply app_inv_head in E. rewrite !app_nil_r in E. now apply int64_to_bytes_inj.
    - intros i Hi E. rewrite <- (app_nil_r acc) in E at 2. apply app_inv_head in E. rewrite app_nil_r in E.
      now apply int64_to_bytes_nonempty in E.
  Qed.

  (* with the hashed builder the slots are distinct unless H collides *)

  Lemma hash_array_slot_clash acc :
    (forall i j, in_i64 i -> in_i64 j -> array_elem_key H (BHash acc) i = array_elem_key H (BHash acc) j -> i = j \/ collision H) /\
    (forall i, in_i64 i -> array_elem_key H (BHash acc) i = array_size_key H (BHash acc) -> collision H).
  Proof.
    split; unfold array_elem_key, array_size_key; cbn [b_append b_build].
    - intros i j Hi Hj E.
      destruct (bytes_dec (append_keys acc [int64_to_bytes i]) (append_keys acc [int64_to_bytes j])) as [Ea|Ea].
      + left. apply append_injective in Ea. inversion Ea. now apply int64_to_bytes_inj.
      + right. now exists (append_keys acc [int64_to_bytes i]), (append_keys acc [int64_to_bytes j]).
    - intros i Hi E. exists (append_keys acc [int64_to_bytes i]), acc. split; [|exact E].
      intros C. unfold append_keys in C. rewrite <- (app_nil_r acc) in C at 2.
      apply app_inv_head in C. cbn in C. rewrite app_nil_r in C. now apply rlp_item_nonempty in C.
  Qed.

  Theorem array_is_list key s0 ops : array_slots_ok key ->
    kv_get s0 (array_size_key H key) = None ->
    (forall i, in_i64 i -> kv_get s0 (array_elem_key H key i) = None) ->
    Forall aop_ok ops -> (Z.of_nat (length ops) < max_len)%Z ->
    arr_run (array_size_key H key) (array_elem_key H key) s0 ops = lst_run [] ops.
  Proof.
    intros [Hinj Hne] Hs He Hok Hb.
    apply (arr_run_refines _ _ Hinj Hne); auto.
    now apply arr_rel_init.
  Qed.

  Theorem array_resume key s0 ops1 ops2 : array_slots_ok key ->
    kv_get s0 (array_size_key H key) = None ->
    (forall i, in_i64 i -> kv_get s0 (array_elem_key H key i) = None) ->
    Forall aop_ok ops1 -> Forall aop_ok ops2 -> (Z.of_nat (length ops1 + length ops2) < max_len)%Z ->
    arr_run (array_size_key H key) (array_elem_key H key)
      (arr_exec (array_size_key H key) (array_elem_key H key) s0 ops1) ops2
    = lst_run (lst_exec [] ops1) ops2.
  Proof.
    intros [Hinj Hne] Hs He H1 H2 Hb.
    apply (arr_resume _ _ Hinj Hne); auto. now apply arr_rel_init.
  Qed.

  Theorem array_frame key s o k : k <> array_size_key H key -> (forall i, k <> array_elem_key H key i) ->
    kv_get (fst (array_step H key s o)) k = kv_get s k.
  Proof. apply arr_step_frame. Qed.
End ArrayBuilt.

(* ================================================================== *)
(* DictDB refines a map from key tuples                               *)
(* ================================================================== *)
Lemma lbytes_eqb_eq a : forall b, lbytes_eqb a b = true <-> a = b.
Proof.
  induction a as [|x a IH]; intros [|y b]; cbn [lbytes_eqb]; split; intros E; try reflexivity; try discriminate.
  - apply andb_true_iff in E as [E1 E2]. apply bytes_eqb_eq in E1. apply IH in E2. now subst.
  - inversion E; subst. rewrite bytes_eqb_refl. cbn. now apply IH.
Qed.

Lemma chain_path_len chain : forall depth p rem, chain_path depth chain = Some (p, rem) -> (length p + rem = depth)%nat.
Proof.
  induction chain as [|ks r IH]; intros depth p rem E; cbn [chain_path] in E.
  - inversion E; subst. reflexivity.
  - destruct (depth <=? length ks)%nat eqn:El; [discriminate|].
    destruct (chain_path (depth - length ks) r) as [[p' rem']|] eqn:Ec; [|discriminate].
    inversion E; subst. apply IH in Ec. rewrite app_length. lia.
Qed.

Section DictRefinement.
  Variable H : bytes -> bytes.
  Variable key : builder.
  Variable depth : nat.
  Definition dK (t : list bytes) : bytes := b_build H (b_append key t).
  Hypothesis dK_inj : forall t1 t2, length t1 = depth -> length t2 = depth -> dK t1 = dK t2 -> t1 = t2.

  Definition dict_rel (s : kvstore) (m : dmap) : Prop := forall t, length t = depth -> kv_get s (dK t) = m t.

  Lemma dict_sub_path chain : forall d,
    dict_sub d chain =
    match chain_path (d_depth d) chain with
    | None => None
    | Some (p, rem) => Some {| d_key := b_append (d_key d) p; d_depth := rem |}
    end.
  Proof.
    induction chain as [|ks r IH]; intros [k n]; cbn [dict_sub chain_path d_key d_depth].
    - now rewrite b_append_nil.
    - unfold dict_getdb. cbn [d_key d_depth]. destruct (n <=? length ks)%nat; [reflexivity|].
      rewrite IH. cbn [d_key d_depth]. destruct (chain_path (n - length ks) r) as [[p rem]|]; [|reflexivity].
      now rewrite b_append_app.
  Qed.

  Lemma dK_eqb t0 t : length t0 = depth -> length t = depth -> bytes_eqb (dK t0) (dK t) = lbytes_eqb t0 t.
  Proof.
    intros H0 H1. destruct (lbytes_eqb t0 t) eqn:E.
    - apply lbytes_eqb_eq in E; subst. apply bytes_eqb_refl.
    - apply bytes_eqb_neq. intros C. apply dK_inj in C; auto. subst. 
      assert (lbytes_eqb t t = true) by now apply lbytes_eqb_eq. congruence.
  Qed.

  Lemma dict_step_refines s m chain o : dict_rel s m ->
    let d := {| d_key := key; d_depth := depth |} in
    dict_rel (fst (dict_chain_step H d s chain o)) (fst (dmap_step depth m chain o)) /\
    snd (dict_chain_step H d s chain o) = snd (dmap_step depth m chain o).
  Proof.
    intros R d. unfold dict_chain_step, dmap_step. rewrite dict_sub_path. subst d. cbn [d_key d_depth].
    destruct (chain_path depth chain) as [[pre rem]|] eqn:Ec; [|split; [exact R | reflexivity]].
    pose proof (chain_path_len _ _ _ _ Ec) as Hlen.
    assert (Hk : forall ks, b_build H (b_append (b_append key pre) ks) = dK (pre ++ ks)) by (intros; unfold dK; now rewrite b_append_app).
    destruct o as [ks|ks v| |ks]; cbn [dict_step d_key d_depth].
    - (* Get *) destruct (Nat.eqb (length ks) rem) eqn:E; cbn [negb fst snd]; (split; [exact R|]); [|reflexivity].
      apply Nat.eqb_eq in E. rewrite Hk, R by (rewrite app_length; lia). reflexivity.
    - (* Set *) change (Nat.eqb (S (length ks)) (S rem)) with (Nat.eqb (length ks) rem).
      destruct (Nat.eqb (length ks) rem) eqn:E; cbn [negb fst snd]; (split; [|reflexivity]); [|exact R].
      apply Nat.eqb_eq in E. intros t Ht. rewrite Hk, kv_get_set, dK_eqb by (rewrite ?app_length; lia).
      unfold dmap_upd. destruct (lbytes_eqb (pre ++ ks) t); [reflexivity | now apply R].
    - (* Set() *) split; [exact R | reflexivity].
    - (* Delete *) destruct (Nat.eqb (length ks) rem) eqn:E; cbn [negb fst snd]; (split; [|reflexivity]); [|exact R].
      apply Nat.eqb_eq in E. intros t Ht. rewrite Hk, kv_get_del, dK_eqb by (rewrite ?app_length; lia).
      unfold dmap_upd. destruct (lbytes_eqb (pre ++ ks) t); [reflexivity | now apply R].
  Qed.

  Lemma dict_run_refines ops : forall s m, dict_rel s m ->
    dict_run H {| d_key := key; d_depth := depth |} s ops = dmap_run depth m ops.
  Proof.
    induction ops as [|[ch o] r IH]; intros s m R; [reflexivity|].
    destruct (dict_step_refines s m ch o R) as [R1 E1]. cbn [dict_run dmap_run].
    destruct (dict_chain_step H {| d_key := key; d_depth := depth |} s ch o) as [s1 x].
    destruct (dmap_step depth m ch o) as [m1 y]. cbn [fst snd] in *. subst y. f_equal. now apply IH.
  Qed.

  Theorem dict_is_map s0 ops : (forall t, length t = depth -> kv_get s0 (dK t) = None) ->
    dict_run H {| d_key := key; d_depth := depth |} s0 ops = dmap_run depth (fun _ => None) ops.
  Proof. intros H0. apply dict_run_refines. exact H0. Qed.

  (* a dictionary touches only its own entries *)
  Lemma dict_step_frame s chain o k : (forall t, k <> dK t) ->
    kv_get (fst (dict_chain_step H {| d_key := key; d_depth := depth |} s chain o)) k = kv_get s k.
  Proof.
    intros Hk. unfold dict_chain_step. rewrite dict_sub_path. cbn [d_key d_depth].
    destruct (chain_path depth chain) as [[pre rem]|]; [|reflexivity].
    assert (Hne : forall ks, bytes_eqb (b_build H (b_append (b_append key pre) ks)) k = false).
    { intros ks. apply bytes_eqb_neq. rewrite b_append_app. intros C. exact (Hk _ (eq_sym C)). }
    destruct o as [ks|ks v| |ks]; cbn [dict_step d_key d_depth].
    - now destruct (negb (Nat.eqb (length ks) rem)).
    - destruct (negb (Nat.eqb (S (length ks)) (S rem))); cbn [fst]; [reflexivity|]. now rewrite kv_get_set, Hne.
    - reflexivity.
    - destruct (negb (Nat.eqb (length ks) rem)); cbn [fst]; [reflexivity|]. now rewrite kv_get_del, Hne.
  Qed.
End DictRefinement.

(* the RLP builder meets the hypothesis of dict_is_map for every prefix and depth *)
Lemma rlp_dict_keys_inj H acc t1 t2 : dK H (BRlp acc) t1 = dK H (BRlp acc) t2 -> t1 = t2.
Proof. unfold dK. cbn. apply append_injective. Qed.

Lemma hash_dict_keys_inj_or_collision H acc t1 t2 : dK H (BHash acc) t1 = dK H (BHash acc) t2 -> t1 = t2 \/ collision H.
Proof. unfold dK. apply hashed_distinct_or_collision. Qed.

(* ================================================================== *)
(* non-vacuity                                                        *)
(* ================================================================== *)
Example ex_split_hyp : Forall (fun p => lenN p <= max_int) [[]; [5]; [200]; repeat 1 56].
Proof. repeat constructor; vm_compute; discriminate. Qed.

Example ex_array : let K := BRlp (append_keys [] [[0]; [97]]) in
  array_slots_ok (fun x => x) K /\
  arr_run (array_size_key (fun x => x) K) (array_elem_key (fun x => x) K) []
    [APut [7]; APut []; ASet 1 [9]; AGet 1; AGet 2; AGet (-1); ASize; APop; APop; APop; ASize]
  = [ROk; ROk; ROk; RVal (Some [9]); RNil; RNil; RInt 2; RVal (Some [9]); RVal (Some [7]); RNil; RInt 0].
Proof. split; [apply rlp_array_slots | vm_compute; reflexivity]. Qed.

Example ex_dict : let d := {| d_key := BRlp [1]; d_depth := 2 |} in
  dict_run (fun x => x) d []
    [([], DSet [[1]; [2]] [7]); ([[[1]]], DGet [[2]]); ([], DGet [[1]]); ([[[1]; [2]]], DGet []); ([], DDelete [[1]; [2]]); ([], DGet [[1]; [2]])]
  = [ROk; RVal (Some [7]); RNil; RNil; ROk; RNil].
Proof. vm_compute. reflexivity. Qed.

Example ex_prefix_sep_hyp : (forall r : list bytes, [[0]; [97]] <> [[1]; [97]] ++ r) /\ (forall r : list bytes, [[1]; [97]] <> [[0]; [97]] ++ r).
Proof. split; intros r E; cbn in E; inversion E. Qed.
