(* Proofs_K_onPacketIsOneHop.v -- network PeerToPeer.onPacket: isOneHop
   Split out of Proofs_Kernels.v: this file imports ONLY the generated kernel(s)
   gen/K_onPacketIsOneHop.v, so an edit of another kernel's Go source cannot break it.
   Style: stdlib only; arithmetic closed by lia with the euclidean-division hook. *)
From Coq Require Import ZArith Bool String List Lia.
From Coq Require Import ZifyBool.
From Goloop Require Import lib.GoInt Proofs_K_tactics.
From Goloop.gen Require Import K_onPacketIsOneHop.
Import ListNotations.
Local Open Scope Z_scope.

Ltac Zify.zify_post_hook ::= Z.to_euclidean_division_equations.

(* p2pDestPeer = 0xFF, p2pDestAny = 0x00 (resolved from network/packet.go) *)
Lemma onPacketIsOneHop_spec ttl dest :
  onPacketIsOneHop ttl dest = true <-> (ttl <> 0 \/ dest = 255).
Proof. unfold onPacketIsOneHop. kernel_lia. Qed.

Lemma onPacketIsOneHop_params_ok : onPacketIsOneHop_params = ["pkt.ttl"; "pkt.dest"]%string.
Proof. reflexivity. Qed.
