(* Proofs_TxSerialize.v — facts about Model_TxSerialize.
   Part A: the key order and the sort.
   Part B: tokens: a total lexer that undoes the escaping of serializeString.
   Part C: the serializer as a token printer of the normal form of a tree.
   Part D: the inverse parser and its round trip; injectivity.
   Part E: transactions: binary round trip, identity and field stability.
   Style: stdlib only. *)
From Coq Require Import String Ascii Permutation Sorted.
From Goloop Require Import lib.Bytes Model_Address Proofs_Address Model_TxSerialize.
From Coq Require Import ZifyBool ZifyN ZifyNat.
Ltac Zify.zify_post_hook ::= Z.div_mod_to_equations.
Open Scope N_scope.

(* ================================================================== *)
(* Part A — bytes_leb is a total order; ksort                           *)
(* ================================================================== *)

Lemma bytes_leb_refl a : bytes_leb a a = true.
Proof. induction a as [|x a IH]; cbn; [reflexivity|]. now rewrite N.ltb_irrefl. Qed.

Lemma bytes_leb_total a b : bytes_leb a b = true \/ bytes_leb b a = true.
Proof.
  revert b; induction a as [|x a IH]; intros [|y b]; cbn; auto.
  destruct (x <? y) eqn:E1; destruct (y <? x) eqn:E2; auto.
Qed.

Lemma bytes_leb_antisym a b : bytes_leb a b = true -> bytes_leb b a = true -> a = b.
Proof.
  revert b; induction a as [|x a IH]; intros [|y b]; cbn; try discriminate; auto.
  destruct (x <? y) eqn:E1; destruct (y <? x) eqn:E2; try discriminate; try lia.
  intros H1 H2. assert (x = y) by lia. subst. f_equal. now apply IH.
Qed.

Lemma bytes_leb_trans a b c : bytes_leb a b = true -> bytes_leb b c = true -> bytes_leb a c = true.
Proof.
  revert b c; induction a as [|x a IH]; intros [|y b] [|z c]; cbn; try discriminate; auto.
  destruct (x <? y) eqn:E1; destruct (y <? x) eqn:E2; try discriminate; try lia;
  destruct (y <? z) eqn:E3; destruct (z <? y) eqn:E4; try discriminate; try lia;
  destruct (x <? z) eqn:E5; destruct (z <? x) eqn:E6; try discriminate; try lia; auto.
  apply IH.
Qed.

Definition kle {A} (p q : bytes * A) : Prop := bytes_leb (fst p) (fst q) = true.

Lemma kinsert_perm {A} k (v : A) l : Permutation ((k, v) :: l) (kinsert k v l).
Proof.
  induction l as [|[k' v'] r IH]; cbn; [reflexivity|].
  destruct (bytes_leb k k'); [reflexivity|].
  rewrite perm_swap. now constructor.
Qed.

Lemma ksort_perm {A} (l : list (bytes * A)) : Permutation l (ksort l).
Proof.
  induction l as [|[k v] r IH]; cbn; [constructor|].
  rewrite <- kinsert_perm. now constructor.
Qed.

Lemma kinsert_sorted {A} k (v : A) l : StronglySorted kle l -> StronglySorted kle (kinsert k v l).
Proof.
  induction l as [|[k' v'] r IH]; cbn; intro Hs.
  - repeat constructor.
  - inversion Hs as [|? ? Hr Hall]; subst.
    destruct (bytes_leb k k') eqn:E.
    + constructor; [assumption|]. constructor; [exact E|].
      eapply Forall_impl; [|exact Hall]. intros [k2 v2] Hk; unfold kle in *; cbn in *.
      eapply bytes_leb_trans; eauto.
    + constructor; [now apply IH|].
      apply (Permutation_Forall (kinsert_perm k v r)). constructor; [|assumption].
      unfold kle; cbn. destruct (bytes_leb_total k k'); congruence.
Qed.

Lemma ksort_sorted {A} (l : list (bytes * A)) : StronglySorted kle (ksort l).
Proof.
  induction l as [|[k v] r IH]; cbn; [constructor|]. now apply kinsert_sorted.
Qed.

(* sorting commutes with a map on the values *)
Definition vmap {A B} (g : A -> B) (l : list (bytes * A)) : list (bytes * B) :=
  map (fun kv => (fst kv, g (snd kv))) l.

Lemma kinsert_vmap {A B} (g : A -> B) k v l :
  kinsert k (g v) (vmap g l) = vmap g (kinsert k v l).
Proof.
  unfold vmap. induction l as [|[k' v'] r IH]; cbn [map kinsert fst snd]; [reflexivity|].
  destruct (bytes_leb k k'); cbn [map fst snd]; [reflexivity|]. now rewrite IH.
Qed.

Lemma ksort_vmap {A B} (g : A -> B) l : ksort (vmap g l) = vmap g (ksort l).
Proof.
  induction l as [|[k v] r IH]; [reflexivity|].
  change (vmap g ((k, v) :: r)) with ((k, g v) :: vmap g r).
  cbn [ksort]. now rewrite IH, kinsert_vmap.
Qed.

(* two sorted lists with distinct keys that are permutations of each other are equal *)
Lemma sorted_perm_eq {A} (l1 l2 : list (bytes * A)) :
  StronglySorted kle l1 -> StronglySorted kle l2 ->
  NoDup (map fst l1) -> Permutation l1 l2 -> l1 = l2.
Proof.
  revert l2; induction l1 as [|[k v] r IH]; intros l2 S1 S2 ND P.
  - apply Permutation_nil in P. now subst.
  - destruct l2 as [|[k2 v2] r2]; [apply Permutation_sym, Permutation_nil in P; discriminate|].
    inversion S1 as [|? ? S1r A1]; subst. inversion S2 as [|? ? S2r A2]; subst.
    inversion ND as [|? ? Hnin NDr]; subst.
    assert (Hin1 : In (k, v) ((k2, v2) :: r2)) by (eapply Permutation_in; [exact P|now left]).
    assert (Hin2 : In (k2, v2) ((k, v) :: r)) by (eapply Permutation_in; [symmetry; exact P|now left]).
    assert (Hk : k = k2).
    { destruct Hin1 as [E|Hi1]; [now inversion E|].
      destruct Hin2 as [E|Hi2]; [now inversion E|].
      rewrite Forall_forall in A1, A2.
      apply bytes_leb_antisym; [exact (A1 _ Hi2)|exact (A2 _ Hi1)]. }
    subst k2.
    assert (Hv : v = v2).
    { destruct Hin1 as [E|Hi1]; [now inversion E|].
      destruct Hin2 as [E|Hi2]; [now inversion E|].
      exfalso. apply Hnin. change k with (fst (k, v2)). now apply in_map. }
    subst v2. f_equal. apply IH; auto. eapply Permutation_cons_inv; exact P.
Qed.

Lemma ksort_perm_eq {A} (l1 l2 : list (bytes * A)) :
  NoDup (map fst l1) -> Permutation l1 l2 -> ksort l1 = ksort l2.
Proof.
  intros ND P. apply sorted_perm_eq; try apply ksort_sorted.
  - eapply Permutation_NoDup; [|exact ND]. apply Permutation_map, ksort_perm.
  - rewrite <- (ksort_perm l1), <- (ksort_perm l2). exact P.
Qed.

Lemma ksort_sorted_id {A} (l : list (bytes * A)) : StronglySorted kle l -> ksort l = l.
Proof.
  induction l as [|[k v] r IH]; cbn; intro S; [reflexivity|].
  inversion S as [|? ? Sr Ar]; subst. rewrite (IH Sr).
  destruct r as [|[k' v'] r']; cbn; [reflexivity|].
  inversion Ar as [|? ? Hk _]; subst. unfold kle in Hk; cbn in Hk. now rewrite Hk.
Qed.

Lemma ksort_idem {A} (l : list (bytes * A)) : ksort (ksort l) = ksort l.
Proof. apply ksort_sorted_id, ksort_sorted. Qed.

(* ================================================================== *)
(* Part B — tokens; a total lexer that undoes serializeString           *)
(* ================================================================== *)

(* TChar c : a character of a string (written c, or \c when c is special);
   TNull   : \0 ;  TDot TLB TRB TLC TRC : the unescaped . [ ] { } ;
   TBad c  : a backslash followed by a c that is neither special nor '0';
   TEnd    : a backslash at the very end.  The last two never occur in the
   output of the serializer; they make the lexer total and injective. *)
Inductive tok := TChar (c : N) | TNull | TDot | TLB | TRB | TLC | TRC | TBad (c : N) | TEnd.

Definition punct (c : N) : option tok :=
  if c =? c_dot then Some TDot else if c =? c_lb then Some TLB else if c =? c_rb then Some TRB
  else if c =? c_lc then Some TLC else if c =? c_rc then Some TRC else None.

Fixpoint lex (s : bytes) : list tok :=
  match s with
  | [] => []
  | c :: r =>
      if c =? c_bs then
        match r with
        | [] => [TEnd]
        | d :: r' => (if d =? 48 then TNull else if is_special d then TChar d else TBad d) :: lex r'
        end
      else match punct c with Some t => t :: lex r | None => TChar c :: lex r end
  end.

Definition unlex1 (t : tok) : bytes :=
  match t with
  | TChar c => if is_special c then [c_bs; c] else [c]
  | TNull => [c_bs; 48]
  | TDot => [c_dot] | TLB => [c_lb] | TRB => [c_rb] | TLC => [c_lc] | TRC => [c_rc]
  | TBad c => [c_bs; c]
  | TEnd => [c_bs]
  end.
Definition unlex (ts : list tok) : bytes := flat_map unlex1 ts.

Definition good (t : tok) : bool := match t with TBad _ | TEnd => false | _ => true end.

Lemma special_cases c : is_special c = true <->
  c = 92 \/ c = 123 \/ c = 125 \/ c = 91 \/ c = 93 \/ c = 46.
Proof. unfold is_special, c_bs, c_lc, c_rc, c_lb, c_rb, c_dot. lia. Qed.

Lemma punct_special c t : punct c = Some t -> is_special c = true /\ c <> 92 /\ unlex1 t = [c].
Proof.
  unfold punct, c_dot, c_lb, c_rb, c_lc, c_rc. intros Hp.
  destruct (c =? 46) eqn:E1; [inversion Hp; subst; cbn; rewrite special_cases; unfold c_dot; repeat split; try lia; f_equal; lia|].
  destruct (c =? 91) eqn:E2; [inversion Hp; subst; cbn; rewrite special_cases; unfold c_lb; repeat split; try lia; f_equal; lia|].
  destruct (c =? 93) eqn:E3; [inversion Hp; subst; cbn; rewrite special_cases; unfold c_rb; repeat split; try lia; f_equal; lia|].
  destruct (c =? 123) eqn:E4; [inversion Hp; subst; cbn; rewrite special_cases; unfold c_lc; repeat split; try lia; f_equal; lia|].
  destruct (c =? 125) eqn:E5; [inversion Hp; subst; cbn; rewrite special_cases; unfold c_rc; repeat split; try lia; f_equal; lia|].
  discriminate.
Qed.

Lemma punct_none c : punct c = None -> c <> 92 -> is_special c = false.
Proof.
  unfold punct, c_dot, c_lb, c_rb, c_lc, c_rc. intros Hp Hc.
  destruct (c =? 46) eqn:E1; [discriminate|]. destruct (c =? 91) eqn:E2; [discriminate|].
  destruct (c =? 93) eqn:E3; [discriminate|]. destruct (c =? 123) eqn:E4; [discriminate|].
  destruct (c =? 125) eqn:E5; [discriminate|].
  destruct (is_special c) eqn:Es; [|reflexivity]. apply special_cases in Es. lia.
Qed.

Lemma nonspecial_punct c : is_special c = false -> (c =? c_bs) = false /\ punct c = None.
Proof.
  intros Hs. assert (Hn : ~ (c = 92 \/ c = 123 \/ c = 125 \/ c = 91 \/ c = 93 \/ c = 46)).
  { intro Hc. apply special_cases in Hc. congruence. }
  unfold punct, c_bs, c_dot, c_lb, c_rb, c_lc, c_rc. split; [lia|].
  replace (c =? 46) with false by lia. replace (c =? 91) with false by lia.
  replace (c =? 93) with false by lia. replace (c =? 123) with false by lia.
  replace (c =? 125) with false by lia. reflexivity.
Qed.

(* the lexer loses nothing *)
Lemma unlex_lex : forall s, unlex (lex s) = s.
Proof.
  assert (Hn : forall n s, (length s <= n)%nat -> unlex (lex s) = s).
  { induction n as [|n IH]; intros s Hl.
    - destruct s; [reflexivity|cbn in Hl; lia].
    - destruct s as [|c r]; [reflexivity|]. cbn [lex].
      destruct (c =? c_bs) eqn:Ec.
      + apply N.eqb_eq in Ec. subst c. destruct r as [|d r']; [reflexivity|].
        cbn [unlex flat_map]. fold (unlex (lex r')). rewrite IH by (cbn in Hl; lia).
        destruct (d =? 48) eqn:Ed; [apply N.eqb_eq in Ed; subst; reflexivity|].
        destruct (is_special d) eqn:Es; cbn [unlex1]; [rewrite Es|]; reflexivity.
      + destruct (punct c) as [t|] eqn:Ep; cbn [unlex flat_map]; fold (unlex (lex r));
          rewrite IH by (cbn in Hl; lia).
        * apply punct_special in Ep as (_ & _ & E). now rewrite E.
        * cbn [unlex1]. rewrite (punct_none c Ep) by (unfold c_bs in Ec; lia). reflexivity. }
  intros s. now apply (Hn (length s)).
Qed.

Lemma lex_inj s1 s2 : lex s1 = lex s2 -> s1 = s2.
Proof. intro E. rewrite <- (unlex_lex s1), <- (unlex_lex s2). now rewrite E. Qed.

(* lexing what a good token list prints gives the tokens back, whatever follows *)
Lemma lex_unlex_app ts s : forallb good ts = true -> lex (unlex ts ++ s) = ts ++ lex s.
Proof.
  induction ts as [|t ts IH]; intro Hg; [reflexivity|].
  cbn [forallb] in Hg. apply andb_true_iff in Hg as [Ht Hts].
  cbn [unlex flat_map]. fold (unlex ts). rewrite <- app_assoc.
  destruct t; try discriminate; cbn [unlex1].
  - destruct (is_special c) eqn:Es.
    + cbn [app lex]. rewrite N.eqb_refl.
      replace (c =? 48) with false by (apply special_cases in Es; lia).
      rewrite Es. now rewrite IH.
    + destruct (nonspecial_punct c Es) as [E1 E2]. cbn [app lex]. rewrite E1, E2. now rewrite IH.
  - cbn [app lex]. rewrite N.eqb_refl. cbn. now rewrite IH.
  - cbn [app lex]. cbn. now rewrite IH.
  - cbn [app lex]. cbn. now rewrite IH.
  - cbn [app lex]. cbn. now rewrite IH.
  - cbn [app lex]. cbn. now rewrite IH.
  - cbn [app lex]. cbn. now rewrite IH.
Qed.

Lemma lex_unlex ts : forallb good ts = true -> lex (unlex ts) = ts.
Proof. intro Hg. rewrite <- (app_nil_r (unlex ts)), lex_unlex_app by exact Hg. apply app_nil_r. Qed.

Lemma unlex_app a b : unlex (a ++ b) = unlex a ++ unlex b.
Proof. apply flat_map_app. Qed.

Lemma esc_unlex s : esc s = unlex (map TChar s).
Proof.
  induction s as [|c r IH]; [reflexivity|]. cbn [esc map unlex flat_map unlex1].
  fold (unlex (map TChar r)). rewrite IH. now destruct (is_special c).
Qed.

Lemma unlex_nil ts : unlex ts = [] -> ts = [].
Proof. destruct ts as [|t r]; [reflexivity|]. cbn. destruct t; cbn; try discriminate. now destruct (is_special c). Qed.

(* ================================================================== *)
(* Part C — the serializer prints the tokens of the normal form         *)
(* ================================================================== *)

Section JsonInd.
  Variable P : json -> Prop.
  Hypothesis HNull : P JNull.
  Hypothesis HStr : forall s, P (JStr s).
  Hypothesis HNum : forall z, P (JNum z).
  Hypothesis HBool : forall b, P (JBool b).
  Hypothesis HList : forall l, Forall P l -> P (JList l).
  Hypothesis HObj : forall m, Forall (fun kv => P (snd kv)) m -> P (JObj m).
  Fixpoint json_ind' (v : json) : P v :=
    match v with
    | JNull => HNull
    | JStr s => HStr s
    | JNum z => HNum z
    | JBool b => HBool b
    | JList l => HList l ((fix go (l : list json) : Forall P l :=
                             match l with
                             | [] => Forall_nil _
                             | x :: r => Forall_cons _ (json_ind' x) (go r)
                             end) l)
    | JObj m => HObj m ((fix go (m : list (bytes * json)) : Forall (fun kv => P (snd kv)) m :=
                           match m with
                           | [] => Forall_nil _
                           | kv :: r => Forall_cons kv (json_ind' (snd kv)) (go r)
                           end) m)
    end.
End JsonInd.

(* the value kinds of the ICON format: null, string, list, dict *)
Fixpoint icon (v : json) : bool :=
  match v with
  | JNull | JStr _ => true
  | JNum _ | JBool _ => false
  | JList l => forallb icon l
  | JObj m => forallb (fun kv => icon (snd kv)) m
  end.

(* serializeList writes no separator while its buffer is empty: leading
   empty strings of a list leave no trace *)
Fixpoint strip_empty (l : list json) : list json :=
  match l with
  | JStr [] :: r => strip_empty r
  | _ => l
  end.

(* normal form: dict entries sorted by key, leading empty strings of lists dropped *)
Fixpoint norm (v : json) : json :=
  match v with
  | JList l => JList (strip_empty (map norm l))
  | JObj m => JObj (ksort (map (fun kv => (fst kv, norm (snd kv))) m))
  | _ => v
  end.

Definition tjoin (frags : list (list tok)) : list tok :=
  match frags with
  | [] => []
  | f :: r => f ++ flat_map (fun g => TDot :: g) r
  end.

Definition tentry (tser : json -> list tok) (kv : bytes * json) : list tok :=
  map TChar (fst kv) ++ TDot :: tser (snd kv).

Fixpoint tser (v : json) : list tok :=
  match v with
  | JNull => [TNull]
  | JStr s => map TChar s
  | JNum _ | JBool _ => []
  | JList l => TLB :: tjoin (map tser l) ++ [TRB]
  | JObj m => TLC :: tjoin (map (tentry tser) m) ++ [TRC]
  end.

Definition bjoin (frags : list bytes) : bytes :=
  match frags with
  | [] => []
  | f :: r => f ++ flat_map (fun g => c_dot :: g) r
  end.

Fixpoint strip_nil (l : list bytes) : list bytes :=
  match l with
  | [] :: r => strip_nil r
  | _ => l
  end.

Lemma list_loop_nonempty frags buf : buf <> [] ->
  list_loop frags buf = buf ++ flat_map (fun g => c_dot :: g) frags.
Proof.
  revert buf; induction frags as [|f r IH]; intros buf Hb; cbn [list_loop flat_map].
  - now rewrite app_nil_r.
  - unfold sep. destruct buf as [|b0 buf']; [congruence|]. cbn [is_nil].
    rewrite IH by (destruct buf'; discriminate).
    rewrite <- !app_assoc. reflexivity.
Qed.

Lemma list_loop_nil frags : list_loop frags [] = bjoin (strip_nil frags).
Proof.
  induction frags as [|f r IH]; [reflexivity|]. cbn [list_loop sep is_nil app].
  destruct f as [|c f']; [exact IH|].
  cbn [strip_nil bjoin]. now rewrite list_loop_nonempty by discriminate.
Qed.

Lemma dict_loop_nonempty kfs buf : buf <> [] ->
  dict_loop kfs buf = buf ++ flat_map (fun kf => c_dot :: esc (fst kf) ++ c_dot :: snd kf) kfs.
Proof.
  revert buf; induction kfs as [|[k f] r IH]; intros buf Hb; cbn [dict_loop flat_map fst snd].
  - now rewrite app_nil_r.
  - unfold sep. destruct buf as [|b0 buf']; [congruence|]. cbn [is_nil].
    rewrite IH by (destruct buf'; discriminate).
    rewrite <- !app_assoc. cbn [app]. rewrite <- !app_assoc. reflexivity.
Qed.

Lemma dict_loop_nil kfs :
  dict_loop kfs [] = bjoin (map (fun kf => esc (fst kf) ++ c_dot :: snd kf) kfs).
Proof.
  destruct kfs as [|[k f] r]; [reflexivity|]. cbn [dict_loop sep is_nil app map bjoin fst snd].
  rewrite dict_loop_nonempty by (destruct (esc k); discriminate).
  f_equal. induction r as [|[k2 f2] r IH]; [reflexivity|]. cbn [flat_map map fst snd]. now rewrite IH.
Qed.

Lemma unlex_tjoin fs : unlex (tjoin fs) = bjoin (map unlex fs).
Proof.
  destruct fs as [|f r]; [reflexivity|]. cbn [tjoin map bjoin]. rewrite unlex_app. f_equal.
  induction r as [|g r IH]; [reflexivity|]. cbn [flat_map map].
  rewrite unlex_app, IH. reflexivity.
Qed.

Lemma map_opt_all {A B} (f : A -> option B) (g : A -> B) l :
  Forall (fun x => f x = Some (g x)) l -> map_opt f l = Some (map g l).
Proof.
  induction 1 as [|x r Hx Hr IH]; [reflexivity|].
  change (map_opt f (x :: r)) with
    (match f x, map_opt f r with Some y, Some t => Some (y :: t) | _, _ => None end).
  now rewrite Hx, IH.
Qed.

Lemma tser_nil v : icon v = true -> tser v = [] -> v = JStr [].
Proof.
  destruct v; cbn; try discriminate. intros _ E. destruct s; [reflexivity|discriminate].
Qed.

Lemma strip_corr ys : forallb icon ys = true ->
  strip_nil (map (fun y => unlex (tser y)) ys) = map (fun y => unlex (tser y)) (strip_empty ys).
Proof.
  induction ys as [|y r IH]; [reflexivity|]. cbn [forallb]. intro Hf.
  apply andb_true_iff in Hf as [Hy Hr]. cbn [map strip_nil].
  destruct (unlex (tser y)) as [|b0 bs] eqn:E.
  - apply unlex_nil in E. apply (tser_nil y Hy) in E. subst y. cbn [strip_empty]. now apply IH.
  - assert (Hne : y <> JStr []) by (intro; subst y; discriminate).
    replace (strip_empty (y :: r)) with (y :: r).
    + cbn [map]. now rewrite E.
    + destruct y; try reflexivity. destruct s; [congruence|reflexivity].
Qed.

Lemma forallb_kinsert {A} (p : bytes * A -> bool) k v l :
  forallb p (kinsert k v l) = p (k, v) && forallb p l.
Proof.
  induction l as [|[k' v'] r IH]; cbn [kinsert forallb]; [reflexivity|].
  destruct (bytes_leb k k'); cbn [forallb]; [reflexivity|]. rewrite IH.
  destruct (p (k, v)), (p (k', v')); reflexivity.
Qed.

Lemma forallb_ksort {A} (p : bytes * A -> bool) l : forallb p (ksort l) = forallb p l.
Proof.
  induction l as [|[k v] r IH]; [reflexivity|]. cbn [ksort forallb].
  now rewrite forallb_kinsert, IH.
Qed.

Lemma forallb_strip_empty p l : forallb p l = true -> forallb p (strip_empty l) = true.
Proof.
  induction l as [|y r IH]; [auto|]. cbn [forallb]. intro Hf. apply andb_true_iff in Hf as [Hy Hr].
  destruct y; cbn [strip_empty forallb]; try (now rewrite Hy, Hr).
  destruct s; [now apply IH|]. cbn [forallb]. now rewrite Hy, Hr.
Qed.

Lemma icon_norm : forall v, icon v = true -> icon (norm v) = true.
Proof.
  induction v as [| | | |l IH|m IH] using json_ind'; cbn [icon norm]; auto.
  - intro Hf. apply forallb_strip_empty. rewrite forallb_forall in *. intros y Hy.
    apply in_map_iff in Hy as (x & <- & Hx). rewrite Forall_forall in IH. apply IH; auto.
  - intro Hf. rewrite forallb_ksort. rewrite forallb_forall in *. intros [k y] Hy.
    apply in_map_iff in Hy as ([k0 x] & E & Hx). inversion E; subst. cbn [snd].
    rewrite Forall_forall in IH. apply (IH _ Hx). apply (Hf _ Hx).
Qed.

(* the serializer is the token printer of the normal form *)
Theorem ser_value_tokens : forall v, icon v = true -> ser_value v = Some (unlex (tser (norm v))).
Proof.
  induction v as [| | | |l IH|m IH] using json_ind'; cbn [icon]; try discriminate; intro Hi.
  - reflexivity.
  - cbn [ser_value norm tser]. now rewrite esc_unlex.
  - cbn [ser_value norm tser].
    rewrite (map_opt_all ser_value (fun x => unlex (tser (norm x)))).
    + f_equal. cbn [unlex flat_map unlex1 app]. f_equal.
      fold (unlex (tjoin (map tser (strip_empty (map norm l))) ++ [TRB])).
      rewrite unlex_app, list_loop_nil, unlex_tjoin. cbn [unlex flat_map unlex1 app]. f_equal.
      f_equal. rewrite map_map.
      rewrite <- (map_map norm (fun y => unlex (tser y))).
      apply strip_corr. rewrite forallb_forall. intros y Hy.
      apply in_map_iff in Hy as (x & <- & Hx). apply icon_norm.
      rewrite forallb_forall in Hi. now apply Hi.
    + rewrite Forall_forall in *. intros x Hx. apply IH; auto.
      rewrite forallb_forall in Hi. now apply Hi.
  - cbn [ser_value norm tser].
    rewrite (map_opt_all _ (fun kv => (fst kv, unlex (tser (norm (snd kv)))))).
    + f_equal. cbn [unlex flat_map unlex1 app]. f_equal.
      fold (unlex (tjoin (map (tentry tser) (ksort (map (fun kv => (fst kv, norm (snd kv))) m))) ++ [TRC])).
      rewrite unlex_app, dict_loop_nil, unlex_tjoin. cbn [unlex flat_map unlex1 app]. f_equal.
      f_equal.
      change (map (fun kv => (fst kv, unlex (tser (norm (snd kv))))) m)
        with (vmap (fun x => unlex (tser (norm x))) m).
      change (map (fun kv => (fst kv, norm (snd kv))) m) with (vmap norm m).
      rewrite !ksort_vmap. unfold vmap. rewrite !map_map. apply map_ext.
      intros [k x]. cbn [fst snd]. unfold tentry. cbn [fst snd].
      rewrite unlex_app, <- esc_unlex. reflexivity.
    + rewrite Forall_forall in *. intros [k x] Hx. cbn [fst snd].
      specialize (IH _ Hx). cbn [snd] in IH.
      rewrite IH; [reflexivity|]. rewrite forallb_forall in Hi. apply (Hi _ Hx).
Qed.

(* ================================================================== *)
(* Part D — the inverse parser; round trip; injectivity                 *)
(* ================================================================== *)

Fixpoint span_chars (ts : list tok) : bytes * list tok :=
  match ts with
  | TChar c :: r => let (s, r') := span_chars r in (c :: s, r')
  | _ => ([], ts)
  end.

(* fuel: any number >= jsize of the value to be read is enough *)
Fixpoint parse_value (fuel : nat) (ts : list tok) : option (json * list tok) :=
  match fuel with
  | O => None
  | S f =>
      match ts with
      | TNull :: r => Some (JNull, r)
      | TLB :: r =>
          match r with
          | TRB :: r' => Some (JList [], r')
          | _ => match parse_items f r with
                 | Some (l, r') => Some (JList l, r')
                 | None => None
                 end
          end
      | TLC :: r =>
          match r with
          | TRC :: r' => Some (JObj [], r')
          | _ => match parse_entries f r with
                 | Some (m, r') => Some (JObj m, r')
                 | None => None
                 end
          end
      | _ => let (s, r) := span_chars ts in Some (JStr s, r)
      end
  end
with parse_items (fuel : nat) (ts : list tok) : option (list json * list tok) :=
  match fuel with
  | O => None
  | S f =>
      match parse_value f ts with
      | Some (v, TDot :: r) =>
          match parse_items f r with
          | Some (l, r') => Some (v :: l, r')
          | None => None
          end
      | Some (v, TRB :: r) => Some ([v], r)
      | _ => None
      end
  end
with parse_entries (fuel : nat) (ts : list tok) : option (list (bytes * json) * list tok) :=
  match fuel with
  | O => None
  | S f =>
      match span_chars ts with
      | (k, TDot :: r) =>
          match parse_value f r with
          | Some (v, TDot :: r') =>
              match parse_entries f r' with
              | Some (m, r'') => Some ((k, v) :: m, r'')
              | None => None
              end
          | Some (v, TRC :: r') => Some ([(k, v)], r')
          | _ => None
          end
      | _ => None
      end
  end.

Fixpoint jsize (v : json) : nat :=
  match v with
  | JList l => S (fold_right (fun x a => S (jsize x + a)) 0%nat l)
  | JObj m => S (fold_right (fun kv a => S (jsize (snd kv) + a)) 0%nat m)
  | _ => 1%nat
  end.

(* the trees the parser returns: no number, no bool, no list that starts with "" *)
Fixpoint nf (v : json) : bool :=
  match v with
  | JNull | JStr _ => true
  | JNum _ | JBool _ => false
  | JList l => forallb nf l && negb (match l with JStr [] :: _ => true | _ => false end)
  | JObj m => forallb (fun kv => nf (snd kv)) m
  end.

(* what may follow a value: nothing, or . ] } *)
Definition delim_start (ts : list tok) : Prop :=
  match ts with
  | [] | TDot :: _ | TRB :: _ | TRC :: _ => True
  | _ => False
  end.

Lemma span_chars_app s rest : delim_start rest -> span_chars (map TChar s ++ rest) = (s, rest).
Proof.
  intro Hd. induction s as [|c r IH]; cbn [map app span_chars].
  - destruct rest as [|t rest']; [reflexivity|]. destruct t; cbn in Hd; try contradiction; reflexivity.
  - now rewrite IH.
Qed.

Lemma delim_not_open rest : delim_start rest ->
  match rest with TNull :: _ | TLB :: _ | TLC :: _ | TChar _ :: _ => False | _ => True end.
Proof. destruct rest as [|t r]; [auto|]. destruct t; cbn; auto. Qed.

(* first token of a non-empty normal value *)
Definition opens (ts : list tok) : Prop :=
  match ts with TNull :: _ | TLB :: _ | TLC :: _ | TChar _ :: _ => True | _ => False end.

Lemma tser_opens v : nf v = true -> v <> JStr [] -> opens (tser v ++ []) /\ forall r, opens (tser v ++ r).
Proof.
  intros Hn Hne. destruct v; cbn in *; try discriminate; auto.
  destruct s; [congruence|]. cbn. auto.
Qed.

Lemma tjoin_cons2 f g r : tjoin (f :: g :: r) = f ++ TDot :: tjoin (g :: r).
Proof. reflexivity. Qed.

Definition rt_prop (v : json) : Prop :=
  nf v = true -> forall fuel rest, (jsize v <= fuel)%nat -> delim_start rest ->
  parse_value fuel (tser v ++ rest) = Some (v, rest).

Lemma parse_items_ok : forall (l : list json) f rest,
  Forall rt_prop l -> forallb nf l = true -> l <> [] ->
  (fold_right (fun x a => S (jsize x + a)) 0%nat l <= f)%nat ->
  parse_items f (tjoin (map tser l) ++ TRB :: rest) = Some (l, rest).
Proof.
  induction l as [|y r IHr]; intros f rest HF Hall Hne Hsz; [congruence|].
  inversion HF as [|? ? Hy HFr]; subst. cbn [forallb] in Hall.
  apply andb_true_iff in Hall as [Hny Hnr]. cbn [fold_right] in Hsz.
  destruct f as [|f']; [lia|]. cbn [parse_items].
  destruct r as [|z r'].
  - cbn [map tjoin flat_map]. rewrite app_nil_r.
    rewrite (Hy Hny f' (TRB :: rest)) by (cbn; auto; lia). reflexivity.
  - cbn [map]. rewrite tjoin_cons2. rewrite <- app_assoc. cbn [app].
    rewrite (Hy Hny f' (TDot :: tjoin (tser z :: map tser r') ++ TRB :: rest))
      by (cbn; auto; lia).
    change (tser z :: map tser r') with (map tser (z :: r')).
    rewrite (IHr f' rest HFr Hnr) by (try discriminate; cbn [fold_right] in *; lia).
    reflexivity.
Qed.

Lemma parse_entries_ok : forall (m : list (bytes * json)) f rest,
  Forall (fun kv => rt_prop (snd kv)) m -> forallb (fun kv => nf (snd kv)) m = true -> m <> [] ->
  (fold_right (fun kv a => S (jsize (snd kv) + a)) 0%nat m <= f)%nat ->
  parse_entries f (tjoin (map (tentry tser) m) ++ TRC :: rest) = Some (m, rest).
Proof.
  induction m as [|[k y] r IHr]; intros f rest HF Hall Hne Hsz; [congruence|].
  inversion HF as [|? ? Hy HFr]; subst. cbn [forallb snd] in Hall, Hy.
  apply andb_true_iff in Hall as [Hny Hnr]. cbn [fold_right snd] in Hsz.
  destruct f as [|f']; [lia|]. cbn [parse_entries].
  destruct r as [|[k2 z] r'].
  - cbn [map tjoin flat_map]. rewrite app_nil_r. unfold tentry. cbn [fst snd].
    rewrite <- app_assoc. rewrite span_chars_app by exact I. cbn [app].
    rewrite (Hy Hny f' (TRC :: rest)) by (cbn; auto; lia). reflexivity.
  - cbn [map]. rewrite tjoin_cons2. unfold tentry at 1. cbn [fst snd].
    rewrite <- !app_assoc. rewrite span_chars_app by exact I. cbn [app].
    rewrite <- ?app_assoc. cbn [app].
    rewrite (Hy Hny f' (TDot :: tjoin (tentry tser (k2, z) :: map (tentry tser) r') ++ TRC :: rest))
      by (cbn; auto; lia).
    change (tentry tser (k2, z) :: map (tentry tser) r') with (map (tentry tser) ((k2, z) :: r')).
    rewrite (IHr f' rest HFr Hnr) by (try discriminate; cbn [fold_right snd] in *; lia).
    reflexivity.
Qed.

Theorem parse_roundtrip : forall v, nf v = true ->
  forall fuel rest, (jsize v <= fuel)%nat -> delim_start rest ->
  parse_value fuel (tser v ++ rest) = Some (v, rest).
Proof.
  intro v. change (rt_prop v).
  induction v as [| | | |l IH|m IH] using json_ind'; unfold rt_prop; cbn [nf]; try discriminate;
    intros Hn fuel rest Hf Hd.
  - destruct fuel; [cbn in Hf; lia|]. reflexivity.
  - destruct fuel; [cbn in Hf; lia|]. cbn [tser parse_value].
    pose proof (span_chars_app s rest Hd) as Hs.
    destruct s as [|c s'].
    + cbn [map app] in *. pose proof (delim_not_open rest Hd) as Hno.
      destruct rest as [|t rest']; [reflexivity|].
      destruct t; try contradiction; cbn [span_chars]; reflexivity.
    + cbn [map app] in *. now rewrite Hs.
  - (* list *)
    apply andb_true_iff in Hn as [Hall Hhd].
    destruct fuel as [|f]; [cbn in Hf; lia|]. cbn [jsize] in Hf.
    cbn [tser app parse_value].
    destruct l as [|x l']; [reflexivity|].
    pose proof (parse_items_ok (x :: l') f rest IH Hall ltac:(discriminate) ltac:(lia)) as Hitems.
    assert (Hx : nf x = true) by (cbn [forallb] in Hall; apply andb_true_iff in Hall; tauto).
    assert (Hxne : x <> JStr []) by (intro; subst x; cbn in Hhd; discriminate).
    destruct (tser_opens x Hx Hxne) as [_ Hop].
    rewrite <- app_assoc. cbn [app].
    specialize (Hop (flat_map (fun g => TDot :: g) (map tser l') ++ TRB :: rest)).
    cbn [map tjoin] in *. rewrite <- app_assoc in *.
    destruct (tser x ++ flat_map (fun g => TDot :: g) (map tser l') ++ TRB :: rest) as [|t0 ts0] eqn:E;
      [contradiction|].
    destruct t0; cbn in Hop; try contradiction; rewrite Hitems; reflexivity.
  - (* dict *)
    destruct fuel as [|f]; [cbn in Hf; lia|]. cbn [jsize] in Hf.
    cbn [tser app parse_value].
    destruct m as [|[k x] m']; [reflexivity|].
    pose proof (parse_entries_ok ((k, x) :: m') f rest IH Hn ltac:(discriminate) ltac:(lia)) as Hent.
    rewrite <- app_assoc. cbn [app].
    cbn [map tjoin] in *. unfold tentry at 1 in Hent. unfold tentry at 1. cbn [fst snd] in *.
    rewrite <- !app_assoc in *. cbn [app] in *.
    destruct k as [|c k']; cbn [map app] in *; unfold tentry at 1; cbn [fst snd map app];
      rewrite <- ?app_assoc; cbn [map app]; rewrite Hent; reflexivity.
Qed.

Lemma good_tser : forall v, forallb good (tser v) = true.
Proof.
  assert (Hc : forall s, forallb good (map TChar s) = true) by (induction s; cbn; auto).
  assert (Hj : forall fs, Forall (fun f => forallb good f = true) fs -> forallb good (tjoin fs) = true).
  { intros fs HF. destruct HF as [|f r Hf Hr]; [reflexivity|]. cbn [tjoin].
    rewrite forallb_app, Hf. cbn [andb]. induction Hr as [|g r' Hg Hr' IH]; [reflexivity|].
    cbn [flat_map]. cbn [app forallb good]. now rewrite forallb_app, Hg, IH. }
  induction v as [| | | |l IH|m IH] using json_ind'; cbn [tser]; auto.
  - cbn [forallb good andb]. rewrite forallb_app, Hj; [reflexivity|].
    rewrite Forall_map. exact IH.
  - cbn [forallb good andb]. rewrite forallb_app, Hj; [reflexivity|].
    rewrite Forall_map. eapply Forall_impl; [|exact IH]. intros [k x] Hx. unfold tentry. cbn [fst snd] in *.
    rewrite forallb_app, Hc. cbn [forallb good andb]. exact Hx.
Qed.

Lemma nf_strip_empty l : forallb nf l = true ->
  forallb nf (strip_empty l) = true /\ (match strip_empty l with JStr [] :: _ => true | _ => false end) = false.
Proof.
  induction l as [|y r IH]; [auto|]. cbn [forallb]. intro Hf. apply andb_true_iff in Hf as [Hy Hr].
  destruct y; cbn [strip_empty forallb]; try (rewrite ?Hy, ?Hr; auto; fail).
  destruct s; [now apply IH|]. cbn [forallb]. rewrite Hy, Hr. auto.
Qed.

Lemma nf_norm : forall v, icon v = true -> nf (norm v) = true.
Proof.
  induction v as [| | | |l IH|m IH] using json_ind'; cbn [icon norm nf]; auto.
  - intro Hf. assert (Hall : forallb nf (map norm l) = true).
    { rewrite forallb_forall in *. intros y Hy. apply in_map_iff in Hy as (x & <- & Hx).
      rewrite Forall_forall in IH. apply IH; auto. }
    destruct (nf_strip_empty _ Hall) as [H1 H2]. now rewrite H1, H2.
  - intro Hf. rewrite forallb_ksort. rewrite forallb_forall in *. intros [k y] Hy.
    apply in_map_iff in Hy as ([k0 x] & E & Hx). inversion E; subst. cbn [snd].
    rewrite Forall_forall in IH. apply (IH _ Hx). apply (Hf _ Hx).
Qed.

(* the normal form is a fixed point of the parser's result: parse (tokens of the
   serialisation) returns the normal form *)
Corollary parse_ser : forall v b, icon v = true -> ser_value v = Some b ->
  parse_value (jsize (norm v)) (lex b) = Some (norm v, []).
Proof.
  intros v b Hi Hs. rewrite (ser_value_tokens v Hi) in Hs. inversion Hs; subst b.
  rewrite lex_unlex by apply good_tser.
  rewrite <- (app_nil_r (tser (norm v))). apply parse_roundtrip; [now apply nf_norm|lia|exact I].
Qed.

(* the serialisation is injective up to the normal form *)
Theorem ser_value_inj a b : icon a = true -> icon b = true ->
  ser_value a = ser_value b -> norm a = norm b.
Proof.
  intros Ha Hb E. rewrite (ser_value_tokens a Ha), (ser_value_tokens b Hb) in E.
  inversion E as [E']. apply (f_equal lex) in E'.
  rewrite !lex_unlex in E' by apply good_tser.
  pose proof (parse_roundtrip (norm a) (nf_norm a Ha) (jsize (norm a) + jsize (norm b)) [] ltac:(lia) I) as Pa.
  pose proof (parse_roundtrip (norm b) (nf_norm b Hb) (jsize (norm a) + jsize (norm b)) [] ltac:(lia) I) as Pb.
  rewrite !app_nil_r in *. rewrite E' in Pa. rewrite Pa in Pb. now inversion Pb.
Qed.

Theorem ser_value_norm_eq a b : icon a = true -> icon b = true ->
  norm a = norm b -> ser_value a = ser_value b.
Proof. intros Ha Hb E. now rewrite (ser_value_tokens a Ha), (ser_value_tokens b Hb), E. Qed.

(* a value followed by a separator, against another value followed by anything
   that starts with a separator: the values and the remainders coincide *)
Lemma ser_value_prefix_inj a b sa sb ra rb : icon a = true -> icon b = true ->
  ser_value a = Some sa -> ser_value b = Some sb ->
  sa ++ c_dot :: ra = sb ++ c_dot :: rb -> norm a = norm b /\ ra = rb.
Proof.
  intros Ha Hb Ea Eb E.
  rewrite (ser_value_tokens a Ha) in Ea. rewrite (ser_value_tokens b Hb) in Eb.
  inversion Ea; inversion Eb; subst sa sb. apply (f_equal lex) in E.
  rewrite !lex_unlex_app in E by apply good_tser.
  assert (Hl : forall r, exists r', lex (c_dot :: r) = TDot :: r').
  { intro r. cbn [lex]. eexists. reflexivity. }
  destruct (Hl ra) as [ra' Era]. destruct (Hl rb) as [rb' Erb]. rewrite Era, Erb in E.
  pose proof (parse_roundtrip (norm a) (nf_norm a Ha) (jsize (norm a) + jsize (norm b)) (TDot :: ra') ltac:(lia) I) as Pa.
  pose proof (parse_roundtrip (norm b) (nf_norm b Hb) (jsize (norm a) + jsize (norm b)) (TDot :: rb') ltac:(lia) I) as Pb.
  rewrite E in Pa. rewrite Pa in Pb. injection Pb as E1 E2. split; [exact E1|].
  assert (E3 : lex (c_dot :: ra) = lex (c_dot :: rb)) by (rewrite Era, Erb; congruence).
  apply lex_inj in E3. now inversion E3.
Qed.

(* ------------------------------------------------------------------ *)
(* top level: the pre-image of the JSON-map hash                        *)
(* ------------------------------------------------------------------ *)

(* the part of a JSON transaction that is hashed *)
Definition signed_part (m : list (bytes * json)) : list (bytes * json) := drop_keys v3_excluded m.
Definition norm_top (m : list (bytes * json)) : json := norm (JObj (signed_part m)).
Definition icon_top (m : list (bytes * json)) : bool := icon (JObj (signed_part m)).

Lemma ser_value_obj_dict ex m :
  ser_value (JObj (drop_keys ex m)) =
  match ser_dict ex m with Some b => Some (c_lc :: b ++ [c_rc]) | None => None end.
Proof. unfold ser_dict. cbn [ser_value]. now destruct (map_opt _ (drop_keys ex m)). Qed.

Theorem pre_map_inj m1 m2 p : icon_top m1 = true -> icon_top m2 = true ->
  pre_map m1 = Some p -> pre_map m2 = Some p -> norm_top m1 = norm_top m2.
Proof.
  unfold icon_top, norm_top, pre_map, signed_part. intros H1 H2 E1 E2.
  apply ser_value_inj; auto. rewrite !ser_value_obj_dict.
  destruct (ser_dict v3_excluded m1) as [b1|]; [|discriminate].
  destruct (ser_dict v3_excluded m2) as [b2|]; [|discriminate].
  assert (F : Some (salt ++ b1) = Some (salt ++ b2)) by congruence.
  assert (F' : salt ++ b1 = salt ++ b2) by congruence.
  apply app_inv_head in F'. now subst.
Qed.

Theorem pre_map_norm_eq m1 m2 : icon_top m1 = true -> icon_top m2 = true ->
  norm_top m1 = norm_top m2 -> pre_map m1 = pre_map m2.
Proof.
  unfold icon_top, norm_top, signed_part. intros H1 H2 E.
  pose proof (ser_value_norm_eq _ _ H1 H2 E) as Es. rewrite !ser_value_obj_dict in Es.
  unfold pre_map.
  destruct (ser_dict v3_excluded m1) as [b1|]; destruct (ser_dict v3_excluded m2) as [b2|];
    try discriminate; [|reflexivity].
  inversion Es as [E']. apply app_inv_tail in E'. now subst.
Qed.

Lemma icon_ser_some : forall v, icon v = true -> exists b, ser_value v = Some b.
Proof. intros v Hv. rewrite (ser_value_tokens v Hv). eauto. Qed.

Lemma icon_top_pre_map m : icon_top m = true -> exists p, pre_map m = Some p.
Proof.
  unfold icon_top, signed_part, pre_map. intro Hi. destruct (icon_ser_some _ Hi) as [b Hb].
  rewrite ser_value_obj_dict in Hb. destruct (ser_dict v3_excluded m); [eauto|discriminate].
Qed.

(* ------------------------------------------------------------------ *)
(* key order of a dict does not matter (for any value kinds)            *)
(* ------------------------------------------------------------------ *)

Lemma map_opt_cons {A B} (f : A -> option B) x r :
  map_opt f (x :: r) = match f x, map_opt f r with Some y, Some t => Some (y :: t) | _, _ => None end.
Proof. reflexivity. Qed.

Lemma map_opt_perm {A B} (f : A -> option B) l l' : Permutation l l' ->
  match map_opt f l, map_opt f l' with
  | Some a, Some b => Permutation a b
  | None, None => True
  | _, _ => False
  end.
Proof.
  induction 1 as [|x l l' P IH|x y l|l l' l'' P1 IH1 P2 IH2].
  - cbn. constructor.
  - rewrite !map_opt_cons. destruct (f x); [|exact I].
    destruct (map_opt f l), (map_opt f l'); auto.
  - rewrite !map_opt_cons. destruct (f x), (f y); try exact I;
      destruct (map_opt f l); try exact I. apply perm_swap.
  - destruct (map_opt f l), (map_opt f l'), (map_opt f l''); try contradiction; auto.
    eapply perm_trans; eauto.
Qed.

Lemma map_opt_keys m kfs :
  map_opt (fun kv : bytes * json => match ser_value (snd kv) with
                     | Some f => Some (fst kv, f) | None => None end) m = Some kfs ->
  map fst kfs = map fst m.
Proof.
  revert kfs; induction m as [|[k v] r IH]; intros kfs E.
  - inversion E. reflexivity.
  - rewrite map_opt_cons in E. cbn [fst snd] in E. destruct (ser_value v); [|discriminate].
    destruct (map_opt _ r) as [t|]; [|discriminate]. inversion E; subst. cbn [map fst]. f_equal.
    now apply IH.
Qed.

Theorem ser_obj_key_order m m' : Permutation m m' -> NoDup (map fst m) ->
  ser_value (JObj m) = ser_value (JObj m').
Proof.
  intros P ND. cbn [ser_value].
  pose proof (map_opt_perm (fun kv : bytes * json => match ser_value (snd kv) with
                     | Some f => Some (fst kv, f) | None => None end) m m' P) as HP.
  destruct (map_opt _ m) as [a|] eqn:Ea; destruct (map_opt _ m') as [b|] eqn:Eb; try contradiction;
    [|reflexivity].
  rewrite (ksort_perm_eq a b); [reflexivity| |exact HP].
  rewrite (map_opt_keys _ _ Ea). exact ND.
Qed.

Lemma drop_keys_perm {A} ex (m m' : list (bytes * A)) : Permutation m m' ->
  Permutation (drop_keys ex m) (drop_keys ex m').
Proof.
  unfold drop_keys. induction 1; cbn [filter].
  - constructor.
  - destruct (negb _); [now constructor|assumption].
  - destruct (negb (key_in (fst x) ex)), (negb (key_in (fst y) ex)); try reflexivity. apply perm_swap.
  - eapply perm_trans; eauto.
Qed.

Lemma drop_keys_nodup {A} ex (m : list (bytes * A)) : NoDup (map fst m) -> NoDup (map fst (drop_keys ex m)).
Proof.
  unfold drop_keys. induction m as [|[k v] r IH]; cbn [map filter fst]; intro ND; [constructor|].
  inversion ND as [|? ? Hn NDr]; subst. destruct (negb (key_in k ex)); [|now apply IH].
  cbn [map fst]. constructor; [|now apply IH].
  intro Hin. apply Hn. apply in_map_iff in Hin as ([k' v'] & E & Hf). cbn in E; subst k'.
  apply filter_In in Hf as [Hf _]. change k with (fst (k, v')). now apply in_map.
Qed.

Theorem pre_map_key_order m m' : Permutation m m' -> NoDup (map fst m) -> pre_map m = pre_map m'.
Proof.
  intros P ND.
  pose proof (ser_obj_key_order _ _ (drop_keys_perm v3_excluded _ _ P) (drop_keys_nodup _ _ ND)) as E.
  rewrite !ser_value_obj_dict in E. unfold pre_map.
  destruct (ser_dict v3_excluded m), (ser_dict v3_excluded m'); try discriminate; [|reflexivity].
  inversion E as [E']. apply app_inv_tail in E'. now subst.
Qed.

(* the excluded fields do not influence the pre-image *)
Lemma drop_keys_set_key_excluded {A} ex k (v : A) m : key_in k ex = true ->
  drop_keys ex (set_key k v m) = drop_keys ex m.
Proof.
  intro Hk. unfold drop_keys. induction m as [|[k' v'] r IH]; cbn [set_key filter fst].
  - now rewrite Hk.
  - destruct (bytes_eqb k k') eqn:E; cbn [filter fst].
    + apply bytes_eqb_eq in E. subst k'. now rewrite Hk.
    + now rewrite IH.
Qed.

(* ------------------------------------------------------------------ *)
(* the collisions the format has (documented equivalences)              *)
(* ------------------------------------------------------------------ *)

(* serializeList writes the separator only when its buffer is non-empty *)
Lemma ser_list_leading_empty l : ser_value (JList (JStr [] :: l)) = ser_value (JList l).
Proof. cbn [ser_value]. rewrite map_opt_cons. cbn [ser_value esc]. now destruct (map_opt ser_value l). Qed.

Example collision_list_empty :
  ser_value (JList [JStr []; JStr (str "a")]) = ser_value (JList [JStr (str "a")])
  /\ ser_value (JList [JStr []]) = ser_value (JList []).
Proof. split; reflexivity. Qed.

(* a number is printed like the string of its decimal digits *)
Example collision_number_string : ser_value (JNum 12) = ser_value (JStr (str "12")).
Proof. reflexivity. Qed.

(* ================================================================== *)
(* Part E — binary form of the fields                                   *)
(* ================================================================== *)

Local Open Scope Z_scope.

Lemma pos_size_nat_gt p : Zpos p < 2 ^ Z.of_nat (Pos.size_nat p).
Proof.
  induction p as [p IH|p IH|]; cbn [Pos.size_nat].
  - rewrite Nat2Z.inj_succ, Z.pow_succ_r by lia. lia.
  - rewrite Nat2Z.inj_succ, Z.pow_succ_r by lia. lia.
  - cbn. lia.
Qed.

Lemma abs_size_nat_gt z : - 2 ^ Z.of_nat (N.size_nat (Z.abs_N z)) <= z < 2 ^ Z.of_nat (N.size_nat (Z.abs_N z)).
Proof.
  destruct z as [|p|p]; cbn [Z.abs_N N.size_nat].
  - cbn. lia.
  - pose proof (pos_size_nat_gt p). lia.
  - pose proof (pos_size_nat_gt p). lia.
Qed.

Lemma tc_len_loop_range fuel : forall z, - 2 ^ Z.of_nat fuel <= z < 2 ^ Z.of_nat fuel ->
  exists k', tc_len_loop fuel z = S k' /\ -128 * 256 ^ Z.of_nat k' <= z < 128 * 256 ^ Z.of_nat k'.
Proof.
  induction fuel as [|f IH]; intros z Hz.
  - exists 0%nat. cbn in *. split; [reflexivity|lia].
  - cbn [tc_len_loop]. destruct ((-128 <=? z) && (z <? 128)) eqn:Es.
    + exists 0%nat. cbn. split; [reflexivity|lia].
    + rewrite Nat2Z.inj_succ, Z.pow_succ_r in Hz by lia.
      assert (H2 : 0 < 2 ^ Z.of_nat f) by (apply Z.pow_pos_nonneg; lia).
      destruct (IH (z / 256)) as (k'' & E & Hr); [lia|].
      exists (S k''). rewrite E. split; [reflexivity|].
      rewrite Nat2Z.inj_succ, Z.pow_succ_r by lia. lia.
Qed.

Lemma tc_len_range z : exists k', tc_len z = S k' /\ -128 * 256 ^ Z.of_nat k' <= z < 128 * 256 ^ Z.of_nat k'.
Proof. apply tc_len_loop_range, abs_size_nat_gt. Qed.

Lemma tc_len_loop_le fuel : forall z k', -128 * 256 ^ Z.of_nat k' <= z < 128 * 256 ^ Z.of_nat k' ->
  (tc_len_loop fuel z <= S k')%nat.
Proof.
  induction fuel as [|f IH]; intros z k' Hz; cbn [tc_len_loop]; [lia|].
  destruct ((-128 <=? z) && (z <? 128)) eqn:Es; [lia|].
  destruct k' as [|k'']; [cbn in Hz; lia|].
  rewrite Nat2Z.inj_succ, Z.pow_succ_r in Hz by lia.
  assert (H2 : 0 < 256 ^ Z.of_nat k'') by (apply Z.pow_pos_nonneg; lia).
  specialize (IH (z / 256) k''). lia.
Qed.

Lemma be_bytes_length k v : length (be_bytes k v) = k.
Proof. induction k as [|k IH]; cbn [be_bytes length]; [reflexivity|]. now rewrite IH. Qed.

Local Open Scope N_scope.

Lemma fold_be k : forall v acc,
  fold_left (fun a b => a * 256 + b) (be_bytes k v) acc = acc * 256 ^ N.of_nat k + v mod 256 ^ N.of_nat k.
Proof.
  induction k as [|k IH]; intros v acc.
  - cbn [be_bytes fold_left N.of_nat]. rewrite N.pow_0_r, N.mod_1_r. lia.
  - cbn [be_bytes fold_left]. rewrite IH.
    replace (2 ^ (8 * N.of_nat k)) with (256 ^ N.of_nat k)
      by (rewrite N.pow_mul_r; reflexivity).
    rewrite Nat2N.inj_succ, N.pow_succ_r'.
    assert (HP : 256 ^ N.of_nat k <> 0) by (apply N.pow_nonzero; lia).
    rewrite (N.mul_comm 256 (256 ^ N.of_nat k)).
    rewrite (N.mod_mul_r v (256 ^ N.of_nat k) 256) by lia.
    generalize (256 ^ N.of_nat k) (v mod 256 ^ N.of_nat k) ((v / 256 ^ N.of_nat k) mod 256).
    intros P r q. lia.
Qed.

Lemma be_val_be_bytes k v : v < 256 ^ N.of_nat k -> be_val (be_bytes k v) = v.
Proof. intro Hv. unfold be_val. rewrite fold_be, N.mod_small by exact Hv. lia. Qed.

Lemma be_bytes_ok k v : bytes_ok (be_bytes k v) = true.
Proof.
  induction k as [|k IH]; cbn [be_bytes bytes_ok forallb]; [reflexivity|].
  fold (bytes_ok (be_bytes k v)). rewrite IH. unfold byte_ok.
  assert ((v / 2 ^ (8 * N.of_nat k)) mod 256 < 256) by (apply N.mod_lt; lia). lia.
Qed.

Local Open Scope Z_scope.

Theorem z_bytes_roundtrip z : z_of_bytes (z_to_bytes z) = z.
Proof.
  unfold z_to_bytes. destruct (tc_len_range z) as (k' & Ek & Hr). rewrite Ek.
  set (M := 256 ^ Z.of_nat (S k')).
  assert (HP : 0 < 256 ^ Z.of_nat k') by (apply Z.pow_pos_nonneg; lia).
  assert (HM : M = 256 * 256 ^ Z.of_nat k') by (unfold M; rewrite Nat2Z.inj_succ, Z.pow_succ_r; lia).
  set (w := z mod M). assert (Hw : 0 <= w < M) by (apply Z.mod_pos_bound; lia).
  set (v := Z.to_N w). assert (Hv : Z.of_N v = w) by (unfold v; lia).
  assert (HvN : (v < 256 ^ N.of_nat (S k'))%N).
  { apply N2Z.inj_lt. rewrite Hv, N2Z.inj_pow, nat_N_Z. cbn [Z.of_N]. fold M. lia. }
  pose proof (be_val_be_bytes (S k') v HvN) as Hval.
  pose proof (be_bytes_length (S k') v) as Hlen.
  cbn [be_bytes] in *. unfold z_of_bytes.
  set (b := ((v / 2 ^ (8 * N.of_nat k')) mod 256)%N) in *.
  assert (Hb : Z.of_N b = w / 256 ^ Z.of_nat k').
  { unfold b. replace (2 ^ (8 * N.of_nat k'))%N with (256 ^ N.of_nat k')%N
      by (rewrite N.pow_mul_r; reflexivity).
    rewrite N2Z.inj_mod, N2Z.inj_div, N2Z.inj_pow, nat_N_Z, Hv. cbn [Z.of_N].
    apply Z.mod_small. split; [apply Z.div_pos; lia|].
    apply Z.div_lt_upper_bound; lia. }
  rewrite Hval, Hlen, Hv. fold M.
  destruct (b <? 128)%N eqn:Eb.
  - assert (w / 256 ^ Z.of_nat k' < 128) by lia.
    assert (w < 128 * 256 ^ Z.of_nat k').
    { destruct (Z_lt_le_dec w (128 * 256 ^ Z.of_nat k')) as [|Hge]; [assumption|].
      pose proof (Z.div_le_lower_bound w (256 ^ Z.of_nat k') 128 HP ltac:(lia)). lia. }
    unfold w in *. destruct (Z_lt_le_dec z 0) as [Hneg|Hpos].
    + rewrite <- (Z.mod_add z 1 M) in * by lia. rewrite Z.mod_small in * by lia. lia.
    + rewrite Z.mod_small in * by lia. lia.
  - assert (128 <= w / 256 ^ Z.of_nat k') by lia.
    assert (128 * 256 ^ Z.of_nat k' <= w).
    { destruct (Z_lt_le_dec w (128 * 256 ^ Z.of_nat k')) as [Hlt|]; [|assumption].
      pose proof (Z.div_lt_upper_bound w (256 ^ Z.of_nat k') 128 HP ltac:(lia)). lia. }
    unfold w in *. destruct (Z_lt_le_dec z 0) as [Hneg|Hpos].
    + rewrite <- (Z.mod_add z 1 M) in * by lia. rewrite Z.mod_small in * by lia. lia.
    + rewrite Z.mod_small in * by lia. lia.
Qed.

Lemma z_to_bytes_length_int64 z : int64_ok z = true -> (length (z_to_bytes z) <= 8)%nat.
Proof.
  unfold int64_ok, z_to_bytes. intro Hz. rewrite be_bytes_length.
  unfold tc_len. apply (tc_len_loop_le _ z 7). cbn. lia.
Qed.

Lemma int64_bytes_roundtrip z : int64_ok z = true -> int64_of_bytes (z_to_bytes z) = Some z.
Proof.
  intro Hz. unfold int64_of_bytes. pose proof (z_to_bytes_length_int64 z Hz).
  destruct (Nat.ltb 8 (length (z_to_bytes z))) eqn:E; [apply Nat.ltb_lt in E; lia|].
  now rewrite z_bytes_roundtrip.
Qed.

Lemma z_to_bytes_ok z : bytes_ok (z_to_bytes z) = true.
Proof. apply be_bytes_ok. Qed.

Local Open Scope N_scope.

(* ------------------------------------------------------------------ *)
(* signatures                                                           *)
(* ------------------------------------------------------------------ *)

Lemma flag_roundtrip v : v < 256 -> flag_to_compat (flag_to_ecdsa v) = v /\ flag_to_ecdsa (flag_to_compat v) = v.
Proof. unfold flag_to_compat, flag_to_ecdsa. lia. Qed.

Definition wf_sig (s : tsig) : bool :=
  match s with
  | SigNone => true
  | SigV vrs => Nat.eqb (length vrs) 65 && bytes_ok vrs
  | SigRS _ => false
  end.

Lemma firstn_skipn_snoc {A} (l : list A) x n : length l = n -> firstn n (l ++ [x]) = l /\ skipn n (l ++ [x]) = [x].
Proof.
  intro Hl. subst n. split.
  - rewrite firstn_app, Nat.sub_diag, firstn_all. cbn. apply app_nil_r.
  - rewrite skipn_app, Nat.sub_diag, skipn_all. reflexivity.
Qed.

Lemma sig_bytes_roundtrip s : wf_sig s = true ->
  exists b, sig_to_bytes s = Some b /\ sig_of_bytes b = Some s.
Proof.
  destruct s as [|vrs|rs]; cbn [wf_sig]; intro Hw; try discriminate.
  - exists []. split; reflexivity.
  - apply andb_true_iff in Hw as [Hl Hb]. apply Nat.eqb_eq in Hl.
    destruct vrs as [|v rs]; [discriminate|]. cbn [length] in Hl.
    cbn [bytes_ok forallb] in Hb. apply andb_true_iff in Hb as [Hv Hrs]. unfold byte_ok in Hv.
    exists (rs ++ [flag_to_compat v]). split; [reflexivity|].
    unfold sig_of_bytes, parse_signature.
    assert (Hlen : length (rs ++ [flag_to_compat v]) = 65%nat) by (rewrite app_length; cbn; lia).
    rewrite Hlen. destruct (rs ++ [flag_to_compat v]) eqn:E; [destruct rs; discriminate|]. rewrite <- E.
    cbn [is_nil Nat.eqb].
    destruct (firstn_skipn_snoc rs (flag_to_compat v) 64 ltac:(lia)) as [F S]. rewrite F, S.
    destruct (flag_roundtrip v ltac:(lia)) as [_ R]. rewrite R, E. reflexivity.
Qed.

(* ------------------------------------------------------------------ *)
(* fields                                                               *)
(* ------------------------------------------------------------------ *)

Definition opt_ok {A} (p : A -> bool) (o : option A) : bool := match o with Some a => p a | None => true end.

(* the field values a v3 transaction can hold after parsing *)
Definition wf_fields (f : txdata) : bool :=
  (t_version f =? 3) && addr_ok (t_from f) && addr_ok (t_to f)
  && int64_ok (t_timestamp f) && opt_ok int64_ok (t_nid f).


Lemma hex_decode_any_ok : forall s bs, hex_decode_any s = Some bs -> bytes_ok bs = true.
Proof.
  intros s. induction s as [|h|h l r IH] using list_ind2; intros bs Hd; cbn [hex_decode_any] in Hd.
  - inversion Hd. reflexivity.
  - discriminate.
  - destruct (hexval h) as [x|] eqn:Eh; [|discriminate].
    destruct (hexval l) as [y|] eqn:El; [|discriminate].
    destruct (hex_decode_any r) as [t|] eqn:Er; [|discriminate].
    inversion Hd; subst. cbn [bytes_ok forallb]. fold (bytes_ok t). rewrite (IH t eq_refl).
    assert (Hx : forall c v, hexval c = Some v -> v < 16).
    { clear. intros c v. unfold hexval.
      destruct ((48 <=? c) && (c <=? 57)) eqn:E1; [intro E; inversion E; lia|].
      destruct ((97 <=? c) && (c <=? 102)) eqn:E2; [intro E; inversion E; lia|].
      destruct ((65 <=? c) && (c <=? 70)) eqn:E3; [intro E; inversion E; lia|discriminate]. }
    apply Hx in Eh. apply Hx in El. unfold byte_ok. lia.
Qed.

Lemma bytes_ok_app a b : bytes_ok (a ++ b) = bytes_ok a && bytes_ok b.
Proof. unfold bytes_ok. apply forallb_app. Qed.

Lemma bytes_ok_repeat0 n : bytes_ok (repeat 0 n) = true.
Proof. induction n; cbn; auto. Qed.

Lemma bytes_ok_firstn n l : bytes_ok l = true -> bytes_ok (firstn n l) = true.
Proof.
  revert l; induction n as [|n IH]; intros [|x l]; cbn; auto.
  intro Hb. apply andb_true_iff in Hb as [Hx Hl]. rewrite Hx. cbn. now apply IH.
Qed.

Lemma set_type_and_id_ok c id : bytes_ok id = true -> addr_ok (set_type_and_id c id) = true.
Proof.
  intro Hb. unfold addr_ok, set_type_and_id. cbn [a_id].
  destruct (Nat.ltb (length id) 20) eqn:El.
  - apply Nat.ltb_lt in El. rewrite app_length, repeat_length, bytes_ok_app, bytes_ok_repeat0, Hb.
    replace (20 - length id + length id)%nat with 20%nat by lia. reflexivity.
  - apply Nat.ltb_ge in El. rewrite firstn_length_le by lia. now rewrite bytes_ok_firstn.
Qed.

Lemma addr_set_string_ok s a : addr_set_string s = Some a -> addr_ok a = true.
Proof.
  unfold addr_set_string.
  match goal with |- (let (c, body) := ?e in _) = _ -> _ => destruct e as [c body] end.
  match goal with |- context [hex_decode_any ?x] => destruct (hex_decode_any x) as [id|] eqn:E end;
    cbn [option_map]; [|discriminate].
  intro Ha. inversion Ha; subst. apply set_type_and_id_ok. eapply hex_decode_any_ok; eauto.
Qed.

Lemma zero_addr_ok : addr_ok zero_addr = true.
Proof. reflexivity. Qed.

Section TxProofs.
  Variable H : bytes -> bytes.
  Variable b64enc : bytes -> bytes.
  Variable b64dec : bytes -> option bytes.

  Theorem decode_encode f : wf_fields f = true -> wf_sig (t_sig f) = true ->
    exists b, encode f = Some b /\ decode b = Some f.
  Proof.
    unfold wf_fields. intros Hw Hs.
    repeat (apply andb_true_iff in Hw as [Hw ?]). apply N.eqb_eq in Hw.
    destruct (sig_bytes_roundtrip _ Hs) as (sb & Es & Ds).
    unfold encode. rewrite Es. eexists. split; [reflexivity|].
    unfold decode. cbn [b_version b_from b_to b_value b_stepLimit b_timestamp b_nid b_nonce b_sig b_dataType b_data].
    rewrite Hw. change (uint16_of_bytes (z_to_bytes (Z.of_N 3))) with (Some 3).
    rewrite !bytes_roundtrip by assumption.
    rewrite int64_bytes_roundtrip by assumption. rewrite Ds.
    assert (En : opt_dec (option_map z_to_bytes (t_nid f)) int64_of_bytes = Some (t_nid f)).
    { destruct (t_nid f) as [n|]; cbn [option_map opt_dec opt_ok] in *; [|reflexivity].
      now rewrite int64_bytes_roundtrip. }
    rewrite En. cbn [N.eqb Pos.eqb].
    destruct f as [ver from to val step ts nid nonce sg dt da]. cbn in *. subst ver.
    f_equal. f_equal.
    - destruct val; cbn; [now rewrite z_bytes_roundtrip|reflexivity].
    - apply z_bytes_roundtrip.
    - destruct nonce; cbn; [now rewrite z_bytes_roundtrip|reflexivity].
  Qed.

  (* a transaction object as the code can hold it *)
  Definition wf_tx (t : tx) : Prop :=
    match t with
    | TxStruct f => wf_fields f = true /\ wf_sig (t_sig f) = true
    | TxRaw f m => is_v3_map m = true /\ fields_of b64dec m = POk f
    end.

  (* Bytes() then NewTransaction() *)
  Definition roundtrip (t : tx) : result tx :=
    match to_bin t with Some b => from_bin H b64dec b | None => Reject end.

  Theorem roundtrip_fixpoint t : wf_tx t -> roundtrip t = Ok t.
  Proof.
    destruct t as [f|f m]; cbn [wf_tx]; intros [H1 H2]; unfold roundtrip; cbn [to_bin].
    - destruct (decode_encode f H1 H2) as (b & Eb & Db). rewrite Eb. cbn [option_map from_bin].
      now rewrite Db.
    - cbn [from_bin from_json_gen]. rewrite H1, H2. reflexivity.
  Qed.

  Fixpoint iter_rt (n : nat) (t : tx) : result tx :=
    match n with
    | O => Ok t
    | S k => match roundtrip t with Ok t' => iter_rt k t' | r => r end
    end.

  Theorem iter_rt_fixpoint t n : wf_tx t -> iter_rt n t = Ok t.
  Proof. intro Hw. induction n as [|n IH]; cbn [iter_rt]; [reflexivity|]. now rewrite roundtrip_fixpoint. Qed.


  (* base64 decoding yields bytes *)
  Hypothesis b64dec_bytes : forall s b, b64dec s = Some b -> bytes_ok b = true.

  Lemma addr_of_json_ok o a : addr_of_json o = POk a -> addr_ok a = true.
  Proof.
    unfold addr_of_json. destruct o as [j|]; [|intro E; inversion E; apply zero_addr_ok].
    destruct j; try discriminate. destruct (addr_set_string s) eqn:E; [|discriminate].
    intro E'. inversion E'; subst. eapply addr_set_string_ok; eauto.
  Qed.

  Lemma parse_hexint64_ok s z : parse_hexint64 s = POk z -> int64_ok z = true.
  Proof.
    unfold parse_hexint64. destruct (parse_hexint s); [|discriminate].
    destruct (int64_ok z0) eqn:E; [|discriminate]. intro E'. now inversion E'; subst.
  Qed.

  Lemma opt_int64_ok o r : opt_int o parse_hexint64 = POk r -> opt_ok int64_ok r = true.
  Proof.
    unfold opt_int. destruct o as [j|]; [|intro E; inversion E; reflexivity].
    destruct j; try discriminate; try (intro E; inversion E; reflexivity).
    destruct (parse_hexint64 s) eqn:E; try discriminate.
    intro E'. inversion E'; subst. cbn. eapply parse_hexint64_ok; eauto.
  Qed.

  Lemma wf_sig_parts v (b rs : bytes) : rs = firstn 64 b -> length b = 65%nat -> bytes_ok b = true ->
    wf_sig (SigV (flag_to_ecdsa v :: rs)) = true.
  Proof.
    intros Ers Hl Hb. assert (Hlen : length rs = 64%nat) by (subst rs; apply firstn_length_le; lia).
    assert (Hok : bytes_ok rs = true) by (subst rs; now apply bytes_ok_firstn).
    clear Ers. unfold wf_sig. change (length (flag_to_ecdsa v :: rs)) with (S (length rs)).
    rewrite Hlen. change (bytes_ok (flag_to_ecdsa v :: rs)) with (byte_ok (flag_to_ecdsa v) && bytes_ok rs).
    rewrite Hok. unfold byte_ok, flag_to_ecdsa.
    assert ((v + 27) mod 256 < 256) by (apply N.mod_lt; lia).
    replace ((v + 27) mod 256 <? 256) with true by lia. reflexivity.
  Qed.

  Lemma parse_signature_wf b g : bytes_ok b = true -> parse_signature b = Some g ->
    wf_sig g = true \/ exists rs, g = SigRS rs.
  Proof.
    intros Hb. unfold parse_signature.
    destruct (Nat.eqb (length b) 65) eqn:E65.
    - apply Nat.eqb_eq in E65. destruct (skipn 64 b) as [|v [|? ?]] eqn:Es; try discriminate.
      remember (firstn 64 b) as rs eqn:Ers.
      intro E. injection E as <-. left. eapply wf_sig_parts; eauto.
    - destruct (Nat.eqb (length b) 64); [|discriminate]. intro E. injection E as <-. right. eauto.
  Qed.

  Lemma sig_of_json_wf o g : sig_of_json b64dec o = POk g -> wf_sig g = true \/ exists rs, g = SigRS rs.
  Proof.
    unfold sig_of_json. destruct o as [j|]; [|intro E; inversion E; now left].
    destruct j; try discriminate. destruct s as [|c s']; [intro E; inversion E; now left|].
    destruct (b64dec (c :: s')) as [b|] eqn:Eb; [|discriminate].
    destruct (parse_signature b) as [g'|] eqn:Ep; [|discriminate].
    intro E; inversion E; subst. eapply parse_signature_wf; eauto.
  Qed.

  Tactic Notation "bind_step" hyp(H) ident(x) ident(E) :=
    unfold bind in H at 1;
    match type of H with
    | match ?e with _ => _ end = _ => destruct e as [x| |] eqn:E; try discriminate
    end.

  Lemma fields_of_wf m f : fields_of b64dec m = POk f ->
    wf_fields f = true /\ (wf_sig (t_sig f) = true \/ exists rs, t_sig f = SigRS rs).
  Proof.
    unfold fields_of. destruct (negb (keys_supported m)); [discriminate|]. intro Hf.
    bind_step Hf u E0. bind_step Hf from E1. bind_step Hf to E2. bind_step Hf value E3.
    bind_step Hf step E4. bind_step Hf ts E5. bind_step Hf nid E6. bind_step Hf nonce E7.
    bind_step Hf sg E8. bind_step Hf dt E9.
    inversion Hf; subst f. unfold wf_fields.
    cbn [t_version t_from t_to t_timestamp t_nid t_sig].
    rewrite (addr_of_json_ok _ _ E1), (addr_of_json_ok _ _ E2).
    assert (Hts : int64_ok ts = true).
    { unfold req_int in E5. destruct (lookup (str "timestamp") m) as [j|]; [|inversion E5; reflexivity].
      destruct j; try discriminate. eapply parse_hexint64_ok; eauto. }
    rewrite Hts, (opt_int64_ok _ _ E6). split; [reflexivity|]. eapply sig_of_json_wf; eauto.
  Qed.

  (* Bytes() is defined: a signature, if present, carries V (64-byte signatures
     cannot be marshalled; such a transaction never verifies) *)
  Definition storable (t : tx) : Prop :=
    match t with
    | TxStruct f => forall rs, t_sig f <> SigRS rs
    | TxRaw _ _ => True
    end.

  Theorem from_json_wf j t : from_json H b64dec j = Ok t -> storable t -> wf_tx t.
  Proof.
    unfold from_json, from_json_gen. destruct j; try discriminate.
    destruct (is_v3_map m) eqn:Ev; cbn [negb]; [|discriminate].
    destruct (fields_of b64dec m) as [f| |] eqn:Ef; try discriminate.
    destruct (pre_map m) as [p|]; [|discriminate].
    destruct (bytes_eqb (H p) (id_struct H f)); intro E; inversion E; subst t; cbn [storable wf_tx].
    - intro Hst. destruct (fields_of_wf m f Ef) as [Hw [Hs|[rs Hs]]]; [auto|]. now apply Hst in Hs.
    - auto.
  Qed.

  (* C12: the identity (and every field) of a transaction submitted as JSON is
     unchanged by any number of conversions to the stored form and back *)
  Theorem json_tx_roundtrips j t n :
    from_json H b64dec j = Ok t -> storable t -> iter_rt n t = Ok t.
  Proof. intros Hj Hs. apply iter_rt_fixpoint. eapply from_json_wf; eauto. Qed.

  Corollary json_tx_stable j t n : from_json H b64dec j = Ok t -> storable t ->
    exists t', iter_rt n t = Ok t' /\ id H t' = id H t /\ fields t' = fields t.
  Proof. intros Hj Hs. exists t. split; [eapply json_tx_roundtrips; eauto|auto]. Qed.

  (* ---------------------------------------------------------------- *)
  (* which JSON submissions share an id                                 *)
  (* ---------------------------------------------------------------- *)

  Definition collision : Prop := exists p q : bytes, p <> q /\ H p = H q.

  Lemma from_json_id m t : from_json H b64dec (JObj m) = Ok t ->
    exists p, pre_map m = Some p /\ id H t = H p.
  Proof.
    unfold from_json, from_json_gen.
    destruct (is_v3_map m); cbn [negb]; [|discriminate].
    destruct (fields_of b64dec m) as [f| |]; try discriminate.
    destruct (pre_map m) as [p|] eqn:Ep; [|discriminate].
    destruct (bytes_eqb (H p) (id_struct H f)) eqn:Eb; intro E; inversion E; subst t; exists p;
      (split; [reflexivity|]); cbn [id].
    - apply bytes_eqb_eq in Eb. now rewrite Eb.
    - unfold id_map. now rewrite Ep.
  Qed.

  Theorem json_same_id_same_content m1 m2 t1 t2 :
    icon_top m1 = true -> icon_top m2 = true ->
    from_json H b64dec (JObj m1) = Ok t1 -> from_json H b64dec (JObj m2) = Ok t2 ->
    id H t1 = id H t2 -> norm_top m1 = norm_top m2 \/ collision.
  Proof.
    intros I1 I2 F1 F2 E.
    destruct (from_json_id _ _ F1) as (p1 & P1 & E1). destruct (from_json_id _ _ F2) as (p2 & P2 & E2).
    destruct (list_eq_dec N.eq_dec p1 p2) as [Ep|Np].
    - left. subst p2. eapply pre_map_inj; eauto.
    - right. exists p1, p2. split; [assumption|congruence].
  Qed.

  Theorem json_same_content_same_id m1 m2 t1 t2 :
    icon_top m1 = true -> icon_top m2 = true ->
    from_json H b64dec (JObj m1) = Ok t1 -> from_json H b64dec (JObj m2) = Ok t2 ->
    norm_top m1 = norm_top m2 -> id H t1 = id H t2.
  Proof.
    intros I1 I2 F1 F2 E.
    destruct (from_json_id _ _ F1) as (p1 & P1 & E1). destruct (from_json_id _ _ F2) as (p2 & P2 & E2).
    pose proof (pre_map_norm_eq _ _ I1 I2 E). congruence.
  Qed.

End TxProofs.

(* the two stability statements do not depend on the base64 encoder *)
Lemma json_tx_roundtrips_all (H : bytes -> bytes) (b64dec : bytes -> option bytes) :
  (forall s b, b64dec s = Some b -> bytes_ok b = true) ->
  forall j t n, from_json H b64dec j = Ok t -> storable t -> iter_rt H b64dec n t = Ok t.
Proof. exact (json_tx_roundtrips H (fun x => x) b64dec). Qed.

Lemma json_tx_stable_all (H : bytes -> bytes) (b64dec : bytes -> option bytes) :
  (forall s b, b64dec s = Some b -> bytes_ok b = true) ->
  forall j t n, from_json H b64dec j = Ok t -> storable t ->
  exists t', iter_rt H b64dec n t = Ok t' /\ id H t' = id H t /\ fields t' = fields t.
Proof. exact (json_tx_stable H (fun x => x) b64dec). Qed.


(* ================================================================== *)
(* Non-vacuity: concrete transactions that meet the hypotheses          *)
(* ================================================================== *)

Definition ex_H (p : bytes) : bytes := p.                 (* an injective "hash" *)
Definition ex_dec (s : bytes) : option bytes := Some s.   (* base64 as the identity *)

Definition ex_addr : bytes := str "hx00112233445566778899aabbccddeeff00112233".
Definition ex_sig : bytes := repeat 1 64 ++ [1].

Definition ex_map (value : bytes) : list (bytes * json) :=
  [(str "version", JStr (str "0x3")); (str "from", JStr ex_addr); (str "to", JStr ex_addr);
   (str "value", JStr value); (str "stepLimit", JStr (str "0x186a0"));
   (str "timestamp", JStr (str "0x5a0")); (str "nid", JStr (str "0x1"));
   (str "signature", JStr ex_sig); (str "dataType", JStr (str "message"));
   (str "data", JObj [(str "k.1", JList [JStr (str "a.b"); JNull; JStr (str "{x}")]); (str "", JStr [])])].

Definition ex_res_a : result tx := Eval vm_compute in from_json ex_H ex_dec (JObj (ex_map (str "0xa"))).
Definition ex_res_b : result tx := Eval vm_compute in from_json ex_H ex_dec (JObj (ex_map (str "0x0A"))).

Definition is_struct (r : result tx) : bool := match r with Ok (TxStruct _) => true | _ => false end.
Definition is_raw (r : result tx) : bool := match r with Ok (TxRaw _ _) => true | _ => false end.

(* canonical text takes the struct path, "0x0A" the raw fallback *)
Example ex_paths : is_struct ex_res_a = true /\ is_raw ex_res_b = true.
Proof. split; reflexivity. Qed.

Example ex_struct_path : forall t, ex_res_a = Ok t ->
  from_json ex_H ex_dec (JObj (ex_map (str "0xa"))) = Ok t /\ storable t
  /\ wf_tx ex_dec t /\ icon_top (ex_map (str "0xa")) = true.
Proof.
  unfold ex_res_a. intros t E. injection E as <-.
  split; [vm_compute; reflexivity|]. split; [intros rs; discriminate|].
  split; [split; vm_compute; reflexivity|vm_compute; reflexivity].
Qed.

Example ex_raw_path : forall t, ex_res_b = Ok t ->
  from_json ex_H ex_dec (JObj (ex_map (str "0x0A"))) = Ok t /\ storable t
  /\ t_value (fields t) = Some 10%Z /\ id ex_H t <> id_struct ex_H (fields t).
Proof.
  unfold ex_res_b. intros t E. injection E as <-.
  split; [vm_compute; reflexivity|]. split; [exact I|]. split; [reflexivity|].
  vm_compute. discriminate.
Qed.

(* hex case is not an equivalence of JSON submissions: the two texts of the
   value 10 give different pre-images *)
Example ex_hex_case_differs :
  parse_hexint (str "0x0A") = parse_hexint (str "0xa")
  /\ pre_map (ex_map (str "0x0A")) <> pre_map (ex_map (str "0xa")).
Proof. split; [reflexivity|]. vm_compute. discriminate. Qed.

(* the data value of the example with a leading empty string, serialised and read back *)
Definition ex_value : json :=
  JObj [(str "k.1", JList [JStr []; JStr (str "a.b"); JNull]); (str "", JStr [])].
Definition ex_value_ser : option bytes := Eval vm_compute in ser_value ex_value.
Example ex_parse :
  icon ex_value = true /\ nf (norm ex_value) = true
  /\ match ex_value_ser with
     | Some b => parse_value (jsize (norm ex_value)) (lex b) = Some (norm ex_value, [])
     | None => False
     end.
Proof. split; [reflexivity|]. split; [reflexivity|]. vm_compute. reflexivity. Qed.

(* key order: reversing the entries *)
Example ex_key_order : pre_map (rev (ex_map (str "0xa"))) = pre_map (ex_map (str "0xa")).
Proof. vm_compute. reflexivity. Qed.
