(* Model_Address.v — common/address.go: String, SetStringStrict, SetBytes, Bytes,
   and the two JSON-RPC regular expressions of server/jsonrpc/validator.go.
   An address value is the 21-byte array of the code: a type byte and 20 id bytes. *)
From Goloop Require Import lib.Bytes.
Open Scope N_scope.

Record address := { a_contract : bool; a_id : bytes }.   (* a_id has 20 bytes *)

Definition addr_ok (a : address) : bool :=
  (Nat.eqb (length (a_id a)) 20) && bytes_ok (a_id a).

Definition addr_eqb (a b : address) : bool :=
  Bool.eqb (a_contract a) (a_contract b) && bytes_eqb (a_id a) (a_id b).

(* hex.EncodeToString: lower-case digits *)
Definition hexdigit (n : N) : N := if n <? 10 then 48 + n else 87 + n.   (* '0'.. / 'a'.. *)
Fixpoint hex_encode (bs : bytes) : bytes :=
  match bs with
  | [] => []
  | b :: r => hexdigit (b / 16) :: hexdigit (b mod 16) :: hex_encode r
  end.

(* value of a lower-case hex digit, None for everything else (incl. 'A'..'F':
   SetStringStrict rejects a body that strings.ToLower would change) *)
Definition lhexval (c : N) : option N :=
  if (48 <=? c) && (c <=? 57) then Some (c - 48)
  else if (97 <=? c) && (c <=? 102) then Some (c - 87)
  else None.

Fixpoint lhex_decode (s : bytes) : option bytes :=
  match s with
  | [] => Some []
  | h :: l :: r =>
      match lhexval h, lhexval l, lhex_decode r with
      | Some x, Some y, Some t => Some (x * 16 + y :: t)
      | _, _, _ => None
      end
  | _ => None
  end.

Definition c_c := 99. Definition c_h := 104. Definition c_x := 120.

(* Address.String *)
Definition to_string (a : address) : bytes :=
  (if a_contract a then c_c else c_h) :: c_x :: hex_encode (a_id a).

(* Address.SetStringStrict : Some address / None = error *)
Definition parse_strict (s : bytes) : option address :=
  if negb (Nat.eqb (length s) 42) then None else
  match s with
  | p :: x :: body =>
      if negb (x =? c_x) then None else
      if p =? c_c then option_map (fun id => {| a_contract := true; a_id := id |}) (lhex_decode body)
      else if p =? c_h then option_map (fun id => {| a_contract := false; a_id := id |}) (lhex_decode body)
      else None
  | _ => None
  end.

(* Address.Bytes and Address.SetBytes *)
Definition to_bytes (a : address) : bytes := (if a_contract a then 1 else 0) :: a_id a.

Definition of_bytes (b : bytes) : option address :=
  if Nat.eqb (length b) 21 then
    match b with
    | 0 :: id => Some {| a_contract := false; a_id := id |}
    | 1 :: id => Some {| a_contract := true; a_id := id |}
    | _ => None
    end
  else if Nat.eqb (length b) 20 then Some {| a_contract := false; a_id := b |}
  else None.

(* ^hx[0-9a-f]{40}$ | ^cx[0-9a-f]{40}$  (t_addr alias) *)
Definition is_lhex (c : N) : bool := match lhexval c with Some _ => true | None => false end.
Definition rpc_regex (s : bytes) : bool :=
  match s with
  | p :: x :: body =>
      ((p =? c_h) || (p =? c_c)) && (x =? c_x) && Nat.eqb (length body) 40 && forallb is_lhex body
  | _ => false
  end.
