(* Model_Reward.v -- executable model of the IISS-4 reward calculation of
   icon/iiss/calculator (iiss4.go, prep.go, voter.go) for one term.  No proofs.

   What is mirrored, function by function
   * icmodule.Rate.MulBigInt                 [rate_mul]      (big.Int Quo)
   * icutils.CalcPower                       [calc_power]
   * calculator.fundToPeriodIScore           [fund_to_period_iscore]  (kept as
     a separate definition so that a generated kernel can replace it)
   * PRep: NewPRep, UpdatePower, InitAccumulated, ApplyVote, IsElectable,
     IsRewardable, CalculateReward, GetReward, Bigger
   * PRepInfo: Add, SetStatus, Sort, InitAccumulated, ApplyVote,
     UpdateTotalAccumulatedPower, CalculateReward
   * Voter: ApplyVoting, ApplyEvent, CalculateReward
   * VoteEvents.UpdateVoting with Delegating/Bonding.ApplyVotes: only whether
     it fails (a vote total going negative), see [apply_votes]
   * iiss4Reward: loadPRepInfo, processEvents, processPrepReward,
     processVoterReward, Calculate (processClaim / processBTP /
     processCommissionRate do not credit I-Score and are not modelled).

   Conventions
   * every amount is an unbounded Z (Go: big.Int); big.Int.Div is Euclidean
     division [big_div], big.Int.Quo truncates [Z.quot];
   * an address is an N; the harness chooses addresses whose byte order is the
     order of these numbers (PRep.Bigger's last tie-break compares bytes);
   * Go maps are association lists keyed by address ([amap]); the order of a
     Go map iteration is never observable in the results modelled here
     (sort.Slice is given a strict total order; credits are compared as sets);
   * PRepInfo.rank holds pointers to the PRep objects of PRepInfo.preps; the
     model keeps the list of their keys and reads the objects through the map;
   * a division by zero panics in Go: the model reports it as [RPanic]
     (theorem C35_no_panic shows it does not happen on well-formed terms);
   * events are given in the order the calculator reads them from the stage
     trie (key = offset, index). *)
From Coq Require Import List ZArith NArith Bool.
Import ListNotations.
Open Scope Z_scope.

Definition addr := N.

(* ------------------------------------------------------------------ maps *)
Definition amap (V : Type) := list (addr * V).

Fixpoint aget {V} (k : addr) (m : amap V) : option V :=
  match m with
  | [] => None
  | (k', v) :: m' => if N.eqb k k' then Some v else aget k m'
  end.

Fixpoint aset {V} (k : addr) (v : V) (m : amap V) : amap V :=
  match m with
  | [] => [(k, v)]
  | (k', v') :: m' => if N.eqb k k' then (k, v) :: m' else (k', v') :: aset k v m'
  end.

Definition getz (k : addr) (m : amap Z) : Z :=
  match aget k m with Some v => v | None => 0 end.

Definition update_key {V} (k : addr) (f : V -> V) (m : amap V) : amap V :=
  match aget k m with Some v => aset k (f v) m | None => m end.

Fixpoint memb (k : addr) (l : list addr) : bool :=
  match l with [] => false | x :: l' => N.eqb k x || memb k l' end.

Fixpoint nodupb (l : list addr) : bool :=
  match l with [] => true | x :: l' => negb (memb x l') && nodupb l' end.

(* first occurrences, in order *)
Fixpoint dedup (l : list addr) : list addr :=
  match l with
  | [] => []
  | x :: l' => x :: filter (fun y => negb (N.eqb y x)) (dedup l')
  end.

Definition sumZ {A} (f : A -> Z) (l : list A) : Z := fold_right (fun a s => f a + s) 0 l.

(* ------------------------------------------------------------------ arithmetic *)
(* big.Int.Div: Euclidean division (remainder >= 0); y = 0 panics in Go *)
Definition big_div (x y : Z) : Z :=
  if 0 <? y then x / y else if y <? 0 then - (x / (- y)) else 0.

Definition denom_in_rate : Z := 10000.
Definition iscore_icx_ratio : Z := 1000.
Definition month_block : Z := 1296000.     (* 24*60*60/2 * 30 *)

(* icmodule.Rate.MulBigInt *)
Definition rate_mul (rate v : Z) : Z := Z.quot (v * rate) denom_in_rate.

(* icutils.CalcPower *)
Definition calc_power (br bonded voted : Z) : Z :=
  if br =? 0 then voted else Z.min (big_div (bonded * denom_in_rate) br) voted.

(* calculator.fundToPeriodIScore *)
Definition fund_to_period_iscore (reward period : Z) : Z :=
  big_div (reward * (period * iscore_icx_ratio)) month_block.

(* icmodule.EnableStatus *)
Definition ES_Enable : Z := 0.
Definition ES_DisablePermanent : Z := 2.
Definition ES_Unjail : Z := 4.

(* ------------------------------------------------------------------ input of one term *)
Inductive vtype := VBond | VDelegate.

Record votedrec := mkVoted {
  v_addr : addr; v_status : Z; v_delegated : Z; v_bonded : Z; v_rate : Z; v_pubkey : bool }.

Definition votes := list (addr * Z).

Inductive event :=
| EEnable (target : addr) (status : Z)
| EVote (t : vtype) (from : addr) (vs : votes).

Record input := mkInput {
  i_iglobal : Z;                       (* RewardFund.IGlobal *)
  i_rprep : Z;                         (* allocation of Iprep, in 1/10000 *)
  i_rwage : Z;                         (* allocation of Iwage *)
  i_minbond : Z;
  i_br : Z;                            (* bond requirement, in 1/10000 *)
  i_elected : Z;                       (* electedPRepCount *)
  i_limit : Z;                         (* offsetLimit = term period - 1 *)
  i_voted : list votedrec;             (* icreward.Voted entries of base *)
  i_delegating : list (addr * votes);  (* icreward.Delegating entries of base *)
  i_bonding : list (addr * votes);     (* icreward.Bonding entries of base *)
  i_events : list (Z * event)          (* (offset, event) in key order *)
}.

(* ------------------------------------------------------------------ PRep *)
Record prep := mkPrep {
  p_status : Z; p_delegated : Z; p_bonded : Z; p_rate : Z; p_owner : addr;
  p_power : Z; p_pubkey : bool; p_rank : Z;
  p_accv : Z;      (* accumulatedVoted *)
  p_accp : Z;      (* accumulatedPower *)
  p_comm : Z; p_vr : Z; p_wage : Z }.

Definition set_status v p := mkPrep v (p_delegated p) (p_bonded p) (p_rate p) (p_owner p) (p_power p) (p_pubkey p) (p_rank p) (p_accv p) (p_accp p) (p_comm p) (p_vr p) (p_wage p).
Definition set_delegated v p := mkPrep (p_status p) v (p_bonded p) (p_rate p) (p_owner p) (p_power p) (p_pubkey p) (p_rank p) (p_accv p) (p_accp p) (p_comm p) (p_vr p) (p_wage p).
Definition set_bonded v p := mkPrep (p_status p) (p_delegated p) v (p_rate p) (p_owner p) (p_power p) (p_pubkey p) (p_rank p) (p_accv p) (p_accp p) (p_comm p) (p_vr p) (p_wage p).
Definition set_power v p := mkPrep (p_status p) (p_delegated p) (p_bonded p) (p_rate p) (p_owner p) v (p_pubkey p) (p_rank p) (p_accv p) (p_accp p) (p_comm p) (p_vr p) (p_wage p).
Definition set_rank v p := mkPrep (p_status p) (p_delegated p) (p_bonded p) (p_rate p) (p_owner p) (p_power p) (p_pubkey p) v (p_accv p) (p_accp p) (p_comm p) (p_vr p) (p_wage p).
Definition set_accv v p := mkPrep (p_status p) (p_delegated p) (p_bonded p) (p_rate p) (p_owner p) (p_power p) (p_pubkey p) (p_rank p) v (p_accp p) (p_comm p) (p_vr p) (p_wage p).
Definition set_accp v p := mkPrep (p_status p) (p_delegated p) (p_bonded p) (p_rate p) (p_owner p) (p_power p) (p_pubkey p) (p_rank p) (p_accv p) v (p_comm p) (p_vr p) (p_wage p).
Definition set_rewards c vr w p := mkPrep (p_status p) (p_delegated p) (p_bonded p) (p_rate p) (p_owner p) (p_power p) (p_pubkey p) (p_rank p) (p_accv p) (p_accp p) c vr w.

(* NewPRep *)
Definition new_prep (owner : addr) (status delegated bonded rate : Z) (pubkey : bool) : prep :=
  mkPrep status delegated bonded rate owner 0 pubkey 0 0 0 0 0 0.

(* GetVotedValue *)
Definition p_voted (p : prep) : Z := p_delegated p + p_bonded p.

(* calcPower / UpdatePower *)
Definition prep_calc_power (br : Z) (p : prep) : Z := calc_power br (p_bonded p) (p_voted p).
Definition prep_update_power (br : Z) (p : prep) : prep := set_power (prep_calc_power br p) p.

(* PRep.InitAccumulated *)
Definition prep_init_accumulated (period : Z) (p : prep) : prep :=
  set_accp (p_power p * period) (set_accv (p_voted p * period) p).

(* PRep.ApplyVote *)
Definition prep_apply_vote (t : vtype) (amount period br : Z) (p : prep) : prep :=
  let p1 := match t with
            | VBond => set_bonded (p_bonded p + amount) p
            | VDelegate => set_delegated (p_delegated p + amount) p
            end in
  let p2 := set_accv (p_accv p1 + amount * period) p1 in
  let power := prep_calc_power br p2 in
  if p_power p2 =? power then p2
  else set_accp (p_accp p2 + (power - p_power p2) * period) (set_power power p2).

Definition is_electable (p : prep) : bool :=
  p_pubkey p && ((p_status p =? ES_Enable) || (p_status p =? ES_Unjail)).

Definition is_rewardable (elected : Z) (p : prep) : bool :=
  (p_status p =? ES_Enable) && (p_rank p <? elected) && (0 <? p_accp p).

(* PRep.CalculateReward (the division by totalAccumulatedPower = 0 is reported by the caller) *)
Definition prep_calculate_reward (total_reward total_ap minbond minwage : Z) (p : prep) : prep :=
  let prep_reward := big_div (total_reward * p_accp p) total_ap in
  let commission := rate_mul (p_rate p) prep_reward in
  set_rewards commission (prep_reward - commission)
              (if minbond <=? p_bonded p then minwage else p_wage p) p.

(* GetReward *)
Definition prep_reward_total (p : prep) : Z := p_comm p + p_wage p.

(* PRep.Bigger *)
Definition bigger (p p1 : prep) : bool :=
  if negb (Bool.eqb (is_electable p) (is_electable p1)) then is_electable p
  else match p_power p ?= p_power p1 with
       | Gt => true
       | Lt => false
       | Eq => match p_delegated p ?= p_delegated p1 with
               | Gt => true
               | Lt => false
               | Eq => N.ltb (p_owner p1) (p_owner p)
               end
       end.

(* sort.Slice(orderedPreps, Bigger): Bigger is a strict total order on P-Reps
   with distinct owners, so every sorting algorithm returns the same slice *)
Fixpoint insert_by (x : prep) (l : list prep) : list prep :=
  match l with
  | [] => [x]
  | y :: l' => if bigger x y then x :: l else y :: insert_by x l'
  end.
Definition sort_preps (l : list prep) : list prep := fold_right insert_by [] l.

(* ------------------------------------------------------------------ PRepInfo *)
Record pinfo := mkPinfo {
  pi_preps : amap prep;
  pi_total : Z;                 (* totalAccumulatedPower *)
  pi_rank : list addr }.

Definition pi_with_preps m pi := mkPinfo m (pi_total pi) (pi_rank pi).

Section WithGlobals.
Variable br : Z.        (* bondRequirement *)
Variable elected : Z.   (* electedPRepCount *)
Variable limit : Z.     (* offsetLimit *)

Definition term_period : Z := limit + 1.
Definition elected_n : nat := Z.to_nat elected.

(* PRepInfo.Add *)
Definition pi_add (target : addr) (status delegated bonded rate : Z) (pubkey : bool) (pi : pinfo) : pinfo :=
  pi_with_preps (aset target (prep_update_power br (new_prep target status delegated bonded rate pubkey)) (pi_preps pi)) pi.

(* PRepInfo.SetStatus *)
Definition pi_set_status (target : addr) (status : Z) (pi : pinfo) : pinfo :=
  match aget target (pi_preps pi) with
  | Some p => pi_with_preps (aset target (set_status status p) (pi_preps pi)) pi
  | None => pi_add target status 0 0 0 false pi
  end.

Fixpoint set_ranks (idx : Z) (ordered : list prep) (m : amap prep) : amap prep :=
  match ordered with
  | [] => m
  | p :: rest => set_ranks (idx + 1) rest (update_key (p_owner p) (set_rank idx) m)
  end.

(* PRepInfo.Sort *)
Definition pi_sort (pi : pinfo) : pinfo :=
  let ordered := sort_preps (map snd (pi_preps pi)) in
  mkPinfo (set_ranks 0 ordered (pi_preps pi)) (pi_total pi) (map p_owner ordered).

Definition elected_keys (pi : pinfo) : list addr := firstn elected_n (pi_rank pi).

(* PRepInfo.InitAccumulated *)
Definition pi_init_accumulated (pi : pinfo) : pinfo :=
  pi_with_preps (fold_left (fun m k => update_key k (prep_init_accumulated term_period) m)
                           (elected_keys pi) (pi_preps pi)) pi.

(* PRepInfo.ApplyVote: one vote of the list *)
Definition pi_apply_one (t : vtype) (offset : Z) (pi : pinfo) (v : addr * Z) : pinfo :=
  let '(to, amount) := v in
  let pi1 := match aget to (pi_preps pi) with
             | Some _ => pi
             | None => pi_add to ES_DisablePermanent 0 0 0 false pi
             end in
  pi_with_preps (update_key to (prep_apply_vote t amount (limit - offset) br) (pi_preps pi1)) pi1.

Definition pi_apply_vote (t : vtype) (vs : votes) (offset : Z) (pi : pinfo) : pinfo :=
  fold_left (pi_apply_one t offset) vs pi.

(* iiss4Reward.processEvents, one event (the calculator's side) *)
Definition process_event (pi : pinfo) (oe : Z * event) : pinfo :=
  match oe with
  | (_, EEnable target status) => pi_set_status target status pi
  | (offset, EVote t _ vs) => pi_apply_vote t vs offset pi
  end.

Definition accp_of (m : amap prep) (k : addr) : Z :=
  match aget k m with Some p => p_accp p | None => 0 end.

(* PRepInfo.UpdateTotalAccumulatedPower *)
Definition pi_update_total (pi : pinfo) : pinfo :=
  mkPinfo (pi_preps pi) (sumZ (accp_of (pi_preps pi)) (elected_keys pi)) (pi_rank pi).

Definition rewardable_key (m : amap prep) (k : addr) : bool :=
  match aget k m with Some p => is_rewardable elected p | None => false end.

(* PRepInfo.CalculateReward (electedPRepCount <> 0) *)
Definition pi_calculate_reward (total_reward total_minwage minbond : Z) (pi : pinfo) : pinfo :=
  let t_reward := fund_to_period_iscore total_reward term_period in
  let min_wage := fund_to_period_iscore total_minwage term_period in
  let per_prep := big_div min_wage elected in
  pi_with_preps
    (fold_left (fun m k =>
                  if rewardable_key m k
                  then update_key k (prep_calculate_reward t_reward (pi_total pi) minbond per_prep) m
                  else m)
               (elected_keys pi) (pi_preps pi)) pi.

(* does PRepInfo.CalculateReward divide by a zero totalAccumulatedPower? *)
Definition pi_reward_panics (pi : pinfo) : bool :=
  existsb (rewardable_key (pi_preps pi)) (elected_keys pi) && (pi_total pi =? 0).

(* ------------------------------------------------------------------ Voter *)
(* Voter.applyVoting over a list: ApplyVoting (period = term period) and ApplyEvent *)
Definition voter_apply (period : Z) (m : amap Z) (v : addr * Z) : amap Z :=
  let '(to, amount) := v in
  match aget to m with
  | Some x => aset to (x + amount * period) m
  | None => aset to (amount * period) m
  end.

Definition voter_apply_voting (vs : votes) (period : Z) (m : amap Z) : amap Z :=
  fold_left (voter_apply period) vs m.

(* Voter.CalculateReward: (I-Score, divides by a zero accumulatedVoted?) *)
Definition voter_share (preps : amap prep) (kv : addr * Z) : Z :=
  let '(k, av) := kv in
  match aget k preps with
  | Some p => if is_rewardable elected p then big_div (av * p_vr p) (p_accv p) else 0
  | None => 0
  end.

Definition voter_share_panics (preps : amap prep) (kv : addr * Z) : bool :=
  match aget (fst kv) preps with
  | Some p => is_rewardable elected p && (p_accv p =? 0)
  | None => false
  end.

Definition voter_calculate_reward (preps : amap prep) (acc : amap Z) : Z :=
  sumZ (voter_share preps) acc.

End WithGlobals.

(* ------------------------------------------------------------------ VoteEvents *)
Definition lookup_votes (v : addr) (l : list (addr * votes)) : votes :=
  match aget v l with Some vs => vs | None => [] end.

(* the vote events of one voter, in order: VoteEvents.events[from] *)
Fixpoint events_of (v : addr) (evs : list (Z * event)) : list (Z * vtype * votes) :=
  match evs with
  | [] => []
  | (o, EVote t from vs) :: rest =>
      if N.eqb from v then (o, t, vs) :: events_of v rest else events_of v rest
  | _ :: rest => events_of v rest
  end.

Fixpoint event_froms (evs : list (Z * event)) : list addr :=
  match evs with
  | [] => []
  | (_, EVote _ from _) :: rest => from :: event_froms rest
  | _ :: rest => event_froms rest
  end.

(* Delegating.ApplyVotes / Bonding.ApplyVotes as far as failure is concerned:
   a vote total may not become negative.  (The Go code looks every target up in
   the list as it was before this call; with distinct targets in one vote list
   -- the lists come from a map, see deltaToVotes -- that is the same.) *)
Fixpoint apply_votes (m : amap Z) (vs : votes) : option (amap Z) :=
  match vs with
  | [] => Some m
  | (to, amount) :: rest =>
      let value := getz to m + amount in
      if value <? 0 then None else apply_votes (aset to value m) rest
  end.

(* VoteEvents.UpdateVoting for one voter: None = error *)
Fixpoint update_voting_one (d b : amap Z) (evs : list (Z * vtype * votes)) : option (amap Z * amap Z) :=
  match evs with
  | [] => Some (d, b)
  | (_, VBond, vs) :: rest =>
      match apply_votes b vs with Some b' => update_voting_one d b' rest | None => None end
  | (_, VDelegate, vs) :: rest =>
      match apply_votes d vs with Some d' => update_voting_one d' b rest | None => None end
  end.

Definition update_voting_ok (i : input) : bool :=
  forallb (fun v => match update_voting_one (lookup_votes v (i_delegating i)) (lookup_votes v (i_bonding i))
                                            (events_of v (i_events i)) with
                    | Some _ => true | None => false end)
          (dedup (event_froms (i_events i))).

(* ------------------------------------------------------------------ iiss4Reward *)
Definition nonempty {A} (l : list A) : bool := match l with [] => false | _ => true end.

(* the voters in the order of the three loops of processVoterReward *)
Definition voters1 (i : input) : list addr :=
  map fst (filter (fun e => nonempty (snd e)) (i_delegating i)).
Definition voters2 (i : input) : list addr :=
  filter (fun v => negb (memb v (voters1 i))) (map fst (filter (fun e => nonempty (snd e)) (i_bonding i))).
Definition voters3 (i : input) : list addr :=
  filter (fun v => negb (memb v (voters1 i ++ voters2 i))) (dedup (event_froms (i_events i))).
Definition voters (i : input) : list addr := voters1 i ++ voters2 i ++ voters3 i.

(* the Voter object built for one address: ApplyVoting(delegating), ApplyVoting(bonding), ApplyEvent* *)
Definition voter_acc (i : input) (v : addr) : amap Z :=
  let period := term_period (i_limit i) in
  let m1 := voter_apply_voting (lookup_votes v (i_bonding i)) period
              (voter_apply_voting (lookup_votes v (i_delegating i)) period []) in
  fold_left (fun m e => let '(o, _, vs) := e in voter_apply_voting vs (i_limit i - o) m)
            (events_of v (i_events i)) m1.

(* loadPRepInfo *)
Definition load_prep_info (i : input) : pinfo :=
  let pi0 := fold_left (fun pi v => pi_add (i_br i) (v_addr v) (v_status v) (v_delegated v) (v_bonded v) (v_rate v) (v_pubkey v) pi)
                       (i_voted i) (mkPinfo [] 0 []) in
  pi_init_accumulated (i_elected i) (i_limit i) (pi_sort pi0).

(* processEvents up to UpdateTotalAccumulatedPower *)
Definition events_applied (i : input) : pinfo :=
  pi_update_total (i_elected i)
    (fold_left (process_event (i_br i) (i_limit i)) (i_events i) (load_prep_info i)).

Definition iprep_amount (i : input) : Z := rate_mul (i_rprep i) (i_iglobal i).
Definition iwage_amount (i : input) : Z := rate_mul (i_rwage i) (i_iglobal i).

(* the term's budgets in I-Score *)
Definition budget_prep (i : input) : Z := fund_to_period_iscore (iprep_amount i) (term_period (i_limit i)).
Definition budget_wage (i : input) : Z := fund_to_period_iscore (iwage_amount i) (term_period (i_limit i)).

(* PRepInfo after processPrepReward *)
Definition rewards_calculated (i : input) : pinfo :=
  pi_calculate_reward (i_elected i) (i_limit i) (iprep_amount i) (iwage_amount i) (i_minbond i) (events_applied i).

Record obs := mkObsM {
  m_info : pinfo;                       (* PRepInfo at the end *)
  m_prep_credits : list (addr * Z);     (* UpdateIScore(owner, GetReward, RTPRep) *)
  m_voter_credits : list (addr * Z) }.  (* UpdateIScore(owner, iscore, RTVoter) *)

Inductive result := RErr | RPanic | ROk (o : obs).

Definition prep_credits (pi : pinfo) : list (addr * Z) :=
  map (fun kp => (fst kp, prep_reward_total (snd kp))) (pi_preps pi).

Definition voter_credits (i : input) (pi : pinfo) : list (addr * Z) :=
  map (fun v => (v, voter_calculate_reward (i_elected i) (pi_preps pi) (voter_acc i v))) (voters i).

Definition voters_panic (i : input) (pi : pinfo) : bool :=
  existsb (fun v => existsb (voter_share_panics (i_elected i) (pi_preps pi)) (voter_acc i v)) (voters i).

(* iiss4Reward.Calculate *)
Definition calculate (i : input) : result :=
  let pi1 := events_applied i in
  if negb (update_voting_ok i) then RErr
  else if i_elected i =? 0 then ROk (mkObsM pi1 [] [])
  else if pi_reward_panics (i_elected i) pi1 then RPanic
  else
    let pi2 := rewards_calculated i in
    if voters_panic i pi2 then RPanic
    else ROk (mkObsM pi2 (prep_credits pi2) (voter_credits i pi2)).

(* ------------------------------------------------------------------ well-formed terms *)
(* What the rest of the platform guarantees about the calculator's input:
   rates are rates, amounts are not negative, events are keyed by offsets
   within the term, no address appears twice in a table or in a vote list,
   stored vote lists are non-empty with positive amounts, and the votes
   recorded for an address (its Voted entry; none = zero) are the sum of what
   the voters hold for it.
   (That running vote totals do not go negative is checked by the calculation
   itself: [update_voting_ok].) *)
Definition rate_ok (r : Z) : bool := (0 <=? r) && (r <=? denom_in_rate).

Definition voted_ok (v : votedrec) : bool :=
  rate_ok (v_rate v) && (0 <=? v_delegated v) && (0 <=? v_bonded v).

Definition votes_ok (vs : votes) : bool :=
  nonempty vs && nodupb (map fst vs) && forallb (fun v => 0 <? snd v) vs.

Definition voting_ok (l : list (addr * votes)) : bool :=
  nodupb (map fst l) && forallb (fun e => votes_ok (snd e)) l.

Definition sum_votes_to (p : addr) (l : list (addr * votes)) : Z :=
  sumZ (fun e => getz p (snd e)) l.

(* the votes recorded for an address: its Voted entry, or nothing (an empty Voted is not stored) *)
Definition voted_amounts (i : input) (q : addr) : Z * Z :=
  match find (fun v => N.eqb (v_addr v) q) (i_voted i) with
  | Some v => (v_delegated v, v_bonded v)
  | None => (0, 0)
  end.

Definition targets (l : list (addr * votes)) : list addr := flat_map (fun e => map fst (snd e)) l.

Definition cons_at (i : input) (q : addr) : bool :=
  (sum_votes_to q (i_delegating i) =? fst (voted_amounts i q))
  && (sum_votes_to q (i_bonding i) =? snd (voted_amounts i q)).

Definition cons_ok (i : input) : bool :=
  forallb (cons_at i) (map v_addr (i_voted i) ++ targets (i_delegating i) ++ targets (i_bonding i)).

Fixpoint offsets_ok (last limit : Z) (evs : list (Z * event)) : bool :=
  match evs with
  | [] => true
  | (o, _) :: rest => (last <=? o) && (o <=? limit) && offsets_ok o limit rest
  end.

Definition event_ok (oe : Z * event) : bool :=
  match snd oe with
  | EEnable _ _ => true
  | EVote _ _ vs => nodupb (map fst vs)
  end.

Definition wf_inputb (i : input) : bool :=
  rate_ok (i_rprep i) && rate_ok (i_rwage i) && rate_ok (i_br i)
  && (0 <=? i_limit i) && (0 <=? i_elected i) && (0 <=? i_iglobal i) && (0 <=? i_minbond i)
  && nodupb (map v_addr (i_voted i)) && forallb voted_ok (i_voted i)
  && voting_ok (i_delegating i) && voting_ok (i_bonding i)
  && cons_ok i
  && offsets_ok 0 (i_limit i) (i_events i) && forallb event_ok (i_events i).
