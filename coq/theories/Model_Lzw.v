(* Model_Lzw.v — common/compress.go over common/lzw (a fork of Go's compress/lzw
   that sends no leading clear code): MSB-first packing, litWidth 8.

   The model is written from the algorithm's definition, in two levels:
   code level  — the encoder keeps a dictionary (previous code, next byte) -> code,
                 the decoder a dictionary code -> byte string; both share the
                 counters hi / width / overflow of the Go Writer and Reader;
                 when hi reaches 4095 the encoder sends a clear code and both
                 start over; the decoder handles the code that is not yet in
                 its table (KwKwK);
   bit level   — each code is written with the current width, most significant
                 bit first; the last byte is padded with zero bits.
   No proofs here. *)
From Coq Require Import FMapPositive.
From Goloop Require Import lib.Bytes.
Open Scope N_scope.

Definition clear_code : N := 256.     (* 1 << litWidth *)
Definition eof_code : N := 257.       (* clear + 1 *)
Definition max_code : N := 4095.      (* 1<<12 - 1 *)
Definition max_width : N := 12.

(* hi: the code implied by the next emission / the highest code the reader knows;
   width: current code width; overflow: the code at which hi overflows the width *)
Record sched := { s_hi : N; s_width : N; s_overflow : N }.

(* Writer.init / Reader.init / what a clear code restores:
   width = 1+litWidth, hi = eof, overflow = 1 << width *)
Definition sched0 : sched := {| s_hi := 257; s_width := 9; s_overflow := 512 |}.

(* ---------------------------------------------------------------- *)
(* encoder, code level (Writer.Write + Writer.Close + incHi)        *)
(* ---------------------------------------------------------------- *)

(* incHi: hi++; if hi == overflow { width++; overflow <<= 1 };
   the flag is true when hi == maxCode: a clear code must be sent (with the
   width just computed) and everything starts over *)
Definition w_inc_hi (s : sched) : sched * bool :=
  let hi := s_hi s + 1 in
  let s1 := if hi =? s_overflow s
            then {| s_hi := hi; s_width := s_width s + 1; s_overflow := s_overflow s * 2 |}
            else {| s_hi := hi; s_width := s_width s; s_overflow := s_overflow s |} in
  (s1, hi =? max_code).

(* the dictionary: key = code<<8 | byte *)
Definition dict := PositiveMap.t N.
Definition dkey (code x : N) : positive := N.succ_pos (code * 256 + x).
Definition dict_empty : dict := PositiveMap.empty N.

(* a token is (width it is written with, code) *)
Definition token := (N * N)%type.

(* code = the code of the longest dictionary string matching the input so far *)
Fixpoint enc_loop (d : dict) (s : sched) (code : N) (p : bytes) : list token :=
  match p with
  | [] =>
      (* Close: write the saved code, incHi, write eof *)
      (s_width s, code) ::
      (let '(s1, out) := w_inc_hi s in
       if out then [(s_width s1, clear_code); (s_width sched0, eof_code)]
       else [(s_width s1, eof_code)])
  | x :: p' =>
      match PositiveMap.find (dkey code x) d with
      | Some k => enc_loop d s k p'
      | None =>
          (s_width s, code) ::
          (let '(s1, out) := w_inc_hi s in
           if out then (s_width s1, clear_code) :: enc_loop dict_empty sched0 x p'
           else enc_loop (PositiveMap.add (dkey code x) (s_hi s1) d) s1 x p')
      end
  end.

(* the first code sent is always a literal: no clear code in front *)
Definition encode (p : bytes) : list token :=
  match p with
  | [] => []
  | x :: p' => enc_loop dict_empty sched0 x p'
  end.

(* ---------------------------------------------------------------- *)
(* bit level, MSB first (writeMSB / readMSB)                        *)
(* ---------------------------------------------------------------- *)

(* the w low-order bits of c, most significant first *)
Fixpoint code_bits (w : nat) (c : N) : list bool :=
  match w with
  | O => []
  | S k => N.testbit c (N.of_nat k) :: code_bits k c
  end.

Definition stream_bits (l : list token) : list bool :=
  flat_map (fun t => code_bits (N.to_nat (fst t)) (snd t)) l.

Fixpoint bits_val (l : list bool) (acc : N) : N :=
  match l with
  | [] => acc
  | b :: r => bits_val r (2 * acc + N.b2n b)
  end.

(* eight bits per byte; the final partial byte is completed with zero bits *)
Fixpoint pack_bytes (l : list bool) : bytes :=
  match l with
  | [] => []
  | b7 :: b6 :: b5 :: b4 :: b3 :: b2 :: b1 :: b0 :: r =>
      bits_val [b7; b6; b5; b4; b3; b2; b1; b0] 0 :: pack_bytes r
  | l' => [bits_val (l' ++ repeat false (8 - length l')) 0]
  end.

Definition bits_of_bytes (bs : bytes) : list bool := flat_map (code_bits 8) bs.

(* read w bits; None when fewer are left *)
Fixpoint take_bits (w : nat) (l : list bool) (acc : N) : option (N * list bool) :=
  match w with
  | O => Some (acc, l)
  | S k => match l with
           | [] => None
           | b :: r => take_bits k r (2 * acc + N.b2n b)
           end
  end.

(* common.Compress *)
Definition compress (bs : bytes) : bytes :=
  match bs with
  | [] => []
  | _ => pack_bytes (stream_bits (encode bs))
  end.

(* ---------------------------------------------------------------- *)
(* decoder (Reader.decode)                                          *)
(* ---------------------------------------------------------------- *)

(* end of the reader's loop: last, hi = code, hi+1; if hi >= overflow: at the
   maximal width hi is taken back and `last` is forgotten (flag true),
   otherwise width++ and overflow = 1 << width *)
Definition r_advance (s : sched) : sched * bool :=
  let hi := s_hi s + 1 in
  if s_overflow s <=? hi then
    if s_width s =? max_width then (s, true)
    else ({| s_hi := hi; s_width := s_width s + 1; s_overflow := 2 ^ (s_width s + 1) |}, false)
  else ({| s_hi := hi; s_width := s_width s; s_overflow := s_overflow s |}, false).

(* the codes of a bit stream, up to and including the eof code; the flag tells
   whether the eof code was reached (false: the bits ran out first).
   fuel: the number of bits is always enough *)
Fixpoint read_codes (fuel : nat) (s : sched) (bits : list bool) : list N * bool :=
  match fuel with
  | O => ([], false)
  | S f =>
      match take_bits (N.to_nat (s_width s)) bits 0 with
      | None => ([], false)
      | Some (c, rest) =>
          if c =? eof_code then ([c], true)
          else
            let s' := if c =? clear_code then sched0 else fst (r_advance s) in
            let '(cs, t) := read_codes f s' rest in (c :: cs, t)
      end
  end.

Definition dtab := PositiveMap.t bytes.
Definition ckey (c : N) : positive := N.succ_pos c.
Definition dtab_empty : dtab := PositiveMap.empty bytes.

(* d_last: the expansion of the previous code, None = decoderInvalidCode *)
Record dstate := { d_tab : dtab; d_s : sched; d_last : option bytes }.
Definition dstate0 : dstate := {| d_tab := dtab_empty; d_s := sched0; d_last := None |}.

Inductive status := StEof | StTruncated | StInvalid.

(* the bytes a code stands for *)
Definition expand (st : dstate) (c : N) : option bytes :=
  if c <? clear_code then Some [c]
  else if c <=? s_hi (d_s st) then
    match d_last st with
    | Some lw =>
        if c =? s_hi (d_s st) then
          (* the code being defined right now: last expansion + its first byte *)
          match lw with
          | b :: _ => Some (lw ++ [b])
          | [] => None
          end
        else PositiveMap.find (ckey c) (d_tab st)
    | None => PositiveMap.find (ckey c) (d_tab st)
    end
  else None.

Fixpoint dec_loop (st : dstate) (codes : list N) : bytes * status :=
  match codes with
  | [] => ([], StTruncated)
  | c :: r =>
      if c =? clear_code then dec_loop dstate0 r
      else if c =? eof_code then ([], StEof)
      else
        match expand st c with
        | None => ([], StInvalid)
        | Some e =>
            (* hi now expands to: previous expansion + first byte of this one *)
            let tab' := match d_last st, e with
                        | Some lw, b :: _ => PositiveMap.add (ckey (s_hi (d_s st))) (lw ++ [b]) (d_tab st)
                        | _, _ => d_tab st
                        end in
            let '(s', sat) := r_advance (d_s st) in
            let st' := {| d_tab := tab'; d_s := s'; d_last := if sat then None else Some e |} in
            let '(o, z) := dec_loop st' r in (e ++ o, z)
        end
  end.

Definition decompress_raw (bs : bytes) : bytes * status :=
  match bs with
  | [] => ([], StEof)
  | _ =>
      let bits := bits_of_bytes bs in
      dec_loop dstate0 (fst (read_codes (length bits) sched0 bits))
  end.

(* strict: Some only for a stream that ends with its eof code *)
Definition decompress (bs : bytes) : option bytes :=
  match decompress_raw bs with
  | (o, StEof) => Some o
  | _ => None
  end.

(* common.Decompress: io.ReadAll's error is dropped, whatever was decoded is returned *)
Definition decompress_lenient (bs : bytes) : bytes := fst (decompress_raw bs).

(* the first code of a compressed string *)
Definition first_code (bs : bytes) : option N :=
  option_map fst (take_bits 9 (bits_of_bytes bs) 0).
