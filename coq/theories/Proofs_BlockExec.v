(* Proofs_BlockExec.v — lemmas about Model_BlockExec (property C10).
   Style: stdlib, lia. *)
From Coq Require Import List Arith Bool NArith Lia.
From Goloop Require Import Model_BlockExec.
Import ListNotations.

(* ------------------------------------------------------------------ *)
(* lists                                                                *)

Lemma upd_length {A} (l : list A) i x : length (upd l i x) = length l.
Proof. revert i; induction l as [|y l IH]; intros [|i]; cbn; auto. Qed.

Lemma nth_error_upd_eq {A} (l : list A) i x : i < length l -> nth_error (upd l i x) i = Some x.
Proof.
  revert i; induction l as [|y l IH]; intros [|i]; cbn; intros H; try lia; auto.
  apply IH; lia.
Qed.

Lemma nth_error_upd_neq {A} (l : list A) i j x : i <> j -> nth_error (upd l i x) j = nth_error l j.
Proof.
  revert i j; induction l as [|y l IH]; intros [|i] [|j] H; cbn; auto; try lia.
Qed.

Lemma nth_error_upd_inv {A} (l : list A) i x k q :
  nth_error (upd l i x) k = Some q -> (k = i /\ q = x) \/ (k <> i /\ nth_error l k = Some q).
Proof.
  intros H. destruct (Nat.eq_dec k i) as [->|Hne].
  - left. split; auto.
    assert (H0 : i < length (upd l i x)) by (apply nth_error_Some; congruence).
    rewrite upd_length in H0.
    rewrite nth_error_upd_eq in H by auto. congruence.
  - right. split; auto. rewrite nth_error_upd_neq in H by auto. exact H.
Qed.

Lemma nth_error_repeat {A} (x : A) n i : i < n -> nth_error (repeat x n) i = Some x.
Proof. revert i; induction n; intros [|i] H; cbn; try lia; auto. apply IHn; lia. Qed.

Lemma nth_error_eq_ext {A} (l1 l2 : list A) :
  (forall i, nth_error l1 i = nth_error l2 i) -> l1 = l2.
Proof.
  revert l2; induction l1 as [|x l1 IH]; intros [|y l2] H; auto.
  - specialize (H 0); discriminate.
  - specialize (H 0); discriminate.
  - pose proof (H 0) as H0; cbn in H0. inversion H0; subst. f_equal.
    apply IH. intros i. exact (H (S i)).
Qed.

(* ------------------------------------------------------------------ *)
(* the attempt loop against its declarative description                 *)

(* attempts 0..k-1 fail retryably, attempt k (k <= RetryCount) succeeds with r *)
Definition tx_succeeds (sc : nat -> outcome) (r : N) : Prop :=
  exists k, k <= RetryCount /\ (forall j, j < k -> sc j = ORetry) /\ sc k = OOk r.

(* the transaction ends with a non-retryable error, or its retries are exhausted *)
Definition tx_fails (sc : nat -> outcome) : Prop :=
  exists k, k <= RetryCount /\ (forall j, j < k -> sc j = ORetry) /\
            (sc k = OFatal \/ (sc k = ORetry /\ k = RetryCount)).

Lemma tx_loop_spec sc : forall fuel retry,
  retry <= RetryCount -> retry + fuel = S RetryCount ->
  (forall j, j < retry -> sc j = ORetry) ->
  match tx_loop sc retry fuel with
  | TxOk r => tx_succeeds sc r
  | TxFail => tx_fails sc
  | TxFuel => False
  end.
Proof.
  induction fuel as [|f IH]; intros retry Hle Hsum Hpre.
  - lia.
  - cbn [tx_loop]. destruct (sc retry) eqn:E.
    + exists retry. auto.
    + destruct (RetryCount <=? retry) eqn:L.
      * apply Nat.leb_le in L. exists retry. repeat split; auto. right. split; auto. lia.
      * apply Nat.leb_gt in L. apply IH; try lia.
        intros j Hj. destruct (Nat.eq_dec j retry) as [->|]; auto. apply Hpre. lia.
    + exists retry. auto.
Qed.

Lemma run_tx_spec sc :
  match run_tx sc with
  | TxOk r => tx_succeeds sc r
  | TxFail => tx_fails sc
  | TxFuel => False
  end.
Proof. apply tx_loop_spec; unfold RetryCount; try lia. Qed.

Lemma succeeds_not_fails sc r : tx_succeeds sc r -> tx_fails sc -> False.
Proof.
  intros (k1 & L1 & P1 & E1) (k2 & L2 & P2 & E2).
  destruct (Nat.lt_trichotomy k1 k2) as [H|[H|H]].
  - rewrite (P2 k1 H) in E1. discriminate.
  - subst. destruct E2 as [E2|[E2 _]]; congruence.
  - rewrite (P1 k2 H) in E2. destruct E2 as [E2|[_ E2]]; [discriminate|lia].
Qed.

Lemma succeeds_unique sc r1 r2 : tx_succeeds sc r1 -> tx_succeeds sc r2 -> r1 = r2.
Proof.
  intros (k1 & L1 & P1 & E1) (k2 & L2 & P2 & E2).
  destruct (Nat.lt_trichotomy k1 k2) as [H|[H|H]].
  - rewrite (P2 k1 H) in E1. discriminate.
  - subst. congruence.
  - rewrite (P1 k2 H) in E2. discriminate.
Qed.

Lemma run_tx_ok_iff sc r : run_tx sc = TxOk r <-> tx_succeeds sc r.
Proof.
  pose proof (run_tx_spec sc) as S. split; intros H.
  - rewrite H in S. exact S.
  - destruct (run_tx sc) as [r'| |].
    + f_equal. eapply succeeds_unique; eauto.
    + exfalso. eapply succeeds_not_fails; eauto.
    + contradiction.
Qed.

Lemma run_tx_fail_iff sc : run_tx sc = TxFail <-> tx_fails sc.
Proof.
  pose proof (run_tx_spec sc) as S. split; intros H.
  - rewrite H in S. exact S.
  - destruct (run_tx sc) as [r'| |]; auto.
    + exfalso. eapply succeeds_not_fails; eauto.
    + contradiction.
Qed.

Lemma succeeds_or_fails sc : (exists r, tx_succeeds sc r) \/ tx_fails sc.
Proof.
  pose proof (run_tx_spec sc) as S. destruct (run_tx sc); [left; eauto|right; auto|contradiction].
Qed.

(* ------------------------------------------------------------------ *)
(* sequential executor                                                  *)

(* the transaction at position i is executed (not replaced by a skip receipt) *)
Definition must_run (skipping : bool) (t : tx) : Prop := (skipping && tx_skippable t) = false.

Lemma seq_loop_spec skipping s : forall rest cnt buf,
  length buf = cnt + length rest ->
  match seq_loop skipping s rest cnt buf with
  | Ok rs =>
      length rs = length buf /\
      (forall i, i < cnt -> nth_error rs i = nth_error buf i) /\
      (forall j t, nth_error rest j = Some t ->
         exists r, slot_of skipping s t (cnt + j) = Some r /\ nth_error rs (cnt + j) = Some (Some r))
  | Err => exists j t, nth_error rest j = Some t /\ must_run skipping t /\ tx_fails (s (cnt + j))
  | Unfinished => False
  end.
Proof.
  induction rest as [|t rest IH]; intros cnt buf Hlen; cbn [seq_loop].
  - repeat split; auto. intros [|j] t H; discriminate.
  - cbn [length] in Hlen.
    assert (Hstep : forall x,
      slot_of skipping s t cnt = Some x ->
      match seq_loop skipping s rest (S cnt) (upd buf cnt (Some x)) with
      | Ok rs =>
          length rs = length buf /\
          (forall i, i < cnt -> nth_error rs i = nth_error buf i) /\
          (forall j t0, nth_error (t :: rest) j = Some t0 ->
             exists r, slot_of skipping s t0 (cnt + j) = Some r /\ nth_error rs (cnt + j) = Some (Some r))
      | Err => exists j t0, nth_error (t :: rest) j = Some t0 /\ must_run skipping t0 /\ tx_fails (s (cnt + j))
      | Unfinished => False
      end).
    { intros x Hx.
      specialize (IH (S cnt) (upd buf cnt (Some x))).
      rewrite upd_length in IH. specialize (IH ltac:(lia)).
      destruct (seq_loop skipping s rest (S cnt) (upd buf cnt (Some x))) as [|rs|]; auto.
      - destruct IH as (j & t0 & H1 & H2 & H3). exists (S j), t0. cbn. rewrite Nat.add_succ_r. auto.
      - destruct IH as (L & Pre & Post). split; [exact L|]. split.
        + intros i Hi. rewrite Pre by lia. apply nth_error_upd_neq. lia.
        + intros [|j] t0 Hj; cbn in Hj.
          * inversion Hj; subst t0. exists x. rewrite Nat.add_0_r. split; auto.
            rewrite Pre by lia. apply nth_error_upd_eq. lia.
          * rewrite Nat.add_succ_r. apply Post. exact Hj. }
    destruct (skipping && tx_skippable t) eqn:Sk.
    + apply Hstep. unfold slot_of. rewrite Sk. reflexivity.
    + pose proof (run_tx_spec (s cnt)) as RS.
      destruct (run_tx (s cnt)) as [r| |] eqn:R.
      * apply Hstep. unfold slot_of. rewrite Sk, R. reflexivity.
      * exists 0, t. rewrite Nat.add_0_r. repeat split; auto.
      * exact RS.
Qed.

Definition slots_match (skipping : bool) (txs : list tx) (s : script) (rs : slots) : Prop :=
  length rs = length txs /\
  forall i, i < length txs -> exists r, nth_error rs i = Some (Some r) /\ receipt_of skipping txs s i = Some r.

Lemma exec_seq_spec skipping txs s :
  match exec_seq skipping txs s with
  | Ok rs => slots_match skipping txs s rs
  | Err => exists i t, nth_error txs i = Some t /\ must_run skipping t /\ tx_fails (s i)
  | Unfinished => False
  end.
Proof.
  unfold exec_seq. pose proof (seq_loop_spec skipping s txs 0 (repeat None (length txs))) as H.
  rewrite repeat_length in H. specialize (H eq_refl).
  destruct (seq_loop skipping s txs 0 (repeat None (length txs))) as [|rs|]; auto.
  destruct H as (L & _ & Post). split; [exact L|].
  intros i Hi. destruct (nth_error txs i) as [t|] eqn:E.
  - destruct (Post i t E) as (r & H1 & H2). cbn in H1, H2. exists r. split; auto.
    unfold receipt_of. rewrite E. exact H1.
  - apply nth_error_None in E. lia.
Qed.

Lemma seq_all_or_error skipping txs s :
  exec_seq skipping txs s = Err \/
  exists rs, exec_seq skipping txs s = Ok rs /\ slots_match skipping txs s rs.
Proof.
  pose proof (exec_seq_spec skipping txs s) as H.
  destruct (exec_seq skipping txs s) as [|rs|]; [left; auto|right; eauto|contradiction].
Qed.

Lemma slot_of_must_run skipping s t i r :
  must_run skipping t -> slot_of skipping s t i = Some r -> exists x, r = RExec x /\ tx_succeeds (s i) x.
Proof.
  unfold must_run, slot_of. intros -> H.
  destruct (run_tx (s i)) as [x| |] eqn:R; try discriminate.
  inversion H; subst. exists x. split; auto. apply run_tx_ok_iff. exact R.
Qed.

Lemma seq_fatal_fails_block skipping txs s :
  (exists i t, nth_error txs i = Some t /\ must_run skipping t /\ tx_fails (s i)) ->
  exec_seq skipping txs s = Err.
Proof.
  intros (i & t & Ht & Hm & Hf).
  pose proof (exec_seq_spec skipping txs s) as H.
  destruct (exec_seq skipping txs s) as [|rs|]; auto; [|contradiction].
  exfalso. destruct H as (L & P).
  assert (Hi : i < length txs) by (apply nth_error_Some; congruence).
  destruct (P i Hi) as (r & _ & Hr). unfold receipt_of in Hr. rewrite Ht in Hr.
  destruct (slot_of_must_run _ _ _ _ _ Hm Hr) as (x & _ & Hs).
  eapply succeeds_not_fails; eauto.
Qed.

Lemma seq_err_iff skipping txs s :
  exec_seq skipping txs s = Err <->
  exists i t, nth_error txs i = Some t /\ must_run skipping t /\ tx_fails (s i).
Proof.
  split; [|apply seq_fatal_fails_block].
  intros H. pose proof (exec_seq_spec skipping txs s) as S. rewrite H in S. exact S.
Qed.

(* ------------------------------------------------------------------ *)
(* concurrent executor: the invariant of every reachable state          *)

Section Conc.
Variable n : nat.
Variable s : script.

Definition slot_good (rcts : slots) (i : nat) : Prop :=
  exists r, tx_succeeds (s i) r /\ nth_error rcts i = Some (Some (RExec r)).

Definition worker_inv (latch : option nat) (rcts : slots) (i : nat) (p : wphase) : Prop :=
  match p with
  | WRun k => k <= RetryCount /\ (forall j, j < k -> s i j = ORetry) /\ nth_error rcts i = Some None
  | WReport => tx_fails (s i) /\ nth_error rcts i = Some None
  | WCommit | WRelease | WFinished => slot_good rcts i \/ (tx_fails (s i) /\ latch <> None)
  | WCommitF | WLateReport => False   (* never entered by the current code *)
  end.

Definition disp_inv (d : dphase) (ws : list wphase) : Prop :=
  match d with
  | DCheck i => length ws = i /\ i <= n
  | DAcquire i => length ws = i /\ i < n
  | DWait j => length ws = n /\ j <= n /\
               (forall i p, i < j -> nth_error ws i = Some p -> committed p = true)
  | DReturn => length ws = n /\ (forall i p, nth_error ws i = Some p -> committed p = true)
  | DDone Err => exists j, j < n /\ tx_fails (s j)
  | DDone (Ok rs) => length rs = n /\ forall i, i < n -> slot_good rs i
  | DDone Unfinished => False
  end.

Record inv (st : cstate) : Prop := mkInv {
  inv_len : length (c_rcts st) = n;
  inv_wk : forall i p, nth_error (c_workers st) i = Some p -> worker_inv (c_latch st) (c_rcts st) i p;
  inv_unspawned : forall i, length (c_workers st) <= i -> i < n -> nth_error (c_rcts st) i = Some None;
  inv_latch : forall j, c_latch st = Some j -> j < n /\ tx_fails (s j);
  inv_wlen : length (c_workers st) <= n;
  inv_disp : disp_inv (c_disp st) (c_workers st) }.

Lemma inv_init level : inv (init level n).
Proof.
  constructor; cbn.
  - apply repeat_length.
  - intros [|i] p H; discriminate.
  - intros i _ Hi. apply nth_error_repeat. exact Hi.
  - intros j H; discriminate.
  - lia.
  - split; lia.
Qed.

Lemma worker_inv_frame latch latch' rcts rcts' j p :
  nth_error rcts' j = nth_error rcts j ->
  (latch <> None -> latch' <> None) ->
  worker_inv latch rcts j p -> worker_inv latch' rcts' j p.
Proof.
  intros Hr Hl. unfold worker_inv, slot_good. destruct p; rewrite ?Hr; auto;
    (intros [H|[H1 H2]]; [left; exact H|right; split; auto]).
Qed.

Lemma disp_inv_upd d ws i p p' :
  nth_error ws i = Some p ->
  (committed p = true -> committed p' = true) ->
  disp_inv d ws -> disp_inv d (upd ws i p').
Proof.
  intros Hi Hc. unfold disp_inv. destruct d as [k|k|k| |[|rs|]]; rewrite ?upd_length; auto.
  - intros (L & Lk & C). repeat split; auto. intros a q Ha Hq.
    apply nth_error_upd_inv in Hq as [[-> ->]|[_ Hq]]; eauto.
  - intros (L & C). split; auto. intros a q Hq.
    apply nth_error_upd_inv in Hq as [[-> ->]|[_ Hq]]; eauto.
Qed.

(* worker i moves from phase p to p' and may write its own receipt slot and the latch *)
Lemma inv_update st i p p' rcts' latch' tokens' :
  inv st -> nth_error (c_workers st) i = Some p ->
  length rcts' = n ->
  (forall j, j <> i -> nth_error rcts' j = nth_error (c_rcts st) j) ->
  (c_latch st <> None -> latch' <> None) ->
  (forall j, latch' = Some j -> j < n /\ tx_fails (s j)) ->
  worker_inv latch' rcts' i p' ->
  (committed p = true -> committed p' = true) ->
  inv (mkC (c_disp st) tokens' latch' (upd (c_workers st) i p') rcts').
Proof.
  intros I Hi Hlen Hfr Hl Hl' Hw Hc.
  assert (Hil : i < length (c_workers st)) by (apply nth_error_Some; congruence).
  constructor; cbn.
  - exact Hlen.
  - intros k q Hq. apply nth_error_upd_inv in Hq as [[-> ->]|[Hne Hq]]; auto.
    eapply worker_inv_frame; [apply Hfr; exact Hne|exact Hl|]. apply (inv_wk st I). exact Hq.
  - rewrite upd_length. intros k Hk Hkn. rewrite Hfr by lia. apply (inv_unspawned st I); auto.
  - exact Hl'.
  - rewrite upd_length. apply (inv_wlen st I).
  - eapply disp_inv_upd; eauto. apply (inv_disp st I).
Qed.

Lemma inv_set_disp st d : inv st -> disp_inv d (c_workers st) -> inv (set_disp st d).
Proof. intros I H. destruct I. constructor; cbn; auto. Qed.

Lemma step_disp_inv st st' : inv st -> step_disp current n st = Some st' -> inv st'.
Proof.
  intros I. unfold step_disp. pose proof (inv_disp st I) as D.
  destruct (c_disp st) as [i|i|j| |r] eqn:E; cbn [disp_inv] in D.
  - destruct D as (L & Li). destruct (i <? n) eqn:Lt.
    + apply Nat.ltb_lt in Lt. destruct (c_latch st) as [j|] eqn:EL; intros H; inversion H; subst st'.
      * apply inv_set_disp; auto. cbn. exists j. apply (inv_latch st I). exact EL.
      * apply inv_set_disp; auto. cbn. split; auto.
    + apply Nat.ltb_ge in Lt. intros H; inversion H; subst st'.
      apply inv_set_disp; auto. cbn. repeat split; try lia.
  - destruct D as (L & Li). destruct (c_tokens st) as [|k]; [discriminate|].
    intros H; inversion H; subst st'. destruct I as [I1 I2 I3 I4 I5 I6].
    constructor; cbn.
    + exact I1.
    + intros a p Ha. destruct (Nat.lt_ge_cases a (length (c_workers st))) as [Hlt|Hge].
      * rewrite nth_error_app1 in Ha by exact Hlt. apply I2. exact Ha.
      * rewrite nth_error_app2 in Ha by exact Hge.
        destruct (a - length (c_workers st)) as [|m] eqn:Em; cbn in Ha.
        -- inversion Ha; subst p. cbn. repeat split; try (unfold RetryCount; lia).
           apply I3; lia.
        -- destruct m; discriminate.
    + rewrite app_length. cbn. intros a Ha Han. apply I3; lia.
    + exact I4.
    + rewrite app_length. cbn. lia.
    + rewrite app_length. cbn. lia.
  - destruct D as (L & Lj & C). destruct (j <? n) eqn:Lt.
    + apply Nat.ltb_lt in Lt. destruct (nth_error (c_workers st) j) as [p|] eqn:Ep; [|discriminate].
      destruct (committed p) eqn:Cp; [|discriminate].
      intros H; inversion H; subst st'. apply inv_set_disp; auto. cbn. repeat split; try lia.
      intros a q Ha Hq. destruct (Nat.eq_dec a j) as [->|]; [congruence|]. apply (C a q); auto. lia.
    + apply Nat.ltb_ge in Lt. intros H; inversion H; subst st'.
      apply inv_set_disp; auto. cbn. split; auto. intros a q Hq. apply (C a q); auto.
      assert (a < length (c_workers st)) by (apply nth_error_Some; congruence). lia.
  - destruct D as (L & C). intros H; inversion H; subst st'. cbn.
    apply inv_set_disp; auto. destruct (c_latch st) as [j|] eqn:EL; cbn.
    + exists j. apply (inv_latch st I). exact EL.
    + split; [apply (inv_len st I)|]. intros i Hi.
      destruct (nth_error (c_workers st) i) as [p|] eqn:Ep.
      * pose proof (inv_wk st I i p Ep) as W. pose proof (C i p Ep) as Cp.
        rewrite EL in W. destruct p; cbn in Cp; try discriminate; cbn in W; try contradiction;
          (destruct W as [W|[_ W]]; [exact W|congruence]).
      * apply nth_error_None in Ep. lia.
  - discriminate.
Qed.

Lemma report_current latch i : report current latch i = match latch with None => Some i | Some j => Some j end.
Proof. reflexivity. Qed.

Lemma inv_move st i p p' tokens' :
  inv st -> nth_error (c_workers st) i = Some p ->
  worker_inv (c_latch st) (c_rcts st) i p' ->
  (committed p = true -> committed p' = true) ->
  inv (mkC (c_disp st) tokens' (c_latch st) (upd (c_workers st) i p') (c_rcts st)).
Proof.
  intros I Hi Hw Hc.
  apply (inv_update st i p p' (c_rcts st) (c_latch st) tokens'); auto.
  - apply (inv_len st I).
  - apply (inv_latch st I).
Qed.

Lemma step_worker_inv st st' i : inv st -> step_worker current s st i = Some st' -> inv st'.
Proof.
  intros I. unfold step_worker.
  destruct (nth_error (c_workers st) i) as [p|] eqn:Ep; [|discriminate].
  assert (Hil : i < length (c_workers st)) by (apply nth_error_Some; congruence).
  pose proof (inv_wlen st I) as Hwl. pose proof (inv_len st I) as Hrl.
  pose proof (inv_wk st I i p Ep) as W.
  destruct p as [retry| | | | | |]; try (cbn in W; contradiction).
  - cbn in W. destruct W as (Lr & Pre & Slot).
    change (fail_phase current) with WReport.
    destruct (s i retry) as [r| |] eqn:Eo.
    + intros H; inversion H; subst st'.
      apply (inv_update st i (WRun retry) WCommit (upd (c_rcts st) i (Some (RExec r))) (c_latch st) (c_tokens st)); auto.
      * rewrite upd_length. exact Hrl.
      * intros j Hj. apply nth_error_upd_neq. auto.
      * apply (inv_latch st I).
      * cbn. left. exists r. split; [exists retry; auto|]. apply nth_error_upd_eq. lia.
    + destruct (RetryCount <=? retry) eqn:L; intros H; inversion H; subst st'; unfold set_worker;
        apply (inv_move st i (WRun retry)); auto; cbn; try discriminate.
      * apply Nat.leb_le in L. split; auto. exists retry. repeat split; auto. right. split; auto. lia.
      * apply Nat.leb_gt in L. repeat split; auto.
        intros j Hj. destruct (Nat.eq_dec j retry) as [->|]; auto. apply Pre; lia.
    + intros H; inversion H; subst st'. unfold set_worker.
      apply (inv_move st i (WRun retry)); auto; cbn; try discriminate.
      split; auto. exists retry. auto.
  - cbn in W. destruct W as (F & Slot). intros H; inversion H; subst st'.
    rewrite report_current.
    apply (inv_update st i WReport WCommit (c_rcts st)); auto.
    + destruct (c_latch st); congruence.
    + intros j Hj. destruct (c_latch st) as [k|] eqn:EL.
      * apply (inv_latch st I). congruence.
      * inversion Hj; subst j. split; [lia|exact F].
    + cbn. right. split; auto. destruct (c_latch st); congruence.
  - intros H; inversion H; subst st'. unfold set_worker.
    apply (inv_move st i WCommit); auto.
  - intros H; inversion H; subst st'.
    apply (inv_move st i WRelease); auto.
  - discriminate.
Qed.

Lemma step_inv st st' a : inv st -> step current n s st a = Some st' -> inv st'.
Proof. destruct a; cbn; [apply step_disp_inv|apply step_worker_inv]. Qed.

Lemma run_inv sched : forall st, inv st -> inv (run current n s st sched).
Proof.
  induction sched as [|a sched IH]; intros st I; cbn; auto.
  destruct (step current n s st a) as [st'|] eqn:E; auto.
  apply IH. eapply step_inv; eauto.
Qed.

End Conc.

(* ------------------------------------------------------------------ *)
(* concurrent executor: what a completed execution returns              *)

Lemma final_inv level txs s sched : inv (length txs) s (final_state current level txs s sched).
Proof. unfold final_state. apply run_inv. apply inv_init. Qed.

Lemma slot_good_receipt txs s rs i :
  i < length txs -> slot_good s rs i ->
  exists r, nth_error rs i = Some (Some r) /\ receipt_of false txs s i = Some r.
Proof.
  intros Hi (r & Hs & Hn). exists (RExec r). split; auto.
  unfold receipt_of. destruct (nth_error txs i) as [t|] eqn:E.
  - unfold slot_of. cbn [andb]. apply run_tx_ok_iff in Hs. rewrite Hs. reflexivity.
  - apply nth_error_None in E. lia.
Qed.

(* the result of a completed concurrent execution, whatever the schedule *)
Lemma exec_conc_spec level txs s sched :
  match exec_conc level txs s sched with
  | Ok rs => slots_match false txs s rs /\ (forall i, i < length txs -> ~ tx_fails (s i))
  | Err => exists i, i < length txs /\ tx_fails (s i)
  | Unfinished => ~ complete level txs s sched
  end.
Proof.
  unfold exec_conc, exec_conc_gen, result_of, complete, is_done.
  pose proof (final_inv level txs s sched) as I. apply inv_disp in I.
  destruct (c_disp (final_state current level txs s sched)) as [i|i|j| |[|rs|]]; try discriminate;
    cbn [disp_inv] in I.
  - exact I.
  - destruct I as (L & G). split.
    + split; auto. intros i Hi. apply slot_good_receipt; auto.
    + intros i Hi F. destruct (G i Hi) as (r & Hs & _). eapply succeeds_not_fails; eauto.
  - contradiction.
Qed.

Lemma conc_all_or_error level txs s sched :
  complete level txs s sched ->
  exec_conc level txs s sched = Err \/
  exists rs, exec_conc level txs s sched = Ok rs /\ slots_match false txs s rs.
Proof.
  intros C. pose proof (exec_conc_spec level txs s sched) as H.
  destruct (exec_conc level txs s sched) as [|rs|]; [left; auto|right|contradiction].
  exists rs. split; auto. apply H.
Qed.

Lemma conc_fatal_fails_block level txs s sched :
  complete level txs s sched ->
  (exists i, i < length txs /\ tx_fails (s i)) ->
  exec_conc level txs s sched = Err.
Proof.
  intros C (i & Hi & F). pose proof (exec_conc_spec level txs s sched) as H.
  destruct (exec_conc level txs s sched) as [|rs|]; auto; [|contradiction].
  destruct H as (_ & H). exfalso. apply (H i Hi F).
Qed.

Lemma must_run_false t : must_run false t.
Proof. reflexivity. Qed.

(* a completed concurrent execution returns exactly what the sequential one returns *)
Lemma conc_equiv_seq level txs s sched :
  complete level txs s sched ->
  exec_conc level txs s sched = exec_seq false txs s.
Proof.
  intros C. pose proof (exec_conc_spec level txs s sched) as HC.
  pose proof (exec_seq_spec false txs s) as HS.
  destruct (exec_conc level txs s sched) as [|rs|]; [| |contradiction].
  - symmetry. apply seq_fatal_fails_block. destruct HC as (i & Hi & F).
    destruct (nth_error txs i) as [t|] eqn:E.
    + exists i, t. repeat split; auto.
    + apply nth_error_None in E. lia.
  - destruct HC as ((L & P) & NF).
    destruct (exec_seq false txs s) as [|rs'|]; [| |contradiction].
    + exfalso. destruct HS as (i & t & Ht & _ & F).
      apply (NF i); auto. apply nth_error_Some. congruence.
    + f_equal. destruct HS as (L' & P'). apply nth_error_eq_ext. intros i.
      destruct (Nat.lt_ge_cases i (length txs)) as [Hi|Hi].
      * destruct (P i Hi) as (r & H1 & H2). destruct (P' i Hi) as (r' & H1' & H2'). congruence.
      * assert (E1 : nth_error rs i = None) by (apply nth_error_None; lia).
        assert (E2 : nth_error rs' i = None) by (apply nth_error_None; lia). congruence.
Qed.

Definition no_tx_fails (txs : list tx) (s : script) : Prop := forall i, i < length txs -> ~ tx_fails (s i).

Lemma conc_equiv_seq_on_success level txs s sched :
  no_tx_fails txs s -> complete level txs s sched ->
  exists rs, exec_conc level txs s sched = Ok rs /\ exec_seq false txs s = Ok rs /\ slots_match false txs s rs.
Proof.
  intros NF C. pose proof (conc_equiv_seq level txs s sched C) as E.
  pose proof (exec_seq_spec false txs s) as HS. rewrite E.
  destruct (exec_seq false txs s) as [|rs|]; [|eauto|contradiction].
  exfalso. destruct HS as (i & t & Ht & _ & F). apply (NF i); auto. apply nth_error_Some. congruence.
Qed.

Lemma conc_schedule_independent level level' txs s sched sched' :
  complete level txs s sched -> complete level' txs s sched' ->
  exec_conc level txs s sched = exec_conc level' txs s sched'.
Proof. intros C C'. rewrite (conc_equiv_seq _ _ _ _ C), (conc_equiv_seq _ _ _ _ C'). reflexivity. Qed.

(* the mode switch of executeTxs *)
Definition complete_txs (skipping : bool) (level : nat) (txs : list tx) (s : script) (sched : list actor) : Prop :=
  skipping = false -> 1 < level -> complete level txs s sched.

Lemma txs_all_or_error skipping level txs s sched :
  complete_txs skipping level txs s sched ->
  exec_txs skipping level txs s sched = Err \/
  exists rs, exec_txs skipping level txs s sched = Ok rs /\ slots_match skipping txs s rs.
Proof.
  unfold exec_txs, complete_txs. intros C. destruct skipping.
  - apply seq_all_or_error.
  - destruct (1 <? level) eqn:L.
    + apply Nat.ltb_lt in L. apply conc_all_or_error. auto.
    + apply seq_all_or_error.
Qed.

Lemma txs_fatal_fails_block skipping level txs s sched :
  complete_txs skipping level txs s sched ->
  (exists i t, nth_error txs i = Some t /\ must_run skipping t /\ tx_fails (s i)) ->
  exec_txs skipping level txs s sched = Err.
Proof.
  unfold exec_txs, complete_txs. intros C F. destruct skipping.
  - apply seq_fatal_fails_block. exact F.
  - destruct (1 <? level) eqn:L.
    + apply Nat.ltb_lt in L. apply conc_fatal_fails_block; auto.
      destruct F as (i & t & Ht & _ & Hf). exists i. split; auto. apply nth_error_Some. congruence.
    + apply seq_fatal_fails_block. exact F.
Qed.

(* ------------------------------------------------------------------ *)
(* no deadlock, and every execution can be completed                    *)

Definition busy (p : wphase) : nat := match p with WFinished => 0 | _ => 1 end.
Fixpoint load (ws : list wphase) : nat :=
  match ws with [] => 0 | p :: r => busy p + load r end.

Lemma load_app ws ws' : load (ws ++ ws') = load ws + load ws'.
Proof. induction ws as [|p ws IH]; cbn [app load]; lia. Qed.

Lemma load_upd ws : forall i p p', nth_error ws i = Some p -> load (upd ws i p') + busy p = load ws + busy p'.
Proof.
  induction ws as [|q ws IH]; intros [|i] p p' H; cbn in H; try discriminate.
  - inversion H; subst. cbn [upd load]. lia.
  - specialize (IH i p p' H). cbn [upd load]. lia.
Qed.

Lemma load_pos ws : 0 < load ws -> exists i p, nth_error ws i = Some p /\ p <> WFinished.
Proof.
  induction ws as [|q ws IH]; cbn [load]; intros H; [lia|].
  destruct q; try (exists 0; eexists; split; [reflexivity|discriminate]).
  cbn in H. destruct (IH H) as (i & p & H1 & H2). exists (S i), p. auto.
Qed.

(* tokens + workers that still hold one = level *)
Definition tinv (level : nat) (st : cstate) : Prop := c_tokens st + load (c_workers st) = level.

Lemma tinv_init level n : tinv level (init level n).
Proof. unfold tinv. cbn. lia. Qed.

Lemma step_tinv v level n s st st' a : tinv level st -> step v n s st a = Some st' -> tinv level st'.
Proof.
  unfold tinv. destruct a as [|i]; cbn [step].
  - unfold step_disp. destruct (c_disp st) as [i|i|j| |r].
    + destruct (i <? n); [destruct (c_latch st)|]; intros T H; inversion H; subst st'; exact T.
    + destruct (c_tokens st) as [|k] eqn:E; [discriminate|]. intros T H; inversion H; subst st'. cbn.
      rewrite load_app. cbn. lia.
    + destruct (j <? n); [destruct (nth_error (c_workers st) j) as [p|]; [destruct (committed p)|]|];
        try discriminate; intros T H; inversion H; subst st'; exact T.
    + intros T H; inversion H; subst st'; exact T.
    + discriminate.
  - unfold step_worker. destruct (nth_error (c_workers st) i) as [p|] eqn:E; [|discriminate].
    intros T. assert (Bf : busy (fail_phase v) = 1) by (unfold fail_phase; destruct (v_report_before_commit v); reflexivity).
    destruct p as [retry| | | | | |].
    + destruct (s i retry); [| destruct (RetryCount <=? retry) |]; intros H; inversion H; subst st'; cbn [c_tokens c_workers set_worker];
        match goal with |- _ + load (upd _ _ ?q) = _ => pose proof (load_upd _ _ _ q E) end; cbn [busy] in *; lia.
    + intros H; inversion H; subst st'; cbn. pose proof (load_upd _ _ _ WCommit E). cbn in *; lia.
    + intros H; inversion H; subst st'; cbn. pose proof (load_upd _ _ _ WRelease E). cbn in *; lia.
    + intros H; inversion H; subst st'; cbn. pose proof (load_upd _ _ _ WFinished E). cbn in *; lia.
    + discriminate.
    + intros H; inversion H; subst st'; cbn. pose proof (load_upd _ _ _ WLateReport E). cbn in *; lia.
    + intros H; inversion H; subst st'; cbn. pose proof (load_upd _ _ _ WRelease E). cbn in *; lia.
Qed.

Lemma run_tinv v level n s sched : forall st, tinv level st -> tinv level (run v n s st sched).
Proof.
  induction sched as [|a sched IH]; intros st T; cbn; auto.
  destruct (step v n s st a) as [st'|] eqn:E; auto. apply IH. eapply step_tinv; eauto.
Qed.

Lemma worker_enabled v s st i p :
  nth_error (c_workers st) i = Some p -> p <> WFinished -> exists st', step_worker v s st i = Some st'.
Proof.
  intros H Hp. unfold step_worker. rewrite H. destruct p as [retry| | | | | |]; try (eexists; reflexivity).
  - destruct (s i retry); [| destruct (RetryCount <=? retry) |]; eexists; reflexivity.
  - congruence.
Qed.

(* a measure that every step decreases *)
Definition wmeasure (p : wphase) : nat :=
  match p with
  | WRun k => 4 + (S RetryCount - k)
  | WReport => 3 | WCommit => 2 | WRelease => 1 | WFinished => 0
  | WCommitF => 3 | WLateReport => 2
  end.
Definition wmax : nat := 4 + S RetryCount.
Definition dmeasure (n : nat) (d : dphase) : nat :=
  match d with
  | DCheck i => (n - i) * (wmax + 2) + n + 3
  | DAcquire i => (n - i) * (wmax + 2) + n + 2
  | DWait j => (n - j) + 2
  | DReturn => 1
  | DDone _ => 0
  end.
Fixpoint wsum (ws : list wphase) : nat :=
  match ws with [] => 0 | p :: r => wmeasure p + wsum r end.
Definition measure (n : nat) (st : cstate) : nat := dmeasure n (c_disp st) + wsum (c_workers st).

Lemma wsum_app ws ws' : wsum (ws ++ ws') = wsum ws + wsum ws'.
Proof. induction ws as [|p ws IH]; cbn [app wsum]; lia. Qed.

Lemma wsum_upd ws : forall i p p', nth_error ws i = Some p -> wsum (upd ws i p') + wmeasure p = wsum ws + wmeasure p'.
Proof.
  induction ws as [|q ws IH]; intros [|i] p p' H; cbn in H; try discriminate.
  - inversion H; subst. cbn [upd wsum]. lia.
  - specialize (IH i p p' H). cbn [upd wsum]. lia.
Qed.

Lemma step_measure n s st st' a :
  inv n s st -> step current n s st a = Some st' -> measure n st' < measure n st.
Proof.
  intros I. unfold measure. destruct a as [|i]; cbn [step].
  - unfold step_disp. pose proof (inv_disp n s st I) as D.
    destruct (c_disp st) as [i|i|j| |r]; cbn [disp_inv] in D.
    + destruct (i <? n) eqn:Lt.
      * apply Nat.ltb_lt in Lt. destruct (c_latch st); intros H; inversion H; subst; cbn; unfold wmax, RetryCount; lia.
      * apply Nat.ltb_ge in Lt. intros H; inversion H; subst; cbn. lia.
    + destruct (c_tokens st) as [|k]; [discriminate|]. intros H; inversion H; subst. cbn [c_disp c_workers].
      rewrite wsum_app. cbn. unfold wmax, RetryCount. cbn.
      destruct D as (_ & D). replace (n - i) with (S (n - S i)) by lia. lia.
    + destruct (j <? n) eqn:Lt.
      * apply Nat.ltb_lt in Lt. destruct (nth_error (c_workers st) j) as [p|]; [|discriminate].
        destruct (committed p); [|discriminate]. intros H; inversion H; subst; cbn. lia.
      * intros H; inversion H; subst; cbn. lia.
    + intros H; inversion H; subst; cbn. lia.
    + discriminate.
  - unfold step_worker. destruct (nth_error (c_workers st) i) as [p|] eqn:E; [|discriminate].
    change (fail_phase current) with WReport.
    destruct p as [retry| | | | | |].
    + destruct (s i retry).
      * intros H; inversion H; subst; cbn [c_disp c_workers].
        pose proof (wsum_upd _ _ _ WCommit E). cbn in *. lia.
      * destruct (RetryCount <=? retry) eqn:L; intros H; inversion H; subst; cbn [c_disp c_workers set_worker].
        -- pose proof (wsum_upd _ _ _ WReport E). cbn in *. lia.
        -- apply Nat.leb_gt in L. pose proof (wsum_upd _ _ _ (WRun (S retry)) E).
           unfold wmeasure, RetryCount in *. lia.
      * intros H; inversion H; subst; cbn [c_disp c_workers set_worker].
        pose proof (wsum_upd _ _ _ WReport E). cbn in *. lia.
    + intros H; inversion H; subst; cbn [c_disp c_workers].
      pose proof (wsum_upd _ _ _ WCommit E). cbn in *. lia.
    + intros H; inversion H; subst; cbn [c_disp c_workers set_worker].
      pose proof (wsum_upd _ _ _ WRelease E). cbn in *. lia.
    + intros H; inversion H; subst; cbn [c_disp c_workers].
      pose proof (wsum_upd _ _ _ WFinished E). cbn in *. lia.
    + discriminate.
    + intros H; inversion H; subst; cbn [c_disp c_workers set_worker].
      pose proof (wsum_upd _ _ _ WLateReport E). cbn in *. lia.
    + intros H; inversion H; subst; cbn [c_disp c_workers].
      pose proof (wsum_upd _ _ _ WRelease E). cbn in *. lia.
Qed.

Lemma some_step_enabled level n s st :
  1 <= level -> inv n s st -> tinv level st -> is_done st = false ->
  exists a st', step current n s st a = Some st'.
Proof.
  intros Hl I T ND. unfold is_done in ND. pose proof (inv_disp n s st I) as D.
  destruct (c_disp st) as [i|i|j| |r] eqn:E; cbn [disp_inv] in D; try discriminate.
  - exists ADisp. cbn [step]. unfold step_disp. rewrite E.
    destruct (i <? n); [destruct (c_latch st)|]; eexists; reflexivity.
  - destruct (c_tokens st) as [|k] eqn:Tk.
    + unfold tinv in T. rewrite Tk in T.
      destruct (load_pos (c_workers st)) as (w & p & Hw & Hp); [lia|].
      destruct (worker_enabled current s st w p Hw Hp) as (st' & H). exists (AWorker w), st'. exact H.
    + exists ADisp. cbn [step]. unfold step_disp. rewrite E, Tk. eexists; reflexivity.
  - destruct D as (L & Lj & C). destruct (j <? n) eqn:Lt.
    + pose proof Lt as Lt'. apply Nat.ltb_lt in Lt'. destruct (nth_error (c_workers st) j) as [p|] eqn:Ep.
      * destruct (committed p) eqn:Cp.
        -- exists ADisp. cbn [step]. unfold step_disp. rewrite E, Lt, Ep, Cp. eexists; reflexivity.
        -- assert (Hp : p <> WFinished) by (intros ->; discriminate).
           destruct (worker_enabled current s st j p Ep Hp) as (st' & H). exists (AWorker j), st'. exact H.
      * apply nth_error_None in Ep. lia.
    + exists ADisp. cbn [step]. unfold step_disp. rewrite E, Lt. eexists; reflexivity.
  - exists ADisp. cbn [step]. unfold step_disp. rewrite E. eexists; reflexivity.
Qed.

(* while executeTxsConcurrent has not returned, some goroutine can move *)
Lemma no_deadlock level txs s sched :
  1 <= level ->
  is_done (final_state current level txs s sched) = false ->
  exists a st', step current (length txs) s (final_state current level txs s sched) a = Some st'.
Proof.
  intros Hl ND. eapply some_step_enabled; eauto.
  - apply final_inv.
  - unfold final_state. apply run_tinv. apply tinv_init.
Qed.

Lemma can_finish level n s : 1 <= level -> forall m st,
  measure n st <= m -> inv n s st -> tinv level st ->
  exists sched, is_done (run current n s st sched) = true.
Proof.
  intros Hl. induction m as [|m IH]; intros st Hm I T.
  - destruct (is_done st) eqn:D; [exists []; exact D|].
    destruct (some_step_enabled level n s st Hl I T D) as (a & st' & H).
    pose proof (step_measure n s st st' a I H). lia.
  - destruct (is_done st) eqn:D; [exists []; exact D|].
    destruct (some_step_enabled level n s st Hl I T D) as (a & st' & H).
    pose proof (step_measure n s st st' a I H) as Hlt.
    destruct (IH st') as (sched & Hs).
    + lia.
    + eapply step_inv; eauto.
    + eapply step_tinv; eauto.
    + exists (a :: sched). cbn. rewrite H. exact Hs.
Qed.

Lemma run_app v n s sched1 : forall st sched2,
  run v n s st (sched1 ++ sched2) = run v n s (run v n s st sched1) sched2.
Proof.
  induction sched1 as [|a r IH]; intros st sched2; cbn; auto.
  destruct (step v n s st a); apply IH.
Qed.

(* every schedule prefix can be extended to a complete schedule *)
Lemma complete_extension level txs s sched :
  1 <= level -> exists more, complete level txs s (sched ++ more).
Proof.
  intros Hl. unfold complete, final_state.
  destruct (can_finish level (length txs) s Hl _ (run current (length txs) s (init level (length txs)) sched) (le_n _))
    as (more & H).
  - apply run_inv. apply inv_init.
  - apply run_tinv. apply tinv_init.
  - exists more. rewrite run_app. exact H.
Qed.

(* ------------------------------------------------------------------ *)
(* the code before commit b7219de, refuted                              *)

Definition prefix_both : variant :=
  {| v_report_first := false; v_return_latch := false; v_report_before_commit := true |}.
Definition prefix_report_only : variant :=
  {| v_report_first := false; v_return_latch := true; v_report_before_commit := true |}.
Definition prefix_return_only : variant :=
  {| v_report_first := true; v_return_latch := false; v_report_before_commit := true |}.

(* a block of two transactions: the first succeeds at once, the second fails fatally *)
Definition w_txs : list tx := [ {| tx_skippable := false |}; {| tx_skippable := false |} ].
Definition w_script : script := fun i _ => match i with 0 => OOk 7 | _ => OFatal end.
(* dispatch both, let both workers run to the end, then wait and return *)
Definition w_sched : list actor :=
  [ADisp; ADisp; ADisp; ADisp;
   AWorker 0; AWorker 0; AWorker 0;
   AWorker 1; AWorker 1; AWorker 1; AWorker 1;
   ADisp; ADisp; ADisp; ADisp; ADisp].

Lemma w_fails : exists i, i < length w_txs /\ tx_fails (w_script i).
Proof. exists 1. split; [cbn; lia|]. exists 0. repeat split; auto; [unfold RetryCount; lia|intros j H; lia]. Qed.

Definition dropped (v : variant) : Prop :=
  exists level txs s sched,
    (exists i, i < length txs /\ tx_fails (s i)) /\
    exec_conc_gen v level txs s sched = Ok [Some (RExec 7); None].

Lemma prefix_both_refuted : dropped prefix_both.
Proof. exists 2, w_txs, w_script, w_sched. split; [exact w_fails|]. vm_compute. reflexivity. Qed.

Lemma prefix_report_only_refuted : dropped prefix_report_only.
Proof. exists 2, w_txs, w_script, w_sched. split; [exact w_fails|]. vm_compute. reflexivity. Qed.

Lemma prefix_return_only_refuted : dropped prefix_return_only.
Proof. exists 2, w_txs, w_script, w_sched. split; [exact w_fails|]. vm_compute. reflexivity. Qed.

(* ------------------------------------------------------------------ *)
(* The order Report-before-Commit is essential: a worker that commits first
   and reports afterwards (everything else as in the current code) lets the
   dispatcher fall through Realize() and read an empty latch.              *)
Definition commit_before_report : variant :=
  {| v_report_first := true; v_return_latch := true; v_report_before_commit := false |}.

(* the failing worker 1 commits; the dispatcher finishes Realize and returns
   BEFORE worker 1 reaches ec.Report *)
Definition w_sched_late : list actor :=
  [ADisp; ADisp; ADisp; ADisp;
   AWorker 0; AWorker 0; AWorker 0;
   AWorker 1 (* attempt fails *); AWorker 1 (* wvs.Commit() *);
   ADisp; ADisp; ADisp; ADisp; ADisp (* return ec.Error() = nil *);
   AWorker 1 (* ec.Report, too late *); AWorker 1].

Lemma commit_before_report_refuted : dropped commit_before_report.
Proof. exists 2, w_txs, w_script, w_sched_late. split; [exact w_fails|]. vm_compute. reflexivity. Qed.

(* under the swapped order the outcome depends on the schedule: the same block
   is an error when the worker reports in time *)
Example commit_before_report_schedule_dependent :
  exec_conc_gen commit_before_report 2 w_txs w_script w_sched = Err.
Proof. vm_compute. reflexivity. Qed.

(* the current code on the late schedule: the worker reports before it commits,
   the dispatcher cannot get past Realize earlier, the block fails *)
Example current_on_late_schedule_blocked : exec_conc 2 w_txs w_script w_sched_late = Unfinished.
Proof. vm_compute. reflexivity. Qed.
Example current_on_late_schedule : exec_conc 2 w_txs w_script (w_sched_late ++ [ADisp; ADisp; ADisp]) = Err.
Proof. vm_compute. reflexivity. Qed.

(* the same block and schedule under the current code *)
Example current_on_witness : exec_conc 2 w_txs w_script w_sched = Err.
Proof. vm_compute. reflexivity. Qed.

(* ------------------------------------------------------------------ *)
(* non-vacuity                                                          *)

Example ex_complete : complete 2 w_txs w_script w_sched.
Proof. vm_compute. reflexivity. Qed.

(* a block that succeeds with a retry, three transactions on two slots *)
Definition e_txs : list tx := [ {| tx_skippable := false |}; {| tx_skippable := true |}; {| tx_skippable := false |} ].
Definition e_script : script := fun i k =>
  match i, k with
  | 1, 0 => ORetry | 1, 1 => ORetry | 1, 2 => OOk 12
  | _, _ => OOk (N.of_nat (10 * i))
  end.
Definition e_sched : list actor :=
  [ADisp; ADisp; ADisp; ADisp; ADisp; ADisp (* blocked: both slots taken *);
   AWorker 1; AWorker 0; AWorker 1; AWorker 0; AWorker 0 (* releases a slot *);
   ADisp; ADisp; AWorker 2; AWorker 1; AWorker 1; AWorker 1; AWorker 2; AWorker 2;
   ADisp; ADisp; ADisp; ADisp; ADisp].

Example ex_success_complete : complete 2 e_txs e_script e_sched.
Proof. vm_compute. reflexivity. Qed.
Example ex_success_result :
  exec_conc 2 e_txs e_script e_sched = Ok [Some (RExec 0); Some (RExec 12); Some (RExec 20)].
Proof. vm_compute. reflexivity. Qed.
Example ex_no_tx_fails : no_tx_fails e_txs e_script.
Proof.
  intros i Hi F. apply run_tx_fail_iff in F.
  destruct i as [|[|[|i]]]; cbn in Hi; try lia; vm_compute in F; discriminate.
Qed.
Example ex_seq_success : exec_seq false e_txs e_script = Ok [Some (RExec 0); Some (RExec 12); Some (RExec 20)].
Proof. vm_compute. reflexivity. Qed.
Example ex_seq_skip : exec_seq true e_txs e_script = Ok [Some (RExec 0); Some RSkip; Some (RExec 20)].
Proof. vm_compute. reflexivity. Qed.
Example ex_seq_fatal : exec_seq false w_txs w_script = Err.
Proof. vm_compute. reflexivity. Qed.
Example ex_must_run_fails : exists i t, nth_error w_txs i = Some t /\ must_run false t /\ tx_fails (w_script i).
Proof.
  exists 1, {| tx_skippable := false |}. repeat split.
  exists 0. repeat split; auto; [unfold RetryCount; lia|intros j H; lia].
Qed.
(* retries exhausted: three retryable failures, a fourth attempt is never made *)
Example ex_exhausted : tx_fails (fun k => match k with 3 => OOk 1 | _ => ORetry end).
Proof. exists 2. repeat split; auto. intros j Hj. destruct j as [|[|j]]; auto; lia. Qed.
(* an incomplete schedule: the theorem hypotheses are not trivially true *)
Example ex_incomplete : ~ complete 2 w_txs w_script [ADisp; ADisp; AWorker 0].
Proof. vm_compute. discriminate. Qed.
(* a state in which the dispatcher is blocked and only a worker can move *)
Example ex_blocked_dispatcher :
  step current 3 e_script (run current 3 e_script (init 1 3) [ADisp; ADisp; ADisp]) ADisp = None.
Proof. vm_compute. reflexivity. Qed.
