(* Proofs_K_packetExtendInfoLen.v -- network packetExtendInfo.len
   Split out of Proofs_Kernels.v: this file imports ONLY the generated kernel(s)
   gen/K_packetExtendInfoLen.v, so an edit of another kernel's Go source cannot break it.
   Style: stdlib only; arithmetic closed by lia with the euclidean-division hook. *)
From Coq Require Import ZArith Bool String List Lia.
From Coq Require Import ZifyBool.
From Goloop Require Import lib.GoInt Proofs_K_tactics.
From Goloop.gen Require Import K_packetExtendInfoLen.
Import ListNotations.
Local Open Scope Z_scope.

Ltac Zify.zify_post_hook ::= Z.to_euclidean_division_equations.

(* packetExtendMaxLen = 0x03FF *)
Lemma packetExtendInfoLen_spec i : packetExtendInfoLen i = i mod 1024.
Proof.
  unfold packetExtendInfoLen. cbv zeta.
  change 1023 with (2 ^ 10 - 1). rewrite land_ones_mod by lia. reflexivity.
Qed.
