(* Model_TxChain.v — the transition layer of service/transition.go over the
   locator model: which trackers a transition creates, with which (timestamp,
   threshold), and when validation accepts.  Extends the history language of
   Model_Locator (its operations are the target of this one).  No proofs here.

     newInitTransition                        BInit
     CreateTransition + Execute (validation)  BNormal   (doExecute: ensureRecordTXIDs, validateTxs)
     PatchTransition + Execute                BPatch    (patchTransition, doExecute)
     Finalize(tr, Normal / Patch)             BFinal    (commitTXIDs)

   The point of this layer: the threshold of a group is taken from the state the
   block is executed on (`TransactionTimestampThreshold(wc, g)`: the parent's
   result state for the normal group — `timestamp_threshold` in milliseconds, 0
   meaning the default of 5 minutes — and the constant 1 minute for the patch
   group), and the SAME value bounds the id list (`NewLogger(height, ts, th)`) and
   the accepting window (`NewTimestampRange` / `NewTxTimestampRangeFor`).

   A transition record keeps the numbers of its two trackers, its block
   timestamp and the threshold setting of the state it results in.  Every
   BNormal / BPatch appends a record, accepted or not (a rejected transition
   still created and filled its trackers).  Not modelled: everything else that
   validation checks (version, network id, signature, balance: the harness
   submits transactions that pass them), execution, the node-wide
   TxTimestampChecker (read only by newInitTransition: argument of BInit). *)
From Goloop Require Import lib.Bytes Model_Locator.
Open Scope Z_scope.

Definition patch_th : Z := 60000000.        (* ConfigPatchTimestampThreshold, microseconds *)
Definition default_th : Z := 300000000.     (* ConfigTXTimestampThresholdDefault *)

(* TransactionTimestampThreshold(wc, Normal) for a state whose timestamp_threshold is ms *)
Definition th_of_state (ms : Z) : Z := if ms =? 0 then default_th else ms * 1000.

Record trec := { r_par : option nat;  (* parent transition *)
                 r_p : nat; r_n : nat; (* patch / normal tracker *)
                 r_bts : Z;            (* bi.Timestamp() *)
                 r_ms : Z }.           (* timestamp_threshold of the result state *)

Record bstate := { b_loc : state; b_trs : list trec }.   (* transitions, oldest first *)

Definition binit : bstate := {| b_loc := init; b_trs := [] |}.

Inductive bop :=
| BInit (tsc : Z)
| BNormal (par : nat) (bts : Z) (txs : list (N * Z)) (validated : bool) (newms : option Z)
| BPatch (tr : nat) (bts : Z) (ptxs : list (N * Z))
| BFinal (tr : nat) (normal patch : bool).

(* verdict of validation: 0 accepted, 1 DuplicateTx, 2 Expired, 3 Future, 4 bad reference *)
Fixpoint window_verdict (bts th : Z) (txs : list (N * Z)) : N :=
  match txs with
  | [] => 0%N
  | (_, ts) :: r => match range_check bts th ts with
                    | 0%N => window_verdict bts th r
                    | c => (c + 1)%N
                    end
  end.

(* parent.xtxIDs.NewLogger(h, ts, th) followed by Add(list, force) *)
Definition new_and_add (st : state) (p : nat) (ts th : Z) (txs : list (N * Z)) (force : bool)
  : option (state * nat * N) :=
  match tracker_new st p ts th with
  | None => None
  | Some st1 =>
      let k := length (s_trk st) in
      match tracker_add st1 k txs force with
      | None => None
      | Some (st2, _, cls) => Some (st2, k, cls)
      end
  end.

Definition push (b : bstate) (st : state) (r : trec) : bstate :=
  {| b_loc := st; b_trs := b_trs b ++ [r] |}.

Definition bstep (b : bstate) (o : bop) : bstate * N :=
  match o with
  | BInit tsc =>
      (* ptxIDs: tim.NewLogger(Patch, 0, 0), ntxIDs: tim.NewLogger(Normal, 0, 0): both with tsc.Threshold() *)
      let st1 := new_tracker (b_loc b) false 0 tsc in
      let st2 := new_tracker st1 true 0 tsc in
      let k := length (s_trk (b_loc b)) in
      (push b st2 {| r_par := None; r_p := k; r_n := S k; r_bts := 0; r_ms := 0 |}, 0%N)
  | BNormal par bts txs validated newms =>
      match nth_error (b_trs b) par with
      | None => (b, 4%N)
      | Some rp =>
          let nth := th_of_state (r_ms rp) in
          (* ensureRecordTXIDsInLock: the patch logger first (no pbi: the block's own time), empty list *)
          match new_and_add (b_loc b) (r_p rp) bts patch_th [] validated with
          | None => (b, 4%N)
          | Some (st1, pk, _) =>
              match new_and_add st1 (r_n rp) bts nth txs validated with
              | None => (b, 4%N)
              | Some (st2, nk, cls) =>
                  let v := if negb (cls =? 0)%N then 1%N
                           else if validated then 0%N
                           else window_verdict bts nth txs in
                  let ms := match v, newms with 0%N, Some m => m | _, _ => r_ms rp end in
                  (push b st2 {| r_par := Some par; r_p := pk; r_n := nk; r_bts := bts; r_ms := ms |}, v)
              end
          end
      end
  | BPatch tr bts ptxs =>
      match nth_error (b_trs b) tr with
      | None => (b, 4%N)
      | Some rt =>
          match r_par rt with
          | None => (b, 4%N)
          | Some par =>
              match nth_error (b_trs b) par with
              | None => (b, 4%N)
              | Some rp =>
                  (* patchTransition: an empty patch list has no pbi *)
                  let pts := match ptxs with [] => r_bts rt | _ => bts end in
                  match new_and_add (b_loc b) (r_p rp) pts patch_th ptxs false with
                  | None => (b, 4%N)
                  | Some (st1, pk, cls) =>
                      let v := if negb (cls =? 0)%N then 1%N
                               else match ptxs with
                                    | [] => 0%N
                                    | _ => window_verdict bts patch_th ptxs
                                    end in
                      (push b st1 {| r_par := Some par; r_p := pk; r_n := r_n rt;
                                     r_bts := r_bts rt; r_ms := r_ms rt |}, v)
                  end
              end
          end
      end
  | BFinal tr fn fp =>
      match nth_error (b_trs b) tr with
      | None => (b, 4%N)
      | Some rt =>
          (* manager.Finalize: the normal list first, then the patch list *)
          let c1 := if fn then tracker_commit (b_loc b) (r_n rt) else Some (b_loc b) in
          match c1 with
          | None => (b, 4%N)
          | Some st1 =>
              match (if fp then tracker_commit st1 (r_p rt) else Some st1) with
              | None => (b, 4%N)
              | Some st2 => ({| b_loc := st2; b_trs := b_trs b |}, 0%N)
              end
          end
      end
  end.
