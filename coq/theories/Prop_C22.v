(* Property C22 — transaction and receipt lists preserve order and index.
   Only theorem statements; proofs are in Proofs_TxList.v (on top of the C17
   trie lemmas).  The index key is the codec (RLP) encoding of the index as an
   unsigned integer: intconv.Uint64ToBytes pads with a zero byte when the top bit
   is set, so every length class is a fixed-width big-endian number and the
   classes are ordered by their RLP header byte: the key is strictly monotone
   in byte order across 127/128, 255/256, 32767/32768 and every other boundary.
   Indices range over Go's uint (< 2^64); items are non-empty byte strings
   (serialised transactions / receipts). *)
From Goloop Require Import lib.Bytes Model_RlpBytes Model_Trie Model_TxList Proofs_TrieList Proofs_TxList.
Open Scope N_scope.

Theorem C22_key_order : forall i j, i < j -> j < 2 ^ 64 -> lex_lt (index_key i) (index_key j).
Proof. exact index_key_lt. Qed.
Print Assumptions C22_key_order.

Theorem C22_key_order_nibbles : forall i j, i < j -> j < 2 ^ 64 -> lex_lt (key_nibs i) (key_nibs j).
Proof. exact key_nibs_lt. Qed.
Print Assumptions C22_key_order_nibbles.

Theorem C22_key_injective : forall i j, i < 2 ^ 64 -> j < 2 ^ 64 -> index_key i = index_key j -> i = j.
Proof. exact index_key_injective. Qed.
Print Assumptions C22_key_injective.

(* the index the transaction iterator decodes from a key is the index it was stored under *)
Theorem C22_key_decodes : forall i, i < 2 ^ 64 -> index_of_key (index_key i) = Some i.
Proof. exact index_of_key_roundtrip. Qed.
Print Assumptions C22_key_decodes.

(* for every n: iteration returns the items in their original order, each with its
   original index, and lookup by index returns the same item *)
Theorem C22_list_roundtrip : forall xs,
  items_ok xs -> N.of_nat (length xs) <= 2 ^ 64 ->
  iterate (from_slice xs) = Some (indexed 0 xs) /\
  forall i, i < 2 ^ 64 -> get_at (from_slice xs) i = nth_error xs (N.to_nat i).
Proof. exact list_roundtrip. Qed.
Print Assumptions C22_list_roundtrip.
