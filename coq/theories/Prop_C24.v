(* Property C24 — Integer and hex encodings are minimal and invertible.
   This file holds only the property theorems; proofs are in Proofs_IntConv.v.
   Integers are unbounded Z / N; the 64-bit functions are stated on their full
   ranges (in_int64 v : -2^63 <= v < 2^63,  v < 2^64). *)
From Goloop Require Import lib.Bytes Model_IntConv Proofs_IntConv.
Open Scope N_scope.

(* ---- round trips through the byte codecs ---- *)
Theorem C24_int64_roundtrip : forall v, in_int64 v = true -> bytes_to_int64 (int64_to_bytes v) = Some v.
Proof. exact int64_roundtrip. Qed.
Print Assumptions C24_int64_roundtrip.

Theorem C24_uint64_roundtrip : forall v, v < 2 ^ 64 -> bytes_to_uint64 (uint64_to_bytes v) = Some v.
Proof. exact uint64_roundtrip. Qed.
Print Assumptions C24_uint64_roundtrip.

Theorem C24_size_roundtrip : forall v, v < 2 ^ 64 -> bytes_to_size64 (size_to_bytes v) = Some v.
Proof. exact size_roundtrip. Qed.
Print Assumptions C24_size_roundtrip.

Theorem C24_bigint_roundtrip : forall z, bigint_set_bytes (bigint_to_bytes z) = z.
Proof. exact bigint_roundtrip. Qed.
Print Assumptions C24_bigint_roundtrip.

(* ---- the encoding is the two's-complement string of the length given by the bit length ---- *)
Theorem C24_closed_form : forall z,
  bigint_to_bytes z = tc_bytes (tc_len z) z /\ tc_val (bigint_to_bytes z) = z /\
  length (bigint_to_bytes z) = tc_len z.
Proof. exact bigint_closed_form. Qed.
Print Assumptions C24_closed_form.

(* ---- minimality: no non-empty string denoting z is shorter, and the one of the same
        length is the encoding itself ---- *)
Theorem C24_minimal : forall z bs, bytes_ok bs = true -> bs <> [] -> bigint_set_bytes bs = z ->
  (length (bigint_to_bytes z) <= length bs)%nat /\
  (length bs = length (bigint_to_bytes z) -> bs = bigint_to_bytes z).
Proof. exact bigint_minimal_unique. Qed.
Print Assumptions C24_minimal.

Theorem C24_shorter_differs : forall z bs, bytes_ok bs = true -> bs <> [] ->
  (length bs < length (bigint_to_bytes z))%nat -> bigint_set_bytes bs <> z.
Proof. exact bigint_shorter_differs. Qed.
Print Assumptions C24_shorter_differs.

Theorem C24_first_byte_not_redundant : forall z b0 b1 r, bigint_to_bytes z = b0 :: b1 :: r ->
  ~ (b0 = 0 /\ b1 < 128) /\ ~ (b0 = 255 /\ 128 <= b1).
Proof. exact bigint_first_byte. Qed.
Print Assumptions C24_first_byte_not_redundant.

Theorem C24_encoding_wellformed : forall z,
  bigint_to_bytes z <> [] /\ bytes_ok (bigint_to_bytes z) = true /\ redundant (bigint_to_bytes z) = false.
Proof. exact bigint_wellformed. Qed.
Print Assumptions C24_encoding_wellformed.

(* exactly the non-empty strings without a redundant first byte are encodings *)
Theorem C24_canonical_iff : forall bs, bytes_ok bs = true ->
  bigint_to_bytes (bigint_set_bytes bs) = bs <-> bs <> [] /\ redundant bs = false.
Proof. exact bigint_canonical_iff. Qed.
Print Assumptions C24_canonical_iff.

(* ---- the fixed-width encoders agree with the big-integer encoder ---- *)
Theorem C24_int64_eq_bigint : forall v, in_int64 v = true -> int64_to_bytes v = bigint_to_bytes v.
Proof. exact int64_eq_bigint. Qed.
Print Assumptions C24_int64_eq_bigint.

Theorem C24_uint64_eq_bigint : forall v, v < 2 ^ 64 -> uint64_to_bytes v = bigint_to_bytes (Z.of_N v).
Proof. exact uint64_eq_bigint. Qed.
Print Assumptions C24_uint64_eq_bigint.

Theorem C24_size_eq_big_bytes : forall v, v <> 0 -> v < 2 ^ 64 -> size_to_bytes v = nat_bytes v.
Proof. exact size_to_bytes_nat_bytes. Qed.
Print Assumptions C24_size_eq_big_bytes.

(* ---- hex text ---- *)
Theorem C24_hex_roundtrip : forall z, parse_bigint (format_bigint z) = Some z.
Proof. exact bigint_hex_roundtrip. Qed.
Print Assumptions C24_hex_roundtrip.

Theorem C24_hex_int_roundtrip : forall v bits, 1 <= bits <= 64 -> in_intn bits v = true ->
  parse_int (format_int v) bits = Some v.
Proof. exact format_int_roundtrip. Qed.
Print Assumptions C24_hex_int_roundtrip.

Theorem C24_hex_uint_roundtrip : forall v bits, bits <= 64 -> v < 2 ^ bits ->
  parse_uint (format_uint v) bits = Some v.
Proof. exact format_uint_roundtrip. Qed.
Print Assumptions C24_hex_uint_roundtrip.

(* "-"? "0x" then at least one lower-case hex digit, whose value is |z| *)
Theorem C24_hex_shape : forall z, exists ds,
  format_bigint z = (if (z <? 0)%Z then [c_minus] else []) ++ c_0 :: c_x :: ds /\
  ds <> [] /\ forallb is_lhex ds = true /\ digits_val 16 ds 0 = Z.abs_N z.
Proof. exact format_bigint_shape. Qed.
Print Assumptions C24_hex_shape.

(* ---- accept / reject sets of the decoders ---- *)
Theorem C24_int64_decoder : forall bs, bytes_ok bs = true ->
  (bytes_to_int64 bs = None <-> (8 < length bs)%nat) /\
  (forall v, bytes_to_int64 bs = Some v -> v = bigint_set_bytes bs /\ in_int64 v = true).
Proof. exact int64_decoder. Qed.
Print Assumptions C24_int64_decoder.

Theorem C24_uint64_decoder : forall bs, bytes_ok bs = true ->
  (bytes_to_uint64 bs = None <->
     exists b r, bs = b :: r /\
       (128 <= b \/ (b = 0 /\ (8 < length r)%nat) \/ (0 < b < 128 /\ (8 < length bs)%nat))) /\
  (forall v, bytes_to_uint64 bs = Some v -> Z.of_N v = bigint_set_bytes bs /\ v < 2 ^ 64).
Proof. exact uint64_decoder. Qed.
Print Assumptions C24_uint64_decoder.

Theorem C24_size64_decoder : forall bs,
  (bytes_to_size64 bs = None <-> (8 < length bs)%nat) /\
  ((length bs <= 8)%nat -> bytes_to_size64 bs = Some (be_val bs)).
Proof. exact size64_decoder. Qed.
Print Assumptions C24_size64_decoder.

Theorem C24_bigint_decoder_total : forall bs, bytes_ok bs = true -> bigint_set_bytes bs = tc_val bs.
Proof. exact bigint_set_bytes_spec. Qed.
Print Assumptions C24_bigint_decoder_total.

(* the one deviation from strict minimality: [] also decodes to 0, whose encoding is [0] *)
Theorem C24_empty_decodes_zero :
  bigint_set_bytes [] = 0%Z /\ bytes_to_int64 [] = Some 0%Z /\ bytes_to_uint64 [] = Some 0 /\
  bytes_to_size64 [] = Some 0 /\ bigint_to_bytes 0 = [0].
Proof. exact empty_decodes_zero. Qed.
Print Assumptions C24_empty_decodes_zero.
