(* Model_TxSerialize.v — service/transaction: serialize.go, transaction_json.go,
   transaction_v3.go (calcHash, parseV3JSON, Bytes/SetBytes, ToJSON), factory.go,
   transaction.go (NewTransaction / NewTransactionFromJSON), with the text and
   byte forms of common/hexint.go, common/address.go, common/signature.go as far
   as a v3 transaction uses them.

   JSON is a tree (what encoding/json hands to the code after Unmarshal into
   interface{}: nil, string, float64, bool, []interface{}, map[string]interface{}).
   A float64 appears as the integer int64(f) the serializer prints.  Text level
   matters (white space, escapes, key order of the text, duplicate keys) are
   below the tree and belong to encoding/json (trusted base).

   External primitives are Section variables: H (SHA3-256), b64enc / b64dec
   (encoding/base64.StdEncoding).  No proofs in this file. *)
From Coq Require Import String Ascii.
From Goloop Require Import lib.Bytes Model_Address.
Open Scope N_scope.

Definition str (s : string) : bytes := map N_of_ascii (list_ascii_of_string s).

Definition is_nil {A} (l : list A) : bool := match l with [] => true | _ => false end.

(* ------------------------------------------------------------------ *)
(* JSON trees                                                           *)
(* ------------------------------------------------------------------ *)

Inductive json :=
| JNull
| JStr (s : bytes)
| JNum (z : Z)                       (* float64 f, carried as int64(f) *)
| JBool (b : bool)
| JList (l : list json)
| JObj (m : list (bytes * json)).    (* a Go map: keys are distinct *)

Definition map_opt {A B} (f : A -> option B) : list A -> option (list B) :=
  fix go (l : list A) : option (list B) :=
    match l with
    | [] => Some []
    | x :: r => match f x, go r with
                | Some y, Some t => Some (y :: t)
                | _, _ => None
                end
    end.

(* ------------------------------------------------------------------ *)
(* serialize.go                                                         *)
(* ------------------------------------------------------------------ *)

Definition c_bs := 92.  Definition c_lc := 123. Definition c_rc := 125.
Definition c_lb := 91.  Definition c_rb := 93.  Definition c_dot := 46.

(* the switch of serializeString *)
Definition is_special (c : N) : bool :=
  (c =? c_bs) || (c =? c_lc) || (c =? c_rc) || (c =? c_lb) || (c =? c_rb) || (c =? c_dot).

(* serializeString *)
Fixpoint esc (s : bytes) : bytes :=
  match s with
  | [] => []
  | c :: r => if is_special c then c_bs :: c :: esc r else c :: esc r
  end.

(* strconv.FormatInt(v, 10) *)
Fixpoint dec_loop (fuel : nat) (n : N) (acc : bytes) : bytes :=
  match fuel with
  | O => acc
  | S f => let acc' := (48 + n mod 10) :: acc in
           if n / 10 =? 0 then acc' else dec_loop f (n / 10) acc'
  end.
Definition dec_n (n : N) : bytes := dec_loop (S (N.size_nat n)) n [].
Definition dec_z (z : Z) : bytes :=
  if (z <? 0)%Z then 45 :: dec_n (Z.abs_N z) else dec_n (Z.to_N z).

(* `if buf.Len() > 0 { buf.WriteByte('.') }` *)
Definition sep (buf : bytes) : bytes := if is_nil buf then buf else buf ++ [c_dot].

(* the loop of serializeList over already serialized fragments *)
Fixpoint list_loop (frags : list bytes) (buf : bytes) : bytes :=
  match frags with
  | [] => buf
  | f :: r => list_loop r (sep buf ++ f)
  end.

(* sort.Strings: byte-wise lexicographic order *)
Fixpoint bytes_leb (a b : bytes) : bool :=
  match a, b with
  | [], _ => true
  | _ :: _, [] => false
  | x :: a', y :: b' => if x <? y then true else if y <? x then false else bytes_leb a' b'
  end.

Fixpoint kinsert {A} (k : bytes) (v : A) (l : list (bytes * A)) : list (bytes * A) :=
  match l with
  | [] => [(k, v)]
  | (k', v') :: r => if bytes_leb k k' then (k, v) :: l else (k', v') :: kinsert k v r
  end.
Fixpoint ksort {A} (l : list (bytes * A)) : list (bytes * A) :=
  match l with
  | [] => []
  | (k, v) :: r => kinsert k v (ksort r)
  end.

(* the loop of serializeDict over the sorted, filtered (key, fragment) pairs *)
Fixpoint dict_loop (kfs : list (bytes * bytes)) (buf : bytes) : bytes :=
  match kfs with
  | [] => buf
  | (k, f) :: r => dict_loop r (sep buf ++ esc k ++ [c_dot] ++ f)
  end.

Definition key_in (k : bytes) (ks : list bytes) : bool := existsb (bytes_eqb k) ks.

(* `ex != nil && ex[k]` : entries skipped before their value is looked at *)
Definition drop_keys {A} (ex : list bytes) (m : list (bytes * A)) : list (bytes * A) :=
  filter (fun kv => negb (key_in (fst kv) ex)) m.

(* serializeValue; None = *SerializeError ("unknown type": bool) *)
Fixpoint ser_value (v : json) : option bytes :=
  match v with
  | JNull => Some [c_bs; 48]
  | JStr s => Some (esc s)
  | JNum z => Some (dec_z z)
  | JBool _ => None
  | JList l =>
      match map_opt ser_value l with
      | Some frags => Some (c_lb :: list_loop frags [] ++ [c_rb])
      | None => None
      end
  | JObj m =>
      match map_opt (fun kv => match ser_value (snd kv) with
                               | Some f => Some (fst kv, f)
                               | None => None
                               end) m with
      | Some kfs => Some (c_lc :: dict_loop (ksort kfs) [] ++ [c_rc])
      | None => None
      end
  end.

(* serializeDict(d, nil, ex) *)
Definition ser_dict (ex : list bytes) (m : list (bytes * json)) : option bytes :=
  match map_opt (fun kv => match ser_value (snd kv) with
                           | Some f => Some (fst kv, f)
                           | None => None
                           end) (drop_keys ex m) with
  | Some kfs => Some (dict_loop (ksort kfs) [])
  | None => None
  end.

(* transaction_json.go: transactionSaltBytes, transactionFields[Version3].exclusion *)
Definition salt : bytes := str "icx_sendTransaction.".
Definition v3_excluded : list bytes := [str "signature"; str "txHash"].

(* the bytes calcHashOfTransactionJSMap(data, 3) hashes *)
Definition pre_map (m : list (bytes * json)) : option bytes :=
  match ser_dict v3_excluded m with
  | Some b => Some (salt ++ b)
  | None => None
  end.

(* ------------------------------------------------------------------ *)
(* canonical texts: intconv.FormatBigInt / FormatInt / FormatUint        *)
(* ------------------------------------------------------------------ *)

Fixpoint hex_loop (fuel : nat) (n : N) (acc : bytes) : bytes :=
  match fuel with
  | O => acc
  | S f => let acc' := hexdigit (n mod 16) :: acc in
           if n / 16 =? 0 then acc' else hex_loop f (n / 16) acc'
  end.
(* lower case, no leading zero, "0" for 0 *)
Definition hex_n (n : N) : bytes := hex_loop (S (N.size_nat n)) n [].

Definition fmt_z (z : Z) : bytes :=
  if (z <? 0)%Z then str "-0x" ++ hex_n (Z.abs_N z) else str "0x" ++ hex_n (Z.to_N z).

(* ------------------------------------------------------------------ *)
(* transactionV3Data                                                    *)
(* ------------------------------------------------------------------ *)

(* json.RawMessage Data: nil / empty / not valid JSON / a JSON value *)
Inductive tdata := DNone | DEmpty | DBad | DTree (j : json).

(* common.Signature: nil / [V|R|S] with V (the 65 internal bytes) / [R|S] *)
Inductive tsig := SigNone | SigV (vrs : bytes) | SigRS (rs : bytes).

Record txdata := {
  t_version   : N;
  t_from      : address;
  t_to        : address;
  t_value     : option Z;
  t_stepLimit : Z;
  t_timestamp : Z;          (* int64 *)
  t_nid       : option Z;   (* int64 *)
  t_nonce     : option Z;
  t_sig       : tsig;
  t_dataType  : option bytes;
  t_data      : tdata
}.

Definition opt_part (label : bytes) (o : option bytes) : bytes :=
  match o with Some s => label ++ s | None => [] end.

(* transactionV3Data.calcHash: the bytes written to the buffer; None = error *)
Definition pre_struct (f : txdata) : option bytes :=
  let data_part :=
    match t_data f with
    | DNone => Some []
    | DEmpty => Some (str ".data.")
    | DBad => None
    | DTree j => match ser_value j with
                 | Some b => Some (str ".data." ++ b)
                 | None => None
                 end
    end in
  match data_part with
  | None => None
  | Some dp =>
      Some (str "icx_sendTransaction" ++ dp
            ++ opt_part (str ".dataType.") (t_dataType f)          (* not escaped *)
            ++ str ".from." ++ to_string (t_from f)
            ++ opt_part (str ".nid.") (option_map fmt_z (t_nid f))
            ++ opt_part (str ".nonce.") (option_map fmt_z (t_nonce f))
            ++ str ".stepLimit." ++ fmt_z (t_stepLimit f)
            ++ str ".timestamp." ++ fmt_z (t_timestamp f)
            ++ str ".to." ++ to_string (t_to f)
            ++ opt_part (str ".value.") (option_map fmt_z (t_value f))
            ++ str ".version." ++ fmt_z (Z.of_N (t_version f)))
  end.

(* ------------------------------------------------------------------ *)
(* JSON -> fields (json.Unmarshal into transactionJSON)                  *)
(*                                                                      *)
(* Modelled sub-language of field texts; everything else is `Unsup`      *)
(* (the code may accept or reject it; the model does not say):           *)
(*   integers   -?0x[0-9a-fA-F]+                                         *)
(*   addresses  any string (Address.SetString is modelled completely)     *)
(*   value/nid/nonce/dataType may be null; data is any value             *)
(*   keys       exactly the field names (no other case variants),         *)
(*              no "fee", no "tx_hash"                                   *)
(* ------------------------------------------------------------------ *)

Inductive pres (A : Type) := POk (a : A) | PErr | PUnsup.
Arguments POk {A} a. Arguments PErr {A}. Arguments PUnsup {A}.

(* hex digit, either case (encoding/hex.DecodeString, big.Int.SetString) *)
Definition hexval (c : N) : option N :=
  if (48 <=? c) && (c <=? 57) then Some (c - 48)
  else if (97 <=? c) && (c <=? 102) then Some (c - 87)
  else if (65 <=? c) && (c <=? 70) then Some (c - 55)
  else None.

Fixpoint hex_acc (s : bytes) (acc : N) : option N :=
  match s with
  | [] => Some acc
  | c :: r => match hexval c with Some d => hex_acc r (acc * 16 + d) | None => None end
  end.

(* -?0x[0-9a-fA-F]+  ->  the number; anything else: not in the sub-language *)
Definition parse_hexint (s : bytes) : option Z :=
  let body (t : bytes) : option N :=
    match t with
    | 48 :: 120 :: d :: r => hex_acc (d :: r) 0
    | _ => None
    end in
  match s with
  | 45 :: t => option_map (fun n => (- Z.of_N n)%Z) (body t)
  | _ => option_map Z.of_N (body s)
  end.

Definition int64_ok (z : Z) : bool := ((- 2 ^ 63 <=? z) && (z <? 2 ^ 63))%Z.

(* HexInt64.UnmarshalJSON on the sub-language: strconv range error = PErr *)
Definition parse_hexint64 (s : bytes) : pres Z :=
  match parse_hexint s with
  | Some z => if int64_ok z then POk z else PErr
  | None => PUnsup
  end.

Fixpoint hex_decode_any (s : bytes) : option bytes :=
  match s with
  | [] => Some []
  | h :: l :: r =>
      match hexval h, hexval l, hex_decode_any r with
      | Some x, Some y, Some t => Some (x * 16 + y :: t)
      | _, _, _ => None
      end
  | _ => None
  end.

(* Address.SetTypeAndID: left-pad short ids with zeros, keep the first 20 bytes of long ones *)
Definition set_type_and_id (c : bool) (id : bytes) : address :=
  {| a_contract := c;
     a_id := if Nat.ltb (length id) 20 then repeat 0 (20 - length id) ++ id else firstn 20 id |}.

(* Address.SetString *)
Definition addr_set_string (s : bytes) : option address :=
  let '(c, body) :=
    match s with
    | 99 :: 120 :: r => (true, r)          (* "cx" *)
    | 104 :: 120 :: r => (false, r)        (* "hx" *)
    | 48 :: 120 :: r => (false, r)         (* "0x" *)
    | _ => (false, s)
    end in
  let body := if Nat.odd (length body) then 48 :: body else body in
  option_map (set_type_and_id c) (hex_decode_any body).

Definition zero_addr : address := {| a_contract := false; a_id := repeat 0 20 |}.

Fixpoint lookup {A} (k : bytes) (m : list (bytes * A)) : option A :=
  match m with
  | [] => None
  | (k', v) :: r => if bytes_eqb k k' then Some v else lookup k r
  end.

(* ASCII lower case, for the case-insensitive key match of encoding/json *)
Definition lower (c : N) : N := if (65 <=? c) && (c <=? 90) then c + 32 else c.
Definition field_names : list bytes :=
  [str "version"; str "from"; str "to"; str "value"; str "stepLimit"; str "timestamp";
   str "nid"; str "nonce"; str "signature"; str "dataType"; str "data";
   str "fee"; str "txHash"; str "tx_hash"].
(* a key that encoding/json would route to a struct field although it is not the exact name *)
Definition alias_key (k : bytes) : bool :=
  negb (key_in k field_names) && existsb (fun n => bytes_eqb (map lower k) (map lower n)) field_names.
Definition keys_supported (m : list (bytes * json)) : bool :=
  forallb (fun kv => negb (alias_key (fst kv))) m
  && negb (key_in (str "fee") (map fst m)) && negb (key_in (str "tx_hash") (map fst m)).

(* common.HexBytes.UnmarshalJSON (field TxHash of transactionJSON) *)
Definition txhash_field (o : option json) : pres unit :=
  match o with
  | None => POk tt
  | Some JNull => POk tt
  | Some (JStr s) =>
      let body := match s with 48 :: 120 :: r => r | _ => s end in
      match hex_decode_any body with Some _ => POk tt | None => PErr end
  | Some _ => PUnsup
  end.

(* crypto.ParseSignature on the decoded bytes: 65 = R|S|V -> internal [V+27|R|S] *)
Definition flag_to_ecdsa (v : N) : N := (v + 27) mod 256.
Definition flag_to_compat (v : N) : N := (v + 256 - 27) mod 256.

Definition parse_signature (b : bytes) : option tsig :=
  if Nat.eqb (length b) 65 then
    match skipn 64 b with
    | [v] => Some (SigV (flag_to_ecdsa v :: firstn 64 b))
    | _ => None
    end
  else if Nat.eqb (length b) 64 then Some (SigRS b)
  else None.

(* Signature.SerializeRSV *)
Definition serialize_rsv (s : tsig) : option bytes :=
  match s with
  | SigV (v :: rs) => Some (rs ++ [flag_to_compat v])
  | _ => None
  end.

Section Tx.
  Variable H : bytes -> bytes.                  (* crypto.SHA3Sum256 *)
  Variable b64enc : bytes -> bytes.             (* base64.StdEncoding.EncodeToString *)
  Variable b64dec : bytes -> option bytes.      (* base64.StdEncoding.DecodeString *)

  (* common.Signature.UnmarshalJSON *)
  Definition sig_of_json (o : option json) : pres tsig :=
    match o with
    | None => POk SigNone
    | Some (JStr []) => POk SigNone
    | Some (JStr s) =>
        match b64dec s with
        | Some b => match parse_signature b with Some g => POk g | None => PErr end
        | None => PErr
        end
    | Some _ => PUnsup
    end.

  Definition opt_int (o : option json) (p : bytes -> pres Z) : pres (option Z) :=
    match o with
    | None => POk None
    | Some JNull => POk None
    | Some (JStr s) => match p s with POk z => POk (Some z) | PErr => PErr | PUnsup => PUnsup end
    | Some _ => PUnsup
    end.

  Definition req_int (o : option json) (p : bytes -> pres Z) : pres Z :=
    match o with
    | None => POk 0%Z
    | Some (JStr s) => p s
    | Some _ => PUnsup
    end.

  Definition big (s : bytes) : pres Z :=
    match parse_hexint s with Some z => POk z | None => PUnsup end.

  Definition addr_of_json (o : option json) : pres address :=
    match o with
    | None => POk zero_addr
    | Some (JStr s) => match addr_set_string s with Some a => POk a | None => PErr end
    | Some _ => PUnsup
    end.

  Definition bind {A B} (x : pres A) (f : A -> pres B) : pres B :=
    match x with POk a => f a | PErr => PErr | PUnsup => PUnsup end.

  (* json.Unmarshal(js, &transactionJSON) restricted to transactionV3Data.
     The version is known to be "0x3" when this is called (checkV3JSON). *)
  Definition fields_of (m : list (bytes * json)) : pres txdata :=
    if negb (keys_supported m) then PUnsup else
    bind (txhash_field (lookup (str "txHash") m)) (fun _ =>
    bind (addr_of_json (lookup (str "from") m)) (fun from =>
    bind (addr_of_json (lookup (str "to") m)) (fun to =>
    bind (opt_int (lookup (str "value") m) big) (fun value =>
    bind (req_int (lookup (str "stepLimit") m) big) (fun step =>
    bind (req_int (lookup (str "timestamp") m) parse_hexint64) (fun ts =>
    bind (opt_int (lookup (str "nid") m) parse_hexint64) (fun nid =>
    bind (opt_int (lookup (str "nonce") m) big) (fun nonce =>
    bind (sig_of_json (lookup (str "signature") m)) (fun sg =>
    bind (match lookup (str "dataType") m with
          | None => POk None | Some JNull => POk None
          | Some (JStr s) => POk (Some s) | Some _ => PUnsup end) (fun dt =>
    POk {| t_version := 3; t_from := from; t_to := to; t_value := value;
           t_stepLimit := step; t_timestamp := ts; t_nid := nid; t_nonce := nonce;
           t_sig := sg; t_dataType := dt;
           t_data := match lookup (str "data") m with None => DNone | Some j => DTree j end |}
    )))))))))).

  (* ---------------------------------------------------------------- *)
  (* transactionV3 and its identity                                     *)
  (* ---------------------------------------------------------------- *)

  (* raw = false: hash over the fields, bytes = codec form;
     raw = true : hash over the JSON map, bytes = the compact JSON text (here: its tree) *)
  Inductive tx := TxStruct (f : txdata) | TxRaw (f : txdata) (m : list (bytes * json)).

  Definition fields (t : tx) : txdata := match t with TxStruct f => f | TxRaw f _ => f end.

  (* TxHash(): an error of calcHash leaves the empty id *)
  Definition id_struct (f : txdata) : bytes :=
    match pre_struct f with Some p => H p | None => [] end.
  Definition id_map (m : list (bytes * json)) : bytes :=
    match pre_map m with Some p => H p | None => [] end.
  Definition id (t : tx) : bytes :=
    match t with TxStruct f => id_struct f | TxRaw _ m => id_map m end.

  Inductive result (A : Type) := Ok (a : A) | Reject | NotV3 | Unsup.
  Arguments Ok {A} a. Arguments Reject {A}. Arguments NotV3 {A}. Arguments Unsup {A}.

  (* checkV3GenesisJSON (priority 10) and checkV3JSON (priority 20) *)
  Definition is_v3_map (m : list (bytes * json)) : bool :=
    negb (key_in (str "accounts") (map fst m))
    && match lookup (str "version") m with
       | Some (JStr s) => bytes_eqb s (str "0x3")
       | _ => false
       end
    && key_in (str "from") (map fst m).

  (* newTransactionFromJSON(js, raw) + parseV3JSON *)
  Definition from_json_gen (raw : bool) (j : json) : result tx :=
    match j with
    | JObj m =>
        if negb (is_v3_map m) then NotV3 else
        match fields_of m with
        | PUnsup => Unsup
        | PErr => Reject
        | POk f =>
            if raw then Ok (TxRaw f m) else
            match pre_map m with
            | None => Reject                              (* calcHashOfTransactionJSMap fails *)
            | Some p => if bytes_eqb (H p) (id_struct f) then Ok (TxStruct f) else Ok (TxRaw f m)
            end
        end
    | _ => Reject
    end.

  (* transaction.NewTransactionFromJSON *)
  Definition from_json (j : json) : result tx := from_json_gen false j.

  (* ---------------------------------------------------------------- *)
  (* binary form: the RLP items of transactionV3Data, one per field      *)
  (* (None = the RLP null 0xf8 0x00); RLP framing itself is C23's         *)
  (* ---------------------------------------------------------------- *)

  Record binv3 := {
    b_version : bytes; b_from : bytes; b_to : bytes; b_value : option bytes;
    b_stepLimit : bytes; b_timestamp : bytes; b_nid : option bytes; b_nonce : option bytes;
    b_sig : bytes; b_dataType : option bytes; b_data : tdata
  }.
  Inductive bin := BRlp (b : binv3) | BJson (j : json).

  (* intconv.BigIntToBytes / Int64ToBytes: shortest two's complement, [0] for 0 *)
  Fixpoint tc_len_loop (fuel : nat) (z : Z) : nat :=
    match fuel with
    | O => 1%nat
    | S f => if ((-128 <=? z) && (z <? 128))%Z then 1%nat else S (tc_len_loop f (z / 256)%Z)
    end.
  Definition tc_len (z : Z) : nat := tc_len_loop (N.size_nat (Z.abs_N z)) z.
  Definition z_to_bytes (z : Z) : bytes :=
    let k := tc_len z in be_bytes k (Z.to_N (z mod 256 ^ Z.of_nat k)%Z).

  (* intconv.BigIntSetBytes *)
  Definition z_of_bytes (bs : bytes) : Z :=
    match bs with
    | [] => 0%Z
    | b :: _ => if b <? 128 then Z.of_N (be_val bs)
                else (Z.of_N (be_val bs) - 256 ^ Z.of_nat (length bs))%Z
    end.

  (* intconv.SafeBytesToInt64 (through rlpReader.readIntValue) *)
  Definition int64_of_bytes (bs : bytes) : option Z :=
    if Nat.ltb 8 (length bs) then None else Some (z_of_bytes bs).

  (* intconv.SafeBytesToUint64 + the uint16 range check of readUintValue *)
  Definition uint16_of_bytes (bs : bytes) : option N :=
    match bs with
    | [] => Some 0
    | b :: r =>
        let body := if b =? 0 then r else bs in
        if negb (b =? 0) && (128 <=? b) then None
        else if Nat.ltb 8 (length body) then None
        else if be_val body <? 65536 then Some (be_val body) else None
    end.

  (* Signature.MarshalBinary / UnmarshalBinary *)
  Definition sig_to_bytes (s : tsig) : option bytes :=
    match s with
    | SigNone => Some []
    | _ => serialize_rsv s
    end.
  Definition sig_of_bytes (b : bytes) : option tsig :=
    if is_nil b then Some SigNone else parse_signature b.

  (* codec.MarshalToBytes(&tx.transactionV3Data); None = marshal error (Bytes() returns nil) *)
  Definition encode (f : txdata) : option binv3 :=
    match sig_to_bytes (t_sig f) with
    | None => None
    | Some sg =>
        Some {| b_version := z_to_bytes (Z.of_N (t_version f));
                b_from := to_bytes (t_from f); b_to := to_bytes (t_to f);
                b_value := option_map z_to_bytes (t_value f);
                b_stepLimit := z_to_bytes (t_stepLimit f);
                b_timestamp := z_to_bytes (t_timestamp f);
                b_nid := option_map z_to_bytes (t_nid f);
                b_nonce := option_map z_to_bytes (t_nonce f);
                b_sig := sg; b_dataType := t_dataType f; b_data := t_data f |}
    end.

  Definition opt_dec {A} (o : option bytes) (d : bytes -> option A) : option (option A) :=
    match o with
    | None => Some None
    | Some b => match d b with Some a => Some (Some a) | None => None end
    end.

  (* transactionV3.SetBytes: codec.UnmarshalFromBytes + the version test *)
  Definition decode (b : binv3) : option txdata :=
    match uint16_of_bytes (b_version b), of_bytes (b_from b), of_bytes (b_to b),
          opt_dec (b_nid b) int64_of_bytes, int64_of_bytes (b_timestamp b), sig_of_bytes (b_sig b) with
    | Some v, Some from, Some to, Some nid, Some ts, Some sg =>
        if v =? 3 then
          Some {| t_version := v; t_from := from; t_to := to;
                  t_value := option_map z_of_bytes (b_value b);
                  t_stepLimit := z_of_bytes (b_stepLimit b);
                  t_timestamp := ts; t_nid := nid;
                  t_nonce := option_map z_of_bytes (b_nonce b);
                  t_sig := sg; t_dataType := b_dataType b; t_data := b_data b |}
        else None
    | _, _, _, _, _, _ => None
    end.

  (* transactionV3.Bytes() *)
  Definition to_bin (t : tx) : option bin :=
    match t with
    | TxStruct f => option_map BRlp (encode f)
    | TxRaw _ m => Some (BJson (JObj m))
    end.

  (* transaction.NewTransaction(bytes): '{' first => newTransactionFromJSON(b, true) *)
  Definition from_bin (b : bin) : result tx :=
    match b with
    | BJson j => from_json_gen true j
    | BRlp r => match decode r with Some f => Ok (TxStruct f) | None => Reject end
    end.

  (* ---------------------------------------------------------------- *)
  (* ToJSON                                                             *)
  (* ---------------------------------------------------------------- *)

  Definition hex_bytes (b : bytes) : bytes := str "0x" ++ hex_encode b.   (* common.HexBytes *)

  Definition sig_json (s : tsig) : option json :=
    match s with
    | SigNone => Some (JStr [])
    | _ => option_map (fun b => JStr (b64enc b)) (serialize_rsv s)
    end.

  Fixpoint set_key {A} (k : bytes) (v : A) (m : list (bytes * A)) : list (bytes * A) :=
    match m with
    | [] => [(k, v)]
    | (k', v') :: r => if bytes_eqb k k' then (k, v) :: r else (k', v') :: set_key k v r
    end.

  Definition opt_entry (k : bytes) (o : option json) : list (bytes * json) :=
    match o with Some j => [(k, j)] | None => [] end.

  (* the map built by transactionV3.ToJSON; None = MarshalJSON would fail
     (signature without V, or Data that is not a JSON value) *)
  Definition to_json (t : tx) : option json :=
    match t with
    | TxRaw _ m => Some (JObj (set_key (str "txHash") (JStr (hex_bytes (id t))) m))
    | TxStruct f =>
        match sig_json (t_sig f), t_data f with
        | None, _ | _, DEmpty | _, DBad => None
        | Some sg, d =>
            Some (JObj (
              [(str "version", JStr (fmt_z (Z.of_N (t_version f))));
               (str "from", JStr (to_string (t_from f)));
               (str "to", JStr (to_string (t_to f)));
               (str "stepLimit", JStr (fmt_z (t_stepLimit f)));
               (str "timestamp", JStr (fmt_z (t_timestamp f)));
               (str "signature", sg)]
              ++ opt_entry (str "value") (option_map (fun z => JStr (fmt_z z)) (t_value f))
              ++ opt_entry (str "nid") (option_map (fun z => JStr (fmt_z z)) (t_nid f))
              ++ opt_entry (str "nonce") (option_map (fun z => JStr (fmt_z z)) (t_nonce f))
              ++ opt_entry (str "dataType") (option_map JStr (t_dataType f))
              ++ opt_entry (str "data") (match d with DTree j => Some j | _ => None end)
              ++ [(str "txHash", JStr (hex_bytes (id t)))]))
        end
    end.

End Tx.

Arguments Ok {A} a. Arguments Reject {A}. Arguments NotV3 {A}. Arguments Unsup {A}.
