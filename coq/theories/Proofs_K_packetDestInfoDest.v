(* Proofs_K_packetDestInfoDest.v -- network packetDestInfo.dest
   Split out of Proofs_Kernels.v: this file imports ONLY the generated kernel(s)
   gen/K_packetDestInfoDest.v, so an edit of another kernel's Go source cannot break it.
   Style: stdlib only; arithmetic closed by lia with the euclidean-division hook. *)
From Coq Require Import ZArith Bool String List Lia.
From Coq Require Import ZifyBool.
From Goloop Require Import lib.GoInt Proofs_K_tactics.
From Goloop.gen Require Import K_packetDestInfoDest.
Import ListNotations.
Local Open Scope Z_scope.

Ltac Zify.zify_post_hook ::= Z.to_euclidean_division_equations.

Lemma packetDestInfoDest_spec i :
  0 <= i <= max_u16 -> packetDestInfoDest i = i / 256.
Proof.
  intros Hi. unfold packetDestInfoDest. rewrite shiftr_div by lia. change (2 ^ 8) with 256.
  apply wrap_u8_small. lia.
Qed.
