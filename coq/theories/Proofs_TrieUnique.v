(* Proofs_TrieUnique.v — the normal form is unique: two well-formed tries with the
   same content are the same tree (hence the same serialisation and root hash,
   whatever the hash function is). *)
From Goloop Require Import lib.Bytes Model_RlpBytes Model_Trie Proofs_Trie Proofs_TrieMap Proofs_TrieWf.
From Coq Require Import ZifyBool ZifyN ZifyNat.
Open Scope N_scope.

(* the residual trie after consuming nibble i *)
Definition sub (n : node) (i : N) : node :=
  match n with
  | Empty => Empty
  | Leaf [] _ => Empty
  | Leaf (x :: ks) v => if x =? i then Leaf ks v else Empty
  | Ext [] _ => Empty
  | Ext (x :: ks) n' => if x =? i then oldx ks n' else Empty
  | Branch cs _ => child cs i
  end.

Lemma get_sub n i r : wf_node n -> get (sub n i) r = get n (i :: r).
Proof.
  intros W. destruct n as [ | ks v | ks n' | cs bv]; cbn [sub].
  - destruct W.
  - destruct ks as [|x ks]; [reflexivity|]. rewrite (get_leaf (x :: ks)), eqb_cons, (N.eqb_sym i x).
    destruct (x =? i); [rewrite get_leaf; reflexivity|reflexivity].
  - cbn in W. destruct W as (Hne & _). destruct ks as [|x ks]; [congruence|].
    rewrite (get_ext (x :: ks)). cbn [strip]. destruct (x =? i); [|reflexivity].
    now rewrite get_oldx, get_ext.
  - now rewrite get_branch.
Qed.

Lemma wf_sub n i : wf_node n -> wfe (sub n i).
Proof.
  intros W. destruct n as [ | ks v | ks n' | cs bv]; cbn [sub].
  - now left.
  - destruct ks as [|x ks]; [now left|]. destruct (x =? i); [|now left].
    cbn in W. destruct W as [Hk Hv]. apply nibs_ok_cons in Hk as [_ Hk]. right. now apply wf_leaf.
  - destruct ks as [|x ks]; [now left|]. destruct (x =? i); [|now left].
    cbn in W. destruct W as (_ & Hk & Hb & Wn). apply nibs_ok_cons in Hk as [_ Hk].
    right. now apply wf_oldx.
  - apply wf_branch_iff in W as (_ & _ & _ & Wc). now apply wfe_child.
Qed.

(* ---------- counting children ---------- *)

Lemma count_zero cs : (forall j, child cs j = Empty) -> count_children cs = 0%nat.
Proof.
  induction cs as [|c t IH]; intros H; cbn; [reflexivity|].
  pose proof (H 0) as H0. cbn in H0. subst c. cbn. apply IH.
  intros j. specialize (H (j + 1)). rewrite child_cons in H.
  replace (j + 1 =? 0) with false in H by lia. now replace (j + 1 - 1) with j in H by lia.
Qed.

Lemma count_le1 cs : forall x, (forall j, j <> x -> child cs j = Empty) -> (count_children cs <= 1)%nat.
Proof.
  induction cs as [|c t IH]; intros x H; cbn; [lia|].
  destruct (x =? 0) eqn:E.
  - apply N.eqb_eq in E. subst x. rewrite (count_zero t).
    + destruct (is_empty c); lia.
    + intros j. specialize (H (j + 1)). rewrite child_cons in H.
      replace (j + 1 =? 0) with false in H by lia. replace (j + 1 - 1) with j in H by lia.
      apply H. lia.
  - apply N.eqb_neq in E. pose proof (H 0) as H0. cbn in H0. rewrite H0 by lia. cbn.
    apply (IH (x - 1)). intros j Hj. specialize (H (j + 1)). rewrite child_cons in H.
    replace (j + 1 =? 0) with false in H by lia. replace (j + 1 - 1) with j in H by lia.
    apply H. lia.
Qed.

Lemma count_pos_exists cs :
  (1 <= count_children cs)%nat -> exists i, (N.to_nat i < length cs)%nat /\ is_empty (child cs i) = false.
Proof.
  induction cs as [|c t IH]; cbn; [lia|]. intros H.
  destruct (is_empty c) eqn:E.
  - destruct IH as (i & L & Hi); [lia|]. exists (i + 1). split; [lia|].
    replace (i + 1 =? 0) with false by lia. now replace (i + 1 - 1) with i by lia.
  - exists 0. split; [lia|exact E].
Qed.

Lemma scan_of_count cs :
  scan cs 0 = match count_children cs with
              | O => Some None
              | S O => scan cs 0
              | _ => None
              end.
Proof.
  pose proof (scan_spec cs 0) as [S1 S2].
  destruct (scan cs 0) as [[i|]|]; try rewrite S2; try reflexivity.
  destruct (count_children cs) as [|[|n]]; try lia. reflexivity.
Qed.

(* exactly one occupied slot *)
Lemma scan_single cs x :
  (N.to_nat x < length cs)%nat -> is_empty (child cs x) = false ->
  (forall j, j <> x -> child cs j = Empty) ->
  scan cs 0 = Some (Some x).
Proof.
  intros L Ne H. pose proof (scan_spec cs 0) as [S1 _]. pose proof (count_le1 cs x H) as C.
  destruct (scan cs 0) as [[i|]|].
  - destruct S1 as (_ & _ & Ni & _). rewrite N.sub_0_r in Ni.
    destruct (N.eq_dec i x) as [->|D]; [reflexivity|]. rewrite H in Ni by exact D. discriminate.
  - rewrite S1 in Ne. discriminate.
  - lia.
Qed.

(* ---------- the sixteen residuals determine the node ---------- *)

Definition nseq16 : list N := map N.of_nat (seq 0 16).
Definition subs (n : node) : list node := map (sub n) nseq16.

Lemma child_map16 (f : N -> node) i : i < 16 -> child (map f nseq16) i = f i.
Proof.
  intros L. rewrite child_nth. unfold nseq16. rewrite map_map.
  rewrite (nth_indep _ Empty (f (N.of_nat 0))) by (rewrite map_length, seq_length; lia).
  rewrite (map_nth (fun x => f (N.of_nat x))). rewrite seq_nth by lia. cbn [Nat.add].
  now rewrite N2Nat.id.
Qed.

Lemma child_map16_out (f : N -> node) i : 16 <= i -> child (map f nseq16) i = Empty.
Proof. intros L. apply child_out. unfold nseq16. rewrite !map_length, seq_length. lia. Qed.

Lemma subs_length n : length (subs n) = 16%nat.
Proof. reflexivity. Qed.

Lemma subs_branch cs bv : length cs = 16%nat -> subs (Branch cs bv) = cs.
Proof.
  intros L. apply (nth_ext _ _ Empty Empty); [now rewrite subs_length|].
  intros n Hn. rewrite subs_length in Hn.
  replace n with (N.to_nat (N.of_nat n)) by apply Nat2N.id.
  rewrite <- (child_nth (subs (Branch cs bv))), <- (child_nth cs).
  unfold subs. rewrite child_map16 by lia. reflexivity.
Qed.

Lemma reconstruct n : wf_node n -> n = collapse (subs n) (get n []).
Proof.
  intros W. destruct n as [ | ks v | ks n' | cs bv].
  - destruct W.
  - cbn in W. destruct W as [Hk Hv]. destruct ks as [|x ks].
    + unfold collapse. rewrite scan_of_count, count_zero; [reflexivity|].
      intros j. unfold subs. destruct (N.lt_ge_cases j 16); [rewrite child_map16 by assumption; reflexivity|now apply child_map16_out].
    + apply nibs_ok_cons in Hk as [Lx Hk]. unfold collapse, subs.
      rewrite (scan_single _ x).
      * rewrite child_map16 by exact Lx. cbn. now rewrite N.eqb_refl.
      * rewrite map_length. cbn. lia.
      * rewrite child_map16 by exact Lx. cbn. now rewrite N.eqb_refl.
      * intros j Hj. destruct (N.lt_ge_cases j 16); [|now apply child_map16_out].
        rewrite child_map16 by assumption. cbn. replace (x =? j) with false by lia. reflexivity.
  - cbn in W. destruct W as (Hne & Hk & Hb & Wn). destruct ks as [|x ks]; [congruence|].
    apply nibs_ok_cons in Hk as [Lx Hk]. unfold collapse, subs.
    assert (Eo : is_empty (oldx ks n') = false).
    { apply wf_node_nonempty. now apply wf_oldx. }
    rewrite (scan_single _ x).
    + rewrite child_map16 by exact Lx. rewrite (get_ext (x :: ks)). cbn [strip sub].
      rewrite N.eqb_refl. destruct ks; cbn [oldx prepend].
      * destruct n'; try discriminate. reflexivity.
      * reflexivity.
    + rewrite map_length. cbn. lia.
    + rewrite child_map16 by exact Lx. cbn [sub]. now rewrite N.eqb_refl.
    + intros j Hj. destruct (N.lt_ge_cases j 16); [|now apply child_map16_out].
      rewrite child_map16 by assumption. cbn [sub]. replace (x =? j) with false by lia. reflexivity.
  - apply wf_branch_iff in W as (L & Hbv & Hocc & Wc).
    rewrite subs_branch by exact L. cbn [get]. unfold collapse.
    pose proof (scan_spec cs 0) as [_ S2]. unfold occupants in Hocc.
    destruct (scan cs 0) as [[i|]|]; [|destruct bv; lia|reflexivity].
    destruct bv; [reflexivity|lia].
Qed.

(* ---------- a measure that the residuals decrease ---------- *)

Fixpoint msize (n : node) : nat :=
  match n with
  | Empty => O
  | Leaf ks _ => S (length ks)
  | Ext ks n' => (length ks + msize n')%nat
  | Branch cs _ => S ((fix go (l : list node) : nat :=
                         match l with [] => O | c :: t => (msize c + go t)%nat end) cs)
  end.

Lemma msize_child cs bv i : (msize (child cs i) < msize (Branch cs bv))%nat.
Proof.
  cbn [msize]. revert i. induction cs as [|c t IH]; intros i; cbn [child]; [cbn; lia|].
  destruct (i =? 0); [lia|]. specialize (IH (i - 1)). lia.
Qed.

Lemma msize_sub n i : wf_node n -> (msize (sub n i) < msize n)%nat.
Proof.
  intros W. destruct n as [ | ks v | ks n' | cs bv]; cbn [sub].
  - destruct W.
  - destruct ks as [|x ks]; [cbn; lia|]. destruct (x =? i); cbn; lia.
  - cbn in W. destruct W as (Hne & _). destruct ks as [|x ks]; [congruence|].
    destruct (x =? i); [|cbn; lia]. destruct ks; cbn; lia.
  - apply msize_child.
Qed.

Lemma nonempty_has_key n : wf_node n -> exists k v, get n k = Some v.
Proof.
  induction n as [ | ks v0 | ks n' IH | cs bv IH] using node_ind'; intros W.
  - destruct W.
  - exists ks, v0. now rewrite get_leaf, bytes_eqb_refl.
  - cbn in W. destruct W as (_ & _ & _ & Wn). destruct (IH Wn) as (k & v & H).
    exists (ks ++ k), v. now rewrite get_ext, strip_app.
  - apply wf_branch_iff in W as (L & Hbv & Hocc & Wc). unfold occupants in Hocc.
    destruct bv as [v|]; [exists [], v; reflexivity|].
    destruct (count_pos_exists cs) as (i & Li & Ne); [lia|].
    destruct (wfe_child cs i Wc) as [E|Wi]; [rewrite E in Ne; discriminate|].
    rewrite Forall_forall in IH. destruct (IH _ (child_in cs i Li) Wi) as (k & v & H).
    exists (i :: k), v. now rewrite get_branch.
Qed.

Theorem wfe_unique : forall a b, wfe a -> wfe b -> (forall k, get a k = get b k) -> a = b.
Proof.
  intros a. remember (msize a) as m eqn:Em. revert a Em.
  induction m as [m IHm] using lt_wf_ind. intros a Em b Wa Wb H.
  destruct Wa as [->|Wa].
  - destruct Wb as [->|Wb]; [reflexivity|].
    destruct (nonempty_has_key b Wb) as (k & v & Hk). rewrite <- H in Hk. discriminate.
  - destruct Wb as [->|Wb].
    + destruct (nonempty_has_key a Wa) as (k & v & Hk). rewrite H in Hk. discriminate.
    + rewrite (reconstruct a Wa), (reconstruct b Wb). rewrite (H []). f_equal.
      unfold subs. apply map_ext. intros i.
      apply (IHm (msize (sub a i))); [subst m; now apply msize_sub|reflexivity| | |].
      * now apply wf_sub.
      * now apply wf_sub.
      * intros r. rewrite !get_sub by assumption. apply H.
Qed.

Theorem wf_unique a b : wf a -> wf b -> (forall k, get a k = get b k) -> a = b.
Proof. apply wfe_unique. Qed.

(* ---------- histories ---------- *)

Inductive top := TSet (k : nibs) (v : bytes) | TDel (k : nibs).

Definition top_ok (o : top) : Prop :=
  match o with
  | TSet k v => nibs_ok k = true /\ v <> []
  | TDel k => True
  end.

Definition apply_op (t : node) (o : top) : node :=
  match o with
  | TSet k v => set t k v
  | TDel k => delete t k
  end.

Definition run_ops (ops : list top) : node := fold_left apply_op ops Empty.

(* the specification: a finite map as a function *)
Definition fmap := nibs -> option bytes.
Definition fmap_empty : fmap := fun _ => None.
Definition fmap_apply (m : fmap) (o : top) : fmap :=
  match o with
  | TSet k v => fun k' => if bytes_eqb k' k then Some v else m k'
  | TDel k => fun k' => if bytes_eqb k' k then None else m k'
  end.
Definition run_spec (ops : list top) : fmap := fold_left fmap_apply ops fmap_empty.

Lemma fold_wf ops : forall t, wf t -> Forall top_ok ops -> wf (fold_left apply_op ops t).
Proof.
  induction ops as [|o ops IH]; intros t W F; cbn; [exact W|].
  inversion F; subst. apply IH; [|assumption].
  destruct o as [k v|k]; cbn.
  - destruct H1. now apply set_wf.
  - now apply delete_wf.
Qed.

Theorem run_ops_wf ops : Forall top_ok ops -> wf (run_ops ops).
Proof. apply fold_wf. now left. Qed.

Lemma fold_refines ops : forall t m,
  wf t -> Forall top_ok ops -> (forall k, get t k = m k) ->
  forall k, get (fold_left apply_op ops t) k = fold_left fmap_apply ops m k.
Proof.
  induction ops as [|o ops IH]; intros t m W F E k; cbn; [apply E|].
  inversion F; subst. apply IH; auto.
  - destruct o as [k0 v|k0]; cbn; [destruct H1; now apply set_wf|now apply delete_wf].
  - intros k'. destruct o as [k0 v|k0]; cbn.
    + destruct H1. rewrite get_set by assumption. now rewrite E.
    + rewrite get_delete. now rewrite E.
Qed.

Theorem refines_map ops k : Forall top_ok ops -> get (run_ops ops) k = run_spec ops k.
Proof. intros F. apply fold_refines; auto. now left. Qed.

Theorem root_canonical (H : bytes -> bytes) ops1 ops2 :
  Forall top_ok ops1 -> Forall top_ok ops2 ->
  (forall k, run_spec ops1 k = run_spec ops2 k) ->
  run_ops ops1 = run_ops ops2 /\
  ser H (run_ops ops1) = ser H (run_ops ops2) /\
  root H (run_ops ops1) = root H (run_ops ops2).
Proof.
  intros F1 F2 E.
  assert (X : run_ops ops1 = run_ops ops2).
  { apply wf_unique; try now apply run_ops_wf. intros k. rewrite !refines_map by assumption. apply E. }
  rewrite X. auto.
Qed.

(* non-vacuity: concrete values meeting the hypotheses *)
Example ex_ops1 : list top := [TSet [1;2;3;4] [7]; TSet [1;2;5;6] [8]; TSet [1;2] [9]; TDel [1;2;5;6]].
Example ex_ops2 : list top := [TSet [1;2] [9]; TSet [1;2;3;4] [7]].
Example ex_ops_ok : Forall top_ok ex_ops1 /\ Forall top_ok ex_ops2.
Proof. split; repeat constructor; discriminate. Qed.
Example ex_same_tree : run_ops ex_ops1 = run_ops ex_ops2 /\ run_ops ex_ops1 <> Empty.
Proof. split; [vm_compute; reflexivity|vm_compute; discriminate]. Qed.
