(* Model_LayerDb.v — common/db/layer_db.go (layerDB, layerBucket) over
   common/db/map_db.go (mapDatabase, mapBucket).

   Implementation-level model (association lists, mirrors the code):
     store        the underlying database: (bucket id, key) -> value bytes
                  (mapBucket.real; the Go map replaces on Set, deletes on Delete)
     items        the layer: ldb.list, an ordered list of layerBucketItem
                  (bucket, key, value) where value = None is the Go nil slice
                  (= deleted marker); bk.data[key] points at the unique list
                  element of that (bucket,key) — here: lookup by it_find
     flushed      ldb.flushed; after Flush(true) every layerBucket has data = nil
                  and GetBucket hands out the real bucket: both are write-through

   Specification-level model (functions): base map + overlay map, with Flush(true)
   defined as "base := view".

   Style: stdlib only.  No proofs in this file. *)
From Goloop Require Import lib.Bytes.
Open Scope N_scope.

(* ---------- keys ---------- *)
Definition bkey := (bytes * bytes)%type.          (* bucket id, key *)
Definition bkey_eqb (a b : bkey) : bool :=
  bytes_eqb (fst a) (fst b) && bytes_eqb (snd a) (snd b).

(* ---------- the underlying store (mapDatabase) ---------- *)
Definition store := list (bkey * bytes).

Fixpoint st_get (s : store) (k : bkey) : option bytes :=      (* mapBucket.Get: nil when absent *)
  match s with
  | [] => None
  | (k', v) :: r => if bkey_eqb k' k then Some v else st_get r k
  end.

Definition st_has (s : store) (k : bkey) : bool :=            (* mapBucket.Has *)
  match st_get s k with Some _ => true | None => false end.

Fixpoint st_del (s : store) (k : bkey) : store :=             (* mapBucket.Delete *)
  match s with
  | [] => []
  | (k', v) :: r => if bkey_eqb k' k then st_del r k else (k', v) :: st_del r k
  end.

Definition st_set (s : store) (k : bkey) (v : bytes) : store :=   (* mapBucket.Set: t.real[k] = string(v) *)
  (k, v) :: st_del s k.

(* a Go []byte argument: None is the nil slice.  Both layerBucket.Set
   (v2 := make([]byte, len(value)); copy) and mapBucket.Set (string(v)) turn nil
   into the empty value: Set(k, nil) stores an EMPTY value, it does not delete. *)
Definition copyval (v : option bytes) : bytes :=
  match v with None => [] | Some x => x end.

(* ---------- the layer ---------- *)
Definition item := (bkey * option bytes)%type.    (* value None = nil = deleted marker *)

Fixpoint it_find (l : list item) (k : bkey) : option (option bytes) :=   (* bk.data[key] *)
  match l with
  | [] => None
  | (k', r) :: t => if bkey_eqb k' k then Some r else it_find t k
  end.

Fixpoint it_remove (l : list item) (k : bkey) : list item :=
  match l with
  | [] => []
  | (k', r) :: t => if bkey_eqb k' k then it_remove t k else (k', r) :: it_remove t k
  end.

(* Set/Delete on a layered bucket: existing element -> MoveToBack + overwrite value,
   otherwise PushBack of a new element *)
Definition it_put (l : list item) (k : bkey) (r : option bytes) : list item :=
  match it_find l k with
  | Some _ => it_remove l k ++ [(k, r)]
  | None => l ++ [(k, r)]
  end.

(* Flush(true): one real.Set / real.Delete per list element, front to back *)
Definition apply_item (s : store) (it : item) : store :=
  match it with
  | (k, Some v) => st_set s k v
  | (k, None) => st_del s k
  end.
Definition replay (l : list item) (s : store) : store := fold_left apply_item l s.

Record state := { flushed : bool; items : list item; base : store }.

Definition init (b0 : store) : state := {| flushed := false; items := []; base := b0 |}.

Inductive op :=
| OSet (b k : bytes) (v : option bytes)     (* through the layer *)
| ODel (b k : bytes)
| OGet (b k : bytes)
| OHas (b k : bytes)
| OFlush (write : bool)
| BSet (b k : bytes) (v : option bytes)     (* directly on the underlying database *)
| BDel (b k : bytes)
| BGet (b k : bytes)
| BHas (b k : bytes).

Inductive out :=
| RUnit
| RVal (v : option bytes)    (* Get: None = nil slice *)
| RBool (b : bool)
| RErr.

(* what a Get through the layer returns *)
Definition view (s : state) (k : bkey) : option bytes :=
  if flushed s then st_get (base s) k else
  match it_find (items s) k with
  | Some r => r
  | None => st_get (base s) k
  end.

Definition view_has (s : state) (k : bkey) : bool :=
  if flushed s then st_has (base s) k else
  match it_find (items s) k with
  | Some r => match r with Some _ => true | None => false end    (* value != nil *)
  | None => st_has (base s) k
  end.

Definition step (s : state) (o : op) : state * out :=
  match o with
  | OSet b k v =>
      if flushed s
      then ({| flushed := true; items := items s; base := st_set (base s) (b, k) (copyval v) |}, RUnit)
      else ({| flushed := false; items := it_put (items s) (b, k) (Some (copyval v)); base := base s |}, RUnit)
  | ODel b k =>
      if flushed s
      then ({| flushed := true; items := items s; base := st_del (base s) (b, k) |}, RUnit)
      else ({| flushed := false; items := it_put (items s) (b, k) None; base := base s |}, RUnit)
  | OGet b k => (s, RVal (view s (b, k)))
  | OHas b k => (s, RBool (view_has s (b, k)))
  | OFlush w =>
      if flushed s then (s, if w then RUnit else RErr)     (* DirectFlushMode error *)
      else if w
      then ({| flushed := true; items := []; base := replay (items s) (base s) |}, RUnit)
      else ({| flushed := false; items := []; base := base s |}, RUnit)
  | BSet b k v => ({| flushed := flushed s; items := items s; base := st_set (base s) (b, k) (copyval v) |}, RUnit)
  | BDel b k => ({| flushed := flushed s; items := items s; base := st_del (base s) (b, k) |}, RUnit)
  | BGet b k => (s, RVal (st_get (base s) (b, k)))
  | BHas b k => (s, RBool (st_has (base s) (b, k)))
  end.

Fixpoint run (s : state) (l : list op) : state * list out :=
  match l with
  | [] => (s, [])
  | o :: r => let '(s1, x) := step s o in let '(s2, xs) := run s1 r in (s2, x :: xs)
  end.

Definition is_read (o : op) : bool :=
  match o with OGet _ _ | OHas _ _ | BGet _ _ | BHas _ _ => true | _ => false end.

(* ---------- specification: two maps ---------- *)
Record spec := {
  s_flushed : bool;
  s_over : bkey -> option (option bytes);    (* None: untouched; Some None: deleted; Some (Some v) *)
  s_base : bkey -> option bytes }.

Definition upd {A} (f : bkey -> A) (k : bkey) (v : A) : bkey -> A :=
  fun k' => if bkey_eqb k k' then v else f k'.

Definition s_view (s : spec) (k : bkey) : option bytes :=
  match s_over s k with Some r => r | None => s_base s k end.

Definition is_some {A} (o : option A) : bool := match o with Some _ => true | None => false end.

Definition spec_init (b : bkey -> option bytes) : spec :=
  {| s_flushed := false; s_over := fun _ => None; s_base := b |}.

Definition spec_step (s : spec) (o : op) : spec * out :=
  let wbase f := {| s_flushed := s_flushed s; s_over := s_over s; s_base := f |} in
  let wover f := {| s_flushed := s_flushed s; s_over := f; s_base := s_base s |} in
  match o with
  | OSet b k v => (if s_flushed s then wbase (upd (s_base s) (b, k) (Some (copyval v)))
                   else wover (upd (s_over s) (b, k) (Some (Some (copyval v)))), RUnit)
  | ODel b k => (if s_flushed s then wbase (upd (s_base s) (b, k) None)
                 else wover (upd (s_over s) (b, k) (Some None)), RUnit)
  | OGet b k => (s, RVal (s_view s (b, k)))
  | OHas b k => (s, RBool (is_some (s_view s (b, k))))
  | OFlush w =>
      if s_flushed s then (s, if w then RUnit else RErr)
      else if w then ({| s_flushed := true; s_over := fun _ => None; s_base := s_view s |}, RUnit)
      else ({| s_flushed := false; s_over := fun _ => None; s_base := s_base s |}, RUnit)
  | BSet b k v => (wbase (upd (s_base s) (b, k) (Some (copyval v))), RUnit)
  | BDel b k => (wbase (upd (s_base s) (b, k) None), RUnit)
  | BGet b k => (s, RVal (s_base s (b, k)))
  | BHas b k => (s, RBool (is_some (s_base s (b, k))))
  end.

Fixpoint spec_run (s : spec) (l : list op) : spec * list out :=
  match l with
  | [] => (s, [])
  | o :: r => let '(s1, x) := spec_step s o in let '(s2, xs) := spec_run s1 r in (s2, x :: xs)
  end.
