(* Model_TxList.v — service/transaction/transactionlist.go and
   service/txresult/receiptlist.go: a list is a trie whose keys are the codec
   (RLP) encoding of the index as an unsigned integer.
     intToKey i = codec.BC.MarshalToBytes(uint(i))
               = RLP string of intconv.Uint64ToBytes(i)
   Uint64ToBytes is the minimal big-endian form with a leading zero byte when
   the top bit of the first byte would be set; zero is the single byte 0. *)
From Goloop Require Import lib.Bytes Model_RlpBytes Model_Trie.
Open Scope N_scope.

(* intconv.Uint64ToBytes *)
Definition ubytes_len (i : N) : nat := N.to_nat (N.size i / 8 + 1).
Definition ubytes (i : N) : bytes := be_bytes (ubytes_len i) i.

(* codec rlpWriter.writeBytes of that (1..9 bytes: always the short form) *)
Definition index_key (i : N) : bytes := rlp_str (ubytes i).

(* rlpReader.readBytes + intconv.SafeBytesToUint64, as used by transactionIterator.Get;
   None = error *)
Definition safe_uint (bs : bytes) : option N :=
  match bs with
  | [] => Some 0
  | b :: r =>
      if b =? 0 then (if (length r <=? 8)%nat then Some (be_val r) else None)
      else if 128 <=? b then None
      else if (length bs <=? 8)%nat then Some (be_val bs) else None
  end.

(* codec.BC.UnmarshalFromBytes(key, &idx): rlpReader.readBytes (bytes after the
   string are left unread), then SafeBytesToUint64.  Keys here are at most 10
   bytes, so only the single-byte and short-string forms are modelled. *)
Definition index_of_key (k : bytes) : option N :=
  match k with
  | [] => None
  | t :: r =>
      if t <? 128 then safe_uint [t]
      else if t <=? 183 then
        let n := N.to_nat (t - 128) in
        if (length r <? n)%nat then None else safe_uint (firstn n r)
      else None
  end.

Definition key_nibs (i : N) : nibs := bytes_to_nibs (index_key i).

(* NewTransactionListFromSlice / NewReceiptListFromSlice: Set(intToKey(idx), item) for idx = 0.. *)
Fixpoint build_from (i : N) (xs : list bytes) (t : node) : node :=
  match xs with
  | [] => t
  | x :: r => build_from (i + 1) r (set t (key_nibs i) x)
  end.

Definition from_slice (xs : list bytes) : node := build_from 0 xs Empty.

(* TransactionList.Get / ReceiptList.Get *)
Definition get_at (t : node) (i : N) : option bytes := get t (key_nibs i).

Fixpoint indexed (i : N) (xs : list bytes) : list (N * bytes) :=
  match xs with
  | [] => []
  | x :: r => (i, x) :: indexed (i + 1) r
  end.

(* TransactionList.Iterator: the trie iterator; the index is decoded from the key.
   None = an iterator Get returned an error *)
Fixpoint decode_all (l : list (nibs * bytes)) : option (list (N * bytes)) :=
  match l with
  | [] => Some []
  | (k, v) :: r =>
      match index_of_key (nibs_to_bytes k), decode_all r with
      | Some i, Some t => Some ((i, v) :: t)
      | _, _ => None
      end
  end.

Definition iterate (t : node) : option (list (N * bytes)) := decode_all (to_list t).
