(* Proofs_ConsensusNet2_Sim.v — the simulation relation for ALL histories,
   crash points inside events included (stage 2 of docs/notes/C01_proof.md).

   Differences to Proofs_ConsensusNet_Sim.v:
   * an own vote is CAST in the abstract protocol when its [RVote] record becomes
     part of the synced prefix of the round WAL ([cast]), not when it is sent:
     after a restart the engine counts such a vote in its own vote sets even if
     it never reached the network.  The abstract soup is E + cast votes, a
     superset of what the network can deliver (sent ⊆ synced WAL, C02).
   * a record that is written but not yet synced is PENDING ([sr_pend]): the
     guards of its abstract action are recorded at the write ([pend_ok]) and are
     stable while the engine is dead; it is cast at the sync or at the restart
     that finds it.
   * the lock WAL may end in a partial entry ([sr_lpart]); restoring the lock of
     the synced part is [lock_safe] at all times ([sr_lsafe]).
   * the clauses about volatile state hold only while the engine runs and has not
     passed the crash point of the event ([vol_ok]); after the crash point the
     engine computes on garbage but nothing is written or sent. *)
From Coq Require Import List ZArith NArith Bool Arith Lia.
From Goloop Require Import Model_ConsensusNode Proofs_ConsensusNode Proofs_ConsensusNode_C01
  Model_ConsensusNet Proofs_ConsensusNet_Link Proofs_ConsensusNet_LockWAL.
From Goloop Require Proofs_ConsensusNet_Run.
Import ListNotations.
Open Scope Z_scope.

Set Implicit Arguments.

Definition convL (L : option (N * Z)) : option (N * N) :=
  match L with Some (b, r) => Some (Z.to_N r, b) | None => None end.

(* votes inside vote-list records *)
Definition lsub (K : vote -> Prop) (r : wrec) : Prop :=
  match r with RVoteList l => forall v, In v l -> K v | _ => True end.

Definition no_rvote (l : list wrec) : Prop := forall v, ~ In (RVote v) l.

Lemma lsub_mono (K K' : vote -> Prop) r : (forall v, K v -> K' v) -> lsub K r -> lsub K' r.
Proof. intros M. destruct r; cbn; auto. Qed.

Lemma Forall_lsub_mono (K K' : vote -> Prop) l :
  (forall v, K v -> K' v) -> Forall (lsub K) l -> Forall (lsub K') l.
Proof. intros M F. eapply Forall_impl; [|exact F]. intros r. apply lsub_mono; auto. Qed.

Lemma wal_all_write w r : wal_all (wal_write w r) = wal_all w ++ [r].
Proof. unfold wal_all, wal_write. cbn. apply app_assoc. Qed.

Lemma wal_all_sync2 w : wal_all (wal_sync w) = wal_all w.
Proof. unfold wal_all, wal_sync; cbn. now rewrite app_nil_r. Qed.

Lemma In_app_one {A} (l : list A) x y : In y (l ++ [x]) <-> In y l \/ y = x.
Proof. rewrite in_app_iff. cbn. intuition. Qed.

Lemma blown_false_emit o s : blown s = false ->
  exists k, emit o s = apply_out o (set_outs (outs s ++ [o]) k s).
Proof. apply emit_unblown. Qed.

(* ------------------------------------------------------------------ lock_safe under a growing soup *)

Section LockSafe.
  Variable n : nat.
  Variable byz : nat -> bool.
  Hypothesis Hb3 : (3 * TM.countn byz n < n)%nat.

  Lemma lock_safe_grow sp sp' i l :
    TM.lock_safe n sp i l = true -> incl sp sp' ->
    (forall r b, In (TM.mkVote i r TM.Precommit (Some b)) sp' -> In (TM.mkVote i r TM.Precommit (Some b)) sp) ->
    TM.lock_safe n sp' i l = true.
  Proof.
    intros H Inc New. apply (TP.lock_safe_spec n byz Hb3). intros r b Hin.
    destruct (proj1 (TP.lock_safe_spec n byz Hb3 sp i l) H r b (New _ _ Hin)) as [A|[r2 [w [A [B C]]]]]; auto.
    right. exists r2, w. repeat split; auto. eapply TP.polka_mono; eauto.
  Qed.

  Lemma lock_safe_cover sp i lr b r :
    TM.lock_safe n sp i (Some (lr, b)) = true -> (r <= lr)%N ->
    TM.lock_safe n (TM.mkVote i r TM.Precommit (Some b) :: sp) i (Some (lr, b)) = true.
  Proof.
    intros H Le. apply (TP.lock_safe_spec n byz Hb3). intros r0 b0 [Eq|Hin].
    - inversion Eq; subst. left. exists lr. auto.
    - destruct (proj1 (TP.lock_safe_spec n byz Hb3 sp i _) H r0 b0 Hin) as [A|[r2 [w [A [B C]]]]]; auto.
      right. exists r2, w. repeat split; auto. apply TP.polka_cons; auto.
  Qed.
End LockSafe.

(* ------------------------------------------------------------------ the relation *)

Section Sim2.
  Variable n : nat.
  Variable byz : nat -> bool.
  Variable blocks : list blk.
  Variable i : nat.
  Hypothesis Hi : (i < n)%nat.
  Hypothesis Hbyz : byz i = false.
  Local Notation own := (Z.of_nat i).

  Variable E : list vote.               (* the cast votes of everybody else *)
  Hypothesis E_ok : forall v, In v E -> 0 <= v_from v < Z.of_nat n /\ 0 <= v_round v /\ v_from v <> own.
  Variable T0 : TM.state.               (* abstract state when the event begins *)
  Variable K0 : vote -> Prop.           (* votes known when the event begins *)
  Hypothesis blocks_ok : forall x, In x blocks -> (1 <= b_parts x)%N.
  Hypothesis Hb3 : (3 * TM.countn byz n < n)%nat.

  Definition cast (s : st) (v : vote) : Prop := In (RVote v) (w_synced (wal_r s)).
  Definition known (s : st) (v : vote) : Prop := In v E \/ cast s v.

  Definition frame (T : TM.state) : Prop :=
    (forall j, j <> i -> TM.lock T j = TM.lock T0 j /\ TM.decided T j = TM.decided T0 j) /\
    incl (TM.soup T0) (TM.soup T) /\
    (forall m, In m (TM.soup T) -> In m (TM.soup T0) \/ TM.v_sender m = i).

  (* the engine runs and has not passed the crash point of the current event *)
  Definition vol_ok (s : st) : Prop := status_ s = Running /\ blown s = false.

  (* the guards of the abstract action of a written own vote *)
  Definition pend_ok (L : option (N * Z)) (s : st) (T : TM.state) (v : vote) : Prop :=
    own_bound i (TM.soup T) (Z.to_N (v_round v)) (convt (v_type v)) /\
    match v_type v, v_dec v with
    | Prevote, d => forall lr b, TM.lock T i = Some (lr, b) -> d = Some b
    | Precommit, Some b => TM.lock T i = Some (Z.to_N (v_round v), b) /\
                           convL L = Some (Z.to_N (v_round v), b) /\ w_unsynced (wal_l s) = []
    | Precommit, None => True
    end.

  Record SimR (L : option (N * Z)) (s : st) (T : TM.state) : Prop := {
    sr_reach : TM.reachable n byz T;
    sr_frame : frame T;
    sr_soup : forall m, In m (TM.soup T) <-> exists v, known s v /\ conv v = m;
    sr_rv : forall v, In (RVote v) (wal_all (wal_r s)) -> v_from v = own /\ 0 <= v_round v;
    sr_lpolka : forall lr b, TM.lock T i = Some (lr, b) -> TM.polka n (TM.soup T) lr (Some b) = true;
    sr_dec : forall b, decided s = Some b -> TM.decided T i = Some b;
    sr_k0 : forall v, K0 v -> known s v;
    sr_walr : Forall (lsub (known s)) (wal_all (wal_r s));
    sr_walc : Forall (lsub (known s)) (wal_all (wal_c s));
    sr_crv : forall v, ~ In (RVote v) (wal_all (wal_c s));
    sr_pend : forall v, In (RVote v) (w_unsynced (wal_r s)) -> pend_ok L s T v;
    sr_pend1 : forall u v, In (RVote u) (w_unsynced (wal_r s)) -> In (RVote v) (w_unsynced (wal_r s)) -> u = v;
    sr_shape : lockwal_shape n blocks (known s) (w_synced (wal_l s)) L;
    sr_lsafe : TM.lock_safe n (TM.soup T) i (convL L) = true;
    sr_lpart : w_unsynced (wal_l s) = [] \/
               exists pv b r k, w_unsynced (wal_l s) = firstn k (lock_entry blocks pv b) /\
                 quorum_ev n r Prevote (Some b) pv /\ vs_sub (known s) pv /\
                 TM.lock T i = Some (Z.to_N r, b);
    (* volatile state *)
    sr_lock : vol_ok s -> TM.lock T i = convlock (lock_of s);
    sr_hvs : vol_ok s -> forall u, hvs_has (hvs s) u -> known s u;
    sr_round : vol_ok s -> 0 <= round s;
    sr_lk : vol_ok s -> w_unsynced (wal_l s) = [] -> TM.lock T i = None \/ TM.lock T i = convL L;
    sr_nopend : vol_ok s -> no_rvote (w_unsynced (wal_r s))
  }.

  Lemma frame_refl : frame T0.
  Proof. split; [auto|split; [apply incl_refl|auto]]. Qed.

  Lemma frame_set_lock T l : frame T -> frame (TM.set_lock T i l).
  Proof.
    intros [A B]. split; auto. intros j Hj. cbn. rewrite upd_other; auto.
  Qed.

  Lemma frame_add_vote T m : TM.v_sender m = i -> frame T -> frame (TM.add_vote T m).
  Proof.
    intros S [A [B C]]. split; [auto|split].
    - cbn. apply incl_tl; auto.
    - cbn. intros m0 [<-|H]; auto.
  Qed.

  Lemma frame_decide T b : frame T -> frame (TM.mkState (TM.soup T) (TM.lock T) (TM.upd (TM.decided T) i b)).
  Proof.
    intros [A B]. split; auto. intros j Hj. cbn. rewrite upd_other; auto.
  Qed.

  (* ---------------- states that differ only in volatile fields ---------------- *)

  (* s' has the same durable fields; whatever the relation says about volatile
     state of s' is provided separately *)
  Record dur_same (s s' : st) : Prop := {
    du_r : wal_r s' = wal_r s;
    du_l : wal_l s' = wal_l s;
    du_c : wal_all (wal_c s') = wal_all (wal_c s);
    du_d : decided s' = decided s
  }.

  Lemma dur_same_refl s : dur_same s s.
  Proof. constructor; auto. Qed.

  Lemma known_dur s s' : dur_same s s' -> forall v, known s' v <-> known s v.
  Proof. intros [] v. unfold known, cast. rewrite du_r0. tauto. Qed.

  (* the volatile clauses of s' *)
  Record volR (L : option (N * Z)) (s : st) (T : TM.state) : Prop := {
    vr_lock : vol_ok s -> TM.lock T i = convlock (lock_of s);
    vr_hvs : vol_ok s -> forall u, hvs_has (hvs s) u -> known s u;
    vr_round : vol_ok s -> 0 <= round s;
    vr_lk : vol_ok s -> w_unsynced (wal_l s) = [] -> TM.lock T i = None \/ TM.lock T i = convL L;
    vr_nopend : vol_ok s -> no_rvote (w_unsynced (wal_r s))
  }.

  Lemma SimR_volR L s T : SimR L s T -> volR L s T.
  Proof. intros []. constructor; auto. Qed.

  Lemma pend_ok_dur L s s' T v : wal_l s' = wal_l s -> pend_ok L s T v -> pend_ok L s' T v.
  Proof. intros El [A B]. split; auto. destruct (v_type v); auto. destruct (v_dec v); auto. rewrite El. auto. Qed.

  Lemma SimR_dur L s s' T : dur_same s s' -> SimR L s T -> volR L s' T -> SimR L s' T.
  Proof.
    intros D H V. pose proof (known_dur D) as KE. destruct D as [Er El Ec Ed].
    assert (M : forall v, known s v -> known s' v) by (intro v; apply KE).
    constructor.
    - apply (sr_reach H).
    - apply (sr_frame H).
    - intro m. rewrite (sr_soup H). split; intros [v [K C]]; exists v; split; auto; apply KE; auto.
    - rewrite Er. apply (sr_rv H).
    - apply (sr_lpolka H).
    - rewrite Ed. apply (sr_dec H).
    - intros v Hv. apply KE. apply (sr_k0 H); auto.
    - rewrite Er. eapply Forall_lsub_mono; [exact M|apply (sr_walr H)].
    - rewrite Ec. eapply Forall_lsub_mono; [exact M|apply (sr_walc H)].
    - rewrite Ec. apply (sr_crv H).
    - rewrite Er. intros v Hv. eapply pend_ok_dur; eauto. apply (sr_pend H v Hv).
    - rewrite Er. apply (sr_pend1 H).
    - rewrite El. eapply lockwal_shape_mono; [exact M|apply (sr_shape H)].
    - apply (sr_lsafe H).
    - rewrite El. destruct (sr_lpart H) as [A|[pv [b [r [k [A [B [C D]]]]]]]]; auto.
      right. exists pv, b, r, k. split; [auto|split; [auto|split; [|auto]]]. eapply vs_sub_mono; [exact M|exact C].
    - apply (vr_lock V).
    - apply (vr_hvs V).
    - apply (vr_round V).
    - apply (vr_lk V).
    - apply (vr_nopend V).
  Qed.

  (* a state past the crash point, or stopped: only the durable clauses count *)
  Lemma volR_dead L s T : ~ vol_ok s -> volR L s T.
  Proof. intro N. constructor; intros; contradiction. Qed.

  Lemma SimR_dead L s s' T : dur_same s s' -> ~ vol_ok s' -> SimR L s T -> SimR L s' T.
  Proof. intros D N H. apply (SimR_dur D H). apply volR_dead; auto. Qed.

  (* volatile fields the relation reads are unchanged *)
  Record vol_same (s s' : st) : Prop := {
    vs_ok : vol_ok s' -> vol_ok s;
    vs_locked : locked s' = locked s;
    vs_lr : locked_round s' = locked_round s;
    vs_hvs : hvs s' = hvs s;
    vs_round : round s' = round s
  }.

  Lemma SimR_same L s s' T : dur_same s s' -> vol_same s s' -> SimR L s T -> SimR L s' T.
  Proof.
    intros D V H. apply (SimR_dur D H). pose proof (known_dur D) as KE. destruct D as [Er El Ec Ed]. destruct V.
    constructor; intro Ok; specialize (vs_ok0 Ok).
    - unfold lock_of. rewrite vs_locked0, vs_lr0. apply (sr_lock H); auto.
    - rewrite vs_hvs0. intros u Hu. apply KE. apply (sr_hvs H); auto.
    - rewrite vs_round0. apply (sr_round H); auto.
    - rewrite El. apply (sr_lk H); auto.
    - rewrite Er. apply (sr_nopend H); auto.
  Qed.

  (* ---------------- pulling a soup vote of slot i back to the WAL ---------------- *)

  Lemma soup_own L s T m :
    SimR L s T -> In m (TM.soup T) -> TM.v_sender m = i ->
    exists v, cast s v /\ v_from v = own /\ 0 <= v_round v /\
              m = TM.mkVote i (Z.to_N (v_round v)) (convt (v_type v)) (v_dec v).
  Proof.
    intros H Hm Hs. apply (sr_soup H) in Hm as [v [[K|K] C]].
    - exfalso. destruct (E_ok _ K) as [A [_ B]]. subst m. cbn in Hs. apply B. lia.
    - exists v. split; auto.
      assert (W : In (RVote v) (wal_all (wal_r s))) by (unfold wal_all; apply in_or_app; left; exact K).
      destruct (sr_rv H _ W) as [F R]. repeat split; auto.
      subst m. unfold conv. rewrite F, Nat2Z.id. reflexivity.
  Qed.

  Lemma sim_own_le L s T :
    SimR L s T -> Inv own s -> vol_ok s -> own_le i (TM.soup T) (Z.to_N (round s)).
  Proof.
    intros H HI [R U] m Hm Hs. destruct (soup_own _ H Hm Hs) as [v [K [F [Rd ->]]]]. cbn.
    assert (W : In (RVote v) (wal_all (wal_r s))) by (unfold wal_all; apply in_or_app; left; exact K).
    pose proof (ctl_votes (inv_ctl HI R U) _ W F) as C. unfold pos_le, pos in C; cbn in C. lia.
  Qed.

  Lemma sim_own_bound L s T t :
    SimR L s T -> Inv own s -> vol_ok s -> vote_ok own s t ->
    own_bound i (TM.soup T) (Z.to_N (round s)) (convt t).
  Proof.
    intros H HI Ok [_ [V _]] m Hm Hs. split; [eapply sim_own_le; eauto|].
    destruct (soup_own _ H Hm Hs) as [v [K [F [Rd ->]]]]. cbn. intros Er Et.
    apply convt_inj in Et.
    pose proof (sr_round H Ok) as R0. assert (v_round v = round s) by lia.
    assert (W : In (RVote v) (wal_all (wal_r s))) by (unfold wal_all; apply in_or_app; left; exact K).
    apply (V _ W F). auto.
  Qed.

  Lemma known_soup L s T v : SimR L s T -> known s v -> In (conv v) (TM.soup T).
  Proof. intros H K. apply (sr_soup H). eauto. Qed.

  Lemma sim_quorum L s T r t w ev :
    SimR L s T -> quorum_ev n r t w ev -> (forall u, In (Some u) ev -> known s u) ->
    TM.quorum n (TM.soup T) (Z.to_N r) (convt t) w = true.
  Proof. intros H Q K. eapply quorum_link; eauto. intros v Hv. eapply known_soup; eauto. Qed.

  Lemma vs_sub_known s ev : (forall u, In (Some u) ev -> known s u) -> vs_sub (known s) ev.
  Proof. intros K k v Hk. apply K. eapply nth_error_In; eauto. Qed.

  Lemma known_vs_sub s ev : vs_sub (known s) ev -> forall u, In (Some u) ev -> known s u.
  Proof. intros S u Hu. apply In_nth_error in Hu as [k Hk]. eapply S; eauto. Qed.

  Lemma nparts_pos b : (1 <= nparts blocks b)%N.
  Proof.
    unfold nparts, blk_of. destruct (find _ blocks) as [x|] eqn:F; [|lia].
    apply find_some in F as [F _]. auto.
  Qed.

  (* ---------------- outputs ---------------- *)

  Lemma vol_ok_apply o x k s : vol_ok (apply_out o (set_outs x k s)) -> blown s = false -> vol_ok s.
  Proof.
    intros [R _] B. split; auto.
    destruct o as [[] ?|[]| | | | | | | | ]; exact R.
  Qed.

  (* outputs that touch neither a WAL nor [decided] *)
  Definition neutral2 (o : out) : bool :=
    match o with OWrite _ _ | OSync _ | OFinalize _ => false | _ => true end.

  Lemma SimR_emit_neutral L o s T : neutral2 o = true -> SimR L s T -> SimR L (emit o s) T.
  Proof.
    intros Q H. destruct (blown s) eqn:B; [rewrite emit_blown; auto|].
    destruct (emit_unblown o s B) as [k ->].
    apply (@SimR_same L s); auto.
    - destruct o as [[] ?|[]| | | | | | | | ]; try discriminate Q; constructor; reflexivity.
    - constructor; try (destruct o as [[] ?|[]| | | | | | | | ]; try discriminate Q; reflexivity).
      intro Ok. eapply vol_ok_apply; eauto.
  Qed.

  Lemma SimR_sync_c L s T : SimR L s T -> SimR L (emit (OSync WCommit) s) T.
  Proof.
    intros H. destruct (blown s) eqn:B; [rewrite emit_blown; auto|].
    destruct (emit_unblown (OSync WCommit) s B) as [k ->].
    apply (@SimR_same L s); auto.
    - constructor; cbn -[wal_all]; auto using wal_all_sync2.
    - constructor; try reflexivity. intro Ok. eapply vol_ok_apply; eauto.
  Qed.

  Definition not_rvote (r : wrec) : Prop := forall v, r <> RVote v.

  (* a record without own vote whose vote list is known goes to the round WAL *)
  Lemma SimR_write_r L r s T : not_rvote r -> (blown s = false -> lsub (known s) r) -> SimR L s T -> SimR L (emit (OWrite WRound r) s) T.
  Proof.
    intros NR K H. destruct (blown s) eqn:B; [rewrite emit_blown; auto|].
    destruct (emit_unblown (OWrite WRound r) s B) as [k ->].
    set (s' := apply_out (OWrite WRound r) (set_outs (outs s ++ [OWrite WRound r]) k s)).
    assert (Wr : wal_r s' = wal_write (wal_r s) r) by reflexivity.
    assert (KE : forall v, known s' v <-> known s v) by (intro v; unfold known, cast; rewrite Wr; reflexivity).
    assert (Ok : vol_ok s' -> vol_ok s) by (intro Ok; eapply vol_ok_apply; eauto).
    assert (Un : forall x, In x (w_unsynced (wal_r s')) <-> In x (w_unsynced (wal_r s)) \/ x = r).
    { intro x. rewrite Wr. cbn. apply In_app_one. }
    constructor.
    - apply (sr_reach H).
    - apply (sr_frame H).
    - intro m. rewrite (sr_soup H). split; intros [v [Kv C]]; exists v; split; auto; apply KE; auto.
    - rewrite Wr, wal_all_write. intros v Hv. apply In_app_one in Hv as [Hv|Hv]; [apply (sr_rv H); auto|].
      exfalso. eapply NR; eauto.
    - apply (sr_lpolka H).
    - apply (sr_dec H).
    - intros v Hv. apply KE. apply (sr_k0 H); auto.
    - rewrite Wr, wal_all_write. apply Forall_app. split.
      + eapply Forall_lsub_mono; [|apply (sr_walr H)]. intro v; apply KE.
      + constructor; [|constructor]. eapply lsub_mono; [|apply (K eq_refl)]. intro v; apply KE.
    - apply (sr_walc H).
    - apply (sr_crv H).
    - intros v Hv. apply Un in Hv as [Hv|Hv]; [|exfalso; eapply NR; eauto].
      destruct (sr_pend H v Hv) as [A B']. split; auto.
    - intros u v Hu Hv. apply Un in Hu as [Hu|Hu]; [|exfalso; eapply NR; eauto].
      apply Un in Hv as [Hv|Hv]; [|exfalso; eapply NR; eauto]. apply (sr_pend1 H); auto.
    - eapply lockwal_shape_mono; [|apply (sr_shape H)]. intro v; apply KE.
    - apply (sr_lsafe H).
    - destruct (sr_lpart H) as [A|[pv [b [r0 [k0 [A [B' [C D]]]]]]]]; auto.
      right. exists pv, b, r0, k0. split; [auto|split; [auto|split; [|auto]]].
      eapply vs_sub_mono; [|exact C]. intro v; apply KE.
    - intro O. apply (sr_lock H (Ok O)).
    - intros O u Hu. apply KE. apply (sr_hvs H (Ok O)); auto.
    - intro O. apply (sr_round H (Ok O)).
    - intro O. apply (sr_lk H (Ok O)).
    - intros O v Hv. apply Un in Hv as [Hv|Hv]; [|eapply NR; eauto]. eapply (sr_nopend H (Ok O)); eauto.
  Qed.

  Lemma SimR_write_c L r s T : not_rvote r -> (blown s = false -> lsub (known s) r) -> SimR L s T -> SimR L (emit (OWrite WCommit r) s) T.
  Proof.
    intros NR K H. destruct (blown s) eqn:B; [rewrite emit_blown; auto|].
    destruct (emit_unblown (OWrite WCommit r) s B) as [k ->].
    set (s' := apply_out (OWrite WCommit r) (set_outs (outs s ++ [OWrite WCommit r]) k s)).
    assert (Wc : wal_c s' = wal_write (wal_c s) r) by reflexivity.
    assert (Wr : wal_r s' = wal_r s) by reflexivity.
    assert (Wl : wal_l s' = wal_l s) by reflexivity.
    assert (KE : forall v, known s' v <-> known s v) by (intro v; unfold known, cast; rewrite Wr; reflexivity).
    assert (Ok : vol_ok s' -> vol_ok s) by (intro Ok; eapply vol_ok_apply; eauto).
    constructor.
    - apply (sr_reach H).
    - apply (sr_frame H).
    - intro m. rewrite (sr_soup H). split; intros [v [Kv C]]; exists v; split; auto; apply KE; auto.
    - rewrite Wr. apply (sr_rv H).
    - apply (sr_lpolka H).
    - apply (sr_dec H).
    - intros v Hv. apply KE. apply (sr_k0 H); auto.
    - rewrite Wr. eapply Forall_lsub_mono; [|apply (sr_walr H)]. intro v; apply KE.
    - rewrite Wc, wal_all_write. apply Forall_app. split.
      + eapply Forall_lsub_mono; [|apply (sr_walc H)]. intro v; apply KE.
      + constructor; [|constructor]. eapply lsub_mono; [|apply (K eq_refl)]. intro v; apply KE.
    - rewrite Wc, wal_all_write. intros v Hv. apply In_app_one in Hv as [Hv|Hv]; [eapply (sr_crv H); eauto|eapply NR; eauto].
    - rewrite Wr. intros v Hv. eapply pend_ok_dur; [exact Wl|]. apply (sr_pend H v Hv).
    - rewrite Wr. apply (sr_pend1 H).
    - rewrite Wl. eapply lockwal_shape_mono; [|apply (sr_shape H)]. intro v; apply KE.
    - apply (sr_lsafe H).
    - rewrite Wl. destruct (sr_lpart H) as [A|[pv [b [r0 [k0 [A [B' [C D]]]]]]]]; auto.
      right. exists pv, b, r0, k0. split; [auto|split; [auto|split; [|auto]]].
      eapply vs_sub_mono; [|exact C]. intro v; apply KE.
    - intro O. apply (sr_lock H (Ok O)).
    - intros O u Hu. apply KE. apply (sr_hvs H (Ok O)); auto.
    - intro O. apply (sr_round H (Ok O)).
    - intro O. rewrite Wl. apply (sr_lk H (Ok O)).
    - intro O. rewrite Wr. apply (sr_nopend H (Ok O)).
  Qed.

  (* ---------------- the round WAL is synced: a pending own vote is cast ---------------- *)

  Definition is_rvote (r : wrec) : bool := match r with RVote _ => true | _ => false end.

  Lemma find_rvote l : (exists v, In (RVote v) l) \/ no_rvote l.
  Proof.
    induction l as [|x l IH].
    - right. intros v [].
    - destruct x as [v| | | | ]; try (destruct IH as [[v Hv]|N]; [left; exists v; right; auto|right; intros v [Hv|Hv]; [discriminate|eapply N; eauto]]).
      left. exists v. left; auto.
  Qed.

  Lemma conv_own v : v_from v = own -> conv v = TM.mkVote i (Z.to_N (v_round v)) (convt (v_type v)) (v_dec v).
  Proof. intro F. unfold conv. rewrite F, Nat2Z.id. reflexivity. Qed.

  (* the abstract action of an own vote whose guards hold *)
  Lemma cast_step L s T v :
    SimR L s T -> v_from v = own -> pend_ok L s T v ->
    exists T', (exists a, TM.step n byz T a = Some T') /\
               TM.soup T' = conv v :: TM.soup T /\ TM.lock T' i = TM.lock T i /\
               (forall j, j <> i -> TM.lock T' j = TM.lock T j) /\ TM.decided T' = TM.decided T.
  Proof.
    intros H F [OB G]. rewrite (conv_own v F).
    destruct (v_type v) eqn:Ty; cbn [convt] in *.
    - exists (TM.add_vote T (TM.mkVote i (Z.to_N (v_round v)) TM.Prevote (v_dec v))).
      split; [eexists; apply (tm_send_prevote n byz i Hi Hbyz T _ (v_dec v) OB G)|]. cbn. auto.
    - destruct (v_dec v) as [b|] eqn:Dc.
      + destruct G as [G1 [G2 G3]].
        exists (TM.add_vote (TM.set_lock T i (Some (Z.to_N (v_round v), b))) (TM.mkVote i (Z.to_N (v_round v)) TM.Precommit (Some b))).
        split; [eexists; apply (tm_send_precommit_block n byz i Hi Hbyz T _ b OB); apply (sr_lpolka H G1)|].
        cbn. rewrite upd_same. repeat split; auto. intros j Hj. rewrite upd_other; auto.
      + exists (TM.add_vote T (TM.mkVote i (Z.to_N (v_round v)) TM.Precommit None)).
        split; [eexists; apply (tm_send_precommit_nil n byz i Hi Hbyz T _ OB)|]. cbn. auto.
  Qed.

  (* the relation after an own vote became durable: [s'] has the synced round WAL
     of [s] plus records among which [v] is the only own vote *)
  Lemma SimR_cast L s s' T v :
    SimR L s T -> v_from v = own -> pend_ok L s T v ->
    (forall u, In (RVote u) (w_synced (wal_r s')) <-> In (RVote u) (w_synced (wal_r s)) \/ u = v) ->
    0 <= v_round v ->
    (forall x, In x (wal_all (wal_r s')) <-> In x (wal_all (wal_r s)) \/ x = RVote v) ->
    no_rvote (w_unsynced (wal_r s')) ->
    wal_l s' = wal_l s -> wal_all (wal_c s') = wal_all (wal_c s) -> decided s' = decided s ->
    (forall T', TM.lock T' i = TM.lock T i -> TM.decided T' = TM.decided T -> volR L s' T') ->
    exists T', SimR L s' T' /\ TM.lock T' i = TM.lock T i /\ TM.decided T' = TM.decided T.
  Proof.
    intros H F P Sy Rd Wa Nr Wl Wc Dc V.
    destruct (cast_step H F P) as [T' [[a St] [Sp [Lk [Lo Dd]]]]].
    assert (KE : forall u, known s' u <-> known s u \/ u = v).
    { intro u. unfold known, cast. rewrite Sy. tauto. }
    assert (M : forall u, known s u -> known s' u) by (intros u Ku; apply KE; auto).
    assert (Inc : incl (TM.soup T) (TM.soup T')) by (rewrite Sp; apply incl_tl, incl_refl).
    exists T'. split; [|split; auto]. constructor.
    - eapply TP.reachable_step; [apply (sr_reach H)|exact St].
    - destruct (sr_frame H) as [F1 [F2 F3]]. split; [|split].
      + intros j Hj. rewrite Lo, Dd; auto.
      + eapply incl_tran; eauto.
      + intros m. rewrite Sp. intros [<-|Hm]; [right; rewrite (conv_own v F); reflexivity|auto].
    - intro m. rewrite Sp. cbn. rewrite (sr_soup H). split.
      + intros [<-|[u [Ku C]]]; [exists v; split; auto; apply KE; auto|exists u; auto].
      + intros [u [Ku C]]. apply KE in Ku as [Ku| ->]; auto. right. exists u; auto.
    - intros u Hu. apply Wa in Hu as [Hu|Hu]; [apply (sr_rv H); auto|]. inversion Hu; subst. auto.
    - intros lr b El. rewrite Lk in El. eapply TP.polka_mono; [exact Inc|]. apply (sr_lpolka H El).
    - rewrite Dc, Dd. apply (sr_dec H).
    - intros u Hu. apply M. apply (sr_k0 H); auto.
    - apply Forall_forall. intros x Hx. apply Wa in Hx as [Hx| ->]; [|exact I].
      pose proof (sr_walr H) as W. rewrite Forall_forall in W. eapply lsub_mono; [exact M|auto].
    - rewrite Wc. eapply Forall_lsub_mono; [exact M|apply (sr_walc H)].
    - rewrite Wc. apply (sr_crv H).
    - intros u Hu. exfalso. eapply Nr; eauto.
    - intros u w Hu. exfalso. eapply Nr; eauto.
    - rewrite Wl. eapply lockwal_shape_mono; [exact M|apply (sr_shape H)].
    - (* restoring L stays safe *)
      rewrite Sp, (conv_own v F). destruct P as [OB G].
      destruct (v_type v) eqn:Ty; cbn [convt].
      + eapply (@lock_safe_grow n byz Hb3); [apply (sr_lsafe H)|apply incl_tl, incl_refl|].
        intros r b [Eq|Hin]; [discriminate|auto].
      + destruct (v_dec v) as [b|] eqn:Dv.
        * destruct G as [G1 [G2 G3]]. rewrite G2.
          apply (@lock_safe_cover n byz Hb3); [rewrite <- G2; apply (sr_lsafe H)|lia].
        * eapply (@lock_safe_grow n byz Hb3); [apply (sr_lsafe H)|apply incl_tl, incl_refl|].
          intros r b [Eq|Hin]; [discriminate|auto].
    - rewrite Wl, Lk. destruct (sr_lpart H) as [A|[pv [b [r0 [k0 [A [B' [C D]]]]]]]]; auto.
      right. exists pv, b, r0, k0. split; [auto|split; [auto|split; [|auto]]].
      eapply vs_sub_mono; [exact M|exact C].
    - apply (vr_lock (V T' Lk Dd)).
    - apply (vr_hvs (V T' Lk Dd)).
    - apply (vr_round (V T' Lk Dd)).
    - apply (vr_lk (V T' Lk Dd)).
    - apply (vr_nopend (V T' Lk Dd)).
  Qed.

  (* a state whose round WAL is the synced round WAL of [s] (the sync output, or
     the recovery at restart) *)
  Lemma SimR_syncr_state L s s' T :
    SimR L s T -> wal_r s' = wal_sync (wal_r s) -> wal_l s' = wal_l s ->
    wal_all (wal_c s') = wal_all (wal_c s) -> decided s' = decided s ->
    (forall T', TM.lock T' i = TM.lock T i -> TM.decided T' = TM.decided T ->
                (forall u, known s u -> known s' u) -> volR L s' T') ->
    exists T', SimR L s' T' /\ TM.lock T' i = TM.lock T i /\ TM.decided T' = TM.decided T.
  Proof.
    intros H Wr Wl Wc Dc Vol.
    destruct (find_rvote (w_unsynced (wal_r s))) as [[v Hv]|Nv].
    - (* the pending vote is cast *)
      assert (Wv : In (RVote v) (wal_all (wal_r s))) by (unfold wal_all; apply in_or_app; right; auto).
      destruct (sr_rv H _ Wv) as [F Rd].
      apply (@SimR_cast L s s' T v H F (sr_pend H v Hv)); auto.
      + intro u. rewrite Wr. cbn. rewrite in_app_iff. split.
        * intros [A|A]; auto. right. apply (sr_pend1 H); auto.
        * intros [A| ->]; auto.
      + intro x. rewrite Wr, wal_all_sync2. split; [auto|]. intros [A| ->]; auto.
      + rewrite Wr. cbn. intros u [].
      + intros T' Lk Dd. apply Vol; auto. intros u [Ku|Ku]; [left; auto|right].
        unfold cast. rewrite Wr. cbn. apply in_or_app; auto.
    - (* nothing to cast *)
      exists T. split; [|auto].
      assert (KE : forall u, known s' u <-> known s u).
      { intro u. unfold known, cast. rewrite Wr. cbn. rewrite in_app_iff. split; [|tauto].
        intros [A|[A|A]]; auto. exfalso. eapply Nv; eauto. }
      assert (M : forall u, known s u -> known s' u) by (intro u; apply KE).
      constructor.
      + apply (sr_reach H).
      + apply (sr_frame H).
      + intro m. rewrite (sr_soup H). split; intros [u [Ku C]]; exists u; split; auto; apply KE; auto.
      + rewrite Wr, wal_all_sync2. apply (sr_rv H).
      + apply (sr_lpolka H).
      + rewrite Dc. apply (sr_dec H).
      + intros u Hu. apply M. apply (sr_k0 H); auto.
      + rewrite Wr, wal_all_sync2. eapply Forall_lsub_mono; [exact M|apply (sr_walr H)].
      + rewrite Wc. eapply Forall_lsub_mono; [exact M|apply (sr_walc H)].
      + rewrite Wc. apply (sr_crv H).
      + rewrite Wr. cbn. intros u [].
      + rewrite Wr. cbn. intros u w [].
      + rewrite Wl. eapply lockwal_shape_mono; [exact M|apply (sr_shape H)].
      + apply (sr_lsafe H).
      + rewrite Wl. destruct (sr_lpart H) as [A|[pv [b [r0 [k0 [A [B' [C D]]]]]]]]; auto.
        right. exists pv, b, r0, k0. split; [auto|split; [auto|split; [|auto]]].
        eapply vs_sub_mono; [exact M|exact C].
      + apply (vr_lock (Vol T eq_refl eq_refl M)).
      + apply (vr_hvs (Vol T eq_refl eq_refl M)).
      + apply (vr_round (Vol T eq_refl eq_refl M)).
      + apply (vr_lk (Vol T eq_refl eq_refl M)).
      + apply (vr_nopend (Vol T eq_refl eq_refl M)).
  Qed.

  Lemma SimR_sync_r L s T :
    SimR L s T -> exists T', SimR L (emit (OSync WRound) s) T' /\ TM.lock T' i = TM.lock T i /\ TM.decided T' = TM.decided T.
  Proof.
    intros H. destruct (blown s) eqn:B; [rewrite emit_blown; eauto|].
    destruct (emit_unblown (OSync WRound) s B) as [k ->].
    set (s' := apply_out (OSync WRound) (set_outs (outs s ++ [OSync WRound]) k s)).
    assert (Wr : wal_r s' = wal_sync (wal_r s)) by reflexivity.
    assert (Ok : vol_ok s' -> vol_ok s) by (intro Ok; eapply vol_ok_apply; eauto).
    apply (@SimR_syncr_state L s s' T H Wr); try reflexivity.
    intros T' Lk Dd M. constructor; intro O; specialize (Ok O).
    - rewrite Lk. apply (sr_lock H Ok).
    - intros u Hu. apply M. apply (sr_hvs H Ok); auto.
    - apply (sr_round H Ok).
    - rewrite Lk. apply (sr_lk H Ok).
    - rewrite Wr. cbn. intros v [].
  Qed.

  (* ---------------- an own vote: WAL write and sync ---------------- *)

  Lemma SimR_write_sync_own L s T t d :
    SimR L s T -> Inv own s -> vol_ok s -> w_unsynced (wal_l s) = [] ->
    vote_ok own s t -> gev_ok n (GVote (round s) t d (lock_of s)) ->
    let v := own_vote own s t d in
    exists T', SimR L (emit (OSync WRound) (emit (OWrite WRound (RVote v)) s)) T' /\
               TM.decided T' = TM.decided T /\
               (blown (emit (OSync WRound) (emit (OWrite WRound (RVote v)) s)) = false ->
                cast (emit (OSync WRound) (emit (OWrite WRound (RVote v)) s)) v).
  Proof.
    intros H HI Ok Ul V G v. destruct Ok as [R B].
    assert (Fv : v_from v = own) by reflexivity.
    assert (Rv : 0 <= v_round v) by (apply (sr_round H (conj R B))).
    assert (Lk := sr_lock H (conj R B)).
    (* the guards of the abstract action *)
    assert (P : pend_ok L s T v).
    { split; [apply (sim_own_bound H HI (conj R B) V)|].
      subst v. cbn [own_vote v_type v_dec v_round]. destruct t.
      - intros lr b El. rewrite Lk in El. cbn [gev_ok] in G.
        destruct (lock_of s) as [[lr0 b0]|]; cbn in El; [|discriminate]. inversion El; subst. first [exact G|reflexivity].
      - destruct d as [b|]; auto. cbn [gev_ok] in G. rewrite G in Lk. cbn in Lk. split; auto. split; auto.
        destruct (sr_lk H (conj R B) Ul) as [A|A]; congruence. }
    destruct (emit_unblown (OWrite WRound (RVote v)) s B) as [k E1].
    set (s1 := emit (OWrite WRound (RVote v)) s) in *.
    assert (W1 : wal_r s1 = wal_write (wal_r s) (RVote v)) by (rewrite E1; reflexivity).
    assert (L1 : wal_l s1 = wal_l s) by (rewrite E1; reflexivity).
    assert (C1 : wal_c s1 = wal_c s) by (rewrite E1; reflexivity).
    assert (D1 : decided s1 = decided s) by (rewrite E1; reflexivity).
    assert (Nv : no_rvote (w_unsynced (wal_r s))) by (apply (sr_nopend H (conj R B))).
    destruct (blown s1) eqn:B1.
    - (* died right after the write: the vote is pending *)
      rewrite emit_blown; auto. exists T. split; [|split; [reflexivity|intro X; congruence]].
      assert (KE : forall u, known s1 u <-> known s u) by (intro u; unfold known, cast; rewrite W1; reflexivity).
      assert (M : forall u, known s u -> known s1 u) by (intro u; apply KE).
      assert (Dead : ~ vol_ok s1) by (intros [_ X]; congruence).
      constructor; try (intro; contradiction).
      + apply (sr_reach H).
      + apply (sr_frame H).
      + intro m. rewrite (sr_soup H). split; intros [u [Ku C]]; exists u; split; auto; apply KE; auto.
      + rewrite W1, wal_all_write. intros u Hu. apply In_app_one in Hu as [Hu|Hu]; [apply (sr_rv H); auto|].
        inversion Hu; subst. auto.
      + apply (sr_lpolka H).
      + rewrite D1. apply (sr_dec H).
      + intros u Hu. apply M. apply (sr_k0 H); auto.
      + rewrite W1, wal_all_write. apply Forall_app. split; [|constructor; [exact I|constructor]].
        eapply Forall_lsub_mono; [exact M|apply (sr_walr H)].
      + rewrite C1. eapply Forall_lsub_mono; [exact M|apply (sr_walc H)].
      + rewrite C1. apply (sr_crv H).
      + rewrite W1. cbn. intros u Hu. apply In_app_one in Hu as [Hu|Hu]; [exfalso; eapply Nv; eauto|].
        inversion Hu; subst. eapply pend_ok_dur; [exact L1|exact P].
      + rewrite W1. cbn. intros u w Hu Hw.
        apply In_app_one in Hu as [Hu|Hu]; [exfalso; eapply Nv; eauto|].
        apply In_app_one in Hw as [Hw|Hw]; [exfalso; eapply Nv; eauto|]. congruence.
      + rewrite L1. eapply lockwal_shape_mono; [exact M|apply (sr_shape H)].
      + apply (sr_lsafe H).
      + rewrite L1. left. exact Ul.
    - (* the sync happens: the vote is cast *)
      destruct (emit_unblown (OSync WRound) s1 B1) as [k2 E2].
      set (s2 := emit (OSync WRound) s1) in *.
      assert (W2 : wal_r s2 = wal_sync (wal_r s1)) by (rewrite E2; reflexivity).
      assert (L2 : wal_l s2 = wal_l s) by (rewrite E2; exact L1).
      assert (C2 : wal_c s2 = wal_c s) by (rewrite E2; exact C1).
      assert (D2 : decided s2 = decided s) by (rewrite E2; exact D1).
      assert (Sy : forall u, In (RVote u) (w_synced (wal_r s2)) <-> In (RVote u) (w_synced (wal_r s)) \/ u = v).
      { intro u. rewrite W2, W1. cbn. rewrite in_app_iff, In_app_one. split.
        - intros [A|[A|A]]; auto. exfalso; eapply Nv; eauto. inversion A; auto.
        - intros [A| ->]; auto. }
      destruct (@SimR_cast L s s2 T v H Fv P Sy Rv) as [T' [HS' [_ Dd']]].
      + intro x. rewrite W2, wal_all_sync2, W1, wal_all_write. apply In_app_one.
      + rewrite W2. cbn. intros u [].
      + exact L2.
      + rewrite C2. reflexivity.
      + exact D2.
      + assert (Hh : hvs s2 = hvs s) by (rewrite E2, E1; reflexivity).
        assert (Hlo : lock_of s2 = lock_of s) by (rewrite E2, E1; reflexivity).
        assert (Hrd : round s2 = round s) by (rewrite E2, E1; reflexivity).
        intros T' Lk' Dd. constructor; intros [R2 B2].
        * rewrite Lk', Hlo. exact Lk.
        * rewrite Hh. intros u Hu. destruct (sr_hvs H (conj R B) Hu) as [A|A]; [left; auto|right].
          unfold cast. rewrite W2, W1. cbn. apply in_or_app; auto.
        * rewrite Hrd. apply (sr_round H (conj R B)).
        * intros _. rewrite Lk'. apply (sr_lk H (conj R B) Ul).
        * rewrite W2. cbn. intros u [].
      + exists T'. split; auto. split; auto.
        intros _. unfold cast. rewrite W2, W1. cbn. apply in_or_app; right. apply in_or_app; right. left; auto.
  Qed.

  (* ---------------- the lock: memory + first record of the lock-WAL entry ---------------- *)

  Lemma SimR_lock_first L s T b ev x :
    SimR L s T -> Inv own s -> vol_ok s -> w_unsynced (wal_l s) = [] ->
    quorum_ev n (round s) Prevote (Some b) ev -> (forall u, In (Some u) ev -> known s u) ->
    bps_id x = Some b ->
    let s2 := emit (OWrite WLock (RVoteList (vs_list ev))) (set_lock (round s) x (glog_add (GLock (round s) b ev) s)) in
    exists T', SimR L s2 T' /\ TM.lock T' i = Some (Z.to_N (round s), b) /\ TM.decided T' = TM.decided T /\
               (blown s2 = false -> w_unsynced (wal_l s2) = firstn 1 (lock_entry blocks ev b)).
  Proof.
    intros H HI Ok Ul Q K X s2. destruct Ok as [R B].
    assert (Pk : TM.polka n (TM.soup T) (Z.to_N (round s)) (Some b) = true) by (eapply (sim_quorum (t:=Prevote)); eauto).
    pose proof (tm_lock n byz i Hi Hbyz T _ _ (sim_own_le H HI (conj R B)) Pk) as St.
    set (T' := TM.set_lock T i (Some (Z.to_N (round s), b))) in *.
    set (s1 := set_lock (round s) x (glog_add (GLock (round s) b ev) s)) in *.
    assert (B1 : blown s1 = false) by exact B.
    destruct (emit_unblown (OWrite WLock (RVoteList (vs_list ev))) s1 B1) as [k E2]. fold s2 in E2.
    assert (Wr : wal_r s2 = wal_r s) by (rewrite E2; reflexivity).
    assert (Wc : wal_c s2 = wal_c s) by (rewrite E2; reflexivity).
    assert (Wl : wal_l s2 = wal_write (wal_l s) (RVoteList (vs_list ev))) by (rewrite E2; reflexivity).
    assert (Dc : decided s2 = decided s) by (rewrite E2; reflexivity).
    assert (Lo : lock_of s2 = Some (round s, b)).
    { rewrite E2. unfold lock_of. cbn. destruct x as [p|]; cbn in *; [|discriminate]. inversion X; subst. reflexivity. }
    assert (Hh : hvs s2 = hvs s) by (rewrite E2; reflexivity).
    assert (Hr : round s2 = round s) by (rewrite E2; reflexivity).
    assert (KE : forall u, known s2 u <-> known s u) by (intro u; unfold known, cast; rewrite Wr; reflexivity).
    assert (M : forall u, known s u -> known s2 u) by (intro u; apply KE).
    assert (U2 : w_unsynced (wal_l s2) = firstn 1 (lock_entry blocks ev b)).
    { rewrite Wl. cbn. rewrite Ul. reflexivity. }
    exists T'. split; [|split; [subst T'; cbn; apply upd_same|split; [reflexivity|auto]]].
    constructor.
    - eapply TP.reachable_step; [apply (sr_reach H)|exact St].
    - apply frame_set_lock, (sr_frame H).
    - intro m. subst T'. cbn [TM.set_lock TM.soup]. rewrite (sr_soup H).
      split; intros [u [Ku C]]; exists u; split; auto; apply KE; auto.
    - rewrite Wr. apply (sr_rv H).
    - intros lr b0. subst T'. cbn. rewrite upd_same. intro Eq. inversion Eq; subst. exact Pk.
    - rewrite Dc. apply (sr_dec H).
    - intros u Hu. apply M. apply (sr_k0 H); auto.
    - rewrite Wr. eapply Forall_lsub_mono; [exact M|apply (sr_walr H)].
    - rewrite Wc. eapply Forall_lsub_mono; [exact M|apply (sr_walc H)].
    - rewrite Wc. apply (sr_crv H).
    - rewrite Wr. intros u Hu. exfalso. eapply (sr_nopend H (conj R B)); eauto.
    - rewrite Wr. apply (sr_pend1 H).
    - rewrite Wl. cbn. eapply lockwal_shape_mono; [exact M|apply (sr_shape H)].
    - apply (sr_lsafe H).
    - right. exists ev, b, (round s), 1%nat. split; [exact U2|split; [exact Q|split]].
      + apply vs_sub_known. intros u Hu. apply M. auto.
      + subst T'. cbn. apply upd_same.
    - intros _. subst T'. cbn. rewrite upd_same, Lo. reflexivity.
    - intros _. rewrite Hh. intros u Hu. apply M. apply (sr_hvs H (conj R B)); auto.
    - intros _. rewrite Hr. apply (sr_round H (conj R B)).
    - intros _ Eu. rewrite U2 in Eu. discriminate Eu.
    - intros _. rewrite Wr. apply (sr_nopend H (conj R B)).
  Qed.

  Lemma skipn_step {A} k (e : list A) x rest :
    skipn k e = x :: rest -> firstn (S k) e = firstn k e ++ [x] /\ skipn (S k) e = rest.
  Proof.
    revert e; induction k as [|k IH]; intros e Hs.
    - cbn in Hs. subst e. cbn. auto.
    - destruct e as [|a e]; [discriminate|]. cbn in Hs. destruct (IH e Hs) as [F1 F2]. split.
      + change (firstn (S (S k)) (a :: e)) with (a :: firstn (S k) e). rewrite F1. reflexivity.
      + exact F2.
  Qed.

  (* one more record of the entry *)
  Lemma SimR_lock_part L s T pv b r k x :
    SimR L s T ->
    quorum_ev n r Prevote (Some b) pv -> vs_sub (known s) pv -> TM.lock T i = Some (Z.to_N r, b) ->
    firstn (S k) (lock_entry blocks pv b) = firstn k (lock_entry blocks pv b) ++ [x] -> (1 <= k)%nat ->
    (blown s = false -> status_ s = Running /\ w_unsynced (wal_l s) = firstn k (lock_entry blocks pv b)) ->
    SimR L (emit (OWrite WLock x) s) T /\
    (blown (emit (OWrite WLock x) s) = false ->
       status_ (emit (OWrite WLock x) s) = Running /\
       w_unsynced (wal_l (emit (OWrite WLock x) s)) = firstn (S k) (lock_entry blocks pv b)).
  Proof.
    intros H Q Sp Lk Fk K1 Pre. destruct (blown s) eqn:B.
    { rewrite emit_blown; auto. split; auto. intro X; congruence. }
    destruct (Pre eq_refl) as [R Ul].
    destruct (emit_unblown (OWrite WLock x) s B) as [k0 E2].
    set (s2 := emit (OWrite WLock x) s) in *.
    assert (Wr : wal_r s2 = wal_r s) by (rewrite E2; reflexivity).
    assert (Wc : wal_c s2 = wal_c s) by (rewrite E2; reflexivity).
    assert (Wl : wal_l s2 = wal_write (wal_l s) x) by (rewrite E2; reflexivity).
    assert (U2 : w_unsynced (wal_l s2) = firstn (S k) (lock_entry blocks pv b)).
    { rewrite Wl, Fk. cbn. rewrite Ul. reflexivity. }
    assert (Ne : w_unsynced (wal_l s2) <> []).
    { rewrite U2, Fk. intro X. apply app_eq_nil in X as [_ X]. discriminate. }
    assert (R2 : status_ s2 = Running) by (rewrite E2; destruct x; exact R).
    split; [|auto].
    assert (KE : forall u, known s2 u <-> known s u) by (intro u; unfold known, cast; rewrite Wr; reflexivity).
    assert (M : forall u, known s u -> known s2 u) by (intro u; apply KE).
    assert (Ok : vol_ok s2 -> vol_ok s) by (intros _; split; auto).
    constructor.
    - apply (sr_reach H).
    - apply (sr_frame H).
    - intro m. rewrite (sr_soup H). split; intros [u [Ku C]]; exists u; split; auto; apply KE; auto.
    - rewrite Wr. apply (sr_rv H).
    - apply (sr_lpolka H).
    - rewrite E2. destruct x; apply (sr_dec H).
    - intros u Hu. apply M. apply (sr_k0 H); auto.
    - rewrite Wr. eapply Forall_lsub_mono; [exact M|apply (sr_walr H)].
    - rewrite Wc. eapply Forall_lsub_mono; [exact M|apply (sr_walc H)].
    - rewrite Wc. apply (sr_crv H).
    - rewrite Wr. intros u Hu. exfalso. eapply (sr_nopend H (conj R B)); eauto.
    - rewrite Wr. apply (sr_pend1 H).
    - rewrite Wl. cbn. eapply lockwal_shape_mono; [exact M|apply (sr_shape H)].
    - apply (sr_lsafe H).
    - right. exists pv, b, r, (S k). split; [exact U2|split; [exact Q|split; [|exact Lk]]].
      eapply vs_sub_mono; [exact M|exact Sp].
    - intro O. rewrite E2. destruct x; apply (sr_lock H (Ok O)).
    - intros O u Hu. apply M. apply (sr_hvs H (Ok O)). rewrite E2 in Hu. destruct x; exact Hu.
    - intro O. rewrite E2. destruct x; apply (sr_round H (Ok O)).
    - intros _ Eu. contradiction.
    - intro O. rewrite Wr. apply (sr_nopend H (Ok O)).
  Qed.

  Lemma SimR_lock_parts L pv b r T :
    quorum_ev n r Prevote (Some b) pv -> TM.lock T i = Some (Z.to_N r, b) ->
    forall l k s,
      skipn k (lock_entry blocks pv b) = map (RPart b) l -> (1 <= k)%nat ->
      SimR L s T -> vs_sub (known s) pv ->
      (blown s = false -> status_ s = Running /\ w_unsynced (wal_l s) = firstn k (lock_entry blocks pv b)) ->
      let s' := emit_all (map (fun idx => OWrite WLock (RPart b idx)) l) s in
      SimR L s' T /\ vs_sub (known s') pv /\
      (blown s' = false -> status_ s' = Running /\ w_unsynced (wal_l s') = lock_entry blocks pv b).
  Proof.
    intros Q Lk. induction l as [|idx l IH]; intros k s Sk K1 H Sp Pre; cbn [map emit_all].
    - cbn in Sk. split; [auto|split; [auto|]]. intro B. destruct (Pre B) as [R U]. split; auto.
      rewrite U. rewrite <- (firstn_skipn k (lock_entry blocks pv b)) at 2. rewrite Sk. symmetry. apply app_nil_r.
    - cbn [map] in Sk. destruct (skipn_step _ _ Sk) as [Fk Sk'].
      destruct (@SimR_lock_part L s T pv b r k (RPart b idx) H Q Sp Lk Fk K1 Pre) as [H1 Pre1].
      apply (IH (S k) _ Sk'); auto.
      (* known does not change by a lock-WAL write *)
      intros j v Hj. specialize (Sp j v Hj). destruct Sp as [A|A]; [left; auto|right].
      unfold cast in *. destruct (blown s) eqn:B; [rewrite emit_blown; auto|].
      destruct (emit_unblown (OWrite WLock (RPart b idx)) s B) as [k0 ->]. exact A.
  Qed.

  (* the entry is synced: it is the lock a restart restores from now on *)
  Lemma SimR_lock_sync L s T pv b r :
    SimR L s T ->
    quorum_ev n r Prevote (Some b) pv -> vs_sub (known s) pv -> TM.lock T i = Some (Z.to_N r, b) ->
    (blown s = false -> status_ s = Running /\ w_unsynced (wal_l s) = lock_entry blocks pv b) ->
    exists L', SimR L' (emit (OSync WLock) s) T /\
               (blown (emit (OSync WLock) s) = false -> w_unsynced (wal_l (emit (OSync WLock) s)) = []).
  Proof.
    intros H Q Sp Lk Pre. destruct (blown s) eqn:B.
    { rewrite emit_blown; auto. exists L. split; auto. intro X; congruence. }
    destruct (Pre eq_refl) as [R Ul].
    destruct (emit_unblown (OSync WLock) s B) as [k0 E2].
    set (s2 := emit (OSync WLock) s) in *.
    assert (Wr : wal_r s2 = wal_r s) by (rewrite E2; reflexivity).
    assert (Wc : wal_c s2 = wal_c s) by (rewrite E2; reflexivity).
    assert (Wl : wal_l s2 = wal_sync (wal_l s)) by (rewrite E2; reflexivity).
    assert (U2 : w_unsynced (wal_l s2) = []) by (rewrite Wl; reflexivity).
    exists (Some (b, r)). split; [|auto].
    assert (KE : forall u, known s2 u <-> known s u) by (intro u; unfold known, cast; rewrite Wr; reflexivity).
    assert (M : forall u, known s u -> known s2 u) by (intro u; apply KE).
    assert (Ok : vol_ok s2 -> vol_ok s) by (intros _; split; auto).
    assert (CO : TM.correct n byz i = true) by (apply correct_i; auto).
    constructor.
    - apply (sr_reach H).
    - apply (sr_frame H).
    - intro m. rewrite (sr_soup H). split; intros [u [Ku C]]; exists u; split; auto; apply KE; auto.
    - rewrite Wr. apply (sr_rv H).
    - apply (sr_lpolka H).
    - rewrite E2. apply (sr_dec H).
    - intros u Hu. apply M. apply (sr_k0 H); auto.
    - rewrite Wr. eapply Forall_lsub_mono; [exact M|apply (sr_walr H)].
    - rewrite Wc. eapply Forall_lsub_mono; [exact M|apply (sr_walc H)].
    - rewrite Wc. apply (sr_crv H).
    - rewrite Wr. intros u Hu. exfalso. eapply (sr_nopend H (conj R B)); eauto.
    - rewrite Wr. apply (sr_pend1 H).
    - rewrite Wl. cbn. rewrite Ul.
      eapply LS_entry; [eapply lockwal_shape_mono; [exact M|apply (sr_shape H)]|exact Q| |apply nparts_pos].
      eapply vs_sub_mono; [exact M|exact Sp].
    - cbn. rewrite <- Lk. apply (TP.lock_safe_same n byz Hb3 T i (sr_reach H) CO).
    - left. exact U2.
    - intro O. rewrite E2. apply (sr_lock H (Ok O)).
    - intros O u Hu. apply M. apply (sr_hvs H (Ok O)). rewrite E2 in Hu. exact Hu.
    - intro O. rewrite E2. apply (sr_round H (Ok O)).
    - intros _ _. right. exact Lk.
    - intro O. rewrite Wr. apply (sr_nopend H (Ok O)).
  Qed.

  (* ---------------- volatile steps ---------------- *)

  Lemma SimR_set_hvs L h s T :
    (vol_ok s -> forall u, hvs_has h u -> known s u) -> SimR L s T -> SimR L (set_hvs h s) T.
  Proof.
    intros K H. apply (@SimR_dur L s); auto; [constructor; reflexivity|].
    constructor; intro O.
    - apply (sr_lock H O).
    - intros u Hu. apply (K O u Hu).
    - apply (sr_round H O).
    - apply (sr_lk H O).
    - apply (sr_nopend H O).
  Qed.

  Lemma SimR_new_round L r s T : round s < r -> SimR L s T -> SimR L (new_round r s) T.
  Proof.
    intros Lt H. apply (@SimR_dur L s); auto; [constructor; reflexivity|].
    constructor; intro O.
    - apply (sr_lock H O).
    - intros u Hu. apply (sr_hvs H O). cbn [new_round hvs set_stp set_hvs set_round set_cur set_pol set_timer] in Hu. eapply hvs_remove_lower_in; eauto.
    - pose proof (sr_round H O). cbn. lia.
    - apply (sr_lk H O).
    - apply (sr_nopend H O).
  Qed.

  Lemma SimR_set_status L x s T : x <> Running -> SimR L s T -> SimR L (set_status x s) T.
  Proof.
    intros N H. apply (@SimR_dead L s); auto; [constructor; reflexivity|]. intros [R _]. cbn in R. contradiction.
  Qed.

  Lemma SimR_new_step L t s T : SimR L s T -> SimR L (new_step t s) T.
  Proof.
    intro H. unfold new_step. destruct (valid_transition _ _).
    - apply (@SimR_same L s); auto; constructor; auto.
    - apply SimR_set_status; [discriminate|]. apply (@SimR_same L s); auto; constructor; auto.
  Qed.

  (* unlock: the abstract lock is dropped on the same polka *)
  Lemma SimR_unlock_on L s T r w ev :
    SimR L s T -> (vol_ok s -> w_unsynced (wal_l s) = []) ->
    (vol_ok s -> forall l, locked s = Some l -> gev_ok n (GUnlock (locked_round s) (p_id l) r w ev)) ->
    (vol_ok s -> forall u, In (Some u) ev -> known s u) ->
    exists T', SimR L (unlock_on r w ev s) T' /\ TM.decided T' = TM.decided T.
  Proof.
    intros H Ul G K.
    assert (D : dur_same s (unlock_on r w ev s)) by (unfold unlock_on; destruct (locked s); constructor; reflexivity).
    assert (St : status_ (unlock_on r w ev s) = status_ s) by (unfold unlock_on; destruct (locked s); reflexivity).
    assert (Bl : blown (unlock_on r w ev s) = blown s) by (unfold unlock_on; destruct (locked s); reflexivity).
    assert (OkE : vol_ok (unlock_on r w ev s) <-> vol_ok s) by (unfold vol_ok; rewrite St, Bl; tauto).
    assert (Lo : lock_of (unlock_on r w ev s) = None) by (unfold unlock_on; destruct (locked s); reflexivity).
    assert (Hh : hvs (unlock_on r w ev s) = hvs s) by (unfold unlock_on; destruct (locked s); reflexivity).
    assert (Rd : round (unlock_on r w ev s) = round s) by (unfold unlock_on; destruct (locked s); reflexivity).
    assert (KE := known_dur D).
    destruct (status_ s) eqn:R.
    2,3: exists T; split; auto; apply (@SimR_dead L s); auto; intros [X _]; congruence.
    destruct (blown s) eqn:B.
    { exists T; split; auto. apply (@SimR_dead L s); auto. intros [_ X]; congruence. }
    assert (Ok : vol_ok s) by (split; auto).
    destruct (locked s) as [l|] eqn:Lc.
    - destruct (G Ok l eq_refl) as [Le [Nw Q]].
      assert (Pk : TM.polka n (TM.soup T) (Z.to_N r) w = true) by (eapply (sim_quorum (t:=Prevote)); eauto).
      assert (Lk : TM.lock T i = Some (Z.to_N (locked_round s), p_id l)).
      { rewrite (sr_lock H Ok). unfold lock_of. rewrite Lc. reflexivity. }
      assert (Stp := tm_unlock n byz i Hi Hbyz T _ _ (Z.to_N r) w Lk ltac:(lia) Nw Pk).
      exists (TM.set_lock T i None). split; [|reflexivity].
      destruct D as [Er El Ec Ed].
      constructor.
      + eapply TP.reachable_step; [apply (sr_reach H)|exact Stp].
      + apply frame_set_lock, (sr_frame H).
      + intro m. cbn [TM.set_lock TM.soup]. rewrite (sr_soup H).
        split; intros [u [Ku C]]; exists u; split; auto; apply KE; auto.
      + rewrite Er. apply (sr_rv H).
      + intros lr b0. cbn. rewrite upd_same. discriminate.
      + rewrite Ed. apply (sr_dec H).
      + intros u Hu. apply KE. apply (sr_k0 H); auto.
      + rewrite Er. eapply Forall_lsub_mono; [|apply (sr_walr H)]. intro u; apply KE.
      + rewrite Ec. eapply Forall_lsub_mono; [|apply (sr_walc H)]. intro u; apply KE.
      + rewrite Ec. apply (sr_crv H).
      + rewrite Er. intros u Hu. exfalso. eapply (sr_nopend H Ok); eauto.
      + rewrite Er. apply (sr_pend1 H).
      + rewrite El. eapply lockwal_shape_mono; [|apply (sr_shape H)]. intro u; apply KE.
      + apply (sr_lsafe H).
      + left. rewrite El. apply Ul; auto.
      + intros _. cbn. rewrite upd_same, Lo. reflexivity.
      + intros _. rewrite Hh. intros u Hu. apply KE. apply (sr_hvs H Ok); auto.
      + intros _. rewrite Rd. apply (sr_round H Ok).
      + intros _ _. left. cbn. apply upd_same.
      + intros _. rewrite Er. apply (sr_nopend H Ok).
    - exists T. split; auto. pose proof (sr_lock H Ok) as Lk. unfold lock_of in Lk. rewrite Lc in Lk. cbn in Lk.
      apply (@SimR_dur L s); auto. constructor; intro O.
      + rewrite Lo. exact Lk.
      + rewrite Hh. intros u Hu. apply KE. apply (sr_hvs H Ok); auto.
      + rewrite Rd. apply (sr_round H Ok).
      + destruct D as [Er El Ec Ed]. rewrite El. apply (sr_lk H Ok).
      + destruct D as [Er El Ec Ed]. rewrite Er. apply (sr_nopend H Ok).
  Qed.

  (* enterCommit: the abstract decision *)
  Lemma SimR_decide L s T r b :
    SimR L s T -> vol_ok s ->
    quorum_ev n r Precommit (Some b) (hvs_for n (hvs s) r Precommit) ->
    exists T', SimR L s T' /\ TM.decided T' i = Some b.
  Proof.
    intros H Ok Q.
    assert (Qp : TM.qprecommit n (TM.soup T) (Z.to_N r) (Some b) = true).
    { eapply (sim_quorum (t:=Precommit)); eauto. intros u Hu. apply (sr_hvs H Ok). eapply hvs_for_in; eauto. }
    pose proof (tm_decide n byz i Hi Hbyz T _ _ Qp) as St.
    exists (TM.mkState (TM.soup T) (TM.lock T) (TM.upd (TM.decided T) i (Some b))).
    split; [|cbn; apply upd_same].
    assert (Rc : TM.reachable n byz T) by apply (sr_reach H).
    destruct H. constructor; auto.
    - eapply TP.reachable_step; eauto.
    - apply frame_decide; auto.
    - intros b0 Eb. cbn. rewrite upd_same.
      (* an earlier decision of this slot is for the same block *)
      specialize (sr_dec0 _ Eb).
      destruct (TP.tm_decide_needs_quorum n byz Hb3 T i b0 Rc sr_dec0) as [r0 Q0].
      f_equal. symmetry. exact (TP.one_block_per_height n byz Hb3 T r0 b0 (Z.to_N r) b Rc Q0 Qp).
  Qed.

  (* ---------------- the relation at full strength: lock WAL synced, commit remembered ---------------- *)

  Record SimS (L : option (N * Z)) (s : st) (T : TM.state) : Prop := {
    ss_r : SimR L s T;
    ss_lsync : vol_ok s -> w_unsynced (wal_l s) = [];
    ss_commit : vol_ok s -> stp s = SCommit -> TM.decided T i = bps_id (cur s)
  }.

  Lemma SimS_dead L s s' T : dur_same s s' -> ~ vol_ok s' -> SimS L s T -> SimS L s' T.
  Proof.
    intros D N [H _ _]. constructor; try (intro; contradiction). eapply SimR_dead; eauto.
  Qed.

  (* finalize: the block was decided when the engine entered commit *)
  Lemma SimS_finalize L s T b :
    SimS L s T -> status_ s = Running -> stp s = SCommit -> bps_id (cur s) = Some b ->
    SimS L (emit (OFinalize b) s) T.
  Proof.
    intros [H Ul Cm] R St Cu. destruct (blown s) eqn:B; [rewrite emit_blown; auto; constructor; auto|].
    assert (Ok : vol_ok s) by (split; auto).
    destruct (emit_unblown (OFinalize b) s B) as [k ->].
    set (s' := apply_out (OFinalize b) (set_outs (outs s ++ [OFinalize b]) k s)).
    assert (Dd : TM.decided T i = Some b) by (rewrite (Cm Ok St); exact Cu).
    assert (KE : forall u, known s' u <-> known s u) by (intro u; reflexivity).
    constructor.
    - constructor.
      + apply (sr_reach H).
      + apply (sr_frame H).
      + apply (sr_soup H).
      + apply (sr_rv H).
      + apply (sr_lpolka H).
      + intros b0 Eb. cbn in Eb. inversion Eb; subst. exact Dd.
      + apply (sr_k0 H).
      + apply (sr_walr H).
      + apply (sr_walc H).
      + apply (sr_crv H).
      + apply (sr_pend H).
      + apply (sr_pend1 H).
      + apply (sr_shape H).
      + apply (sr_lsafe H).
      + apply (sr_lpart H).
      + intros _. apply (sr_lock H Ok).
      + intros _. apply (sr_hvs H Ok).
      + intros _. apply (sr_round H Ok).
      + intros _. apply (sr_lk H Ok).
      + intros _. apply (sr_nopend H Ok).
    - intros _. apply (Ul Ok).
    - intros _ _. apply (Cm Ok St).
  Qed.

  (* ---------------- crash: a prefix of the unsynced records survives ---------------- *)

  Lemma In_firstn {A} k (l : list A) x : In x (firstn k l) -> In x l.
  Proof. revert l; induction k; intros [|a l]; cbn; try tauto. intros [?|?]; auto. Qed.

  Lemma wal_all_crash_in w k x : In x (wal_all (wal_crash w k)) -> In x (wal_all w).
  Proof.
    unfold wal_all, wal_crash. cbn. rewrite !in_app_iff. intros [A|A]; auto. right. eapply In_firstn; eauto.
  Qed.

  Lemma SimS_crash L kr kl kc s T : SimS L s T -> SimS L (crash kr kl kc s) T.
  Proof.
    intros [H _ _]. unfold crash.
    set (s' := set_status Down (set_wals (wal_crash (wal_r s) kr) (wal_crash (wal_l s) kl) (wal_crash (wal_c s) kc) s)).
    assert (Dead : ~ vol_ok s') by (intros [R _]; discriminate R).
    constructor; try (intro; contradiction).
    assert (KE : forall u, known s' u <-> known s u) by (intro u; reflexivity).
    constructor; try (intro; contradiction).
    - apply (sr_reach H).
    - apply (sr_frame H).
    - apply (sr_soup H).
    - intros v Hv. apply (sr_rv H). apply (@wal_all_crash_in (wal_r s) kr). exact Hv.
    - apply (sr_lpolka H).
    - apply (sr_dec H).
    - apply (sr_k0 H).
    - change (Forall (lsub (known s)) (wal_all (wal_crash (wal_r s) kr))).
      apply Proofs_ConsensusNet_Run.Forall_wal_crash. apply (sr_walr H).
    - change (Forall (lsub (known s)) (wal_all (wal_crash (wal_c s) kc))).
      apply Proofs_ConsensusNet_Run.Forall_wal_crash. apply (sr_walc H).
    - intros v Hv. apply (sr_crv H v). apply (@wal_all_crash_in (wal_c s) kc). exact Hv.
    - intros v Hv. cbn in Hv. apply In_firstn in Hv. destruct (sr_pend H v Hv) as [A B]. split; auto.
      destruct (v_type v); auto. destruct (v_dec v); auto. destruct B as [B1 [B2 B3]]. repeat split; auto.
      cbn. rewrite B3. destruct kl; reflexivity.
    - intros u v Hu Hv. cbn in Hu, Hv. apply In_firstn in Hu. apply In_firstn in Hv. apply (sr_pend1 H); auto.
    - apply (sr_shape H).
    - apply (sr_lsafe H).
    - cbn. destruct (sr_lpart H) as [A|[pv [b [r0 [k0 [A [B' [C D]]]]]]]].
      + left. rewrite A. destruct kl; reflexivity.
      + right. exists pv, b, r0, (Nat.min kl k0). split; [|auto]. rewrite A. apply firstn_firstn.
  Qed.

  (* ---------------- restart ---------------- *)

  Lemma restart_s0_stp s s0 ok L :
    InvD n s -> restart_s0 n own blocks s = (s0, ok, L) -> stp s0 <> SCommit.
  Proof.
    intros HD E1. unfold restart_s0 in E1.
    set (wr := wal_recover (wal_r s)) in *. set (wl := wal_recover (wal_l s)) in *. set (wc := wal_recover (wal_c s)) in *.
    destruct (fold_left (apply_round_rec n own) (w_synced wr) _) as [[h rs] ok'] eqn:F1.
    destruct (fold_left (apply_lock_rec n blocks) (w_synced wl) _) as [[[h2 rs2] bp] last] eqn:F2.
    destruct (fold_left (apply_commit_rec n) (w_synced wc) _) as [h3 rs3] eqn:F3.
    inversion E1; subst s0 ok L; clear E1.
    destruct (@fold_round_inv n own (w_synced wr) ([], (0, SNewHeight), true) (hvs_wf_nil n)) as [W1 S1].
    { unfold restorable; cbn; auto. }
    rewrite F1 in W1, S1. cbn [fst snd] in W1, S1.
    assert (LW : Forall lockrec_ok (w_synced wl)) by (subst wl; cbn; apply (d_lockwal HD)).
    assert (A2 : lock_acc_ok n (h2, rs2, bp, last)).
    { rewrite <- F2. apply fold_lock_inv; auto. apply lock_acc_ok_intro; auto; intros; discriminate. }
    destruct A2 as [W2 [S2 _]].
    destruct (@fold_commit_inv n (w_synced wc) (h2, rs2) W2 S2) as [W3 S3].
    rewrite F3 in W3, S3. cbn [fst snd] in W3, S3.
    cbn. apply restorable_not_commit; auto.
  Qed.

  Lemma firstn_all_ge {A} k (l : list A) : (length l <=? k)%nat = true -> firstn k l = l.
  Proof. intro H. apply Nat.leb_le in H. apply firstn_all2; auto. Qed.

  Lemma SimS_restart L s T :
    SimS L s T -> Inv own s -> InvD n s ->
    exists s0 ok L' T',
      restart_s0 n own blocks s = (s0, ok, L') /\ SimS L' s0 T' /\ Inv own s0 /\ InvD n s0.
  Proof.
    intros [H _ _] HI HD.
    (* 1. the round WAL is recovered: a surviving pending own vote is cast *)
    set (sr := set_wals (wal_sync (wal_r s)) (wal_l s) (wal_c s) (set_status Down s)).
    destruct (@SimR_syncr_state L s sr T H eq_refl eq_refl eq_refl eq_refl) as [T1 [H1 [Lk1 Dd1]]].
    { intros T' _ _ _. apply volR_dead. intros [R _]. discriminate R. }
    set (K := known sr).
    assert (KW : forall v, K v <-> In v E \/ In (RVote v) (wal_all (wal_r s))).
    { intro v. unfold K, known, cast, sr. cbn. reflexivity. }
    assert (M0 : forall v, known s v -> K v).
    { intros v [A|A]; apply KW; auto. right. unfold wal_all. apply in_or_app; auto. }
    (* one polka per round among the known votes *)
    assert (KU : forall r vs d vs' d',
      vs_wf n r Prevote vs -> vs_sub K vs -> over23 (vs_count_dec vs d) n = true ->
      vs_wf n r Prevote vs' -> vs_sub K vs' -> over23 (vs_count_dec vs' d') n = true -> d = d').
    { intros r vs d vs' d' W S O W' S' O'.
      assert (Q : TM.polka n (TM.soup T1) (Z.to_N r) d = true).
      { refine (sim_quorum (t:=Prevote) H1 (conj W O) _). apply known_vs_sub; auto. }
      assert (Q' : TM.polka n (TM.soup T1) (Z.to_N r) d' = true).
      { refine (sim_quorum (t:=Prevote) H1 (conj W' O') _). apply known_vs_sub; auto. }
      exact (TP.one_polka_per_round n byz Hb3 T1 (Z.to_N r) d d' (sr_reach H1) Q Q'). }
    (* 2. the lock WAL: the unsynced part of an entry that survived is part of the WAL now *)
    assert (Sh : exists L', lockwal_shape n blocks K (wal_all (wal_l s)) L' /\
                            TM.lock_safe n (TM.soup T1) i (convL L') = true).
    { pose proof (sr_shape H1) as Sh1. pose proof (sr_lsafe H1) as Ls1. cbn in Sh1.
      destruct (sr_lpart H1) as [A|[pv [b [r0 [k0 [A [Q [C D]]]]]]]]; cbn in A.
      - exists L. split; auto. unfold wal_all. rewrite A, app_nil_r. exact Sh1.
      - eexists. split.
        + unfold wal_all. rewrite A. apply (lockwal_shape_app_firstn k0 Sh1 Q C (nparts_pos b)).
        + destruct (length (lock_entry blocks pv b) <=? k0)%nat; auto.
          cbn. rewrite <- D. apply (TP.lock_safe_same n byz Hb3 T1 i (sr_reach H1)). apply correct_i; auto. }
    destruct Sh as [L' [Sh Ls]].
    (* 3. the folds of restart *)
    destruct (fold_left (apply_round_rec n own) (wal_all (wal_r s)) ([], (0, SNewHeight), true)) as [[h rs] ok] eqn:FR.
    assert (RS : Forall (rec_sub K) (wal_all (wal_r s))).
    { apply Forall_forall. intros x Hx. destruct x as [v| |l| |]; cbn; auto.
      - apply KW. auto.
      - pose proof (sr_walr H1) as W. rewrite Forall_forall in W.
        assert (In (RVoteList l) (wal_all (wal_r sr))) by (unfold sr; cbn -[wal_all]; rewrite wal_all_sync2; exact Hx).
        apply (W _ H0). }
    assert (RC : Forall (rec_sub K) (wal_all (wal_c s))).
    { apply Forall_forall. intros x Hx. destruct x as [v| |l| |]; cbn; auto.
      - exfalso. apply (sr_crv H1 v). exact Hx.
      - pose proof (sr_walc H1) as W. rewrite Forall_forall in W. apply (W _ Hx). }
    assert (Hh : hvs_sub K h).
    { pose proof (@fold_round_sub n own K (wal_all (wal_r s)) ([], (0, SNewHeight), true) RS (hvs_sub_nil K)) as X.
      rewrite FR in X. exact X. }
    destruct (restart_s0_lock own KU s FR Hh Sh)
      as [s0 [E0 [R0 [Lr0 [Lk0 [Cu0 [Lo0 [W0 [S0 [Wl0 [Wr0 [Wc0 [Se0 [Gl0 [De0 _]]]]]]]]]]]]]]].
    destruct (@Proofs_ConsensusNet_Run.restart_s0_inv n byz blocks i Hi Hb3 s s0 ok L' HI HD E0) as [HI0 [HD0 [Rd0 Fu0]]].
    pose proof (restart_s0_stp HD E0) as St0.
    pose proof (tm_setlock n byz i Hi Hbyz T1 _ Ls) as St.
    exists s0, ok, L', (TM.set_lock T1 i (convL L')). split; auto. split; [|auto].
    assert (KE : forall v, known s0 v <-> K v).
    { intro v. rewrite KW. unfold known, cast. rewrite Wr0. cbn. reflexivity. }
    assert (M : forall v, K v -> known s0 v) by (intro v; apply KE).
    constructor.
    - constructor.
      + eapply TP.reachable_step; [apply (sr_reach H1)|exact St].
      + apply frame_set_lock, (sr_frame H1).
      + intro m. cbn [TM.set_lock TM.soup]. rewrite (sr_soup H1).
        split; intros [v [Kv C]]; exists v; split; auto; apply KE; auto.
      + rewrite Wr0, Proofs_ConsensusNet_Run.wal_all_recover. apply (sr_rv H).
      + intros lr b. cbn. rewrite upd_same. intro El.
        destruct L' as [[b0 r0]|]; [|discriminate]. cbn in El. inversion El; subst.
        destruct (Proofs_ConsensusNet_Run.shape_quorum Sh) as [pv [Q Sp]].
        refine (sim_quorum (t:=Prevote) H1 Q _). apply known_vs_sub; auto.
      + rewrite De0. cbn. apply (sr_dec H1).
      + intros v Hv. apply M. apply (sr_k0 H1); auto.
      + rewrite Wr0, Proofs_ConsensusNet_Run.wal_all_recover.
        pose proof (sr_walr H1) as W. unfold sr in W. cbn -[wal_all] in W. rewrite wal_all_sync2 in W.
        eapply Forall_lsub_mono; [exact M|exact W].
      + rewrite Wc0, Proofs_ConsensusNet_Run.wal_all_recover.
        eapply Forall_lsub_mono; [exact M|apply (sr_walc H1)].
      + rewrite Wc0, Proofs_ConsensusNet_Run.wal_all_recover. apply (sr_crv H1).
      + rewrite Wr0. cbn. intros v [].
      + rewrite Wr0. cbn. intros u v [].
      + rewrite Wl0. cbn. eapply lockwal_shape_mono; [exact M|exact Sh].
      + exact Ls.
      + left. rewrite Wl0. reflexivity.
      + intros _. cbn. rewrite upd_same, Lo0. destruct L' as [[b r]|]; reflexivity.
      + intros _ u Hu. apply M. eapply Proofs_ConsensusNet_Run.hvs_sub_has; [apply S0; exact RC|exact Hu].
      + intros _. exact Rd0.
      + intros _ _. right. cbn. apply upd_same.
      + intros _. rewrite Wr0. cbn. intros v [].
    - intros _. rewrite Wl0. reflexivity.
    - intros _ Es. contradiction.
  Qed.

End Sim2.
