(* Link_C02.v -- ties the scalar decisions of Model_ConsensusNode (properties C02 and the
   engine half of C01) to the kernels that tools/go2coq re-generates from
   consensus/consensus.go, consensus/step.go and consensus/voteset.go on every run:

     isValidTransition       <->  valid_transition      (on the iota values of step.go)
     getProposerIndex        <->  proposer              ((height+round) mod n at height 1)
     hasOverTwoThirds        <->  over23 / vs_has23     (voteSet.hasOverTwoThirds)
     overTwoThirdsDecision   <->  over23 inside vs_over23
                                  (getOverTwoThirdsRoundDecisionDigest: max > len*2/3)

   The model works on an enumeration of steps, on nat counters and on unbounded Z; the
   kernels on Z with Go int wrapping.  The equalities are on the injected values, for
   every validator count a Go slice can have (n <= 2^62-1) and every round for which
   height+round fits an int64.  Proved from the kernels' characterising lemmas
   (Proofs_K_<name>.v), never from the shape of the generated text: `<` turned into
   `<=` in isValidTransition, two swapped step constants, `+` into `-` in
   getProposerIndex, `>` into `>=` in voteset.go break Proofs_K_<name>.v, hence this
   file, hence Prop_C02.v.
   Style: stdlib, lia. *)
From Coq Require Import List ZArith NArith Bool Arith Lia ZifyBool ZifyN ZifyNat.
From Goloop Require Import lib.GoInt Model_ConsensusNode.
From Goloop Require Import Proofs_K_tactics Proofs_K_isValidTransition Proofs_K_getProposerIndex
  Proofs_K_hasOverTwoThirds Proofs_K_overTwoThirdsDecision.
From Goloop.gen Require Export K_isValidTransition K_getProposerIndex K_hasOverTwoThirds
  K_overTwoThirdsDecision.
Import ListNotations.
Local Open Scope nat_scope.

Ltac Zify.zify_post_hook ::= Z.to_euclidean_division_equations.

(* ---- isValidTransition ---- *)

(* the iota block of consensus/step.go, as the model numbers the steps *)
Definition step_z (s : step) : Z := Z.of_N (step_code s).

Lemma valid_transition_is_isValidTransition (from to : step) :
  valid_transition from to = isValidTransition (step_z from) (step_z to).
Proof.
  apply bool_eq_iff. rewrite isValidTransition_spec.
  destruct from, to; cbn; lia.
Qed.

(* ---- getProposerIndex ---- *)

Lemma proposer_is_getProposerIndex (n : nat) (r : Z) :
  (0 <= r)%Z -> (1 + r <= 9223372036854775807)%Z ->
  (0 < Z.of_nat n <= 9223372036854775807)%Z ->
  proposer n r = getProposerIndex 1 r (Z.of_nat n).
Proof.
  intros Hr Hs Hn. rewrite getProposerIndex_spec by lia. reflexivity.
Qed.

(* ---- the +2/3 tests of the vote set ---- *)

Lemma over23_spec (c n : nat) : over23 c n = true <-> 2 * n < 3 * c.
Proof. unfold over23. rewrite Nat.ltb_lt. lia. Qed.

Lemma over23_is_hasOverTwoThirds (c n : nat) :
  (Z.of_nat n <= 4611686018427387903)%Z ->
  over23 c n = hasOverTwoThirds (Z.of_nat c) (Z.of_nat n).
Proof.
  intros Hn. apply bool_eq_iff. rewrite over23_spec, hasOverTwoThirds_spec by lia. lia.
Qed.

Lemma over23_is_overTwoThirdsDecision (c n : nat) :
  (Z.of_nat n <= 4611686018427387903)%Z ->
  over23 c n = overTwoThirdsDecision (Z.of_nat c) (Z.of_nat n).
Proof.
  intros Hn. apply bool_eq_iff. rewrite over23_spec, overTwoThirdsDecision_spec by lia. lia.
Qed.

(* voteSet.hasOverTwoThirds on (vs.count, len(vs.msgs)) *)
Lemma vs_has23_is_hasOverTwoThirds (vs : vset) :
  (Z.of_nat (length vs) <= 4611686018427387903)%Z ->
  vs_has23 vs = hasOverTwoThirds (Z.of_nat (vs_count vs)) (Z.of_nat (length vs)).
Proof. intros Hn. unfold vs_has23. apply over23_is_hasOverTwoThirds. exact Hn. Qed.

(* the test of getOverTwoThirdsRoundDecisionDigest on the counter of a decision *)
Lemma vs_over23_test_is_overTwoThirdsDecision (vs : vset) (d : option N) :
  (Z.of_nat (length vs) <= 4611686018427387903)%Z ->
  over23 (vs_count_dec vs d) (length vs)
  = overTwoThirdsDecision (Z.of_nat (vs_count_dec vs d)) (Z.of_nat (length vs)).
Proof. intros Hn. apply over23_is_overTwoThirdsDecision. exact Hn. Qed.

Definition kernel_params_pinned : Prop :=
  isValidTransition_params = ["from"; "to"]%string /\
  getProposerIndex_params = ["height"; "round"; "validators.Len()"]%string /\
  hasOverTwoThirds_params = ["vs.count"; "len(vs.msgs)"]%string /\
  overTwoThirdsDecision_params = ["max"; "len(vs.msgs)"]%string.

Lemma kernel_params_ok : kernel_params_pinned.
Proof.
  exact (conj eq_refl (conj getProposerIndex_params_ok
          (conj hasOverTwoThirds_params_ok overTwoThirdsDecision_params_ok))).
Qed.

Example link_c02_nontrivial :
  valid_transition SPrevote SPrecommit = true /\ isValidTransition 4 6 = true /\
  valid_transition SPrecommit SPrevote = false /\ isValidTransition 6 4 = false /\
  isValidTransition 8 0 = true /\ isValidTransition 4 4 = false /\
  proposer 4 6 = 3%Z /\ getProposerIndex 1 6 4 = 3%Z /\
  over23 3 4 = true /\ hasOverTwoThirds 3 4 = true /\ overTwoThirdsDecision 2 3 = false.
Proof. repeat split; reflexivity. Qed.
