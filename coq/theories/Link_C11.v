(* Link_C11.v -- ties the scalar decisions of Model_Locator (property C11) to the kernels
   that tools/go2coq re-generates from service/tschecker.go and
   common/txlocator/manager.go on every run:

     CheckTxTimestamp     <->  check_ts          (error classes 0 ok / 1 Expired / 2 Future)
     timestampRangeMin    <->  the `bts - th` of range_check   (NewTimestampRange field min)
     timestampRangeMax    <->  the `bts + th` of range_check   (NewTimestampRange field max)
     trackerHasGuard      <->  skip_own VCode    (guard at the head of tracker.Has)
     locatorCacheMiss     <->  db_skip VCode     (maxTSInDB shortcut of hasLocatorInCache)

   The model uses unbounded Z; the kernels wrap int64 arithmetic, so the equalities
   carry the range hypothesis under which the Go addition/subtraction does not
   overflow.  Every proof goes through the kernel's characterising lemma
   (Proofs_K_<name>.v), never through the shape of the generated text:  `<=` turned
   into `<` in CheckTxTimestamp, `>=` into `>` in tracker.Has, `<` into `<=` in
   hasLocatorInCache, or swapped min/max in NewTimestampRange break
   Proofs_K_<name>.v, hence this file, hence Prop_C11.v -- and nothing else.
   Argument order: positional, as pinned by <name>_params_ok.
   Style: stdlib, lia. *)
From Goloop Require Import lib.Bytes lib.GoInt Model_Locator Proofs_Locator.
From Goloop Require Import Proofs_K_tactics Proofs_K_CheckTxTimestamp Proofs_K_timestampRangeMin
  Proofs_K_timestampRangeMax Proofs_KX_timestampRange_window Proofs_K_trackerHasGuard
  Proofs_K_locatorCacheMiss.
From Goloop.gen Require Export K_CheckTxTimestamp K_timestampRangeMin K_timestampRangeMax
  K_trackerHasGuard K_locatorCacheMiss.
From Coq Require Import ZifyBool ZifyN.
Import ListNotations.
Local Open Scope Z_scope.

Ltac Zify.zify_post_hook ::= Z.to_euclidean_division_equations.

(* the Go error that stands for a result class of check_ts *)
Definition ts_err_of_class (c : N) : gerr :=
  match c with
  | 0%N => ENil
  | 1%N => EErr "ExpiredTransactionError"
  | _ => EErr "FutureTransactionError"
  end.

(* an int64 value *)
Definition i64 (x : Z) : Prop := min_i64 <= x <= max_i64.

(* ---- CheckTxTimestamp ---- *)

Lemma check_ts_is_CheckTxTimestamp min max ts :
  CheckTxTimestamp min max ts = ts_err_of_class (check_ts min max ts).
Proof.
  unfold check_ts.
  destruct (ts <=? min) eqn:E1; [|destruct (ts >? max) eqn:E2]; cbn [ts_err_of_class].
  - apply CheckTxTimestamp_expired. lia.
  - apply CheckTxTimestamp_future. lia.
  - apply CheckTxTimestamp_spec. lia.
Qed.

Lemma check_ts_ok_iff_kernel min max ts :
  check_ts min max ts = 0%N <-> CheckTxTimestamp min max ts = ENil.
Proof.
  rewrite check_ts_is_CheckTxTimestamp.
  unfold check_ts. destruct (ts <=? min); [|destruct (ts >? max)]; cbn; split; congruence.
Qed.

(* ---- NewTimestampRange ---- *)

Lemma range_min_is_kernel bts th ts :
  i64 (bts - th) ->
  range_check bts th ts = check_ts (timestampRangeMin bts th) (bts + th) ts.
Proof. unfold i64. intros H. rewrite timestampRangeMin_spec by lia. reflexivity. Qed.

Lemma range_max_is_kernel bts th ts :
  i64 (bts + th) ->
  range_check bts th ts = check_ts (bts - th) (timestampRangeMax bts th) ts.
Proof. unfold i64. intros H. rewrite timestampRangeMax_spec by lia. reflexivity. Qed.

(* NewTimestampRange(bts, th).CheckTx as the code composes it, against the model *)
Lemma range_check_is_kernels bts th ts :
  i64 (bts - th) -> i64 (bts + th) ->
  CheckTxTimestamp (timestampRangeMin bts th) (timestampRangeMax bts th) ts
  = ts_err_of_class (range_check bts th ts).
Proof.
  unfold i64. intros H1 H2. rewrite check_ts_is_CheckTxTimestamp.
  rewrite timestampRangeMin_spec, timestampRangeMax_spec by lia. reflexivity.
Qed.

(* the window predicate of the C11 theorems is what the composed kernels accept *)
Lemma in_window_is_kernels bts th ts :
  i64 (bts - th) -> i64 (bts + th) ->
  (in_window bts th ts <->
   CheckTxTimestamp (timestampRangeMin bts th) (timestampRangeMax bts th) ts = ENil).
Proof.
  unfold i64, in_window. intros H1 H2. symmetry. apply timestampRange_window; lia.
Qed.

(* ---- tracker.Has guard ---- *)

Lemma skip_own_is_trackerHasGuard ts lts lth :
  i64 (lts + lth) -> skip_own VCode ts (lts + lth) = trackerHasGuard ts lts lth.
Proof.
  unfold i64. intros H. apply bool_eq_iff.
  rewrite trackerHasGuard_spec by lia. cbn [skip_own]. lia.
Qed.

(* ---- hasLocatorInCache shortcut ---- *)

Lemma db_skip_is_locatorCacheMiss l ts : db_skip VCode l ts = locatorCacheMiss l ts.
Proof.
  apply bool_eq_iff. rewrite locatorCacheMiss_spec. unfold db_skip. lia.
Qed.

(* the order in which the translator abstracted the operands (a reordering in the Go
   source would silently swap the arguments of the positional calls above) *)
Definition kernel_params_pinned : Prop :=
  CheckTxTimestamp_params = ["min"; "max"; "tx.Timestamp()"]%string /\
  timestampRangeMin_params = ["bts"; "th"]%string /\
  timestampRangeMax_params = ["bts"; "th"]%string /\
  trackerHasGuard_params = ["ts"; "t.list.ts"; "t.list.th"]%string /\
  locatorCacheMiss_params = ["m.cache[group].maxTSInDB"; "ts"]%string.

Lemma kernel_params_ok : kernel_params_pinned.
Proof.
  exact (conj CheckTxTimestamp_params_ok (conj eq_refl (conj eq_refl
         (conj trackerHasGuard_params_ok locatorCacheMiss_params_ok)))).
Qed.

Example link_c11_nontrivial :
  i64 (100 - 10) /\ i64 (100 + 10) /\ in_window 100 10 110 /\
  CheckTxTimestamp (timestampRangeMin 100 10) (timestampRangeMax 100 10) 110 = ENil /\
  CheckTxTimestamp (timestampRangeMin 100 10) (timestampRangeMax 100 10) 90
    = ts_err_of_class 1 /\
  skip_own VCode 110 (100 + 10) = true /\ trackerHasGuard 110 100 10 = true /\
  db_skip VCode 110 110 = false /\ locatorCacheMiss 110 110 = false /\
  locatorCacheMiss 110 111 = true.
Proof. unfold i64, in_window. repeat split; try reflexivity; try lia; discriminate. Qed.
