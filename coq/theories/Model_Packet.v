(* Model_Packet.v — network/packet.go: Packet header/footer layout, the FNV-1a-64
   packet hash, WriteTo (encode), ReadFrom (parse one packet from a reader), the
   _read loop over a chunked reader, and the PacketReader loop (parse a stream).

   Wire format of one packet (packet.go: headerToBytes, footerToBytes, WriteTo):
     header  30 bytes : protocol(2, BE) subProtocol(2, BE) src(20) dest(1) ttl(1) lengthOfPayload(4, BE)
     payload lengthOfPayload bytes
     footer  10 bytes : hashOfPacket(8, BE) extendInfo(2, BE)   extendInfo = hint(6 bits) << 10 | extLen(10 bits)
     ext     extLen bytes
   hashOfPacket = FNV-1a-64 over header ++ payload (packet.go:_hash): it covers the
   length field, it does NOT cover extendInfo nor the extension bytes.
   No proofs in this file. *)
From Goloop Require Import lib.Bytes.
Open Scope N_scope.

(* ---------- hash/fnv New64a ---------- *)
Definition fnv_offset : N := 14695981039346656037.
Definition fnv_prime : N := 1099511628211.
Definition two64 : N := 18446744073709551616.

(* one step of (s *sum64a) Write:  hash ^= c ; hash *= prime64   (uint64 wrap) *)
Definition fnv_step (h b : N) : N := (N.lxor h b * fnv_prime) mod two64.
Definition fnv1a (bs : bytes) : N := fold_left fnv_step bs fnv_offset.

(* the same function arranged for fast evaluation (prime = 2^40 + 435); used by the
   correspondence run, proved equal to fnv1a in Proofs_Packet.v *)
Definition fnv_step_fast (h b : N) : N :=
  let x := N.lxor h b in N.land (N.shiftl x 40 + 435 * x) (N.ones 64).
Definition fnv1a_fast (bs : bytes) : N := fold_left fnv_step_fast bs fnv_offset.

(* ---------- packets ---------- *)
Definition header_size : nat := 30.
Definition footer_size : nat := 10.
Definition max_payload : N := 1048576.          (* DefaultPacketPayloadMax *)

Record packet := {
  p_proto : N;        (* protocol, uint16 *)
  p_sub : N;          (* subProtocol, uint16 *)
  p_src : bytes;      (* src peer id, 20 bytes *)
  p_dest : N;         (* byte *)
  p_ttl : N;          (* byte *)
  p_payload : bytes;  (* lengthOfPayload = its length *)
  p_hint : N;         (* extendInfo.hint(), 6 bits *)
  p_ext : bytes       (* extension bytes, extendInfo.len() = its length, 10 bits *)
}.

Definition lenN (b : bytes) : N := N.of_nat (length b).

(* ranges of the fields of a packet built by the code *)
Definition wf_packet (p : packet) : bool :=
  (p_proto p <? 65536) && (p_sub p <? 65536) &&
  Nat.eqb (length (p_src p)) 20 && bytes_ok (p_src p) &&
  (p_dest p <? 256) && (p_ttl p <? 256) &&
  bytes_ok (p_payload p) && (lenN (p_payload p) <=? max_payload) &&
  (p_hint p <? 64) && (lenN (p_ext p) <? 1024) && bytes_ok (p_ext p).

Definition packet_eqb (a b : packet) : bool :=
  (p_proto a =? p_proto b) && (p_sub a =? p_sub b) && bytes_eqb (p_src a) (p_src b) &&
  (p_dest a =? p_dest b) && (p_ttl a =? p_ttl b) && bytes_eqb (p_payload a) (p_payload b) &&
  (p_hint a =? p_hint b) && bytes_eqb (p_ext a) (p_ext b).

(* headerToBytes *)
Definition header (p : packet) : bytes :=
  be_bytes 2 (p_proto p) ++ be_bytes 2 (p_sub p) ++ p_src p ++
  [p_dest p; p_ttl p] ++ be_bytes 4 (lenN (p_payload p)).

(* newPacketExtendInfo(hint, len) = hint<<10 | len&0x3FF (be_bytes 2 keeps the low 16 bits) *)
Definition extinfo (p : packet) : N := p_hint p * 1024 + lenN (p_ext p) mod 1024.
(* WriteTo writes p.ext[:extendInfo.len()] *)
Definition ext_out (p : packet) : bytes := firstn (N.to_nat (lenN (p_ext p) mod 1024)) (p_ext p).

(* replace the byte at index i (used to describe single-byte corruption) *)
Fixpoint subst_at (i : nat) (b : N) (l : bytes) : bytes :=
  match l with
  | [] => []
  | x :: r => match i with O => b :: r | S k => x :: subst_at k b r end
  end.

(* Some (first n bytes, rest), None when fewer than n bytes are left *)
Definition take (n : nat) (s : bytes) : option (bytes * bytes) :=
  if Nat.ltb (length s) n then None else Some (firstn n s, skipn n s).

Inductive step_res (R : Type) :=
| ROk (p : packet) (rest : R)    (* ReadFrom returned nil *)
| REof                           (* the reader returned an error (io.EOF) before the packet was complete *)
| RBad.                          (* invalid lengthOfPayload / invalid hashOfPacket *)
Arguments ROk {R}. Arguments REof {R}. Arguments RBad {R}.

Inductive stop := StopEOF | StopBad | StopFuel.
Definition stop_eqb (a b : stop) : bool :=
  match a, b with StopEOF, StopEOF | StopBad, StopBad | StopFuel, StopFuel => true | _, _ => false end.

(* the _read loop: fill a buffer of n bytes from a reader that hands out the stream
   in chunks; Read(b) returns min(len b, len chunk) bytes of the first chunk.
   n = 0 returns without reading.  None = the reader reported io.EOF first. *)
Fixpoint read_n (r : list bytes) (n : nat) : option (bytes * list bytes) :=
  match n with
  | O => Some ([], r)
  | S _ =>
    match r with
    | [] => None
    | c :: r' =>
        let lc := length c in
        if Nat.ltb lc n then
          match read_n r' (n - lc) with
          | Some (b, r'') => Some (c ++ b, r'')
          | None => None
          end
        else Some (firstn n c, if Nat.eqb lc n then r' else skipn n c :: r')
    end
  end.

Section Framing.
  (* the packet hash: a function of header ++ payload *)
  Variable H : bytes -> N.

  Definition pkt_hash (p : packet) : N := H (header p ++ p_payload p).

  (* footerToBytes *)
  Definition footer (p : packet) : bytes := be_bytes 8 (pkt_hash p) ++ be_bytes 2 (extinfo p).

  (* WriteTo *)
  Definition encode (p : packet) : bytes := header p ++ p_payload p ++ footer p ++ ext_out p.

  (* setHeader / setFooter / hash check of ReadFrom, given the four byte groups *)
  Definition assemble {R} (h pl f ex : bytes) (rest : R) : step_res R :=
    if H (h ++ pl) =? be_val (firstn 8 f) then
      ROk {| p_proto := be_val (firstn 2 h);
             p_sub := be_val (firstn 2 (skipn 2 h));
             p_src := firstn 20 (skipn 4 h);
             p_dest := be_val (firstn 1 (skipn 24 h));
             p_ttl := be_val (firstn 1 (skipn 25 h));
             p_payload := pl;
             p_hint := be_val (skipn 8 f) / 1024;
             p_ext := ex |} rest
    else RBad.

  Definition payload_len (h : bytes) : N := be_val (skipn 26 h).
  Definition ext_len (f : bytes) : N := be_val (skipn 8 f) mod 1024.

  (* ReadFrom over a contiguous byte string *)
  Definition parse_one (s : bytes) : step_res bytes :=
    match take header_size s with
    | None => REof
    | Some (h, s1) =>
      if max_payload <? payload_len h then RBad else
      match take (N.to_nat (payload_len h)) s1 with
      | None => REof
      | Some (pl, s2) =>
        match take footer_size s2 with
        | None => REof
        | Some (f, s3) =>
          match take (N.to_nat (ext_len f)) s3 with
          | None => REof
          | Some (ex, s4) => assemble h pl f ex s4
          end
        end
      end
    end.

  (* ReadFrom over a chunked reader: the same sequence of _read calls *)
  Definition parse_one_chunked (r : list bytes) : step_res (list bytes) :=
    match read_n r header_size with
    | None => REof
    | Some (h, r1) =>
      if max_payload <? payload_len h then RBad else
      match read_n r1 (N.to_nat (payload_len h)) with
      | None => REof
      | Some (pl, r2) =>
        match read_n r2 footer_size with
        | None => REof
        | Some (f, r3) =>
          match read_n r3 (N.to_nat (ext_len f)) with
          | None => REof
          | Some (ex, r4) => assemble h pl f ex r4
          end
        end
      end
    end.

  (* the receive loop: ReadPacket until the first error *)
  Fixpoint parse_fuel (fuel : nat) (s : bytes) : list packet * stop :=
    match fuel with
    | O => ([], StopFuel)
    | S f =>
      match parse_one s with
      | ROk p rest => let (l, st) := parse_fuel f rest in (p :: l, st)
      | REof => ([], StopEOF)
      | RBad => ([], StopBad)
      end
    end.

  Fixpoint parse_chunked_fuel (fuel : nat) (r : list bytes) : list packet * stop :=
    match fuel with
    | O => ([], StopFuel)
    | S f =>
      match parse_one_chunked r with
      | ROk p rest => let (l, st) := parse_chunked_fuel f rest in (p :: l, st)
      | REof => ([], StopEOF)
      | RBad => ([], StopBad)
      end
    end.

  (* every packet takes at least 40 bytes, so this fuel is never exhausted (Proofs) *)
  Definition parse_stream (s : bytes) : list packet * stop := parse_fuel (S (length s)) s.
  Definition parse_chunked (r : list bytes) : list packet * stop :=
    parse_chunked_fuel (S (length (concat r))) r.
End Framing.

(* the positions of encode p that the packet hash protects against a one-byte
   substitution with the framing unchanged: header bytes 0..25 (all but the length
   field), the payload, and the 8 stored hash bytes *)
Definition covered (p : packet) (i : nat) : bool :=
  Nat.ltb i 26 ||
  (Nat.leb 30 i && Nat.ltb i (30 + length (p_payload p) + 8)).
