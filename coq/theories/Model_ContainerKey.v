(* Model_ContainerKey.v — common/containerdb: common.go (rlpCountBytesForSize,
   rlpEncodeBytes, AppendKeys, AppendRawKeys, rlpReadSize, rlpParseBytes, SplitKeys,
   ToBytes), keybuilder.go (the four KeyBuilder variants, ToKey), arraydb.go, dictdb.go,
   vardb.go, and the two intconv functions they use (Int64ToBytes, SafeBytesToInt64).

   Key parts are byte strings (list N); a typed part (kval) is first turned into bytes
   by to_bytes as ToBytes does.  The hash of the hashed builders is a Section variable.
   The containers are functions over an abstract key-value store (association list from
   built keys to value bytes: get / set returning nothing / delete returning the old value),
   which is what a BytesStoreState provides.

   Style: stdlib only.  No proofs in this file. *)
From Goloop Require Import lib.Bytes.
Open Scope N_scope.

(* ------------------------------------------------------------------ *)
(* counted take/drop (sizes decoded from data stay in N)               *)
(* ------------------------------------------------------------------ *)
Fixpoint takeN (n : N) (l : bytes) : bytes :=
  match l with
  | [] => []
  | x :: r => if n =? 0 then [] else x :: takeN (n - 1) r
  end.
Fixpoint dropN (n : N) (l : bytes) : bytes :=
  match l with
  | [] => []
  | x :: r => if n =? 0 then l else dropN (n - 1) r
  end.
Definition lenN (l : bytes) : N := N.of_nat (length l).

(* ------------------------------------------------------------------ *)
(* rlpCountBytesForSize / rlpEncodeBytes                               *)
(* ------------------------------------------------------------------ *)
(* for b >>= 8; b > 0; cnt++ { b >>= 8 }  — the number of further iterations *)
Fixpoint cnt_loop (fuel : nat) (b : N) : nat :=
  match fuel with
  | O => O
  | S f => if 0 <? b then S (cnt_loop f (b / 256)) else O
  end.
(* fuel: any number >= b; callers pass the length of the byte string whose size b is *)
Definition rlp_count_bytes (fuel : nat) (b : N) : nat := S (cnt_loop fuel (b / 256)).

(* the header form: 0x80+len, or 0xb7+tslen followed by the big-endian length.
   The tag is not truncated to a byte: for len < 2^64 it is at most 0xbf (see Proofs). *)
Definition rlp_hdr_item (b : bytes) : bytes :=
  let blen := lenN b in
  if blen <=? 55 then (128 + blen) :: b
  else let ts := rlp_count_bytes (length b) blen in
       (183 + N.of_nat ts) :: be_bytes ts blen ++ b.

Definition rlp_item (b : bytes) : bytes :=         (* rlpEncodeBytes *)
  match b with
  | [x] => if x <? 128 then [x] else rlp_hdr_item b
  | _ => rlp_hdr_item b
  end.

Definition append_keys (prefix : bytes) (parts : list bytes) : bytes :=     (* AppendKeys, parts already ToBytes'd *)
  prefix ++ concat (map rlp_item parts).
Definition append_raw_keys (prefix : bytes) (parts : list bytes) : bytes :=  (* AppendRawKeys *)
  prefix ++ concat parts.

(* ------------------------------------------------------------------ *)
(* rlpReadSize / rlpParseBytes / SplitKeys                             *)
(* ------------------------------------------------------------------ *)
Definition max_int : N := 9223372036854775807.

Definition rlp_read_size (b : bytes) (slen : nat) : option N :=
  if (length b <? slen)%nat then None else
  match b with
  | [] => None
  | b0 :: _ =>
      let s := be_val (firstn slen b) in
      if (s <? 56) || (b0 =? 0) || (max_int <? s) then None else Some s
  end.

(* None = error (io.EOF on empty input, IllegalArgument otherwise) *)
Definition rlp_parse (bs : bytes) : option (bytes * bytes) :=
  match bs with
  | [] => None
  | tag :: data =>
      if tag <? 128 then Some ([tag], data)
      else if tag <? 184 then
        let size := tag - 128 in
        if lenN data <? size then None else Some (takeN size data, dropN size data)
      else if tag <? 192 then
        let ts := N.to_nat (tag - 183) in            (* 1..8 *)
        match rlp_read_size data ts with
        | None => None
        | Some size =>
            let d := skipn ts data in
            if lenN d <? size then None else Some (takeN size d, dropN size d)
        end
      else None
  end.

Inductive sres := SOk (parts : list bytes) | SErr | SFuel.

Fixpoint split_fuel (fuel : nat) (key : bytes) : sres :=
  match key with
  | [] => SOk []
  | _ =>
    match fuel with
    | O => SFuel
    | S f =>
      match rlp_parse key with
      | None => SErr
      | Some (p, rest) =>
          match split_fuel f rest with
          | SOk ps => SOk (p :: ps)
          | e => e
          end
      end
    end
  end.
Definition split_keys (key : bytes) : sres := split_fuel (length key) key.    (* SplitKeys *)

(* ------------------------------------------------------------------ *)
(* intconv.Int64ToBytes / SafeBytesToInt64                             *)
(* ------------------------------------------------------------------ *)
Definition fits7 (v : Z) : bool := ((-128 <=? v) && (v <=? 127))%Z.    (* (v & -0x80) == target *)
Definition lowbyte (v : Z) : N := Z.to_N (v mod 256).

(* the loop  for idx := 7; idx >= 0; idx-- : the bytes bs[idx:] at the return *)
Fixpoint i64_loop (n : nat) (v : Z) : bytes :=
  match n with
  | O => []
  | S k => if fits7 v then [lowbyte v] else i64_loop k (v / 256) ++ [lowbyte v]
  end.
Definition int64_to_bytes (v : Z) : bytes := if (v =? 0)%Z then [0] else i64_loop 8 v.

(* None = the panic of BytesToInt64 (more than 8 bytes) *)
Definition bytes_to_int64 (bs : bytes) : option Z :=
  match bs with
  | [] => Some 0%Z
  | b0 :: _ =>
      if (8 <? length bs)%nat then None
      else if 128 <=? b0 then Some (- Z.of_N (be_val (map (fun b => (255 - b)%N) bs)) - 1)%Z
      else Some (Z.of_N (be_val bs))
  end.

(* ------------------------------------------------------------------ *)
(* ToBytes                                                             *)
(* ------------------------------------------------------------------ *)
Inductive kval :=
| VInt (z : Z)                          (* int, int16, int32, int64 *)
| VBool (b : bool)
| VAddr (contract : bool) (id : bytes)  (* module.Address: 21 bytes *)
| VStr (s : bytes)
| VBytes (s : bytes)
| VByte (b : N).

Definition to_bytes (v : kval) : bytes :=
  match v with
  | VInt z => int64_to_bytes z
  | VBool b => [if b then 1 else 0]
  | VAddr c id => (if c then 1 else 0) :: id
  | VStr s => s
  | VBytes s => s
  | VByte b => [b]
  end.

(* ------------------------------------------------------------------ *)
(* key builders                                                        *)
(* ------------------------------------------------------------------ *)
Section Builders.
  Variable H : bytes -> bytes.            (* crypto.SHA3Sum256 *)

  Inductive builder :=
  | BHash (acc : bytes)
  | BPrefixedHash (raw acc : bytes)
  | BRlp (acc : bytes)
  | BRaw (acc : bytes).

  Definition b_append (b : builder) (parts : list bytes) : builder :=
    match b with
    | BHash acc => BHash (append_keys acc parts)
    | BPrefixedHash raw acc => BPrefixedHash raw (append_keys acc parts)
    | BRlp acc => BRlp (append_keys acc parts)
    | BRaw acc => BRaw (append_raw_keys acc parts)
    end.

  Definition b_build (b : builder) : bytes :=
    match b with
    | BHash acc => H acc
    | BPrefixedHash raw acc => append_keys raw [H acc]
    | BRlp acc => acc
    | BRaw acc => acc
    end.

  Inductive ktype := KHash | KPrefixedHash | KRlp | KRaw.

  (* ToKey; None = the index-out-of-range panic of keys[0] *)
  Definition to_key (t : ktype) (parts : list bytes) : option builder :=
    match t with
    | KHash => Some (BHash (append_keys [] parts))
    | KPrefixedHash =>
        match parts with
        | [] => None
        | p :: r => Some (BPrefixedHash p (append_keys [] r))
        end
    | KRlp => Some (BRlp (append_keys [] parts))
    | KRaw => Some (BRaw (append_raw_keys [] parts))
    end.

  Definition new_hash_key (prefix : bytes) (parts : list bytes) : builder :=   (* NewHashKey *)
    BHash (append_keys prefix parts).

  (* ---------------------------------------------------------------- *)
  (* the store                                                        *)
  (* ---------------------------------------------------------------- *)
  Definition kvstore := list (bytes * bytes).

  Fixpoint kv_get (s : kvstore) (k : bytes) : option bytes :=
    match s with
    | [] => None
    | (k', v) :: r => if bytes_eqb k' k then Some v else kv_get r k
    end.
  Fixpoint kv_del (s : kvstore) (k : bytes) : kvstore :=
    match s with
    | [] => []
    | (k', v) :: r => if bytes_eqb k' k then kv_del r k else (k', v) :: kv_del r k
    end.
  Definition kv_set (s : kvstore) (k v : bytes) : kvstore := (k, v) :: kv_del s k.

  (* results of container operations *)
  Inductive cres :=
  | ROk                       (* nil error *)
  | RAccess                   (* scoreresult.ErrInvalidContainerAccess *)
  | RNil                      (* a nil Value / nil sub-dictionary *)
  | RVal (v : option bytes)   (* a Value and its Bytes(); None: Bytes() is nil *)
  | RInt (z : Z)
  | RPanic.

  (* ---------------------------------------------------------------- *)
  (* VarDB                                                            *)
  (* ---------------------------------------------------------------- *)
  Inductive vop := VSet (v : bytes) | VGet | VDelete.

  Definition var_step (key : bytes) (s : kvstore) (o : vop) : kvstore * cres :=
    match o with
    | VSet v => (kv_set s key v, ROk)
    | VGet => (s, RVal (kv_get s key))
    | VDelete => (kv_del s key, RVal (kv_get s key))
    end.

  (* ---------------------------------------------------------------- *)
  (* ArrayDB over a size slot and element slots                       *)
  (* ---------------------------------------------------------------- *)
  Inductive aop := APut (v : bytes) | APop | AGet (i : Z) | ASet (i : Z) (v : bytes) | ASize.

  Section Array.
    Variable sizeK : bytes.
    Variable elemK : Z -> bytes.

    (* Size(): int(a.size.Int64()); None = panic *)
    Definition arr_size (s : kvstore) : option Z :=
      match kv_get s sizeK with
      | None => Some 0%Z
      | Some bs => bytes_to_int64 bs
      end.

    Definition arr_step (s : kvstore) (o : aop) : kvstore * cres :=
      match o with
      | ASize => (s, match arr_size s with Some n => RInt n | None => RPanic end)
      | AGet i => (s, match kv_get s (elemK i) with Some v => RVal (Some v) | None => RNil end)
      | ASet i v =>
          match arr_size s with
          | None => (s, RPanic)
          | Some n => if ((i <? 0) || (n <=? i))%Z then (s, RAccess) else (kv_set s (elemK i) v, ROk)
          end
      | APut v =>
          match arr_size s with
          | None => (s, RPanic)
          | Some n => (kv_set (kv_set s (elemK n) v) sizeK (int64_to_bytes (n + 1)), ROk)
          end
      | APop =>
          match arr_size s with
          | None => (s, RPanic)
          | Some n =>
              if (n =? 0)%Z then (s, RNil) else
              let ov := kv_get s (elemK (n - 1)) in
              let s1 := kv_del s (elemK (n - 1)) in
              if (1 <? n)%Z then (kv_set s1 sizeK (int64_to_bytes (n - 1)), RVal ov)
              else (kv_del s1 sizeK, RVal ov)
          end
      end.
  End Array.

  (* ArrayDB as constructed by NewArrayDB(store, key) *)
  Definition array_size_key (key : builder) : bytes := b_build key.
  Definition array_elem_key (key : builder) (i : Z) : bytes := b_build (b_append key [int64_to_bytes i]).
  Definition array_step (key : builder) := arr_step (array_size_key key) (array_elem_key key).

  (* ---------------------------------------------------------------- *)
  (* DictDB                                                           *)
  (* ---------------------------------------------------------------- *)
  Record dict := { d_key : builder; d_depth : nat }.

  Definition dict_getdb (d : dict) (keys : list bytes) : option dict :=    (* None = nil *)
    if (d_depth d <=? length keys)%nat then None
    else Some {| d_key := b_append (d_key d) keys; d_depth := d_depth d - length keys |}.

  Inductive dop :=
  | DGet (keys : list bytes)
  | DSet (keys : list bytes) (v : bytes)       (* Set(keys..., v) *)
  | DSet0                                      (* Set() without any parameter *)
  | DDelete (keys : list bytes).

  Definition dict_step (d : dict) (s : kvstore) (o : dop) : kvstore * cres :=
    match o with
    | DGet keys =>
        if negb (Nat.eqb (length keys) (d_depth d)) then (s, RNil)
        else (s, match kv_get s (b_build (b_append (d_key d) keys)) with Some v => RVal (Some v) | None => RNil end)
    | DSet keys v =>
        if negb (Nat.eqb (S (length keys)) (S (d_depth d))) then (s, RAccess)
        else (kv_set s (b_build (b_append (d_key d) keys)) v, ROk)
    | DSet0 => (s, RAccess)
    | DDelete keys =>
        if negb (Nat.eqb (length keys) (d_depth d)) then (s, RAccess)
        else (kv_del s (b_build (b_append (d_key d) keys)), ROk)
    end.

  (* a chain of GetDB calls followed by one operation; RNil when a GetDB returns nil *)
  Fixpoint dict_sub (d : dict) (chain : list (list bytes)) : option dict :=
    match chain with
    | [] => Some d
    | ks :: r => match dict_getdb d ks with None => None | Some d' => dict_sub d' r end
    end.

  Definition dict_chain_step (d : dict) (s : kvstore) (chain : list (list bytes)) (o : dop) : kvstore * cres :=
    match dict_sub d chain with
    | None => (s, RNil)
    | Some d' => dict_step d' s o
    end.
End Builders.


(* ------------------------------------------------------------------ *)
(* specifications: a list, and a map from key tuples                   *)
(* ------------------------------------------------------------------ *)
Fixpoint set_nth (n : nat) (v : bytes) (l : list bytes) : list bytes :=
  match l, n with
  | [], _ => []
  | _ :: r, O => v :: r
  | x :: r, S k => x :: set_nth k v r
  end.

Definition lst_step (l : list bytes) (o : aop) : list bytes * cres :=
  match o with
  | ASize => (l, RInt (Z.of_nat (length l)))
  | AGet i =>
      (l, if (i <? 0)%Z then RNil
          else match nth_error l (Z.to_nat i) with Some v => RVal (Some v) | None => RNil end)
  | ASet i v =>
      if ((i <? 0) || (Z.of_nat (length l) <=? i))%Z then (l, RAccess)
      else (set_nth (Z.to_nat i) v l, ROk)
  | APut v => (l ++ [v], ROk)
  | APop =>
      match length l with
      | O => (l, RNil)
      | S n => (firstn n l, RVal (nth_error l n))
      end
  end.

Fixpoint lbytes_eqb (a b : list bytes) : bool :=
  match a, b with
  | [], [] => true
  | x :: a', y :: b' => bytes_eqb x y && lbytes_eqb a' b'
  | _, _ => false
  end.

Definition dmap := list bytes -> option bytes.          (* full key tuple -> value *)
Definition dmap_upd (m : dmap) (t : list bytes) (v : option bytes) : dmap :=
  fun t' => if lbytes_eqb t t' then v else m t'.

(* the key prefix and the remaining depth after a chain of GetDB calls; None = nil *)
Fixpoint chain_path (depth : nat) (chain : list (list bytes)) : option (list bytes * nat) :=
  match chain with
  | [] => Some ([], depth)
  | ks :: r =>
      if (depth <=? length ks)%nat then None
      else match chain_path (depth - length ks) r with
           | None => None
           | Some (p, rem) => Some (ks ++ p, rem)
           end
  end.

Definition dmap_step (depth : nat) (m : dmap) (chain : list (list bytes)) (o : dop) : dmap * cres :=
  match chain_path depth chain with
  | None => (m, RNil)
  | Some (pre, rem) =>
      match o with
      | DGet ks =>
          if Nat.eqb (length ks) rem
          then (m, match m (pre ++ ks) with Some v => RVal (Some v) | None => RNil end)
          else (m, RNil)
      | DSet ks v => if Nat.eqb (length ks) rem then (dmap_upd m (pre ++ ks) (Some v), ROk) else (m, RAccess)
      | DSet0 => (m, RAccess)
      | DDelete ks => if Nat.eqb (length ks) rem then (dmap_upd m (pre ++ ks) None, ROk) else (m, RAccess)
      end
  end.

(* ------------------------------------------------------------------ *)
(* histories                                                           *)
(* ------------------------------------------------------------------ *)
Definition in_i64 (v : Z) : Prop := (-9223372036854775808 <= v <= 9223372036854775807)%Z.   (* a Go int *)

Definition aop_ok (o : aop) : Prop :=
  match o with
  | AGet i | ASet i _ => in_i64 i
  | _ => True
  end.

Fixpoint arr_run (sizeK : bytes) (elemK : Z -> bytes) (s : kvstore) (ops : list aop) : list cres :=
  match ops with
  | [] => []
  | o :: r => let '(s1, x) := arr_step sizeK elemK s o in x :: arr_run sizeK elemK s1 r
  end.

Fixpoint lst_run (l : list bytes) (ops : list aop) : list cres :=
  match ops with
  | [] => []
  | o :: r => let '(l1, x) := lst_step l o in x :: lst_run l1 r
  end.

Fixpoint dict_run (H : bytes -> bytes) (d : dict) (s : kvstore) (ops : list (list (list bytes) * dop)) : list cres :=
  match ops with
  | [] => []
  | (ch, o) :: r => let '(s1, x) := dict_chain_step H d s ch o in x :: dict_run H d s1 r
  end.

Fixpoint dmap_run (depth : nat) (m : dmap) (ops : list (list (list bytes) * dop)) : list cres :=
  match ops with
  | [] => []
  | (ch, o) :: r => let '(m1, x) := dmap_step depth m ch o in x :: dmap_run depth m1 r
  end.

(* the store / the list after a history (a rollback target: the harness resets the store to such a state) *)
Fixpoint arr_exec (sizeK : bytes) (elemK : Z -> bytes) (s : kvstore) (ops : list aop) : kvstore :=
  match ops with
  | [] => s
  | o :: r => arr_exec sizeK elemK (fst (arr_step sizeK elemK s o)) r
  end.
Fixpoint lst_exec (l : list bytes) (ops : list aop) : list bytes :=
  match ops with
  | [] => l
  | o :: r => lst_exec (fst (lst_step l o)) r
  end.
