(* Link_C04.v -- ties the threshold of Model_VoteSet (property C04) to the kernels that
   tools/go2coq re-generates from consensus/voteset.go on every run:

     hasOverTwoThirds        ( voteSet.hasOverTwoThirds:   vs.count > len(vs.msgs)*2/3 )
     overTwoThirdsDecision   ( getOverTwoThirdsRoundDecisionDigest:  max > len(vs.msgs)*2/3 )

   The model's own definition  over23 c n  (Model_VoteSet) EQUALS both kernels for
   every counter value c and every slot count n that a Go slice can have
   (0 <= n <= 2^62-1: len*2 does not overflow).  The proofs go through the kernels'
   characterising lemmas (Proofs_K_<name>.v) and the model's over23_spec, never
   through the shape of the generated text: a semantics-preserving edit of the Go
   source keeps them, `>` turned into `>=` (or `*2/3` into `/3*2`) breaks
   Proofs_K_<name>.v, hence this file, hence Prop_C04.v -- and nothing else.
   Argument order: positional, as pinned by <name>_params_ok.
   Style: stdlib, lia. *)
From Goloop Require Import lib.Bytes lib.GoInt Model_VoteSet Proofs_VoteSet.
From Goloop Require Import Proofs_K_tactics Proofs_K_hasOverTwoThirds Proofs_K_overTwoThirdsDecision.
From Goloop.gen Require Export K_hasOverTwoThirds K_overTwoThirdsDecision.
From Coq Require Import ZifyBool.
Import ListNotations.
Local Open Scope Z_scope.

Ltac Zify.zify_post_hook ::= Z.to_euclidean_division_equations.

(* the largest slot count for which len*2 stays inside a Go int *)
Definition max_slots : Z := 4611686018427387903.

Lemma over23_is_hasOverTwoThirds c n :
  0 <= n <= max_slots -> over23 c n = hasOverTwoThirds c n.
Proof.
  unfold max_slots. intros Hn. apply bool_eq_iff.
  rewrite over23_spec by lia. rewrite hasOverTwoThirds_spec by lia. reflexivity.
Qed.

Lemma over23_is_overTwoThirdsDecision c n :
  0 <= n <= max_slots -> over23 c n = overTwoThirdsDecision c n.
Proof.
  unfold max_slots. intros Hn. apply bool_eq_iff.
  rewrite over23_spec by lia. rewrite overTwoThirdsDecision_spec by lia. reflexivity.
Qed.

(* the model's has_over23 is the kernel applied to (vs.count, len(vs.msgs)), in the
   order in which the translator abstracted them *)
Lemma has_over23_is_kernel s :
  nvals s <= max_slots -> has_over23 s = hasOverTwoThirds (vs_count s) (nvals s).
Proof.
  intros Hs. unfold has_over23. apply over23_is_hasOverTwoThirds.
  unfold nvals in *. lia.
Qed.

(* the test of query (getOverTwoThirdsRoundDecisionDigest) on the best counter *)
Lemma decision_test_is_kernel mx s :
  nvals s <= max_slots -> over23 mx (nvals s) = overTwoThirdsDecision mx (nvals s).
Proof.
  intros Hs. apply over23_is_overTwoThirdsDecision. unfold nvals in *. lia.
Qed.

(* the order in which the translator abstracted the operands (a reordering in the Go
   source would silently swap the arguments of the positional calls above) *)
Definition kernel_params_pinned : Prop :=
  hasOverTwoThirds_params = ["vs.count"; "len(vs.msgs)"]%string /\
  overTwoThirdsDecision_params = ["max"; "len(vs.msgs)"]%string.

Lemma kernel_params_ok : kernel_params_pinned.
Proof. split; [exact hasOverTwoThirds_params_ok | exact overTwoThirdsDecision_params_ok]. Qed.

Example link_c04_nontrivial :
  over23 15 21 = hasOverTwoThirds 15 21 /\ hasOverTwoThirds 15 21 = true /\
  over23 14 21 = overTwoThirdsDecision 14 21 /\ overTwoThirdsDecision 14 21 = false.
Proof. repeat split; reflexivity. Qed.
