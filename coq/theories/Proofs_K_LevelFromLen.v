(* Proofs_K_LevelFromLen.v -- icon/merkle/hexary LevelFromLen
   Split out of Proofs_Kernels.v: this file imports ONLY the generated kernel(s)
   gen/K_LevelFromLen.v, so an edit of another kernel's Go source cannot break it.
   Style: stdlib only; arithmetic closed by lia with the euclidean-division hook. *)
From Coq Require Import ZArith Bool String List Lia.
From Coq Require Import ZifyBool.
From Goloop Require Import lib.GoInt Proofs_K_tactics.
From Goloop.gen Require Import K_LevelFromLen.
Import ListNotations.
Local Open Scope Z_scope.

Ltac Zify.zify_post_hook ::= Z.to_euclidean_division_equations.

Lemma LevelFromLen_0 : LevelFromLen 0 = 0.
Proof. reflexivity. Qed.

(* LevelFromLen len is the least L with len <= 16^L *)
Lemma LevelFromLen_spec len :
  1 <= len <= max_i64 ->
  0 <= LevelFromLen len <= 16 /\
  len <= 16 ^ LevelFromLen len /\
  (0 < LevelFromLen len -> 16 ^ (LevelFromLen len - 1) < len).
Proof.
  intros Hl. unfold LevelFromLen. destruct (len =? 0) eqn:E; [lia|].
  rewrite (wrap_u64_small len) by lia. rewrite wrap_u64_small by lia.
  destruct (Z.eq_dec len 1) as [->|Hne].
  { cbn. lia. }
  assert (Hpos : 0 < len - 1) by lia.
  pose proof (bits_len64_spec (len - 1) Hpos) as [Hlo Hhi].
  pose proof (bits_len64_le_64 (len - 1) ltac:(lia)) as Hle.
  assert (Hb1 : 1 <= bits_len64 (len - 1)).
  { unfold bits_len64. destruct (len - 1 <=? 0) eqn:E2; [lia|].
    pose proof (Z.log2_nonneg (len - 1)). lia. }
  set (b := bits_len64 (len - 1)) in *.
  rewrite (wrap_int_small (b + 3)) by lia.
  rewrite quot_nonneg by lia. rewrite wrap_int_small by lia.
  set (L := (b + 3) / 4).
  assert (HL : 4 * L - 3 <= b <= 4 * L) by (subst L; lia).
  assert (H16 : forall k, 0 <= k -> 16 ^ k = 2 ^ (4 * k)).
  { intros k Hk. change 16 with (2 ^ 4). rewrite <- Z.pow_mul_r by lia. reflexivity. }
  split; [lia|]. split.
  - rewrite H16 by lia.
    assert (2 ^ b <= 2 ^ (4 * L)) by (apply Z.pow_le_mono_r; lia). lia.
  - intros HLpos. rewrite H16 by lia.
    assert (2 ^ (4 * (L - 1)) <= 2 ^ (b - 1)) by (apply Z.pow_le_mono_r; lia). lia.
Qed.
