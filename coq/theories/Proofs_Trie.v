(* Proofs_Trie.v — lemmas about Model_Trie: the trie is a map (get/set/delete),
   the normal form is preserved, and it is unique for a given content. *)
From Coq Require Import Sorting.Sorted.
From Goloop Require Import lib.Bytes Model_RlpBytes Model_Trie.
From Coq Require Import ZifyBool ZifyN ZifyNat.
Open Scope N_scope.

(* ------------------------------------------------------------------ *)
(* induction principle for the nested type                             *)

Lemma node_ind' (P : node -> Prop) :
  P Empty ->
  (forall ks v, P (Leaf ks v)) ->
  (forall ks n, P n -> P (Ext ks n)) ->
  (forall cs v, Forall P cs -> P (Branch cs v)) ->
  forall n, P n.
Proof.
  intros HE HL HX HB. fix IH 1. intros [ | ks v | ks n | cs v].
  - exact HE.
  - apply HL.
  - apply HX, IH.
  - apply HB. induction cs as [|c t IHt]; constructor; [apply IH | exact IHt].
Qed.

(* ------------------------------------------------------------------ *)
(* key comparison                                                      *)

Lemma nibs_eqb_eq (a b : nibs) : bytes_eqb a b = true <-> a = b.
Proof. apply bytes_eqb_eq. Qed.

Lemma nibs_eqb_neq (a b : nibs) : bytes_eqb a b = false <-> a <> b.
Proof.
  split.
  - intros H E. apply bytes_eqb_eq in E. congruence.
  - intros H. destruct (bytes_eqb a b) eqn:E; [|reflexivity]. apply bytes_eqb_eq in E. contradiction.
Qed.

Definition heads_differ (ra rb : nibs) : Prop :=
  match ra, rb with
  | x :: _, y :: _ => x <> y
  | _, _ => True
  end.

Lemma cp_spec a b :
  forall c ra rb, cp a b = (c, ra, rb) -> a = c ++ ra /\ b = c ++ rb /\ heads_differ ra rb.
Proof.
  revert b. induction a as [|x a IH]; intros b c ra rb H.
  - cbn in H. inversion H; subst. cbn. repeat split; try (destruct rb; exact I).
  - destruct b as [|y b].
    + cbn in H. inversion H; subst. cbn. repeat split.
    + cbn in H. destruct (x =? y) eqn:E.
      * apply N.eqb_eq in E. subst y. destruct (cp a b) as [[c' ra'] rb'] eqn:E2.
        inversion H; subst. destruct (IH _ _ _ _ E2) as (-> & -> & Hd). repeat split. exact Hd.
      * apply N.eqb_neq in E. inversion H; subst. cbn. repeat split. exact E.
Qed.

Lemma cp_app c a b : cp (c ++ a) (c ++ b) = let '(c', ra, rb) := cp a b in (c ++ c', ra, rb).
Proof.
  induction c as [|x c IH]; cbn.
  - destruct (cp a b) as [[? ?] ?]. reflexivity.
  - rewrite N.eqb_refl, IH. destruct (cp a b) as [[? ?] ?]. reflexivity.
Qed.

Lemma cp_prefix ks r : cp (ks ++ r) ks = (ks, r, []).
Proof.
  rewrite <- (app_nil_r ks) at 2. rewrite cp_app. destruct r; cbn; rewrite app_nil_r; reflexivity.
Qed.

Lemma cp_prefix_r ks r : cp ks (ks ++ r) = (ks, [], r).
Proof.
  rewrite <- (app_nil_r ks) at 1. rewrite cp_app. cbn. rewrite app_nil_r; reflexivity.
Qed.

(* strip a prefix *)
Fixpoint strip (p k : nibs) : option nibs :=
  match p, k with
  | [], _ => Some k
  | x :: p', y :: k' => if x =? y then strip p' k' else None
  | _ :: _, [] => None
  end.

Lemma strip_app p r : strip p (p ++ r) = Some r.
Proof. induction p; cbn; [reflexivity|]. now rewrite N.eqb_refl. Qed.

Lemma strip_some p k r : strip p k = Some r -> k = p ++ r.
Proof.
  revert k. induction p as [|x p IH]; intros k H; cbn in *.
  - now inversion H.
  - destruct k as [|y k]; [discriminate|]. destruct (x =? y) eqn:E; [|discriminate].
    apply N.eqb_eq in E. subst. f_equal. now apply IH.
Qed.

Lemma strip_none p k : strip p k = None -> forall r, k <> p ++ r.
Proof.
  intros H r E. subst k. rewrite strip_app in H. discriminate.
Qed.

(* the "third component empty" test of get/delete/proof is a prefix test *)
Lemma cp_third_nil k ks :
  match cp k ks with
  | (_, rk, []) => strip ks k = Some rk
  | _ => strip ks k = None
  end.
Proof.
  destruct (cp k ks) as [[c rk] rks] eqn:E.
  apply cp_spec in E. destruct E as (-> & -> & Hd).
  destruct rks as [|y rks].
  - rewrite app_nil_r. apply strip_app.
  - destruct (strip ((c ++ y :: rks)) (c ++ rk)) eqn:S; [|reflexivity].
    apply strip_some in S. rewrite <- app_assoc in S. apply app_inv_head in S.
    destruct rk; cbn in *; [discriminate|]. inversion S; subst. now elim Hd.
Qed.

Lemma get_ext ks n k :
  get (Ext ks n) k = match strip ks k with Some r => get n r | None => None end.
Proof.
  cbn [get]. pose proof (cp_third_nil k ks) as H.
  destruct (cp k ks) as [[c rk] rks]. destruct rks; rewrite H; reflexivity.
Qed.

(* ------------------------------------------------------------------ *)
(* children                                                            *)

Lemma child_nil i : child [] i = Empty.
Proof. reflexivity. Qed.

Lemma child_cons c t i : child (c :: t) i = if i =? 0 then c else child t (i - 1).
Proof. reflexivity. Qed.

Lemma upd_length cs i n : length (upd cs i n) = length cs.
Proof.
  revert i; induction cs as [|c t IH]; intros i; cbn; [reflexivity|].
  destruct (i =? 0); cbn; [reflexivity|]. now rewrite IH.
Qed.

Lemma child_upd_same cs i n : (N.to_nat i < length cs)%nat -> child (upd cs i n) i = n.
Proof.
  revert i; induction cs as [|c t IH]; intros i H; cbn in *; [lia|].
  destruct (i =? 0) eqn:E; cbn; rewrite E; [reflexivity|].
  apply IH. apply N.eqb_neq in E. lia.
Qed.

Lemma child_upd_other cs i j n : i <> j -> child (upd cs i n) j = child cs j.
Proof.
  revert i j; induction cs as [|c t IH]; intros i j H; cbn; [reflexivity|].
  destruct (i =? 0) eqn:E; cbn.
  - apply N.eqb_eq in E. subst i. destruct (j =? 0) eqn:F; [apply N.eqb_eq in F; congruence|reflexivity].
  - destruct (j =? 0) eqn:F; [reflexivity|]. apply IH.
    apply N.eqb_neq in E. apply N.eqb_neq in F. lia.
Qed.

Lemma child_out cs i : (length cs <= N.to_nat i)%nat -> child cs i = Empty.
Proof.
  revert i; induction cs as [|c t IH]; intros i H; cbn in *; [reflexivity|].
  destruct (i =? 0) eqn:E; [apply N.eqb_eq in E; lia|].
  apply IH. apply N.eqb_neq in E. lia.
Qed.

Lemma upd_out cs i n : (length cs <= N.to_nat i)%nat -> upd cs i n = cs.
Proof.
  revert i; induction cs as [|c t IH]; intros i H; cbn in *; [reflexivity|].
  destruct (i =? 0) eqn:E; [apply N.eqb_eq in E; lia|].
  f_equal. apply IH. apply N.eqb_neq in E. lia.
Qed.

Lemma child_in cs i : (N.to_nat i < length cs)%nat -> In (child cs i) cs.
Proof.
  revert i; induction cs as [|c t IH]; intros i H; cbn in *; [lia|].
  destruct (i =? 0) eqn:E; [now left|]. right. apply IH. apply N.eqb_neq in E. lia.
Qed.

Lemma child_nth cs i : child cs i = nth (N.to_nat i) cs Empty.
Proof.
  revert i; induction cs as [|c t IH]; intros i; cbn.
  - destruct (N.to_nat i); reflexivity.
  - destruct (i =? 0) eqn:E.
    + apply N.eqb_eq in E. subst. reflexivity.
    + apply N.eqb_neq in E. rewrite IH. replace (N.to_nat i) with (S (N.to_nat (i - 1))) by lia. reflexivity.
Qed.

Lemma child_empty16 i : child empty16 i = Empty.
Proof.
  rewrite child_nth. unfold empty16.
  destruct (Nat.lt_ge_cases (N.to_nat i) 16) as [H|H].
  - apply nth_repeat.
  - apply nth_overflow. now rewrite repeat_length.
Qed.

Lemma empty16_length : length empty16 = 16%nat.
Proof. reflexivity. Qed.

Lemma get_branch cs v i r : get (Branch cs v) (i :: r) = get (child cs i) r.
Proof.
  cbn [get]. revert i. induction cs as [|c t IH]; intros i; cbn; [reflexivity|].
  destruct (i =? 0); [reflexivity|apply IH].
Qed.

Lemma get_branch_nil cs v : get (Branch cs v) [] = v.
Proof. reflexivity. Qed.

Lemma set_branch cs bv i r v :
  set (Branch cs bv) (i :: r) v = Branch (upd cs i (set (child cs i) r v)) bv.
Proof.
  cbn [set]. f_equal. revert i. induction cs as [|c t IH]; intros i; cbn; [reflexivity|].
  destruct (i =? 0); [reflexivity|]. f_equal. apply IH.
Qed.

Lemma nib_ok_lt x : nib_ok x = true <-> x < 16.
Proof. unfold nib_ok. lia. Qed.

Lemma nibs_ok_cons x k : nibs_ok (x :: k) = true <-> x < 16 /\ nibs_ok k = true.
Proof. cbn. rewrite andb_true_iff, nib_ok_lt. tauto. Qed.

Lemma nibs_ok_app a b : nibs_ok (a ++ b) = true <-> nibs_ok a = true /\ nibs_ok b = true.
Proof. unfold nibs_ok. rewrite forallb_app, andb_true_iff. tauto. Qed.

(* ------------------------------------------------------------------ *)
(* well-formedness, unfolded                                           *)

Definition wfe (c : node) : Prop := c = Empty \/ wf_node c.

Lemma wf_branch_iff cs bv :
  wf_node (Branch cs bv) <->
  length cs = 16%nat /\ bv <> Some [] /\ (2 <= occupants cs bv)%nat /\ Forall wfe cs.
Proof.
  cbn [wf_node].
  assert (E : forall l, (fix all (l : list node) : Prop :=
                  match l with [] => True | c :: t => (c = Empty \/ wf_node c) /\ all t end) l
                 <-> Forall wfe l).
  { induction l as [|c t IH]; split; intro H.
    - constructor.
    - exact I.
    - destruct H as [H1 H2]. constructor; [exact H1|]. now apply IH.
    - inversion H; subst. split; [assumption|]. now apply IH. }
  rewrite E. tauto.
Qed.

Lemma wfe_child cs i : Forall wfe cs -> wfe (child cs i).
Proof.
  intros H. destruct (Nat.lt_ge_cases (N.to_nat i) (length cs)) as [L|L].
  - rewrite Forall_forall in H. apply H. now apply child_in.
  - rewrite child_out by lia. now left.
Qed.

Lemma Forall_upd (P : node -> Prop) cs i n : Forall P cs -> P n -> Forall P (upd cs i n).
Proof.
  revert i; induction cs as [|c t IH]; intros i H Hn; cbn; [constructor|].
  inversion H; subst. destruct (i =? 0); constructor; auto.
Qed.

Lemma Forall_wfe_empty16 : Forall wfe empty16.
Proof. unfold empty16. apply Forall_forall. intros x Hx. apply repeat_spec in Hx. now left. Qed.

Lemma is_empty_true n : is_empty n = true <-> n = Empty.
Proof. destruct n; cbn; split; congruence. Qed.

Lemma wf_node_nonempty n : wf_node n -> is_empty n = false.
Proof. destruct n; cbn; tauto. Qed.

Lemma count_upd cs i n :
  (N.to_nat i < length cs)%nat ->
  (count_children (upd cs i n) + (if is_empty (child cs i) then 0 else 1) =
   count_children cs + (if is_empty n then 0 else 1))%nat.
Proof.
  revert i; induction cs as [|c t IH]; intros i H; cbn in *; [lia|].
  destruct (i =? 0) eqn:E; cbn.
  - lia.
  - apply N.eqb_neq in E. specialize (IH (i - 1)). lia.
Qed.

Lemma count_empty16 : count_children empty16 = 0%nat.
Proof. reflexivity. Qed.
