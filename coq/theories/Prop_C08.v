(* Property C08 — Block encoding round-trips and binds body to header.
   Only theorem statements; proofs are in Proofs_BlockCodec.v, the model in Model_BlockCodec.v
   (over the RLP model of property C23).

   Every theorem is quantified over the seven functions the block package takes from
   elsewhere: H (SHA3-256), list_root (the trie root of a transaction list, properties
   C17/C22), tx_parse / votes_parse (parse, then canonical bytes), digest_filter
   (BTP digest -> network section filter), result_btp (BTP data of a result),
   bloom_norm (LZW round trip of the logs bloom).  Nothing is assumed about them except
   where a hypothesis says so; where the code relies on collision resistance the theorem
   returns the collision.
     decode bs = Some (b, r)   NewBlockDataFromReader accepts bs as block b and leaves r unread
     encode b                  MarshalHeader ++ MarshalBody
     block_id b                H (encode_header b)
     wf b                      b is as a node builds it: parts canonical for their parsers, result /
                               digest / filter consistent, integers in int64, every byte string at
                               most 1 000 000 bytes (the stream decoder's MaxSizeForBytes)
   "Decoding arbitrary bytes never crashes" is a statement about the Go runtime; it is
   checked by execution (harness: malformed stream, corpus, native fuzz target), not here. *)
From Goloop Require Import lib.Bytes Model_Rlp Model_BlockCodec Proofs_BlockCodec.
Open Scope N_scope.

(* a block a node serialises decodes back to the same block — hence the same id — and the
   bytes after it are left in the reader *)
Theorem C08_roundtrip :
  forall H list_root tx_parse votes_parse digest_filter result_btp bloom_norm b rest,
  wf H list_root tx_parse votes_parse digest_filter result_btp bloom_norm b ->
  len (encode H list_root b ++ rest) <= max_int ->
  decode H list_root tx_parse votes_parse digest_filter result_btp bloom_norm
    (encode H list_root b ++ rest) = Some (b, rest).
Proof. exact decode_encode. Qed.
Print Assumptions C08_roundtrip.

(* the id is a function of the header bytes alone *)
Theorem C08_id_stable : forall H list_root b1 b2,
  encode_header H list_root b1 = encode_header H list_root b2 ->
  block_id H list_root b1 = block_id H list_root b2.
Proof. exact id_of_header_bytes. Qed.
Print Assumptions C08_id_stable.

(* whatever the decoder accepts re-encodes to bytes that decode to the same block again
   (the parsers' outputs being fixed points of the parsers) *)
Theorem C08_reencode_stable :
  forall H list_root tx_parse votes_parse digest_filter result_btp bloom_norm bs b r,
  parsers_idempotent tx_parse votes_parse bloom_norm ->
  decode H list_root tx_parse votes_parse digest_filter result_btp bloom_norm bs = Some (b, r) ->
  sizes_ok H list_root b ->
  forall r', len (encode H list_root b ++ r') <= max_int ->
  decode H list_root tx_parse votes_parse digest_filter result_btp bloom_norm
    (encode H list_root b ++ r') = Some (b, r').
Proof. exact reencode_stable. Qed.
Print Assumptions C08_reencode_stable.

(* an accepted block's transactions, votes and BTP digest hash to the fields of the header
   that was read, its filter is the digest's, and its header fields are the input's *)
Theorem C08_body_bound :
  forall H list_root tx_parse votes_parse digest_filter result_btp bloom_norm bs b r,
  decode H list_root tx_parse votes_parse digest_filter result_btp bloom_norm bs = Some (b, r) ->
  exists h r1, dec_hfmt bs = Some (h, r1) /\
    beq (list_root (b_patch b)) (hf_patch_hash h) = true /\
    beq (list_root (b_normal b)) (hf_normal_hash h) = true /\
    beq (Some (H (b_votes b))) (hf_votes_hash h) = true /\
    (exists rh f, result_btp (hf_result h) = Some rh /\ beq rh (digest_hash H (b_digest b)) = true /\
                  digest_info H digest_filter (b_digest b) = Some (digest_hash H (b_digest b), f) /\
                  beq (hf_ns_filter h) f = true) /\
    b_height b = hf_height h /\ b_timestamp b = hf_timestamp h /\ b_prev b = hf_prev h /\
    b_result b = hf_result h /\ b_next_validators_hash b = hf_next_validators_hash h /\
    norm_proposer (hf_proposer h) = Some (b_proposer b) /\
    b_logs_bloom b = bloom_norm (hf_logs_bloom h) /\ b_ns_filter b = norm_filter (hf_ns_filter h).
Proof. exact body_bound. Qed.
Print Assumptions C08_body_bound.

(* a body cannot be swapped under a header: two accepted inputs that begin with the same
   header bytes are the same block, or a collision of H / list_root (or an empty hash
   value) is exhibited *)
Theorem C08_no_body_swap :
  forall H list_root tx_parse votes_parse digest_filter result_btp bloom_norm hb x y h b1 b2 r1 r2,
  dec_hfmt (hb ++ x) = Some (h, x) ->
  decode H list_root tx_parse votes_parse digest_filter result_btp bloom_norm (hb ++ x) = Some (b1, r1) ->
  decode H list_root tx_parse votes_parse digest_filter result_btp bloom_norm (hb ++ y) = Some (b2, r2) ->
  b1 = b2 \/ collision H list_root.
Proof. exact no_body_swap_bytes. Qed.
Print Assumptions C08_no_body_swap.

(* the same for any two inputs whose headers decode to the same header struct *)
Theorem C08_no_body_swap_struct :
  forall H list_root tx_parse votes_parse digest_filter result_btp bloom_norm bs1 bs2 b1 b2 r1 r2 h t1 t2,
  decode H list_root tx_parse votes_parse digest_filter result_btp bloom_norm bs1 = Some (b1, r1) ->
  decode H list_root tx_parse votes_parse digest_filter result_btp bloom_norm bs2 = Some (b2, r2) ->
  dec_hfmt bs1 = Some (h, t1) -> dec_hfmt bs2 = Some (h, t2) ->
  b1 = b2 \/ collision H list_root.
Proof. exact no_body_swap. Qed.
Print Assumptions C08_no_body_swap_struct.

(* distinct headers have distinct header bytes (the header encoder is injective) *)
Theorem C08_header_fields_injective : forall h1 h2,
  hfmt_ok h1 -> hfmt_ok h2 -> len (encode_hfmt h1) <= max_int ->
  encode_hfmt h1 = encode_hfmt h2 -> h1 = h2.
Proof. exact encode_hfmt_injective. Qed.
Print Assumptions C08_header_fields_injective.

(* ... hence distinct ids, unless H collides on the two header encodings *)
Theorem C08_distinct_headers_distinct_ids : forall H list_root b1 b2,
  hfmt_ok (header_of H list_root b1) -> hfmt_ok (header_of H list_root b2) ->
  len (encode_header H list_root b1) <= max_int ->
  header_of H list_root b1 <> header_of H list_root b2 ->
  block_id H list_root b1 <> block_id H list_root b2 \/ exists x y, x <> y /\ H x = H y.
Proof. exact distinct_headers_distinct_ids. Qed.
Print Assumptions C08_distinct_headers_distinct_ids.

(* distinct well-formed blocks have distinct encodings *)
Theorem C08_encode_injective :
  forall H list_root tx_parse votes_parse digest_filter result_btp bloom_norm b1 b2,
  wf H list_root tx_parse votes_parse digest_filter result_btp bloom_norm b1 ->
  wf H list_root tx_parse votes_parse digest_filter result_btp bloom_norm b2 ->
  encode H list_root b1 = encode H list_root b2 -> b1 = b2.
Proof. exact encode_injective. Qed.
Print Assumptions C08_encode_injective.

(* the decoder reads a prefix of its input: what it reports as unread is a tail *)
Theorem C08_reads_prefix :
  forall H list_root tx_parse votes_parse digest_filter result_btp bloom_norm bs b r,
  decode H list_root tx_parse votes_parse digest_filter result_btp bloom_norm bs = Some (b, r) ->
  exists used, bs = used ++ r.
Proof. exact decode_reads_prefix. Qed.
Print Assumptions C08_reads_prefix.
