(* Model_Builder.v — common/merkle/builder.go (merkleBuilder: RequestData, OnData,
   UnresolvedCount, ResolvedCount, Requests, Flush) together with the way requesters
   register follow-up requests (common/trie/ompt/mpt.go: mpt.Resolve, mpt.resolve,
   nodeRequester.OnData; branch/extension/leaf resolve; service/state contract.Resolve,
   objectGraph.Resolve, apiInfoStore.Resolve; sync2 syncProcessor.AddRequest), over an
   ABSTRACT Merkle DAG.

     H          the hasher of the buckets (db.BucketID.Hasher(); sha3 for both MerkleTrie
                and BytesByHash, hence ONE request map for all buckets)
     children   "parse the data as the requester of bucket bk does and list the references
                (bucket, hash) it contains, in the order in which the code visits them"
                (for a trie node: branch children 0..15 that are hash nodes, then the
                references of the value object; extension: next; leaf: the value object)

   Both are Section variables: every theorem is for all H and all children.

   State
     dbs        builder.Database(): db.NewLayerDB(target) — Layered l b = writes are
                buffered in l (newest first) above the underlying store b; Direct b =
                after Flush(true) (or NewBuilderWithRawDatabase) writes go straight to b.
     pending    b.requests, IN ORDER, one element per requested hash with the bucket ids
                of its requesters (request.bucketIDs, 1:1 with request.requesters);
                the map hasherMap[..] is the lookup find_req.
     resolved   b.resolved.

   Not modelled: a requester that returns an error (deserialisation of data whose hash
   was requested fails; cannot happen for data below a well-formed trusted root), a
   failing database other than a failing Set / a failing requester inside OnData (on_data_fail), the nil-key guard of RequestData (the trie never asks for an empty
   hash), buckets without a hasher other than through ONoHasher, Flush(false) (discards
   the buffered nodes by design; the sync code only calls Flush(true)), locking.

   Style: stdlib only.  No proofs in this file. *)
From Goloop Require Import lib.Bytes.
Open Scope N_scope.

Definition ref := (N * bytes)%type.                 (* bucket id, hash *)
Definition ref_eqb (a b : ref) : bool := (fst a =? fst b) && bytes_eqb (snd a) (snd b).

Definition store := list (ref * bytes).             (* newest first; lookup = first match *)
Fixpoint st_find (s : store) (r : ref) : option bytes :=
  match s with
  | [] => None
  | (k, v) :: t => if ref_eqb k r then Some v else st_find t r
  end.

Inductive db :=
| Layered (l b : store)
| Direct (b : store).

Definition entries (x : db) : store :=
  match x with Layered l b => l ++ b | Direct b => b end.
Definition underlying (x : db) : store :=
  match x with Layered _ b => b | Direct b => b end.
Definition db_get (x : db) (r : ref) : option bytes := st_find (entries x) r.      (* Bucket.Get through builder.Database() *)
Definition db_has (x : db) (r : ref) : bool :=
  match db_get x r with Some _ => true | None => false end.
Definition db_put (x : db) (r : ref) (d : bytes) : db :=                            (* Bucket.Set *)
  match x with
  | Layered l b => Layered ((r, d) :: l) b
  | Direct b => Direct ((r, d) :: b)
  end.
Definition db_flush (x : db) : db :=                                                  (* LayerDB.Flush(true) *)
  match x with
  | Layered l b => Direct (l ++ b)
  | Direct b => Direct b
  end.

Definition req := (bytes * list N)%type.            (* request.key, request.bucketIDs *)

Fixpoint find_req (p : list req) (h : bytes) : option (list N) :=                     (* reqMap[reqID] *)
  match p with
  | [] => None
  | (k, bks) :: t => if bytes_eqb k h then Some bks else find_req t h
  end.

(* RequestData, key already requested: append bucket id and requester to the request *)
Fixpoint add_requester (p : list req) (h : bytes) (bk : N) : option (list req) :=
  match p with
  | [] => None
  | (k, bks) :: t =>
      if bytes_eqb k h then Some ((k, bks ++ [bk]) :: t)
      else match add_requester t h bk with
           | Some t' => Some ((k, bks) :: t')
           | None => None
           end
  end.

(* requests.InsertAfter(req, onDataMark); the mark is identified by its key *)
Fixpoint insert_after (p : list req) (m : bytes) (r : req) : list req :=
  match p with
  | [] => [r]
  | (k, bks) :: t =>
      if bytes_eqb k m then (k, bks) :: r :: t else (k, bks) :: insert_after t m r
  end.

(* merkleBuilder.RequestData(bk, h, requester) with b.onDataMark = mark; returns the new mark *)
Definition request_data (p : list req) (mark : option bytes) (bk : N) (h : bytes)
  : list req * option bytes :=
  match add_requester p h bk with
  | Some p' => (p', mark)
  | None =>
      match mark with
      | Some m => (insert_after p m (h, [bk]), Some h)
      | None => (p ++ [(h, [bk])], None)
      end
  end.

Definition remove_req (p : list req) (h : bytes) : list req :=                        (* requests.Remove(e); delete(reqMap, reqID) *)
  filter (fun e => negb (bytes_eqb (fst e) h)) p.

Inductive out := ROk | RNoRequester | RNoHasher | RFail.

Record state := { dbs : db; pending : list req; resolved : nat }.

Definition init (x : db) : state := {| dbs := x; pending := []; resolved := 0 |}.

Definition unresolved (s : state) : nat := length (pending s).                        (* UnresolvedCount *)

Section Builder.
  Variable H : bytes -> bytes.
  Variable children : N -> bytes -> list ref.

  (* what every requester in the tree does with a reference: look into the database the
     builder writes to; request the data only if it is not there
     (mpt.resolve: node.realize fails -> RequestData; contract.Resolve: bk.Get == nil -> RequestData) *)
  Definition req_missing (x : db) (acc : list req * option bytes) (r : ref)
    : list req * option bytes :=
    if db_has x r then acc else request_data (fst acc) (snd acc) (fst r) (snd r).

  (* one iteration of the loop over req.requesters in OnData:
     bk.Set(key, value); requester.OnData(value, b) *)
  Definition deliver_one (d h : bytes) (acc : db * (list req * option bytes)) (bk : N)
    : db * (list req * option bytes) :=
    let x := db_put (fst acc) (bk, h) d in
    (x, fold_left (req_missing x) (children bk d) (snd acc)).

  (* merkleBuilder.OnData(bid, d), bid having the hasher H *)
  Definition on_data (s : state) (d : bytes) : state * out :=
    let h := H d in
    match find_req (pending s) h with
    | None => (s, RNoRequester)
    | Some bks =>
        let r := fold_left (deliver_one d h) bks (dbs s, (pending s, Some h)) in
        ({| dbs := fst r; pending := remove_req (fst (snd r)) h; resolved := S (resolved s) |}, ROk)
    end.

  (* OnData that FAILS at the i-th requester (0-based) and returns the error at once.
       k = None    bk.Set of that requester returns an error;
       k = Some n  its value was stored, then requester.OnData returned an error after it had
                   registered the first n of its references (branch.resolve requests the
                   child slots before it resolves the branch value; a value object's Resolve
                   can fail on a store read).
     The requesters before i have been served completely; nothing else happens: the request
     stays in the list and in the map with all its requesters, resolved is not incremented. *)
  Definition deliver_part (d h : bytes) (acc : db * (list req * option bytes)) (bk : N) (n : nat)
    : db * (list req * option bytes) :=
    let x := db_put (fst acc) (bk, h) d in
    (x, fold_left (req_missing x) (firstn n (children bk d)) (snd acc)).

  Definition on_data_fail (s : state) (d : bytes) (i : nat) (k : option nat) : state * out :=
    let h := H d in
    match find_req (pending s) h with
    | None => (s, RNoRequester)
    | Some bks =>
        let r := fold_left (deliver_one d h) (firstn i bks) (dbs s, (pending s, Some h)) in
        let r' := match k, nth_error bks i with
                  | Some n, Some bk => deliver_part d h r bk n
                  | _, _ => r
                  end in
        ({| dbs := fst r'; pending := fst (snd r'); resolved := resolved s |}, RFail)
    end.

  (* trie.Resolve(builder) on a trie opened on builder.Database() with root hash snd r
     (bucket MerkleTrie), or syncProcessor.AddRequest(bucket, key): outside OnData, so
     onDataMark = nil and a new request is pushed to the back *)
  Definition start (s : state) (r : ref) : state :=
    {| dbs := dbs s; pending := fst (req_missing (dbs s) (pending s, None) r); resolved := resolved s |}.

  Inductive op :=
  | OStart (r : ref)
  | OData (d : bytes)
  | ONoHasher (d : bytes)       (* OnData with a bucket id that has no hasher *)
  | OFlush.                     (* Flush(true) *)

  Definition step (s : state) (o : op) : state * out :=
    match o with
    | OStart r => (start s r, ROk)
    | OData d => on_data s d
    | ONoHasher _ => (s, RNoHasher)
    | OFlush => ({| dbs := db_flush (dbs s); pending := pending s; resolved := resolved s |}, ROk)
    end.

  Definition run_from (s : state) (h : list op) : state :=
    fold_left (fun s o => fst (step s o)) h s.

  (* a builder made by merkle.NewBuilder(target) where target holds b0 *)
  Definition run (b0 : store) (h : list op) : state := run_from (init (Layered [] b0)) h.

  (* the outputs, for the correspondence run *)
  Fixpoint trace (s : state) (h : list op) : list (state * out) :=
    match h with
    | [] => []
    | o :: t => let r := step s o in r :: trace (fst r) t
    end.
End Builder.
