(* Proofs_ConsensusNet2.v — the network of engine models refines the abstract
   protocol for ALL event lists: any crash point inside any event, any number of
   surviving unsynced WAL records, any restarts (stage 2).

   Same structure as Proofs_ConsensusNet.v with the relation of
   Proofs_ConsensusNet2_Sim.v: the abstract soup is the image of
   [csoup byz net] = Byzantine votes + the own votes every correct engine has
   made DURABLE (synced round WAL); what the network can deliver ([soup]: votes
   actually sent) is a subset of it (C02: durable before sent). *)
From Coq Require Import List ZArith NArith Bool Arith Lia ZifyBool.
From Goloop Require Import Model_ConsensusNode Proofs_ConsensusNode Proofs_ConsensusNode_C01
  Model_ConsensusNet Proofs_ConsensusNet_Link Proofs_ConsensusNet_LockWAL Proofs_ConsensusNet2_Sim
  Proofs_ConsensusNet2_Run.
From Goloop Require Proofs_ConsensusNet.
Import ListNotations.
Open Scope Z_scope.

Set Implicit Arguments.

Module N1 := Proofs_ConsensusNet.

Lemma in_cast_votes s v : In v (cast_votes s) <-> cast s v.
Proof.
  unfold cast_votes, cast. rewrite in_flat_map. split.
  - intros [r [Hr Hv]]. destruct r as [u| | | | ]; try (destruct Hv; fail). destruct Hv as [<-|[]]. exact Hr.
  - intro H. exists (RVote v). split; auto. left; auto.
Qed.

Section NetProof2.
  Variable n : nat.
  Variable byz : nat -> bool.
  Variable blocks : list blk.
  Hypothesis blocks_ok : forall x, In x blocks -> (1 <= b_parts x)%N.
  Hypothesis Hb3 : (3 * nbyz n byz < n)%nat.

  Local Notation csoup := (csoup byz).
  Local Notation soup := (soup byz).

  Lemma in_csoup_from l : forall a v,
    In v (csoup_from byz a l) <->
    exists k s, nth_error l k = Some s /\ byz (a + k)%nat = false /\ cast s v.
  Proof.
    induction l as [|x l IH]; intros a v; cbn [csoup_from].
    - split; [intros []|intros [k [s [H _]]]; destruct k; discriminate].
    - rewrite in_app_iff, IH. split.
      + intros [H|[k [s [A [B C]]]]].
        * destruct (byz a) eqn:Bz; [destruct H|]. exists 0%nat, x. rewrite Nat.add_0_r.
          repeat split; auto. apply in_cast_votes; auto.
        * exists (S k), s. rewrite Nat.add_succ_r. auto.
      + intros [[|k] [s [A [B C]]]].
        * cbn in A. inversion A; subst. rewrite Nat.add_0_r in *. left. rewrite B. apply in_cast_votes; auto.
        * right. exists k, s. cbn in A. rewrite Nat.add_succ_r in *. auto.
  Qed.

  Lemma in_csoup net v :
    In v (csoup net) <->
    In v (byzsent net) \/ exists k s, nth_error (nodes net) k = Some s /\ byz k = false /\ cast s v.
  Proof. unfold Model_ConsensusNet.csoup. rewrite in_app_iff, in_csoup_from. cbn [Nat.add]. tauto. Qed.

  Definition env (i : nat) (net : netstate) : list vote :=
    filter (fun v => negb (Z.eqb (v_from v) (Z.of_nat i))) (csoup net).

  Definition nsoup (net : netstate) (v : vote) : Prop := In v (csoup net).

  Lemma in_env i net v : In v (env i net) <-> In v (csoup net) /\ v_from v <> Z.of_nat i.
  Proof. unfold env. rewrite filter_In, negb_true_iff, Z.eqb_neq. tauto. Qed.

  Record NodeOK (net : netstate) (T : TM.state) (i : nat) (s : st) : Prop := {
    no_inv : Inv (Z.of_nat i) s;
    no_invd : InvD n s;
    no_sim : exists L, SimS n byz blocks i (env i net) T (nsoup net) L s T;
    no_b : status_ s = Running -> blown s = false
  }.

  Definition byz_legal (net : netstate) : Prop := forall v, In v (byzsent net) -> legal_byz n byz v = true.

  (* the durable votes of a correct engine carry its slot *)
  Definition rv_ok (net : netstate) : Prop :=
    forall k s v, nth_error (nodes net) k = Some s -> byz k = false -> cast s v ->
      v_from v = Z.of_nat k /\ 0 <= v_round v.

  Record NetInv (net : netstate) (T : TM.state) : Prop := {
    ni_len : length (nodes net) = n;
    ni_byz : byz_legal net;
    ni_reach : TM.reachable n byz T;
    ni_nodes : forall i s, (i < n)%nat -> byz i = false -> nth_error (nodes net) i = Some s -> NodeOK net T i s
  }.

  Lemma NetInv_rv net T : NetInv net T -> rv_ok net.
  Proof.
    intros NI k s v Hk Bk C.
    assert (L : (k < n)%nat) by (rewrite <- (ni_len NI); apply nth_error_Some; congruence).
    destruct (no_sim (ni_nodes NI L Bk Hk)) as [L0 HS].
    apply (sr_rv (ss_r HS)). unfold wal_all. apply in_or_app; left. exact C.
  Qed.

  Lemma known_env net i s v :
    byz_legal net -> rv_ok net -> byz i = false -> nth_error (nodes net) i = Some s ->
    (known (env i net) s v <-> In v (csoup net)).
  Proof.
    intros BL RV Bi Hi. split.
    - intros [H|H]; [apply in_env in H; tauto|]. apply in_csoup. right. exists i, s. auto.
    - intro H. destruct (Z.eq_dec (v_from v) (Z.of_nat i)) as [Eq|Ne].
      + apply in_csoup in H as [H|[k [sk [A [B C]]]]].
        * apply BL, N1.legal_byz_spec in H as [_ [H _]]. rewrite Eq, Nat2Z.id in H. congruence.
        * right. destruct (RV k sk v A B C) as [F _]. rewrite F in Eq. apply Nat2Z.inj in Eq. subst k.
          rewrite Hi in A. inversion A; subst. exact C.
      + left. apply in_env. auto.
  Qed.

  Lemma env_ok net T i :
    NetInv net T ->
    forall v, In v (env i net) -> 0 <= v_from v < Z.of_nat n /\ 0 <= v_round v /\ v_from v <> Z.of_nat i.
  Proof.
    intros NI v Hv. apply in_env in Hv as [Hv Ne].
    apply in_csoup in Hv as [H|[k [sk [A [B C]]]]].
    - apply (ni_byz NI), N1.legal_byz_spec in H. split; [|split]; auto; tauto.
    - destruct (@NetInv_rv _ _ NI k sk v A B C) as [F R].
      assert (k < n)%nat by (rewrite <- (ni_len NI); apply nth_error_Some; congruence).
      split; [|split]; auto. lia.
  Qed.

  (* ---------------- the relation of an engine that does not move ---------------- *)

  Lemma Sim_transfer i E T0 K0 L s T E' T' (K0' : vote -> Prop) :
    (i < n)%nat -> byz i = false ->
    SimS n byz blocks i E T0 K0 L s T ->
    TM.reachable n byz T' -> TM.lock T' i = TM.lock T i -> TM.decided T' i = TM.decided T i ->
    incl (TM.soup T) (TM.soup T') ->
    (forall m, In m (TM.soup T') -> In m (TM.soup T) \/ TM.v_sender m <> i) ->
    (forall m, In m (TM.soup T') <-> exists v, known E' s v /\ conv v = m) ->
    (forall v, known E s v -> known E' s v) ->
    (forall v, K0' v -> known E' s v) ->
    SimS n byz blocks i E' T' K0' L s T'.
  Proof.
    intros Li Bi [H Ul Cm] Rc Lk Dc Inc New Sp Mono K0ok.
    assert (Own : forall m, In m (TM.soup T') -> TM.v_sender m = i -> In m (TM.soup T)).
    { intros m Hm Hs. destruct (New m Hm) as [A|A]; auto. contradiction. }
    constructor; auto.
    - constructor.
      + exact Rc.
      + split; [auto|split; [apply incl_refl|auto]].
      + exact Sp.
      + apply (sr_rv H).
      + intros lr b El. rewrite Lk in El. eapply TP.polka_mono; [exact Inc|]. apply (sr_lpolka H El).
      + intros b Eb. rewrite Dc. apply (sr_dec H); auto.
      + exact K0ok.
      + eapply Forall_lsub_mono; [exact Mono|apply (sr_walr H)].
      + eapply Forall_lsub_mono; [exact Mono|apply (sr_walc H)].
      + apply (sr_crv H).
      + intros v Hv. destruct (sr_pend H v Hv) as [OB G]. split.
        * intros m Hm Hs. apply OB; auto.
        * rewrite Lk. exact G.
      + apply (sr_pend1 H).
      + eapply lockwal_shape_mono; [exact Mono|apply (sr_shape H)].
      + eapply (@lock_safe_grow n byz Hb3); [apply (sr_lsafe H)|exact Inc|].
        intros r b Hin. apply Own; auto.
      + rewrite Lk. destruct (sr_lpart H) as [A|[pv [b [r0 [k0 [A [B' [C D]]]]]]]]; auto.
        right. exists pv, b, r0, k0. split; [auto|split; [auto|split; [|auto]]].
        eapply vs_sub_mono; [exact Mono|exact C].
      + intro O. rewrite Lk. apply (sr_lock H O).
      + intros O u Hu. apply Mono. apply (sr_hvs H O); auto.
      + apply (sr_round H).
      + intros O U. rewrite Lk. apply (sr_lk H O U).
      + apply (sr_nopend H).
    - intros O St. rewrite Dc. apply Cm; auto.
  Qed.

  Lemma NodeOK_transfer net T net' T' j s :
    NodeOK net T j s -> byz_legal net -> byz_legal net' -> rv_ok net -> rv_ok net' ->
    (j < n)%nat -> byz j = false ->
    nth_error (nodes net) j = Some s -> nth_error (nodes net') j = Some s ->
    TM.reachable n byz T' -> TM.lock T' j = TM.lock T j -> TM.decided T' j = TM.decided T j ->
    incl (TM.soup T) (TM.soup T') ->
    (forall m, In m (TM.soup T') -> In m (TM.soup T) \/ TM.v_sender m <> j) ->
    (forall v, In v (csoup net) -> In v (csoup net')) ->
    (forall m, In m (TM.soup T') <-> exists v, In v (csoup net') /\ conv v = m) ->
    NodeOK net' T' j s.
  Proof.
    intros [HI HD [L HS] HB] BL BL' RV RV' Lj Bj Nj Nj' Rc Lk Dc Inc New SM Sp. constructor; auto.
    exists L. eapply Sim_transfer; eauto.
    - intro m. rewrite Sp. split; intros [v [A B]]; exists v; split; auto; eapply (known_env v BL' RV' Bj Nj'); eauto.
    - intros v K. apply (known_env v BL' RV' Bj Nj'). apply SM. apply (known_env v BL RV Bj Nj). exact K.
    - intros v K. apply (known_env v BL' RV' Bj Nj'). exact K.
  Qed.

  (* ---------------- a correct engine moves ---------------- *)

  Lemma csoup_set_node net i s' v :
    (i < length (nodes net))%nat ->
    (In v (csoup (set_node i s' net)) <->
     In v (byzsent net) \/ (byz i = false /\ cast s' v) \/
     exists k s, k <> i /\ nth_error (nodes net) k = Some s /\ byz k = false /\ cast s v).
  Proof.
    intro L. rewrite in_csoup. cbn [set_node nodes byzsent]. split.
    - intros [H|[k [s [A [B C]]]]]; auto. destruct (Nat.eq_dec k i) as [->|Ne].
      + rewrite N1.nth_error_set_nth_same in A; auto. inversion A; subst. auto.
      + rewrite N1.nth_error_set_nth_other in A; auto. right. right. exists k, s. auto.
    - intros [H|[[B C]|[k [s [Ne [A [B C]]]]]]]; auto.
      + right. exists i, s'. rewrite N1.nth_error_set_nth_same; auto.
      + right. exists k, s. rewrite N1.nth_error_set_nth_other; auto.
  Qed.

  Lemma NetInv_node_step net T i s s' :
    NetInv net T -> (i < n)%nat -> byz i = false -> nth_error (nodes net) i = Some s ->
    PB n byz blocks i (env i net) T (nsoup net) s' ->
    exists T', NetInv (set_node i s' net) T'.
  Proof.
    intros NI Li Bi Hs [[HI HD [L [T' HS]]] HB].
    pose proof (ni_len NI) as Ln. pose proof (ni_byz NI) as BL. pose proof (NetInv_rv NI) as RV.
    assert (Li' : (i < length (nodes net))%nat) by lia.
    set (net' := set_node i s' net).
    assert (BL' : byz_legal net') by exact BL.
    assert (N' : nth_error (nodes net') i = Some s') by (apply N1.nth_set_node_same; auto).
    assert (RV' : rv_ok net').
    { intros k sk v Hk Bk C. destruct (Nat.eq_dec k i) as [->|Ne].
      - rewrite N' in Hk. inversion Hk; subst sk.
        apply (sr_rv (ss_r HS)). unfold wal_all. apply in_or_app; left. exact C.
      - subst net'. rewrite N1.nth_set_node_other in Hk; auto. eapply RV; eauto. }
    (* known to engine i after the step = the new durable soup *)
    assert (A : forall v, known (env i net) s' v <-> In v (csoup net')).
    { intro v. subst net'. rewrite csoup_set_node; auto. split.
      - intros [H|H]; [|auto]. apply in_env in H as [H Ne]. apply in_csoup in H as [H|[k [sk [A1 [B1 C1]]]]]; auto.
        right. right. exists k, sk. repeat split; auto. intros ->. destruct (RV i sk v A1 B1 C1) as [F _]. contradiction.
      - intros [H|[[_ H]|[k [sk [Ne [A1 [B1 C1]]]]]]].
        + left. apply in_env. split; [apply in_csoup; auto|].
          apply BL, N1.legal_byz_spec in H as [H0 [H _]]. intro Eq. rewrite Eq, Nat2Z.id in H. congruence.
        + right. exact H.
        + left. apply in_env. split; [apply in_csoup; right; exists k, sk; auto|].
          destruct (RV k sk v A1 B1 C1) as [F _]. rewrite F. lia. }
    assert (SM : forall v, In v (csoup net) -> In v (csoup net')).
    { intros v Hv. apply A. apply (sr_k0 (ss_r HS)). exact Hv. }
    assert (Sp : forall m, In m (TM.soup T') <-> exists v, In v (csoup net') /\ conv v = m).
    { intro m. rewrite (sr_soup (ss_r HS)). split; intros [v [K C]]; exists v; split; auto; apply A; auto. }
    destruct (sr_frame (ss_r HS)) as [Fr [Inc New]].
    exists T'. constructor.
    - subst net'. cbn. rewrite set_nth_length. exact Ln.
    - exact BL'.
    - apply (sr_reach (ss_r HS)).
    - intros j sj Lj Bj Hj. destruct (Nat.eq_dec j i) as [->|Ne].
      + rewrite N' in Hj. inversion Hj; subst sj. constructor; auto.
        exists L. eapply Sim_transfer; eauto using (sr_reach (ss_r HS)), incl_refl.
        * intro m. rewrite Sp. split; intros [v [K C]]; exists v; split; auto; eapply (known_env v BL' RV' Bi N'); eauto.
        * intros v K. apply (known_env v BL' RV' Bi N'). apply A; auto.
        * intros v K. apply (known_env v BL' RV' Bi N'). exact K.
      + assert (Hj0 : nth_error (nodes net) j = Some sj).
        { subst net'. rewrite N1.nth_set_node_other in Hj; auto. }
        destruct (Fr j Ne) as [F1 F2].
        refine (NodeOK_transfer (ni_nodes NI Lj Bj Hj0) BL BL' RV RV' Lj Bj Hj0 Hj (sr_reach (ss_r HS)) F1 F2 Inc _ SM Sp).
        intros m Hm. destruct (New m Hm) as [X|X]; auto. right. congruence.
  Qed.

  (* an engine in a Byzantine slot is invisible *)
  Lemma NetInv_byz_node net T i s' :
    NetInv net T -> (i < length (nodes net))%nat -> byz i = true -> NetInv (set_node i s' net) T.
  Proof.
    intros NI Li' Bi. pose proof (ni_len NI) as Ln. pose proof (ni_byz NI) as BL. pose proof (NetInv_rv NI) as RV.
    set (net' := set_node i s' net).
    assert (SE : forall v, In v (csoup net') <-> In v (csoup net)).
    { intro v. subst net'. rewrite csoup_set_node, in_csoup; auto. split.
      - intros [H|[[B H]|[k [sk [Ne [A1 [B1 C1]]]]]]]; auto; [congruence|].
        right. exists k, sk. auto.
      - intros [H|[k [sk [A1 [B1 C1]]]]]; auto. destruct (Nat.eq_dec k i) as [->|Ne]; [congruence|].
        right. right. exists k, sk. auto. }
    assert (RV' : rv_ok net').
    { intros k sk v Hk Bk C. assert (Ne : k <> i) by congruence.
      subst net'. rewrite N1.nth_set_node_other in Hk; auto. eapply RV; eauto. }
    constructor.
    - subst net'. cbn. rewrite set_nth_length. exact Ln.
    - exact BL.
    - apply (ni_reach NI).
    - intros j sj Lj Bj Hj. assert (Ne : j <> i) by congruence.
      assert (Hj0 : nth_error (nodes net) j = Some sj).
      { subst net'. rewrite N1.nth_set_node_other in Hj; auto. }
      pose proof (ni_nodes NI Lj Bj Hj0) as OK. destruct (no_sim OK) as [L0 HS0].
      refine (NodeOK_transfer OK BL (BL : byz_legal net') RV RV' Lj Bj Hj0 Hj (ni_reach NI) eq_refl eq_refl (incl_refl _) _ _ _).
      + intros m Hm. auto.
      + intros v Hv. apply SE; auto.
      + intro m. rewrite (sr_soup (ss_r HS0)). split; intros [v [K C]]; exists v; split; auto.
        * apply SE. apply (known_env v BL RV Bj Hj0). exact K.
        * apply (known_env v BL RV Bj Hj0). apply SE. exact K.
  Qed.

  (* ---------------- a Byzantine send ---------------- *)

  Lemma NetInv_byz net T v :
    NetInv net T -> legal_byz n byz v = true ->
    exists T', NetInv (mkNet (nodes net) (byzsent net ++ [v])) T'.
  Proof.
    intros NI Lg. pose proof (ni_byz NI) as BL. pose proof (NetInv_rv NI) as RV.
    destruct (@N1.legal_byz_spec n byz v Lg) as [Rg [Bz Rd]].
    set (net' := mkNet (nodes net) (byzsent net ++ [v])).
    set (T' := TM.add_vote T (conv v)).
    assert (St : TM.step n byz T (TM.ByzSend (conv v)) = Some T') by (apply tm_byzsend; exact Bz).
    assert (Rc : TM.reachable n byz T') by (eapply TP.reachable_step; [apply (ni_reach NI)|exact St]).
    assert (BL' : byz_legal net').
    { intros u Hu. subst net'. cbn in Hu. apply in_app_or in Hu as [Hu|[<-|[]]]; auto. }
    assert (SE : forall u, In u (csoup net') <-> In u (csoup net) \/ u = v).
    { intro u. rewrite !in_csoup. subst net'. cbn [byzsent nodes]. rewrite In_app_one. tauto. }
    assert (RV' : rv_ok net') by exact RV.
    exists T'. constructor; auto.
    - apply (ni_len NI).
    - intros j sj Lj Bj Hj. pose proof (ni_nodes NI Lj Bj Hj) as OK. destruct (no_sim OK) as [L0 HS0].
      refine (NodeOK_transfer OK BL BL' RV RV' Lj Bj Hj Hj Rc eq_refl eq_refl _ _ _ _).
      + subst T'. cbn. apply incl_tl, incl_refl.
      + subst T'. cbn. intros m [<-|Hm]; auto. right. cbn. intro X. rewrite X in Bz. congruence.
      + intros u Hu. apply SE; auto.
      + intro m. subst T'. cbn [TM.add_vote TM.soup]. cbn [In].
        rewrite (sr_soup (ss_r HS0)). split.
        * intros [<-|[u [K C]]]; [exists v; split; auto; apply SE; auto|].
          exists u. split; auto. apply SE. left. apply (known_env u BL RV Bj Hj). exact K.
        * intros [u [K C]]. apply SE in K as [K| ->]; auto.
          right. exists u. split; auto. apply (known_env u BL RV Bj Hj). exact K.
  Qed.

  (* ---------------- the initial network ---------------- *)

  Lemma csoup_init v : ~ In v (csoup (net_init n)).
  Proof.
    rewrite in_csoup. cbn. intros [[]|[k [s [A [B C]]]]].
    apply N1.nth_repeat in A. subst s. destruct C.
  Qed.

  Lemma NetInv_init : NetInv (net_init n) (TM.init).
  Proof.
    constructor.
    - cbn. apply repeat_length.
    - intros v [].
    - apply TP.reachable_init.
    - intros i s Li Bi Hs. cbn in Hs. apply N1.nth_repeat in Hs. subst s.
      assert (NK : forall v, ~ known (env i (net_init n)) init v).
      { intros v [H|[]]. apply in_env in H as [H _]. exact (@csoup_init v H). }
      assert (Dead : ~ vol_ok init) by (intros [R _]; discriminate R).
      constructor.
      + apply (ib_inv (InvB_init (Z.of_nat i))).
      + apply InvD_init.
      + exists None. constructor; try (intro; contradiction).
        constructor; try (intro; contradiction).
        * apply TP.reachable_init.
        * split; [auto|split; [apply incl_refl|auto]].
        * intro m. split; [intros []|intros [v [K _]]; exact (NK v K)].
        * cbn. discriminate.
        * cbn. discriminate.
        * intros v Hv. exfalso. exact (@csoup_init v Hv).
        * constructor.
        * constructor.
        * intros v [].
        * constructor.
        * reflexivity.
        * left. reflexivity.
      + intro R. discriminate R.
  Qed.

  (* ---------------- one event of the network, any crash point ---------------- *)

  (* what was handed to the network was made durable by its signer before (C02) *)
  Lemma soup_csoup net T v : NetInv net T -> In v (soup net) -> In v (csoup net).
  Proof.
    intros NI Hv. apply N1.in_soup in Hv as [H|[k [sk [A [B [r [t [d [c [C ->]]]]]]]]]].
    - apply in_csoup. auto.
    - assert (L : (k < n)%nat) by (rewrite <- (ni_len NI); apply nth_error_Some; congruence).
      pose proof (inv_dur (no_inv (ni_nodes NI L B A)) _ C) as D. cbn in D.
      apply in_csoup. right. exists k, sk. auto.
  Qed.

  Lemma legal_ev_k0 net e : legal_event (csoup net) e = true -> ev_k0 (nsoup net) e.
  Proof.
    destruct e; cbn; auto.
    - destruct curh; auto. apply N1.vote_mem_In.
    - intros H c v Hin Hc. rewrite forallb_forall in H. specialize (H _ Hin). cbn in H. subst c. cbn in H.
      apply N1.vote_mem_In; auto.
  Qed.

  Lemma net_step_inv net T e : NetInv net T -> exists T', NetInv (net_step n byz blocks net e) T'.
  Proof.
    intros NI. destruct e as [i [[ev fz] d]|v]; cbn [net_step fst snd].
    - destruct (nth_error (nodes net) i) as [s|] eqn:Hs; [|exists T; auto].
      destruct (legal_event (csoup net) ev) eqn:Lg; [|exists T; auto].
      assert (Li : (i < n)%nat) by (rewrite <- (ni_len NI); apply nth_error_Some; congruence).
      assert (Li' : (i < length (nodes net))%nat) by (rewrite (ni_len NI); auto).
      destruct (byz i) eqn:Bi.
      { exists T. apply NetInv_byz_node; auto. }
      pose proof (ni_nodes NI Li Bi Hs) as [HI HD [L HS] HB].
      assert (P0 : PB n byz blocks i (env i net) T (nsoup net) s).
      { split; auto. constructor; eauto. }
      unfold node_step. cbn [fst snd].
      assert (P' := P_step_ev Li Bi (env_ok i NI) blocks_ok Hb3 d ev fz P0 (legal_ev_k0 _ _ Lg)).
      remember (step_ev n (Z.of_nat i) blocks d ev fz s) as s' eqn:Es. clear Es.
      exact (NetInv_node_step NI Li Bi Hs P').
    - destruct (legal_byz n byz v) eqn:Lg; [|exists T; auto].
      exact (NetInv_byz v NI Lg).
  Qed.

  Lemma run_net_inv evs : forall net T, NetInv net T -> exists T', NetInv (run_net_from n byz blocks net evs) T'.
  Proof.
    induction evs as [|e evs IH]; intros net T NI; cbn [run_net_from fold_left].
    - exists T; auto.
    - destruct (@net_step_inv net T e NI) as [T' NI']. apply (IH _ T'); auto.
  Qed.

  Lemma all_inv evs : exists T, NetInv (run_net n byz blocks evs) T.
  Proof. apply (@run_net_inv evs (net_init n) TM.init). apply NetInv_init. Qed.

  (* ---------------- what the invariant gives ---------------- *)

  Theorem agreement evs :
    forall i j v w, correct n byz i -> correct n byz j ->
      decided_of (run_net n byz blocks evs) i = Some v ->
      decided_of (run_net n byz blocks evs) j = Some w -> v = w.
  Proof.
    destruct (all_inv evs) as [T NI].
    intros i j v w [Li Bi] [Lj Bj] Di Dj. unfold decided_of in *.
    destruct (nth_error (nodes (run_net n byz blocks evs)) i) as [si|] eqn:Hi; [|discriminate].
    destruct (nth_error (nodes (run_net n byz blocks evs)) j) as [sj|] eqn:Hj; [|discriminate].
    destruct (no_sim (ni_nodes NI Li Bi Hi)) as [L1 H1]. destruct (no_sim (ni_nodes NI Lj Bj Hj)) as [L2 H2].
    pose proof (sr_dec (ss_r H1) Di) as Ti. pose proof (sr_dec (ss_r H2) Dj) as Tj.
    exact (TP.tm_agreement n byz Hb3 T i j v w (ni_reach NI) (correct_i n byz i Li Bi) (correct_i n byz j Lj Bj) Ti Tj).
  Qed.

  (* a block is finalized only on more than 2n/3 precommits of one round among the
     Byzantine votes and the durable votes of the correct engines *)
  Theorem finalize_needs_quorum evs :
    forall i b, correct n byz i -> decided_of (run_net n byz blocks evs) i = Some b ->
      exists r, 0 <= r /\ over23 (count_precommits (csoup (run_net n byz blocks evs)) n r b) n = true.
  Proof.
    destruct (all_inv evs) as [T NI]. set (net := run_net n byz blocks evs) in *.
    intros i b [Li Bi] Di. unfold decided_of in *.
    destruct (nth_error (nodes net) i) as [si|] eqn:Hi; [|discriminate].
    destruct (no_sim (ni_nodes NI Li Bi Hi)) as [L1 HS].
    pose proof (sr_dec (ss_r HS) Di) as Ti.
    destruct (TP.tm_decide_needs_quorum n byz Hb3 T i b (ni_reach NI) Ti) as [r Q].
    exists (Z.of_N r). split; [lia|].
    unfold TM.qprecommit, TM.quorum in Q.
    change (TM.over23 (TM.countn (fun k => has_vote_of (csoup net) k (Z.of_N r) Precommit (Some b)) n) n = true).
    eapply TP.over23_mono; [|exact Q]. apply TP.countn_mono. intros k Lk Hk.
    apply TP.has_vote_In in Hk. apply (sr_soup (ss_r HS)) in Hk as [v [K C]].
    apply (known_env v (ni_byz NI) (NetInv_rv NI) Bi Hi) in K.
    assert (W : 0 <= v_from v /\ 0 <= v_round v).
    { apply in_csoup in K as [H|[k0 [sk [A [B C0]]]]].
      - apply (ni_byz NI), N1.legal_byz_spec in H. lia.
      - destruct (@NetInv_rv _ _ NI k0 sk v A B C0) as [F R]. lia. }
    unfold has_vote_of. apply existsb_exists. exists v. split; auto.
    unfold conv in C. inversion C.
    rewrite !andb_true_iff. repeat split.
    - apply Z.eqb_eq. lia.
    - apply Z.eqb_eq. lia.
    - destruct (v_type v); [discriminate|reflexivity].
    - rewrite H3. apply dec_eqb_refl.
  Qed.

  Theorem refinement evs :
    exists T, TM.reachable n byz T /\
      forall i s, correct n byz i -> node_of (run_net n byz blocks evs) i = Some s ->
        (forall m, In m (TM.soup T) <-> exists v, In v (csoup (run_net n byz blocks evs)) /\ conv v = m) /\
        (status_ s = Running -> TM.lock T i = convlock (lock_of s)) /\
        (forall b, decided s = Some b -> TM.decided T i = Some b).
  Proof.
    destruct (all_inv evs) as [T NI]. exists T. split; [apply (ni_reach NI)|].
    intros i s [Li Bi] Hs. unfold node_of in Hs. pose proof (ni_nodes NI Li Bi Hs) as OK.
    destruct (no_sim OK) as [L HS].
    split; [|split].
    - intro m. rewrite (sr_soup (ss_r HS)). split; intros [v [K C]]; exists v; split; auto;
        apply (known_env v (ni_byz NI) (NetInv_rv NI) Bi Hs); auto.
    - intro R. apply (sr_lock (ss_r HS)). split; auto. apply (no_b OK R).
    - apply (sr_dec (ss_r HS)).
  Qed.

End NetProof2.

(* ================================================================== *)
(* Non-vacuity: a crash INSIDE an event (n = 4, slot 3 Byzantine).     *)
(* Engine 0 dies in the import callback after the WAL write and the Sync of its
   prevote, before the broadcast ([fuse = Some 2]); it restarts: the prevote is
   durable ([csoup]) but was never sent ([soup]); engine 0 counts it in its own
   vote set (with the prevote of 1 and the Byzantine one it sees the polka),
   cannot lock (it lost the block) and precommits nil.  Engines 1 and 2 see the
   polka through the Byzantine prevote, precommit block 1 and finalize it with
   the Byzantine precommit. *)
Definition ex2_bz1 : vote := mkVote 3 0 Prevote (Some 1%N) 5.
Definition ex2_bz2 : vote := mkVote 3 0 Precommit (Some 1%N) 7.

Definition ex2_hist : list nev :=
  [ Restart 0; Restart 1; Restart 2;
    Callback 1 (EProposeCb 0 true 1);
    Deliver 0 (EProposal true 0 1 (-1) 1); Deliver 0 (EPart true 1 0) ] ++
  CrashIn 0 (EImportCb 0 true) 2 false 0 0 0 ++
  [ Restart 0;
    Deliver 2 (EProposal true 0 1 (-1) 1); Deliver 2 (EPart true 1 0); Callback 2 (EImportCb 0 true);
    ByzSend ex2_bz1;
    DeliverVotes 0 [N1.ex_pv 1 0 (Some 1%N); ex2_bz1];
    DeliverVotes 1 [N1.ex_pv 2 0 (Some 1%N); ex2_bz1];
    DeliverVotes 2 [N1.ex_pv 1 0 (Some 1%N); ex2_bz1];
    ByzSend ex2_bz2;
    DeliverVotes 1 [N1.ex_pc 2 0 (Some 1%N); ex2_bz2];
    DeliverVotes 2 [N1.ex_pc 1 0 (Some 1%N); ex2_bz2] ].

Example ex2_hist_meets_hypotheses :
  (forall x, In x N1.ex_blocks1 -> (1 <= b_parts x)%N) /\ (3 * nbyz 4 N1.ex_byz3 < 4)%nat /\
  boundary_crashes ex2_hist = false /\ correct 4 N1.ex_byz3 1 /\ correct 4 N1.ex_byz3 2.
Proof.
  split; [exact N1.ex_blocks1_ok|]. vm_compute. repeat split; auto; lia.
Qed.

Example ex2_hist_decides :
  let net := run_net 4 N1.ex_byz3 N1.ex_blocks1 ex2_hist in
  decided_of net 1 = Some 1%N /\ decided_of net 2 = Some 1%N /\ decided_of net 0 = None /\
  (* the prevote of engine 0 is durable but was never handed to the network *)
  vote_mem (N1.ex_pv 0 0 (Some 1%N)) (csoup N1.ex_byz3 net) = true /\
  vote_mem (N1.ex_pv 0 0 (Some 1%N)) (soup N1.ex_byz3 net) = false /\
  over23 (count_precommits (csoup N1.ex_byz3 net) 4 0 1) 4 = true.
Proof. vm_compute. repeat split; reflexivity. Qed.

(* the durable prevote of engine 0 was never broadcast by OSendVote, but it exists:
   after the restart engine 0 holds it and hands it on in vote lists, so the
   network may deliver it — engine 1 sees the polka {0, 1, 2} and locks.  The
   same list with a prevote of engine 0 for another block (never signed) is
   dropped. *)
Example ex2_durable_vote_deliverable :
  option_map lock_of (node_of (run_net 4 N1.ex_byz3 N1.ex_blocks1
     (firstn 12 ex2_hist ++ [DeliverVotes 1 [N1.ex_pv 0 0 (Some 1%N); N1.ex_pv 2 0 (Some 1%N)]])) 1)
  = Some (Some (0, 1%N)) /\
  run_net 4 N1.ex_byz3 N1.ex_blocks1
     (firstn 12 ex2_hist ++ [DeliverVotes 1 [N1.ex_pv 0 0 (Some 9%N); N1.ex_pv 2 0 (Some 1%N)]])
  = run_net 4 N1.ex_byz3 N1.ex_blocks1 (firstn 12 ex2_hist).
Proof. vm_compute. split; reflexivity. Qed.
