(* Proofs_DoubleSign.v — lemmas about Model_DoubleSign (property C06). Stdlib style. *)
From Goloop Require Import lib.Bytes Model_DoubleSign.
From Coq Require Import ZifyBool ZifyN ZifyNat.
Open Scope N_scope.

(* ------------------------------------------------------------------ *)
(* small reflection facts                                              *)

Lemma bytes_eqb_neq a b : bytes_eqb a b = false <-> a <> b.
Proof.
  split.
  - intros H E. apply bytes_eqb_eq in E. congruence.
  - intros H. destruct (bytes_eqb a b) eqn:E; auto. apply bytes_eqb_eq in E. contradiction.
Qed.

Lemma kind_eqb_eq a b : kind_eqb a b = true <-> a = b.
Proof. destruct a, b; cbn; split; congruence. Qed.

Ltac breflect :=
  repeat match goal with
  | H : negb _ = true |- _ => apply Bool.negb_true_iff in H
  | H : negb _ = false |- _ => apply Bool.negb_false_iff in H
  | H : (_ || _)%bool = true |- _ => apply Bool.orb_true_iff in H
  | H : (_ || _)%bool = false |- _ => apply Bool.orb_false_iff in H; destruct H
  | H : (_ && _)%bool = true |- _ => apply andb_true_iff in H; destruct H
  | H : N.eqb _ _ = true |- _ => apply N.eqb_eq in H
  | H : N.eqb _ _ = false |- _ => apply N.eqb_neq in H
  | H : Z.eqb _ _ = true |- _ => apply Z.eqb_eq in H
  | H : Z.eqb _ _ = false |- _ => apply Z.eqb_neq in H
  | H : bytes_eqb _ _ = true |- _ => apply bytes_eqb_eq in H
  | H : bytes_eqb _ _ = false |- _ => apply bytes_eqb_neq in H
  end.

(* ------------------------------------------------------------------ *)
(* matchNID                                                            *)

Lemma match_nid_spec a b : match_nid a b = true <-> (a = 0 \/ b = 0 \/ a = b).
Proof.
  unfold match_nid.
  destruct (a =? 0) eqn:Ha; destruct (b =? 0) eqn:Hb; cbn [orb]; breflect.
  - tauto.
  - tauto.
  - tauto.
  - rewrite N.eqb_eq. tauto.
Qed.

Lemma match_nid_false a b : match_nid a b = false <-> (a <> 0 /\ b <> 0 /\ a <> b).
Proof.
  destruct (match_nid a b) eqn:E.
  - apply match_nid_spec in E. split; [discriminate|]. intros (?&?&?). destruct E as [|[|]]; contradiction.
  - split; [|reflexivity]. intros _.
    repeat split; intro H; assert (match_nid a b = true) by (apply match_nid_spec; auto); congruence.
Qed.

Lemma match_nid_sym a b : match_nid a b = match_nid b a.
Proof.
  apply eq_true_iff_eq. rewrite !match_nid_spec. intuition congruence.
Qed.

(* ------------------------------------------------------------------ *)
(* the conflict predicate                                              *)

Lemma vote_conflict_iff a b :
  vote_conflict a b = true <->
  signer a = signer b /\ height a = height b /\ round a = round b /\ vtype a = vtype b /\
  match_nid (nid a) (nid b) = true /\ hash a <> hash b.
Proof.
  unfold vote_conflict.
  destruct (negb (match_nid (nid a) (nid b))) eqn:E1.
  - breflect. split; [discriminate|]. intros (_&_&_&_&H&_). congruence.
  - destruct (negb (vtype b =? vtype a) || negb (height b =? height a)%Z
              || negb (round b =? round a)%Z || negb (bytes_eqb (signer b) (signer a)))%bool eqn:E2.
    + split; [discriminate|]. intros (Hs&Hh&Hr&Ht&_&_).
      rewrite Hs, Hh, Hr, Ht in E2.
      rewrite N.eqb_refl, !Z.eqb_refl, bytes_eqb_refl in E2. cbn in E2. discriminate.
    + breflect. rewrite Bool.negb_true_iff, bytes_eqb_neq.
      split.
      * intros Hd. repeat split; auto.
      * intros (_&_&_&_&_&Hd). exact Hd.
Qed.

Lemma prop_conflict_iff a b :
  prop_conflict a b = true <->
  signer a = signer b /\ height a = height b /\ round a = round b /\
  match_nid (nid a) (nid b) = true /\ hash a <> hash b.
Proof.
  unfold prop_conflict.
  destruct (negb (match_nid (nid a) (nid b))) eqn:E1.
  - breflect. split; [discriminate|]. intros (_&_&_&H&_). congruence.
  - destruct (negb (height a =? height b)%Z || negb (round a =? round b)%Z
              || negb (bytes_eqb (signer b) (signer a)))%bool eqn:E2.
    + split; [discriminate|]. intros (Hs&Hh&Hr&_&_).
      rewrite Hs, Hh, Hr in E2.
      rewrite !Z.eqb_refl, bytes_eqb_refl in E2. cbn in E2. discriminate.
    + breflect. rewrite Bool.negb_true_iff, bytes_eqb_neq.
      split.
      * intros Hd. repeat split; auto.
      * intros (_&_&_&_&Hd). exact Hd.
Qed.

Lemma conflict_iff a b :
  is_conflict a b = true <->
  mkind a = mkind b /\ signer a = signer b /\ height a = height b /\ round a = round b /\
  (mkind a = KVote -> vtype a = vtype b) /\
  match_nid (nid a) (nid b) = true /\ hash a <> hash b.
Proof.
  unfold is_conflict. destruct (mkind a) eqn:Ka; destruct (mkind b) eqn:Kb.
  - rewrite vote_conflict_iff. split.
    + intros (?&?&?&?&?&?). repeat split; auto.
    + intros (_&?&?&?&Hv&?&?). repeat split; auto.
  - split; [discriminate|]. intros (H&_). discriminate.
  - split; [discriminate|]. intros (H&_). discriminate.
  - rewrite prop_conflict_iff. split.
    + intros (?&?&?&?&?). repeat split; auto. discriminate.
    + intros (_&?&?&?&_&?&?). repeat split; auto.
Qed.

Lemma conflict_sym a b : is_conflict a b = is_conflict b a.
Proof.
  apply eq_true_iff_eq. rewrite !conflict_iff. rewrite (match_nid_sym (nid a) (nid b)).
  split; intros (Hk&Hs&Hh&Hr&Hv&Hn&Hd); repeat split; auto.
  - intros K. symmetry. apply Hv. congruence.
  - intros K. symmetry. apply Hv. congruence.
Qed.

Lemma conflict_irrefl a : is_conflict a a = false.
Proof.
  destruct (is_conflict a a) eqn:E; auto.
  apply conflict_iff in E. destruct E as (_&_&_&_&_&_&Hd). now elim Hd.
Qed.

(* every clause of "never reported" in one statement *)
Lemma conflict_never a b :
  (mkind a <> mkind b \/ signer a <> signer b \/ height a <> height b \/ round a <> round b \/
   (mkind a = KVote /\ vtype a <> vtype b) \/
   (nid a <> 0 /\ nid b <> 0 /\ nid a <> nid b) \/ hash a = hash b) ->
  is_conflict a b = false.
Proof.
  intros H. destruct (is_conflict a b) eqn:E; auto. exfalso.
  apply conflict_iff in E. destruct E as (Hk&Hs&Hh&Hr&Hv&Hn&Hd).
  destruct H as [H|[H|[H|[H|[(K&H)|[H|H]]]]]]; try contradiction.
  - apply H. now apply Hv.
  - apply match_nid_false in H. congruence.
Qed.

(* ------------------------------------------------------------------ *)
(* the unsigned attachments never matter                                *)

Lemma conflict_unsigned_invariant a b e1 c1 e2 c2 :
  is_conflict (with_unsigned e1 c1 a) (with_unsigned e2 c2 b) = is_conflict a b.
Proof. reflexivity. Qed.

(* two messages that agree on everything that is signed or recovered from the
   signature are interchangeable for the predicate *)
Definition same_signed (a a' : msg) : Prop :=
  signer a = signer a' /\ height a = height a' /\ round a = round a' /\ mkind a = mkind a' /\
  vtype a = vtype a' /\ nid a = nid a' /\ hash a = hash a'.

Lemma same_signed_with_unsigned a a' :
  same_signed a a' -> a' = with_unsigned (unsigned_ext a') (cost a') a.
Proof.
  destruct a, a'. unfold same_signed, with_unsigned. cbn.
  intros (?&?&?&?&?&?&?). subst. reflexivity.
Qed.

Lemma conflict_same_signed a a' b b' :
  same_signed a a' -> same_signed b b' -> is_conflict a b = is_conflict a' b'.
Proof.
  intros Ha Hb. rewrite (same_signed_with_unsigned _ _ Ha), (same_signed_with_unsigned _ _ Hb).
  symmetry. apply conflict_unsigned_invariant.
Qed.

(* one signed message with its unsigned part rewritten is never evidence *)
Lemma conflict_rewritten_copy a a' : same_signed a a' -> is_conflict a a' = false.
Proof.
  intros H. rewrite <- (conflict_irrefl a). symmetry. apply conflict_same_signed; auto.
  unfold same_signed. repeat split; reflexivity.
Qed.

(* the seeded change C06_1: votes compared by EqualExceptSigs, whose round-decision
   digest also covers the (unsigned) NTSVoteBases, instead of by the signed hash.
   In the model the digest is injective in (hash, unsigned_ext) at best; this variant
   reports a rewritten copy of ONE signed precommit. *)
Definition vote_conflict_extbug (v v2 : msg) : bool :=
  if negb (match_nid (nid v) (nid v2)) then false else
  if negb (vtype v2 =? vtype v)
     || negb (height v2 =? height v)%Z
     || negb (round v2 =? round v)%Z
     || negb (bytes_eqb (signer v2) (signer v)) then false
  else negb (bytes_eqb (hash v) (hash v2) && bytes_eqb (unsigned_ext v) (unsigned_ext v2)).

Definition extbug_a : msg := mkMsg [1;2;3] 10 0 KVote 1 1 [170;1] 500 [51].
Definition extbug_b : msg := mkMsg [1;2;3] 10 0 KVote 1 1 [170;1] 500 [68].

Lemma extbug_refuted :
  same_signed extbug_a extbug_b /\
  vote_conflict_extbug extbug_a extbug_b = true /\ is_conflict extbug_a extbug_b = false.
Proof. vm_compute. repeat split; reflexivity. Qed.

(* ------------------------------------------------------------------ *)
(* the defect repaired by b95d1c1: the receiver's network id read twice *)

Definition vote_conflict_nidbug (v v2 : msg) : bool :=
  let nid1 := nid v in
  let nid2 := nid v in
  if negb (match_nid nid1 nid2) then false else
  if negb (vtype v2 =? vtype v)
     || negb (height v2 =? height v)%Z
     || negb (round v2 =? round v)%Z
     || negb (bytes_eqb (signer v2) (signer v)) then false
  else negb (bytes_eqb (hash v) (hash v2)).

Definition is_conflict_nidbug (a b : msg) : bool :=
  match mkind a, mkind b with
  | KVote, KVote => vote_conflict_nidbug a b
  | KProposal, KProposal => prop_conflict a b
  | _, _ => false
  end.

(* the pair kept in corpus/C06/nid_mismatch_votes.json (ids and hashes shortened) *)
Definition nidbug_a : msg := mkMsg [1;2;3] 10 0 KVote 1 3 [170;1] 500 [].
Definition nidbug_b : msg := mkMsg [1;2;3] 10 0 KVote 1 7 [187;2] 500 [].

Lemma nidbug_refuted :
  nid nidbug_a <> 0 /\ nid nidbug_b <> 0 /\ nid nidbug_a <> nid nidbug_b /\
  is_conflict_nidbug nidbug_a nidbug_b = true /\ is_conflict nidbug_a nidbug_b = false.
Proof. vm_compute. repeat split; discriminate. Qed.

(* ------------------------------------------------------------------ *)
(* keys and the association list                                       *)

Lemma dkey_eqb_eq a b : dkey_eqb a b = true <-> a = b.
Proof.
  destruct a as [ak av aa ah ar], b as [bk bv ba bh br]. unfold dkey_eqb.
  cbn [k_kind k_vtype k_addr k_height k_round].
  rewrite !andb_true_iff, kind_eqb_eq, N.eqb_eq, bytes_eqb_eq, !Z.eqb_eq.
  split.
  - intros ((((?&?)&?)&?)&?). subst. reflexivity.
  - intros H. inversion H. auto.
Qed.

Lemma dkey_eqb_refl k : dkey_eqb k k = true.
Proof. now apply dkey_eqb_eq. Qed.

Lemma dkey_eqb_neq a b : dkey_eqb a b = false <-> a <> b.
Proof.
  split.
  - intros H E. apply dkey_eqb_eq in E. congruence.
  - intros H. destruct (dkey_eqb a b) eqn:E; auto. apply dkey_eqb_eq in E. contradiction.
Qed.

Lemma kv_get_del k k' kv :
  kv_get k (kv_del k' kv) = if dkey_eqb k k' then None else kv_get k kv.
Proof.
  induction kv as [|[k2 v] r IH]; cbn.
  - now destruct (dkey_eqb k k').
  - destruct (dkey_eqb k' k2) eqn:E.
    + rewrite IH. destruct (dkey_eqb k k') eqn:E2; auto.
      apply dkey_eqb_eq in E. subst k2. now rewrite E2.
    + cbn. destruct (dkey_eqb k k2) eqn:E3.
      * destruct (dkey_eqb k k') eqn:E2; auto.
        apply dkey_eqb_eq in E3. apply dkey_eqb_eq in E2. subst. rewrite dkey_eqb_refl in E. discriminate.
      * apply IH.
Qed.

Lemma kv_get_set k k' v kv :
  kv_get k (kv_set k' v kv) = if dkey_eqb k k' then Some v else kv_get k kv.
Proof.
  unfold kv_set. cbn. rewrite kv_get_del. now destruct (dkey_eqb k k').
Qed.

Lemma key_of_kind m : k_kind (key_of m) = mkind m.
Proof. unfold key_of. now destruct (mkind m). Qed.

(* two messages with the same log key agree on everything the predicate compares
   except network id and hash *)
Lemma key_of_same a b :
  key_of a = key_of b ->
  mkind a = mkind b /\ signer a = signer b /\ height a = height b /\ round a = round b /\
  (mkind a = KVote -> vtype a = vtype b).
Proof.
  unfold key_of, vote_key, prop_key.
  destruct (mkind a) eqn:Ka; destruct (mkind b) eqn:Kb; intros H; inversion H; repeat split; auto;
    discriminate.
Qed.

Lemma conflict_same_key a b : is_conflict a b = true -> key_of a = key_of b.
Proof.
  intros H. apply conflict_iff in H. destruct H as (Hk&Hs&Hh&Hr&Hv&_&_).
  unfold key_of, vote_key, prop_key. rewrite <- Hk.
  destruct (mkind a) eqn:Ka.
  - rewrite Hs, Hh, Hr, (Hv eq_refl). reflexivity.
  - rewrite Hs, Hh, Hr. reflexivity.
Qed.

(* ------------------------------------------------------------------ *)
(* eviction only forgets                                               *)

Definition kv_sub (kv' kv : list (dkey * msg)) : Prop :=
  forall k m, kv_get k kv' = Some m -> kv_get k kv = Some m.

Lemma evict_step_sub key c r c' :
  evict_step key c r = Some c' -> c_cap c' = c_cap c /\ kv_sub (c_kv c') (c_kv c).
Proof.
  unfold evict_step.
  destruct (length (c_keys c) <=? 1)%nat; [discriminate|].
  destruct (nth_error (c_keys c) _) as [ek0|]; [|discriminate].
  destruct (nth_error (c_keys c) _) as [lastk|]; [|discriminate].
  destruct (kv_get _ (c_kv c)) as [ev|]; [|discriminate].
  intros H. inversion H; subst; clear H. cbn. split; auto.
  intros k m. rewrite kv_get_del. destruct (dkey_eqb k _); [discriminate|auto].
Qed.

Lemma evict_loop_sub key rnds : forall c c' rest,
  evict_loop key c rnds = Some (c', rest) -> c_cap c' = c_cap c /\ kv_sub (c_kv c') (c_kv c).
Proof.
  induction rnds as [|r rs IH]; intros c c' rest; cbn.
  - destruct (c_sum c <=? c_cap c)%Z; [|discriminate].
    intros H. inversion H; subst. split; auto. intros k m; auto.
  - destruct (c_sum c <=? c_cap c)%Z.
    + intros H. inversion H; subst. split; auto. intros k m; auto.
    + destruct (evict_step key c r) as [c1|] eqn:E; [|discriminate].
      intros H. apply IH in H. apply evict_step_sub in E.
      destruct H as (H1&H2), E as (E1&E2). split; [congruence|].
      intros k m Hk. auto.
Qed.

Lemma evict_loop_noop key c rnds :
  (c_sum c <= c_cap c)%Z -> evict_loop key c rnds = Some (c, rnds).
Proof.
  intros H. apply Z.leb_le in H. destruct rnds; cbn; now rewrite H.
Qed.

(* ------------------------------------------------------------------ *)
(* soundness of the message log                                        *)

Definition kv_ok (kv : list (dkey * msg)) : Prop :=
  forall k m, kv_get k kv = Some m -> k = key_of m.
Definition kv_from (kv : list (dkey * msg)) (seen : list msg) : Prop :=
  forall k m, kv_get k kv = Some m -> In m seen.

Lemma put_inv c k v rnds c' rest seen :
  put c k v rnds = Some (c', rest) -> k = key_of v ->
  kv_ok (c_kv c) -> kv_from (c_kv c) seen ->
  c_cap c' = c_cap c /\ kv_ok (c_kv c') /\ kv_from (c_kv c') (seen ++ [v]).
Proof.
  unfold put. intros H Hk Hok Hfrom.
  destruct (cost v >? c_cap c)%Z.
  - inversion H; subst. repeat split; auto.
    intros k0 m Hm. apply in_or_app. left. eapply Hfrom; eauto.
  - apply evict_loop_sub in H. cbn in H. destruct H as (Hc&Hs). repeat split; auto.
    + intros k0 m Hm. apply Hs in Hm. rewrite kv_get_set in Hm.
      destruct (dkey_eqb k0 k) eqn:E.
      * apply dkey_eqb_eq in E. inversion Hm; subst. reflexivity.
      * now apply Hok.
    + intros k0 m Hm. apply Hs in Hm. rewrite kv_get_set in Hm. apply in_or_app.
      destruct (dkey_eqb k0 k) eqn:E.
      * inversion Hm; subst. right. now left.
      * left. eapply Hfrom; eauto.
Qed.

Lemma vote_conflict_is a b :
  mkind a = KVote -> mkind b = KVote -> is_conflict a b = vote_conflict a b.
Proof. intros Ha Hb. unfold is_conflict. now rewrite Ha, Hb. Qed.

Lemma prop_conflict_is a b :
  mkind a = KProposal -> mkind b = KProposal -> is_conflict a b = prop_conflict a b.
Proof. intros Ha Hb. unfold is_conflict. now rewrite Ha, Hb. Qed.

Lemma stored_kind kv m o :
  kv_ok kv -> kv_get (key_of m) kv = Some o -> mkind o = mkind m /\ key_of o = key_of m.
Proof.
  intros Hok G. apply Hok in G. split; [|auto].
  rewrite <- (key_of_kind o), <- (key_of_kind m). now rewrite G.
Qed.

Definition out_ok (seen : list msg) (m : msg) (out : option (msg * msg)) : Prop :=
  match out with
  | Some (a, b) => b = m /\ In a seen /\ is_conflict a b = true
  | None => True
  end.

Lemma lac_inv c m rnds c' rest out seen :
  log_and_check c m rnds = Some (c', rest, out) ->
  kv_ok (c_kv c) -> kv_from (c_kv c) seen ->
  c_cap c' = c_cap c /\ kv_ok (c_kv c') /\ kv_from (c_kv c') (seen ++ [m]) /\ out_ok seen m out.
Proof.
  unfold log_and_check. intros H Hok Hfrom.
  assert (Hweak : kv_from (c_kv c) (seen ++ [m])).
  { intros k0 x Hx. apply in_or_app. left. eapply Hfrom; eauto. }
  destruct (mkind m) eqn:Km.
  - unfold log_and_check_vote in H.
    assert (Hkey : vote_key m = key_of m) by (unfold key_of; now rewrite Km).
    rewrite Hkey in H.
    destruct (kv_get (key_of m) (c_kv c)) as [o|] eqn:G.
    + destruct (vote_conflict o m) eqn:Cf.
      * inversion H; subst. repeat split; auto.
        -- eapply Hfrom; eauto.
        -- destruct (stored_kind _ _ _ Hok G) as (Ko&_).
           rewrite vote_conflict_is; auto. congruence.
      * destruct (put c (key_of m) m rnds) as [[c1 r1]|] eqn:P; [|discriminate].
        inversion H; subst. eapply put_inv with (seen := seen) in P; eauto. destruct P as (?&?&?). repeat split; auto.
    + destruct (put c (key_of m) m rnds) as [[c1 r1]|] eqn:P; [|discriminate].
      inversion H; subst. eapply put_inv with (seen := seen) in P; eauto. destruct P as (?&?&?). repeat split; auto.
  - unfold log_and_check_proposal in H.
    assert (Hkey : prop_key m = key_of m) by (unfold key_of; now rewrite Km).
    rewrite Hkey in H.
    destruct (kv_get (key_of m) (c_kv c)) as [o|] eqn:G.
    + destruct (prop_conflict o m) eqn:Cf.
      * inversion H; subst. repeat split; auto.
        -- eapply Hfrom; eauto.
        -- destruct (stored_kind _ _ _ Hok G) as (Ko&_).
           rewrite prop_conflict_is; auto. congruence.
      * inversion H; subst. repeat split; auto.
    + destruct (put c (key_of m) m rnds) as [[c1 r1]|] eqn:P; [|discriminate].
      inversion H; subst. eapply put_inv with (seen := seen) in P; eauto. destruct P as (?&?&?). repeat split; auto.
Qed.

Lemma run_sound_gen : forall steps c seen cf outs,
  kv_ok (c_kv c) -> kv_from (c_kv c) seen ->
  run c steps = Some (cf, outs) ->
  length outs = length steps /\
  forall i a b, nth_error outs i = Some (Some (a, b)) ->
    is_conflict a b = true /\
    nth_error (map fst steps) i = Some b /\
    In a (seen ++ firstn i (map fst steps)).
Proof.
  induction steps as [|[m rnds] r IH]; intros c seen cf outs Hok Hfrom H; cbn in H.
  - inversion H; subst. split; auto. intros [|i] a b Hi; discriminate.
  - destruct (log_and_check c m rnds) as [[[c1 rest] out]|] eqn:L; [|discriminate].
    destruct (run c1 r) as [[cf1 outs1]|] eqn:R; [|discriminate].
    inversion H; subst; clear H.
    destruct (lac_inv _ _ _ _ _ _ _ L Hok Hfrom) as (_&Hok1&Hfrom1&Hout).
    destruct (IH _ _ _ _ Hok1 Hfrom1 R) as (Hlen&Hrest).
    split; [cbn; congruence|].
    intros [|i] a b Hi; cbn in Hi.
    + inversion Hi; subst. cbn in Hout. destruct Hout as (?&?&?). subst.
      repeat split; auto. cbn. now rewrite app_nil_r.
    + destruct (Hrest _ _ _ Hi) as (?&?&Hin). repeat split; auto.
      cbn. rewrite <- app_assoc in Hin. exact Hin.
Qed.

Lemma kv_ok_nil : kv_ok []. Proof. intros k m H; discriminate. Qed.
Lemma kv_from_nil s : kv_from [] s. Proof. intros k m H; discriminate. Qed.

Lemma log_sound cap steps cf outs :
  run (make_cache cap) steps = Some (cf, outs) ->
  length outs = length steps /\
  forall i a b, nth_error outs i = Some (Some (a, b)) ->
    is_conflict a b = true /\
    nth_error (map fst steps) i = Some b /\
    In a (firstn i (map fst steps)).
Proof.
  intros H. eapply (run_sound_gen steps (make_cache cap) []) in H.
  - exact H.
  - apply kv_ok_nil.
  - apply kv_from_nil.
Qed.

(* ------------------------------------------------------------------ *)
(* completeness while nothing is evicted                               *)

Definition total_cost (l : list msg) : Z := fold_right (fun m acc => (cost m + acc)%Z) 0%Z l.

Lemma total_cost_nil : total_cost [] = 0%Z.
Proof. reflexivity. Qed.

Lemma total_cost_cons x l : total_cost (x :: l) = (cost x + total_cost l)%Z.
Proof. reflexivity. Qed.

Lemma total_cost_app a b : total_cost (a ++ b) = (total_cost a + total_cost b)%Z.
Proof.
  induction a as [|x a IH]; cbn [app].
  - rewrite total_cost_nil. lia.
  - rewrite !total_cost_cons. lia.
Qed.

Lemma total_cost_nonneg l : (forall x, In x l -> (0 <= cost x)%Z) -> (0 <= total_cost l)%Z.
Proof.
  induction l as [|x l IH]; intros H.
  - rewrite total_cost_nil. lia.
  - rewrite total_cost_cons.
    assert (0 <= cost x)%Z by (apply H; now left).
    assert (0 <= total_cost l)%Z by (apply IH; intros y Hy; apply H; now right). lia.
Qed.

Lemma total_cost_in l x : (forall y, In y l -> (0 <= cost y)%Z) -> In x l -> (cost x <= total_cost l)%Z.
Proof.
  induction l as [|y l IH]; intros H Hin; [contradiction|].
  rewrite total_cost_cons.
  assert (0 <= cost y)%Z by (apply H; now left).
  assert (0 <= total_cost l)%Z by (apply total_cost_nonneg; intros z Hz; apply H; now right).
  destruct Hin as [->|Hin]; [lia|].
  assert (cost x <= total_cost l)%Z by (apply IH; auto; intros z Hz; apply H; now right). lia.
Qed.

Lemma put_noevict c k v rnds :
  (cost v <= c_cap c)%Z ->
  (match kv_get k (c_kv c) with Some old => c_sum c - cost old | None => c_sum c end + cost v <= c_cap c)%Z ->
  put c k v rnds =
  Some (mkCache (c_cap c)
          (match kv_get k (c_kv c) with Some old => c_sum c - cost old | None => c_sum c end + cost v)%Z
          (kv_set k v (c_kv c))
          (match kv_get k (c_kv c) with Some _ => c_keys c | None => c_keys c ++ [k] end), rnds).
Proof.
  intros H1 H2. unfold put.
  destruct (cost v >? c_cap c)%Z eqn:E; [lia|].
  apply evict_loop_noop. cbn. exact H2.
Qed.

(* a message of the history is "covered": its key was reported, or the log holds a
   message with the same key and the same hash *)
Definition covered (c : cache) (R : list (option (msg * msg))) (m : msg) : Prop :=
  (exists x y, In (Some (x, y)) R /\ key_of y = key_of m) \/
  (exists m0, kv_get (key_of m) (c_kv c) = Some m0 /\ hash m0 = hash m).

Definition Inv (cap : Z) (c : cache) (seen : list msg) (R : list (option (msg * msg))) : Prop :=
  c_cap c = cap /\ kv_ok (c_kv c) /\ kv_from (c_kv c) seen /\
  (c_sum c <= total_cost seen)%Z /\
  forall m, In m seen -> covered c R m.

Lemma covered_more_R c R out m : covered c R m -> covered c (R ++ [out]) m.
Proof.
  intros [(x&y&Hin&Hk)|H]; [left|right; auto].
  exists x, y. split; auto. apply in_or_app. now left.
Qed.

(* the store after a Put of b without eviction *)
Lemma Inv_put cap c seen R b sum' keys' :
  Inv cap c seen R ->
  (sum' <= total_cost seen + cost b)%Z ->
  (forall o, kv_get (key_of b) (c_kv c) = Some o -> hash o = hash b) ->
  Inv cap (mkCache (c_cap c) sum' (kv_set (key_of b) b (c_kv c)) keys') (seen ++ [b]) (R ++ [None]).
Proof.
  intros (Hcap&Hok&Hfrom&Hsum&Hall) Hs Hsame.
  unfold Inv. cbn [c_cap c_kv c_sum]. repeat split; auto.
  - intros k m Hm. rewrite kv_get_set in Hm. destruct (dkey_eqb k (key_of b)) eqn:E.
    + apply dkey_eqb_eq in E. inversion Hm; subst. reflexivity.
    + now apply Hok.
  - intros k m Hm. rewrite kv_get_set in Hm. apply in_or_app. destruct (dkey_eqb k (key_of b)) eqn:E.
    + inversion Hm; subst. right. now left.
    + left. eapply Hfrom; eauto.
  - rewrite total_cost_app, total_cost_cons, total_cost_nil. lia.
  - intros m Hin. apply in_app_or in Hin. destruct Hin as [Hin|[<-|[]]].
    + destruct (Hall m Hin) as [H|(m0&G&Hh)].
      * apply covered_more_R. now left.
      * right. unfold c_kv. rewrite kv_get_set.
        destruct (dkey_eqb (key_of m) (key_of b)) eqn:E.
        -- exists b. split; auto. apply dkey_eqb_eq in E. rewrite E in G.
           rewrite <- (Hsame _ G). exact Hh.
        -- exists m0. auto.
    + right. exists b. unfold c_kv. rewrite kv_get_set, dkey_eqb_refl. auto.
Qed.

Lemma Inv_keep cap c seen R b out :
  Inv cap c seen R -> (0 <= cost b)%Z ->
  covered c (R ++ [out]) b ->
  Inv cap c (seen ++ [b]) (R ++ [out]).
Proof.
  intros (Hcap&Hok&Hfrom&Hsum&Hall) Hc Hb.
  unfold Inv. repeat split; auto.
  - intros k m Hm. apply in_or_app. left. eapply Hfrom; eauto.
  - rewrite total_cost_app, total_cost_cons, total_cost_nil. lia.
  - intros m Hin. apply in_app_or in Hin. destruct Hin as [Hin|[<-|[]]]; auto.
    apply covered_more_R. auto.
Qed.

Lemma nonconflict_same_hash kv b o :
  kv_ok kv -> kv_get (key_of b) kv = Some o ->
  match_nid (nid o) (nid b) = true -> is_conflict o b = false -> hash o = hash b.
Proof.
  intros Hok G Hn Hc.
  destruct (stored_kind _ _ _ Hok G) as (_&Hk).
  destruct (key_of_same _ _ Hk) as (?&?&?&?&?).
  destruct (bytes_eqb (hash o) (hash b)) eqn:E; [now apply bytes_eqb_eq in E|].
  apply bytes_eqb_neq in E.
  assert (is_conflict o b = true) by (apply conflict_iff; repeat split; auto). congruence.
Qed.

Lemma step_complete cap c seen R b rnds :
  Inv cap c seen R ->
  (forall x, In x seen -> (0 <= cost x)%Z) -> (0 <= cost b)%Z ->
  (total_cost seen + cost b <= cap)%Z ->
  (forall x, In x seen -> match_nid (nid x) (nid b) = true) ->
  exists c' out, log_and_check c b rnds = Some (c', rnds, out) /\ Inv cap c' (seen ++ [b]) (R ++ [out]).
Proof.
  intros HI Hpos Hb Htot Hnid.
  pose proof HI as (Hcap&Hok&Hfrom&Hsum&Hall).
  assert (Htn : (0 <= total_cost seen)%Z) by (now apply total_cost_nonneg).
  unfold log_and_check. destruct (mkind b) eqn:Kb.
  - assert (Hkey : vote_key b = key_of b) by (unfold key_of; now rewrite Kb).
    unfold log_and_check_vote. rewrite Hkey.
    destruct (kv_get (key_of b) (c_kv c)) as [o|] eqn:G.
    + destruct (stored_kind _ _ _ Hok G) as (Ko&_).
      assert (Hino : In o seen) by (eapply Hfrom; eauto).
      destruct (vote_conflict o b) eqn:Cf.
      * exists c, (Some (o, b)). split; auto.
        apply Inv_keep; auto. left. exists o, b. split; auto. apply in_or_app. right. now left.
      * assert (Hh : hash o = hash b).
        { eapply nonconflict_same_hash; eauto. rewrite vote_conflict_is; auto. congruence. }
        rewrite put_noevict; try rewrite G.
        -- eexists. exists None. split; [reflexivity|].
           apply Inv_put; auto.
           ++ assert (0 <= cost o)%Z by auto. lia.
           ++ intros o' G'. congruence.
        -- lia.
        -- assert (0 <= cost o)%Z by auto. lia.
    + rewrite put_noevict; try rewrite G.
      * eexists. exists None. split; [reflexivity|].
        apply Inv_put; auto.
        -- lia.
        -- intros o' G'. congruence.
      * lia.
      * lia.
  - assert (Hkey : prop_key b = key_of b) by (unfold key_of; now rewrite Kb).
    unfold log_and_check_proposal. rewrite Hkey.
    destruct (kv_get (key_of b) (c_kv c)) as [o|] eqn:G.
    + destruct (stored_kind _ _ _ Hok G) as (Ko&_).
      assert (Hino : In o seen) by (eapply Hfrom; eauto).
      destruct (prop_conflict o b) eqn:Cf.
      * exists c, (Some (o, b)). split; auto.
        apply Inv_keep; auto. left. exists o, b. split; auto. apply in_or_app. right. now left.
      * assert (Hh : hash o = hash b).
        { eapply nonconflict_same_hash; eauto. rewrite prop_conflict_is; auto. congruence. }
        exists c, None. split; auto.
        apply Inv_keep; auto. right. exists o. auto.
    + rewrite put_noevict; try rewrite G.
      * eexists. exists None. split; [reflexivity|].
        apply Inv_put; auto.
        -- lia.
        -- intros o' G'. congruence.
      * lia.
      * lia.
Qed.

Lemma run_complete_gen : forall steps cap c seen R,
  Inv cap c seen R ->
  (forall x, In x (seen ++ map fst steps) -> (0 <= cost x)%Z) ->
  (total_cost (seen ++ map fst steps) <= cap)%Z ->
  (forall x y, In x (seen ++ map fst steps) -> In y (seen ++ map fst steps) ->
               match_nid (nid x) (nid y) = true) ->
  exists cf outs, run c steps = Some (cf, outs) /\ Inv cap cf (seen ++ map fst steps) (R ++ outs).
Proof.
  induction steps as [|[b rnds] r IH]; intros cap c seen R HI Hpos Htot Hnid; cbn [map fst] in *.
  - exists c, []. cbn. rewrite !app_nil_r. auto.
  - assert (Hsplit : seen ++ b :: map fst r = (seen ++ [b]) ++ map fst r)
      by (rewrite <- app_assoc; reflexivity).
    assert (Hb : In b (seen ++ b :: map fst r)) by (apply in_or_app; right; now left).
    assert (Hseen : forall x, In x seen -> In x (seen ++ b :: map fst r))
      by (intros x Hx; apply in_or_app; now left).
    assert (Hrpos : forall x, In x (map fst r) -> (0 <= cost x)%Z).
    { intros x Hx. apply Hpos. apply in_or_app. right. now right. }
    assert (Htr : (0 <= total_cost (map fst r))%Z) by (now apply total_cost_nonneg).
    destruct (step_complete cap c seen R b rnds HI) as (c1&out&L&HI1); auto.
    { rewrite total_cost_app, total_cost_cons in Htot. lia. }
    cbn [run]. rewrite L.
    destruct (IH cap c1 (seen ++ [b]) (R ++ [out]) HI1) as (cf&outs&Rn&HIf).
    { rewrite <- Hsplit. exact Hpos. }
    { rewrite <- Hsplit. exact Htot. }
    { rewrite <- Hsplit. exact Hnid. }
    rewrite Rn. exists cf, (out :: outs). split; auto.
    rewrite <- !app_assoc in HIf. cbn [app] in HIf. exact HIf.
Qed.

Lemma Inv_init cap : Inv cap (make_cache cap) [] [].
Proof.
  unfold Inv, make_cache. cbn. repeat split; auto.
  - apply kv_ok_nil.
  - apply kv_from_nil.
  - lia.
  - intros m [].
Qed.

Lemma log_complete cap steps a b :
  (forall x, In x (map fst steps) -> (0 <= cost x)%Z) ->
  (total_cost (map fst steps) <= cap)%Z ->
  (forall x y, In x (map fst steps) -> In y (map fst steps) -> match_nid (nid x) (nid y) = true) ->
  In a (map fst steps) -> In b (map fst steps) -> is_conflict a b = true ->
  exists cf outs x y, run (make_cache cap) steps = Some (cf, outs) /\
    In (Some (x, y)) outs /\ key_of y = key_of a /\ is_conflict x y = true.
Proof.
  intros Hpos Htot Hnid Ha Hb Hc.
  destruct (run_complete_gen steps cap (make_cache cap) [] [] (Inv_init cap)) as (cf&outs&Rn&HI); auto.
  cbn [app] in HI. destruct HI as (_&Hok&_&_&Hall).
  assert (Hrep : forall x y, In (Some (x, y)) outs -> is_conflict x y = true).
  { intros x y Hin. apply In_nth_error in Hin. destruct Hin as (i&Hi).
    destruct (log_sound _ _ _ _ Rn) as (_&Hs). destruct (Hs _ _ _ Hi) as (?&_). auto. }
  pose proof (conflict_same_key _ _ Hc) as Hk.
  destruct (Hall a Ha) as [(x&y&Hin&Hky)|(m0&G0&Hh0)].
  - exists cf, outs, x, y. repeat split; auto.
  - destruct (Hall b Hb) as [(x&y&Hin&Hky)|(m1&G1&Hh1)].
    + exists cf, outs, x, y. repeat split; auto. congruence.
    + exfalso. rewrite Hk in G0. rewrite G0 in G1. inversion G1; subst.
      apply conflict_iff in Hc. destruct Hc as (_&_&_&_&_&_&Hd). congruence.
Qed.

(* completeness does NOT survive eviction: with room for one message, a third
   party's vote evicts the first of two conflicting votes and nothing is reported *)
Definition ev_a : msg := mkMsg [1] 5 0 KVote 0 0 [10] 100 [].
Definition ev_x : msg := mkMsg [2] 5 0 KVote 0 0 [20] 100 [].
Definition ev_b : msg := mkMsg [1] 5 0 KVote 0 0 [11] 100 [].

Lemma log_incomplete_after_eviction :
  is_conflict ev_a ev_b = true /\
  exists cf, run (make_cache 150) [(ev_a, []); (ev_x, [0]); (ev_b, [0])] = Some (cf, [None; None; None]).
Proof. split; [vm_compute; reflexivity|]. eexists. vm_compute. reflexivity. Qed.

(* ------------------------------------------------------------------ *)
(* report acceptance                                                   *)

Lemma ctx_has_in c s : ctx_has c s = true <-> In s (ctx_validators c).
Proof.
  unfold ctx_has. rewrite existsb_exists. split.
  - intros (x&Hin&E). apply bytes_eqb_eq in E. now subst.
  - intros H. exists s. split; auto. apply bytes_eqb_refl.
Qed.

Lemma bytes_compare_refl a : bytes_compare a a = Eq.
Proof. induction a as [|x a IH]; cbn; auto. now rewrite N.compare_refl. Qed.

Section ReportProofs.
  Variable decode_vote : bytes -> option msg.
  Variable decode_proposal : bytes -> option msg.
  Variable decode_ctx : bytes -> option dsctx.

  Notation decode_data := (decode_data decode_vote decode_proposal).
  Notation decode_report := (decode_report decode_vote decode_proposal decode_ctx).
  Notation pre_validate := (pre_validate decode_vote decode_proposal decode_ctx).
  Notation handler_exec := (handler_exec decode_vote decode_proposal decode_ctx).

  Lemma decode_data_kind t d m : decode_data t d = Some m -> mkind m = t.
  Proof.
    unfold Model_DoubleSign.decode_data. destruct t.
    - destruct (decode_vote d); cbn; [|discriminate]. intros H; inversion H; reflexivity.
    - destruct (decode_proposal d); cbn; [|discriminate]. intros H; inversion H; reflexivity.
  Qed.

  Definition well_decoded (r : report) (d1 d2 : msg) (c : dsctx) : Prop :=
    exists t b1 b2, r_tag r = Some t /\ r_data r = [b1; b2] /\ bytes_compare b1 b2 <> Gt /\
      decode_data t b1 = Some d1 /\ decode_data t b2 = Some d2 /\ decode_ctx (r_ctx r) = Some c.

  Lemma decode_report_ok r d1 d2 c :
    decode_report r = DecOk d1 d2 c <-> well_decoded r d1 d2 c.
  Proof.
    unfold Model_DoubleSign.decode_report, well_decoded. split.
    - destruct (r_data r) as [|b1 [|b2 [|b3 l]]]; try discriminate.
      destruct (bytes_compare b1 b2) eqn:Cmp; try discriminate;
        (destruct (r_tag r) as [t|]; [|discriminate];
         destruct (decode_data t b1) as [x1|] eqn:D1; [|discriminate];
         destruct (decode_data t b2) as [x2|] eqn:D2; [|discriminate];
         destruct (decode_ctx (r_ctx r)) as [cc|] eqn:DC; [|discriminate];
         intros H; inversion H; subst;
         exists t, b1, b2; repeat split; auto; congruence).
    - intros (t&b1&b2&Ht&Hd&Hcmp&H1&H2&Hc). rewrite Hd, Ht, H1, H2, Hc.
      destruct (bytes_compare b1 b2); auto. congruence.
  Qed.

  Lemma pre_validate_ok rev from r :
    pre_validate rev from r = PVOk <->
    rev = true /\ from = true /\
    exists d1 d2 c, well_decoded r d1 d2 c /\ is_conflict d1 d2 = true /\ In (signer d1) (ctx_validators c).
  Proof.
    unfold Model_DoubleSign.pre_validate. split.
    - destruct rev; cbn [negb]; [|discriminate]. destruct from; cbn [negb]; [|discriminate].
      destruct (decode_report r) as [d1 d2 c| | | | |] eqn:D; try discriminate.
      destruct (negb (is_conflict d1 d2) || negb (ctx_has c (signer d1)))%bool eqn:E; [discriminate|].
      breflect. intros _. repeat split; auto. exists d1, d2, c. repeat split; auto.
      + now apply decode_report_ok.
      + now apply ctx_has_in.
    - intros (->&->&d1&d2&c&Hw&Hc&Hin). cbn [negb].
      apply decode_report_ok in Hw. rewrite Hw. apply ctx_has_in in Hin. rewrite Hc, Hin. reflexivity.
  Qed.

  (* what an accepted report is, spelled out with the property's clauses *)
  Lemma pre_validate_genuine rev from r :
    pre_validate rev from r = PVOk ->
    exists t b1 b2 d1 d2 c,
      r_tag r = Some t /\ r_data r = [b1; b2] /\ b1 <> b2 /\ bytes_compare b1 b2 = Lt /\
      decode_data t b1 = Some d1 /\ decode_data t b2 = Some d2 /\ decode_ctx (r_ctx r) = Some c /\
      mkind d1 = t /\ mkind d2 = t /\
      signer d1 = signer d2 /\ height d1 = height d2 /\ round d1 = round d2 /\
      (t = KVote -> vtype d1 = vtype d2) /\
      (nid d1 = 0 \/ nid d2 = 0 \/ nid d1 = nid d2) /\
      hash d1 <> hash d2 /\ In (signer d1) (ctx_validators c).
  Proof.
    intros H. apply pre_validate_ok in H.
    destruct H as (_&_&d1&d2&c&(t&b1&b2&Ht&Hd&Hcmp&H1&H2&Hc)&Hcf&Hin).
    pose proof (decode_data_kind _ _ _ H1) as K1. pose proof (decode_data_kind _ _ _ H2) as K2.
    assert (Hne : b1 <> b2).
    { intros ->. rewrite H1 in H2. inversion H2; subst. rewrite conflict_irrefl in Hcf. discriminate. }
    apply conflict_iff in Hcf. destruct Hcf as (Hk&Hs&Hh&Hr&Hv&Hn&Hdiff).
    exists t, b1, b2, d1, d2, c. repeat split; auto.
    - destruct (bytes_compare b1 b2) eqn:E; auto; [|congruence].
      exfalso. apply Hne. clear - E. revert b2 E.
      induction b1 as [|x a IH]; intros [|y b] E; cbn in E; try discriminate; auto.
      destruct (x ?= y) eqn:C; try discriminate. apply N.compare_eq in C. subst. f_equal. auto.
    - intros ->. apply Hv. exact K1.
    - now apply match_nid_spec.
  Qed.

  Lemma handler_exec_call fs blk hist r k h s :
    handler_exec fs blk hist r = HCall k h s <->
    fs = true /\
    exists d1 d2 c, well_decoded r d1 d2 c /\ is_conflict d1 d2 = true /\
      (height d1 <= blk)%Z /\ In (signer d1) (ctx_validators c) /\
      nil_bytes_eqb (hist_get hist (height d1 - 2)%Z) (ctx_hash c) = true /\
      k = mkind d1 /\ h = height d1 /\ s = signer d1.
  Proof.
    unfold Model_DoubleSign.handler_exec. split.
    - destruct fs; cbn [negb]; [|discriminate].
      destruct (decode_report r) as [d1 d2 c| | | | |] eqn:D; try discriminate.
      destruct (is_conflict d1 d2) eqn:Cf; cbn [negb]; [|discriminate].
      destruct (height d1 >? blk)%Z eqn:Hf; [discriminate|].
      destruct (ctx_has c (signer d1)) eqn:Hs; cbn [negb]; [|discriminate].
      destruct (nil_bytes_eqb _ _) eqn:Hh; cbn [negb]; [|discriminate].
      intros H. inversion H; subst. split; auto. exists d1, d2, c. repeat split; auto.
      + now apply decode_report_ok.
      + lia.
      + now apply ctx_has_in.
    - intros (->&d1&d2&c&Hw&Hc&Hb&Hin&Hh&->&->&->). cbn [negb].
      apply decode_report_ok in Hw. rewrite Hw, Hc. cbn [negb].
      apply ctx_has_in in Hin. rewrite Hin, Hh. cbn [negb].
      destruct (height d1 >? blk)%Z eqn:E; [lia|reflexivity].
  Qed.
End ReportProofs.

Lemma dsm_add_queued st data ctx st' :
  dsm_add st data ctx = (AddQueued, st') ->
  exists d0 d1 c, data = [d0; d1] /\ ctx = Some c /\ is_conflict d0 d1 = true /\
    In (signer d0) (ctx_validators c) /\ dsm_first st <> (-1)%Z /\ (dsm_first st <= height d0)%Z /\
    dsm_has st (height d0) (signer d0) = false /\
    dsm_todo st' = dsm_todo st ++ [(d0, d1)].
Proof.
  unfold dsm_add.
  destruct data as [|d0 [|d1 [|d2 l]]]; try (intros H; inversion H; fail);
    try (destruct ctx; intros H; inversion H; fail).
  destruct ctx as [c|]; [|intros H; inversion H].
  destruct ((dsm_first st =? -1)%Z || (height d0 <? dsm_first st)%Z)%bool eqn:E1; [intros H; inversion H|].
  destruct (is_conflict d0 d1) eqn:Cf; cbn [negb]; [|intros H; inversion H].
  destruct (ctx_has c (signer d0)) eqn:Hs; cbn [negb]; [|intros H; inversion H].
  destruct (dsm_has st (height d0) (signer d0)) eqn:Hh; [intros H; inversion H|].
  intros H. inversion H; subst; clear H. cbn.
  apply Bool.orb_false_iff in E1. destruct E1 as (E1&E2).
  exists d0, d1, c. repeat split; auto.
  - now apply ctx_has_in.
  - lia.
  - lia.
Qed.

(* every pair queued for reporting is a genuine conflict *)
Lemma dsm_todo_conflicts st data ctx r st' :
  (forall p, In p (dsm_todo st) -> is_conflict (fst p) (snd p) = true) ->
  dsm_add st data ctx = (r, st') ->
  forall p, In p (dsm_todo st') -> is_conflict (fst p) (snd p) = true.
Proof.
  intros Hall H p Hin.
  destruct r; try (assert (st' = st); [| subst; auto]; revert H; unfold dsm_add;
    repeat match goal with |- context[match ?x with _ => _ end] => destruct x end;
    intros H; inversion H; reflexivity).
  apply dsm_add_queued in H. destruct H as (d0&d1&c&_&_&Hc&_&_&_&_&Ht).
  rewrite Ht in Hin. apply in_app_or in Hin. destruct Hin as [Hin|[<-|[]]]; auto.
Qed.

(* ------------------------------------------------------------------ *)
(* non-vacuity                                                         *)

Definition ex_v1 : msg := mkMsg [7;7] 100 2 KVote 1 3 [1;1] 600 [].
Definition ex_v2 : msg := mkMsg [7;7] 100 2 KVote 1 0 [2;2] 600 [].
Definition ex_p1 : msg := mkMsg [7;7] 100 2 KProposal 0 3 [3;3] 500 [].
Definition ex_p2 : msg := mkMsg [7;7] 100 2 KProposal 0 3 [4;4] 500 [].

Example ex_conflict_votes : is_conflict ex_v1 ex_v2 = true.
Proof. vm_compute. reflexivity. Qed.
Example ex_conflict_proposals : is_conflict ex_p1 ex_p2 = true.
Proof. vm_compute. reflexivity. Qed.
Example ex_no_conflict_vote_proposal : is_conflict ex_v1 ex_p1 = false.
Proof. vm_compute. reflexivity. Qed.
Example ex_match_nid : match_nid 0 5 = true /\ match_nid 5 0 = true /\ match_nid 5 5 = true /\ match_nid 5 6 = false.
Proof. vm_compute. auto. Qed.

(* the log reports the second of two conflicting votes, and keeps the first *)
Example ex_log_reports :
  exists cf, run (make_cache 100000) [(ex_v1, []); (ex_p1, []); (ex_v2, []); (ex_p2, [])]
             = Some (cf, [None; None; Some (ex_v1, ex_v2); Some (ex_p1, ex_p2)]).
Proof. eexists. vm_compute. reflexivity. Qed.

(* hypotheses of log_complete are satisfiable with a conflicting pair *)
Example ex_log_complete_hyps :
  let steps := [(ex_v1, @nil N); (ex_p1, []); (ex_v2, [])] in
  (forall x, In x (map fst steps) -> (0 <= cost x)%Z) /\
  (total_cost (map fst steps) <= 100000)%Z /\
  (forall x y, In x (map fst steps) -> In y (map fst steps) -> match_nid (nid x) (nid y) = true) /\
  In ex_v1 (map fst steps) /\ In ex_v2 (map fst steps) /\ is_conflict ex_v1 ex_v2 = true.
Proof.
  cbn [map fst]. repeat split.
  - intros x [<-|[<-|[<-|[]]]]; vm_compute; discriminate.
  - vm_compute. discriminate.
  - intros x y [<-|[<-|[<-|[]]]] [<-|[<-|[<-|[]]]]; vm_compute; reflexivity.
  - now left.
  - right. right. now left.
Qed.

(* a toy decoder: [1] and [2] decode to the two votes, [9] is the context *)
Definition ex_dec_vote (b : bytes) : option msg :=
  match b with [1] => Some ex_v1 | [2] => Some ex_v2 | _ => None end.
Definition ex_dec_prop (b : bytes) : option msg := None.
Definition ex_dec_ctx (b : bytes) : option dsctx :=
  match b with [9] => Some (mkCtx [[7;7]] [42]) | _ => None end.
Definition ex_report : report := mkReport (Some KVote) [[1]; [2]] [9].

Example ex_pre_validate_ok :
  pre_validate ex_dec_vote ex_dec_prop ex_dec_ctx true true ex_report = PVOk.
Proof. vm_compute. reflexivity. Qed.
Example ex_pre_validate_wrong_order :
  pre_validate ex_dec_vote ex_dec_prop ex_dec_ctx true true (mkReport (Some KVote) [[2]; [1]] [9]) = PVBadData.
Proof. vm_compute. reflexivity. Qed.
Example ex_pre_validate_same :
  pre_validate ex_dec_vote ex_dec_prop ex_dec_ctx true true (mkReport (Some KVote) [[1]; [1]] [9]) = PVInvalidReport.
Proof. vm_compute. reflexivity. Qed.
Example ex_handler_call :
  handler_exec ex_dec_vote ex_dec_prop ex_dec_ctx true 120 [(50%Z, [42])] ex_report = HCall KVote 100 [7;7].
Proof. vm_compute. reflexivity. Qed.
Example ex_dsm_add :
  fst (dsm_add (mkDsm 90 [] []) [ex_v1; ex_v2] (Some (mkCtx [[7;7]] [42]))) = AddQueued.
Proof. vm_compute. reflexivity. Qed.
