(* Property C20 — State sync rebuilds exactly the trusted state and stores nothing else.
   Only the property theorems; proofs are in Proofs_Builder.v, the model in Model_Builder.v.

   Everything is for ALL hashers H, ALL reference-extraction functions children (the
   abstract Merkle DAG), ALL initial target stores b0 and ALL histories h : list op of
   starts (trusted roots), deliveries of arbitrary byte strings (requested, duplicated,
   forged, unrequested, in any order), deliveries under a bucket without hasher, and flushes.
   viewS s r is what builder.Database() returns for the reference r = (bucket, hash);
   closure v R is the least set containing the roots R and closed under the references of
   the bytes that v holds.  Where a statement can only hold "up to the hash" it returns the
   anomaly: collision (two byte strings with one hash) or self_ref (a node referring to its
   own hash). *)
From Goloop Require Import lib.Bytes Model_Builder Proofs_Builder.

(* data whose hash is not outstanding is ignored: nothing is stored, nothing changes *)
Theorem C20_ignores_unrequested : forall H children s d,
  find_req (pending s) (H d) = None -> on_data H children s d = (s, RNoRequester).
Proof. exact on_data_ignored. Qed.
Print Assumptions C20_ignores_unrequested.

(* a delivery that fails inside OnData — bk.Set of the i-th requester returns an error (k = None)
   or that requester returns an error after registering n of its references (k = Some n) —, ANY state:
   the request stays outstanding, nothing that was outstanding is dropped, nothing is lost
   from the store, nothing is counted as resolved — so the hash is asked for again *)
Theorem C20_failed_delivery_keeps_request : forall H children s d i k bks,
  find_req (pending s) (H d) = Some bks ->
  let s' := fst (on_data_fail H children s d i k) in
  snd (on_data_fail H children s d i k) = RFail /\
  find_req (pending s') (H d) <> None /\
  (forall r, req_in (pending s) r -> req_in (pending s') r) /\
  (forall bk, In bk bks -> req_in (pending s') (bk, H d)) /\
  (forall c, db_has (dbs s) c = true -> db_has (dbs s') c = true) /\
  resolved s' = resolved s.
Proof. exact failed_delivery_keeps_request. Qed.
Print Assumptions C20_failed_delivery_keeps_request.

(* if the FIRST write fails (always the case for a request with one requester) the builder is
   unchanged: such a failed delivery can be erased from a history, and every theorem below
   applies to the history without it *)
Theorem C20_failed_first_write_noop : forall H children s d,
  find_req (pending s) (H d) <> None -> on_data_fail H children s d 0 None = (s, RFail).
Proof. exact failed_first_write_noop. Qed.
Print Assumptions C20_failed_first_write_noop.

(* one delivery, ANY builder state: whatever becomes readable is the delivered bytes, stored
   under their own hash, in a bucket that was waiting for exactly that hash *)
Theorem C20_stores_only_requested_step : forall H children s d r x,
  viewS (fst (on_data H children s d)) r = Some x ->
  viewS s r = Some x \/ (x = d /\ H d = snd r /\ req_in (pending s) r).
Proof. exact stores_only_requested_step. Qed.
Print Assumptions C20_stores_only_requested_step.

(* all histories: every node the target holds was there before, or hashes to its key, was
   delivered, and is reachable from the trusted roots through the stored bytes *)
Theorem C20_stores_only_requested : forall H children b0 h r x,
  viewS (run H children b0 h) r = Some x ->
  st_find b0 r = Some x \/
  (H x = snd r /\ closure children (viewS (run H children b0 h)) (roots_of h) r /\ In (OData x) h).
Proof. exact stores_only_requested. Qed.
Print Assumptions C20_stores_only_requested.

(* everything the builder waits for is reachable from the trusted roots and not yet stored *)
Theorem C20_pending_reachable : forall H children b0 h r,
  req_in (pending (run H children b0 h)) r ->
  closure children (viewS (run H children b0 h)) (roots_of h) r /\
  db_has (dbs (run H children b0 h)) r = false.
Proof. exact pending_reachable. Qed.
Print Assumptions C20_pending_reachable.

(* until Flush the target database itself is not written *)
Theorem C20_target_untouched_before_flush : forall H children b0 h,
  ~ In OFlush h -> underlying (dbs (run H children b0 h)) = b0.
Proof. exact underlying_untouched. Qed.
Print Assumptions C20_target_untouched_before_flush.

(* no outstanding request  <->  the store holds the whole DAG below the roots *)
Theorem C20_done_iff_complete : forall H children b0 h, closed_store children b0 ->
  (unresolved (run H children b0 h) = 0%nat <-> complete children (run H children b0 h) (roots_of h))
  \/ self_ref H children.
Proof. exact done_iff_complete. Qed.
Print Assumptions C20_done_iff_complete.

(* when done, every node below the trusted roots is present and hashes to its key
   (in particular the root node hashes to the trusted root) *)
Theorem C20_rebuilt_is_trusted : forall H children b0 h,
  closed_store children b0 -> wellkeyed H b0 -> unresolved (run H children b0 h) = 0%nat ->
  (forall r, closure children (viewS (run H children b0 h)) (roots_of h) r ->
     exists d, viewS (run H children b0 h) r = Some d /\ H d = snd r)
  \/ self_ref H children.
Proof. exact done_trusted. Qed.
Print Assumptions C20_rebuilt_is_trusted.

(* two complete, correctly keyed stores of the same roots hold the same DAG, or a collision *)
Theorem C20_rebuilt_unique : forall H children (v1 v2 : ref -> option bytes) R,
  (forall r, closure children v1 R r -> exists d, v1 r = Some d /\ H d = snd r) ->
  (forall r, closure children v2 R r -> exists d, v2 r = Some d /\ H d = snd r) ->
  forall r, closure children v1 R r -> (closure children v2 R r /\ v1 r = v2 r) \/ collision H.
Proof. exact closure_unique. Qed.
Print Assumptions C20_rebuilt_unique.

(* the rebuilt state and the state of any honest source agree node by node, both ways *)
Theorem C20_rebuilt_in_source : forall H children b0 h (src : ref -> option bytes) r,
  closed_store children b0 -> wellkeyed H b0 -> unresolved (run H children b0 h) = 0%nat ->
  (forall q, closure children src (roots_of h) q -> exists d, src q = Some d /\ H d = snd q) ->
  closure children (viewS (run H children b0 h)) (roots_of h) r ->
  (closure children src (roots_of h) r /\ viewS (run H children b0 h) r = src r)
  \/ collision H \/ self_ref H children.
Proof. exact rebuilt_in_source. Qed.
Print Assumptions C20_rebuilt_in_source.

Theorem C20_source_in_rebuilt : forall H children b0 h (src : ref -> option bytes) r,
  closed_store children b0 -> wellkeyed H b0 -> unresolved (run H children b0 h) = 0%nat ->
  (forall q, closure children src (roots_of h) q -> exists d, src q = Some d /\ H d = snd q) ->
  closure children src (roots_of h) r ->
  (closure children (viewS (run H children b0 h)) (roots_of h) r /\ src r = viewS (run H children b0 h) r)
  \/ collision H \/ self_ref H children.
Proof. exact source_in_rebuilt. Qed.
Print Assumptions C20_source_in_rebuilt.

(* Flush(true): the target database becomes what the builder showed; nothing else changes *)
Theorem C20_flush_commits : forall H children s, let s' := fst (step H children s OFlush) in
  (forall r, st_find (underlying (dbs s')) r = viewS s r) /\
  (forall r, viewS s' r = viewS s r) /\ pending s' = pending s /\ resolved s' = resolved s.
Proof. exact flush_commits. Qed.
Print Assumptions C20_flush_commits.

(* progress against an honest source src (correctly keyed, closed, containing the roots and
   the initial target): accepted deliveries + source nodes still missing never exceed the
   size of the source, whatever else (forged, duplicated) is delivered in between *)
Theorem C20_progress_bound : forall H children src, wellkeyed H src -> closed_store children src ->
  forall b0 h, sub_store src b0 -> roots_in_src src h ->
  (resolved (run H children b0 h) + missing src (dbs (run H children b0 h)) <= length (dom src))%nat
  \/ collision H.
Proof. exact progress_bound. Qed.
Print Assumptions C20_progress_bound.

(* an accepted delivery strictly decreases the number of missing source nodes *)
Theorem C20_progress_strict : forall H children src, wellkeyed H src -> closed_store children src ->
  forall b0 h d, sub_store src b0 -> roots_in_src src h ->
  snd (on_data H children (run H children b0 h) d) = ROk ->
  (missing src (dbs (run H children b0 (h ++ [OData d]))) < missing src (dbs (run H children b0 h)))%nat
  \/ collision H.
Proof. exact progress_strict. Qed.
Print Assumptions C20_progress_strict.

(* every outstanding request has an answer in the source, and that answer is accepted *)
Theorem C20_progress_answerable : forall H children src, wellkeyed H src -> closed_store children src ->
  forall b0 h k bks t, sub_store src b0 -> roots_in_src src h ->
  pending (run H children b0 h) = (k, bks) :: t ->
  (exists bk d, In bk bks /\ st_find src (bk, k) = Some d /\
                snd (on_data H children (run H children b0 h) d) = ROk)
  \/ collision H.
Proof. exact progress_answerable. Qed.
Print Assumptions C20_progress_answerable.

(* after ANY history, answering outstanding requests honestly ends the sync within
   |source| deliveries *)
Theorem C20_honest_terminates : forall H children src, wellkeyed H src -> closed_store children src ->
  forall b0 h n, sub_store src b0 -> roots_in_src src h -> (length (dom src) <= n)%nat ->
  unresolved (honest_run H children src n (run H children b0 h)) = 0%nat \/ collision H.
Proof. exact honest_terminates. Qed.
Print Assumptions C20_honest_terminates.
