(* Link_C30.v -- ties the extendInfo bit packing of Model_Packet (property C30) to the
   kernels that tools/go2coq re-generates from network/packet.go on every run:

     newPacketExtendInfo    <->  extinfo p   = hint * 1024 + len mod 1024   (WriteTo)
     packetExtendInfoHint   <->  the `be_val (skipn 8 f) / 1024` of assemble (ReadFrom)
     packetExtendInfoLen    <->  ext_len f   = be_val (skipn 8 f) mod 1024   (ReadFrom)

   The model works on N, the kernels on Z; the equalities are on the injected values,
   for a hint that fits its 6 bits / an info word that fits 16 bits (what be_bytes 2
   can carry).  Proved from the kernels' characterising lemmas (Proofs_K_<name>.v),
   never from the shape of the generated text: packetExtendMaxLen 0x3FF -> 0x1FF, the
   shift 10 -> 9, or packetExtendMaxHint 0x3F -> 0x1F break Proofs_K_<name>.v, hence
   this file, hence Prop_C30.v -- and nothing else.

   NOT linked: newPacketDestInfo / packetDestInfoDest.  packetDestInfo is dead code in
   network/packet.go (the header carries dest and ttl as two separate bytes, which is
   what Model_Packet.header does); the model has no corresponding definition.
   Style: stdlib, lia. *)
From Goloop Require Import lib.Bytes lib.GoInt Model_Packet Proofs_Packet.
From Goloop Require Import Proofs_K_tactics Proofs_K_newPacketExtendInfo
  Proofs_K_packetExtendInfoHint Proofs_K_packetExtendInfoLen.
From Goloop.gen Require Export K_newPacketExtendInfo K_packetExtendInfoHint K_packetExtendInfoLen.
From Coq Require Import ZifyBool ZifyN ZifyNat.
Import ListNotations.
Local Open Scope Z_scope.

Ltac Zify.zify_post_hook ::= Z.to_euclidean_division_equations.

(* WriteTo: the info word the model puts into the footer is newPacketExtendInfo(hint, len(ext)) *)
Lemma extinfo_is_newPacketExtendInfo p :
  (p_hint p < 64)%N ->
  Z.of_N (extinfo p) = newPacketExtendInfo (Z.of_N (p_hint p)) (Z.of_N (lenN (p_ext p))).
Proof.
  intros Hh. rewrite newPacketExtendInfo_spec by lia. unfold extinfo. lia.
Qed.

(* in particular for every well-formed packet *)
Lemma extinfo_is_newPacketExtendInfo_wf p :
  wf p -> Z.of_N (extinfo p) = newPacketExtendInfo (Z.of_N (p_hint p)) (Z.of_N (lenN (p_ext p))).
Proof. intro W. apply extinfo_is_newPacketExtendInfo. exact (wf_hint _ W). Qed.

(* ReadFrom: the extension length read back from the footer is extendInfo.len() *)
Lemma ext_len_is_packetExtendInfoLen f :
  Z.of_N (ext_len f) = packetExtendInfoLen (Z.of_N (be_val (skipn 8 f))).
Proof. rewrite packetExtendInfoLen_spec. unfold ext_len. lia. Qed.

(* ReadFrom: the hint of an accepted packet is extendInfo.hint() of the footer word *)
Lemma hint_is_packetExtendInfoHint (v : N) :
  (v < 65536)%N -> Z.of_N (v / 1024) = packetExtendInfoHint (Z.of_N v).
Proof. intros Hv. rewrite packetExtendInfoHint_spec by lia. lia. Qed.

Lemma assemble_hint_is_packetExtendInfoHint (H : bytes -> N) (R : Type)
      (h pl f ex : bytes) (rest rest' : R) (p : packet) :
  (be_val (skipn 8 f) < 65536)%N ->
  assemble H h pl f ex rest = ROk p rest' ->
  Z.of_N (p_hint p) = packetExtendInfoHint (Z.of_N (be_val (skipn 8 f))).
Proof.
  intros Hv. unfold assemble. destruct (_ =? _)%N; [|discriminate].
  intros E. inversion E; subst. cbn [p_hint]. apply hint_is_packetExtendInfoHint. exact Hv.
Qed.

(* the scalar parameters of the Go functions, in declaration order *)
Definition kernel_params_pinned : Prop :=
  newPacketExtendInfo_params = ["hint"; "len"]%string /\
  packetExtendInfoHint_params = ["i"]%string /\ packetExtendInfoLen_params = ["i"]%string.

Lemma kernel_params_ok : kernel_params_pinned.
Proof. repeat split. Qed.

Example link_c30_nontrivial :
  newPacketExtendInfo 5 700 = 5820 /\ packetExtendInfoHint 5820 = 5 /\
  packetExtendInfoLen 5820 = 700 /\ newPacketExtendInfo 63 1023 = 65535.
Proof. repeat split; reflexivity. Qed.
