(* Proofs_K_locatorCacheMiss.v -- common/txlocator manager.hasLocatorInCache: the maxTSInDB shortcut
   Split out of Proofs_Kernels.v: this file imports ONLY the generated kernel(s)
   gen/K_locatorCacheMiss.v, so an edit of another kernel's Go source cannot break it.
   Style: stdlib only; arithmetic closed by lia with the euclidean-division hook. *)
From Coq Require Import ZArith Bool String List Lia.
From Coq Require Import ZifyBool.
From Goloop Require Import lib.GoInt Proofs_K_tactics.
From Goloop.gen Require Import K_locatorCacheMiss.
Import ListNotations.
Local Open Scope Z_scope.

Ltac Zify.zify_post_hook ::= Z.to_euclidean_division_equations.

(* manager.hasLocatorInCache: a known maximum timestamp in the DB below ts means "not in DB" *)
Lemma locatorCacheMiss_spec maxTS ts :
  locatorCacheMiss maxTS ts = true <-> maxTS <> 0 /\ maxTS < ts.
Proof. unfold locatorCacheMiss. kernel_lia. Qed.

Lemma locatorCacheMiss_params_ok :
  locatorCacheMiss_params = ["m.cache[group].maxTSInDB"; "ts"]%string.
Proof. reflexivity. Qed.
