(* Property C26 — Event log blooms have no false negatives.
   This file holds only the property theorems; proofs are in Proofs_Bloom.v
   (and Proofs_Lzw.v for the compression round trip of C25). *)
From Coq Require Import Permutation.
From Goloop Require Import lib.Bytes Model_Bloom Proofs_Bloom Model_Lzw Proofs_Lzw.

(* every item (address, indexed value at its position) of every log is reported
   present by the merged bloom, for every hash function, every order and every
   association of the merges *)
Theorem C26_no_false_negative : forall (H : bytes -> N) logs l it t,
  In l logs -> In it (items_of l) ->
  Permutation (mt_leaves t) (map (bloom_of H) logs) ->
  contain (mt_eval t) (item_mask H it) = true.
Proof. exact no_false_negative. Qed.
Print Assumptions C26_no_false_negative.

(* the same for the way the code builds it: a receipt accumulates its logs with
   AddLog, the block bloom merges receipt blooms *)
Theorem C26_no_false_negative_block : forall (H : bytes -> N) receipts ls l it t,
  In ls receipts -> In l ls -> In it (items_of l) ->
  Permutation (mt_leaves t) (map (receipt_bloom H) receipts) ->
  contain (mt_eval t) (item_mask H it) = true.
Proof. exact no_false_negative_block. Qed.
Print Assumptions C26_no_false_negative_block.

(* which items a log has: its address (when it has at least one indexed value)
   and every non-nil indexed value, prefixed with its position *)
Theorem C26_items_address : forall l, l_indexed l <> [] -> In (addr_item (l_addr l)) (items_of l).
Proof. exact items_of_addr. Qed.
Print Assumptions C26_items_address.

Theorem C26_items_indexed : forall l k v,
  nth_error (l_indexed l) k = Some (Some v) -> In (indexed_item (N.of_nat k) v) (items_of l).
Proof. exact items_of_indexed. Qed.
Print Assumptions C26_items_indexed.

(* a filter built from several items is contained iff each item is *)
Theorem C26_query_of_items : forall (H : bytes -> N) b its,
  contain b (query_bloom H its) = true <-> (forall it, In it its -> contain b (item_mask H it) = true).
Proof. exact query_subset_contained. Qed.
Print Assumptions C26_query_of_items.

Theorem C26_merge_comm_assoc : forall a b c,
  merge a b = merge b a /\ merge (merge a b) c = merge a (merge b c) /\ merge a a = a.
Proof. exact merge_comm_assoc_idem. Qed.
Print Assumptions C26_merge_comm_assoc.

Theorem C26_merge_any_shape : forall t t',
  Permutation (mt_leaves t) (mt_leaves t') -> mt_eval t = mt_eval t'.
Proof. exact mt_eval_perm. Qed.
Print Assumptions C26_merge_any_shape.

Theorem C26_contain_mono : forall a b q,
  contain a q = true -> contain (merge a b) q = true /\ contain (merge b a) q = true.
Proof. exact contain_mono. Qed.
Print Assumptions C26_contain_mono.

Theorem C26_contain_is_subset : forall b q,
  contain b q = true <-> (forall k, N.testbit q k = true -> N.testbit b k = true).
Proof. exact contain_iff_bits. Qed.
Print Assumptions C26_contain_is_subset.

(* any lossless codec on byte strings leaves the bloom, hence Contain, unchanged *)
Theorem C26_compress_transparent : forall compress decompress,
  (forall x, bytes_ok x = true -> decompress (compress x) = Some x) ->
  forall b, of_compressed decompress (compressed_bytes compress b) = Some b.
Proof. exact compress_transparent. Qed.
Print Assumptions C26_compress_transparent.

(* … in particular the LZW codec of common.Compress / common.Decompress (C25) *)
Theorem C26_compress_transparent_lzw : forall b,
  of_compressed Model_Lzw.decompress (compressed_bytes Model_Lzw.compress b) = Some b.
Proof. exact compress_transparent_lzw. Qed.
Print Assumptions C26_compress_transparent_lzw.

(* blooms built from logs fit the 256 bytes of LogBytes *)
Theorem C26_log_bytes_lossless : forall (H : bytes -> N) receipts,
  bloom_of_bytes (bloom_log_bytes (merge_all (map (receipt_bloom H) receipts)))
  = merge_all (map (receipt_bloom H) receipts).
Proof. exact block_log_bytes_lossless. Qed.
Print Assumptions C26_log_bytes_lossless.
