(* Proofs_Packet.v — lemmas about Model_Packet: FNV-1a-64 detects any one-byte
   substitution, framing round trip, irrelevance of the chunking seen by the _read
   loop, detection of corrupted packets.  Style: stdlib, lia. *)
From Goloop Require Import lib.Bytes Model_Packet.
From Coq Require Import ZifyBool ZifyN ZifyNat.
Ltac Zify.zify_post_hook ::= Z.div_mod_to_equations.
Open Scope N_scope.

(* ------------------------------------------------------------------ *)
(* FNV-1a-64                                                           *)
(* ------------------------------------------------------------------ *)

Definition fnv_prime_inv : N := 14886173955864302971.

Lemma fnv_prime_inv_ok : (fnv_prime * fnv_prime_inv) mod two64 = 1.
Proof. vm_compute. reflexivity. Qed.

Lemma two64_pow : two64 = 2 ^ 64.
Proof. reflexivity. Qed.

Lemma fnv_step_fast_eq h b : fnv_step_fast h b = fnv_step h b.
Proof.
  unfold fnv_step_fast, fnv_step. cbv zeta.
  rewrite N.land_ones, N.shiftl_mul_pow2. rewrite two64_pow. f_equal.
  unfold fnv_prime. change (2 ^ 40) with 1099511627776. lia.
Qed.

Lemma fnv1a_fast_eq bs : fnv1a_fast bs = fnv1a bs.
Proof.
  unfold fnv1a_fast, fnv1a. generalize fnv_offset.
  induction bs as [|b bs IH]; intro h; cbn [fold_left]; [reflexivity|].
  rewrite fnv_step_fast_eq. apply IH.
Qed.

Lemma lxor_lt_pow2 a b n : a < 2 ^ n -> b < 2 ^ n -> N.lxor a b < 2 ^ n.
Proof.
  intros Ha Hb.
  destruct (N.eq_dec (N.lxor a b) 0) as [E|E]; [rewrite E; lia|].
  apply N.log2_lt_pow2; [lia|].
  eapply N.le_lt_trans; [apply N.log2_lxor|].
  assert (Hn : 0 < n).
  { destruct (N.eq_dec n 0) as [->|]; [|lia]. exfalso. apply E.
    assert (a = 0) by (cbn in Ha; lia). assert (b = 0) by (cbn in Hb; lia). subst. reflexivity. }
  apply N.max_lub_lt.
  - destruct (N.eq_dec a 0) as [->|]; [cbn; lia|]. apply N.log2_lt_pow2; lia.
  - destruct (N.eq_dec b 0) as [->|]; [cbn; lia|]. apply N.log2_lt_pow2; lia.
Qed.

Lemma lxor_cancel_l a b c : N.lxor a b = N.lxor a c -> b = c.
Proof.
  intro E. assert (N.lxor a (N.lxor a b) = N.lxor a (N.lxor a c)) by now rewrite E.
  rewrite <- !N.lxor_assoc, N.lxor_nilpotent, !N.lxor_0_l in H. exact H.
Qed.

Lemma lxor_cancel_r a b c : N.lxor a c = N.lxor b c -> a = b.
Proof. rewrite (N.lxor_comm a), (N.lxor_comm b). apply lxor_cancel_l. Qed.

(* multiplication by the (odd) prime is injective modulo 2^64 *)
Lemma mul_prime_inj x y :
  x < two64 -> y < two64 -> (x * fnv_prime) mod two64 = (y * fnv_prime) mod two64 -> x = y.
Proof.
  intros Hx Hy E.
  assert (K : forall z, z < two64 -> ((z * fnv_prime) mod two64 * fnv_prime_inv) mod two64 = z).
  { intros z Hz. rewrite N.mul_mod_idemp_l by (unfold two64; lia).
    rewrite <- N.mul_assoc, <- N.mul_mod_idemp_r by (unfold two64; lia).
    rewrite fnv_prime_inv_ok, N.mul_1_r. apply N.mod_small. exact Hz. }
  rewrite <- (K x Hx), <- (K y Hy), E. reflexivity.
Qed.

Lemma fnv_step_lt h b : fnv_step h b < two64.
Proof. unfold fnv_step. apply N.mod_lt. unfold two64. lia. Qed.

Lemma byte_lt_two64 b : b < 256 -> b < 2 ^ 64.
Proof. intro. change (2 ^ 64) with two64. unfold two64. lia. Qed.

Lemma fnv_step_inj_b h b b' :
  h < two64 -> b < 256 -> b' < 256 -> fnv_step h b = fnv_step h b' -> b = b'.
Proof.
  intros Hh Hb Hb' E. unfold fnv_step in E.
  apply mul_prime_inj in E.
  - eapply lxor_cancel_l; eassumption.
  - rewrite two64_pow in *. apply lxor_lt_pow2; [assumption|now apply byte_lt_two64].
  - rewrite two64_pow in *. apply lxor_lt_pow2; [assumption|now apply byte_lt_two64].
Qed.

Lemma fnv_step_inj_h h h' b :
  h < two64 -> h' < two64 -> b < 256 -> fnv_step h b = fnv_step h' b -> h = h'.
Proof.
  intros Hh Hh' Hb E. unfold fnv_step in E.
  apply mul_prime_inj in E.
  - eapply lxor_cancel_r; eassumption.
  - rewrite two64_pow in *. apply lxor_lt_pow2; [assumption|now apply byte_lt_two64].
  - rewrite two64_pow in *. apply lxor_lt_pow2; [assumption|now apply byte_lt_two64].
Qed.

Lemma fold_fnv_lt bs h : h < two64 -> fold_left fnv_step bs h < two64.
Proof.
  revert h; induction bs as [|b bs IH]; intros h Hh; cbn [fold_left]; [exact Hh|].
  apply IH, fnv_step_lt.
Qed.

Lemma bytes_ok_cons b bs : bytes_ok (b :: bs) = true <-> b < 256 /\ bytes_ok bs = true.
Proof. unfold bytes_ok; cbn [forallb]. unfold byte_ok. rewrite andb_true_iff, N.ltb_lt. tauto. Qed.

Lemma bytes_ok_app a b : bytes_ok (a ++ b) = true <-> bytes_ok a = true /\ bytes_ok b = true.
Proof. unfold bytes_ok. rewrite forallb_app, andb_true_iff. tauto. Qed.

(* same suffix, different (in-range) states: the digests stay different *)
Lemma fold_fnv_inj_h bs h h' :
  bytes_ok bs = true -> h < two64 -> h' < two64 -> h <> h' ->
  fold_left fnv_step bs h <> fold_left fnv_step bs h'.
Proof.
  revert h h'; induction bs as [|b bs IH]; intros h h' Hok Hh Hh' Hne; cbn [fold_left]; [exact Hne|].
  apply bytes_ok_cons in Hok as [Hb Hok].
  apply IH; auto using fnv_step_lt.
  intro E. apply Hne. eapply fnv_step_inj_h; eassumption.
Qed.

Lemma fold_fnv_subst_neq l : forall i b b' h,
  bytes_ok l = true -> h < two64 -> nth_error l i = Some b -> b' < 256 -> b' <> b ->
  fold_left fnv_step (subst_at i b' l) h <> fold_left fnv_step l h.
Proof.
  induction l as [|x l IH]; intros i b b' h Hok Hh Hn Hb' Hne.
  - destruct i; discriminate.
  - apply bytes_ok_cons in Hok as [Hx Hok]. destruct i as [|i]; cbn in Hn.
    + inversion Hn; subst x. cbn [subst_at fold_left].
      apply fold_fnv_inj_h; auto using fnv_step_lt.
      intro E. apply Hne. eapply fnv_step_inj_b; eassumption.
    + cbn [subst_at fold_left]. eapply IH; eauto using fnv_step_lt.
Qed.

Lemma fnv_offset_lt : fnv_offset < two64.
Proof. reflexivity. Qed.

(* FNV-1a-64 changes under every substitution of a single byte *)
Lemma fnv1a_subst_neq l i b b' :
  bytes_ok l = true -> nth_error l i = Some b -> b' < 256 -> b' <> b ->
  fnv1a (subst_at i b' l) <> fnv1a l.
Proof. intros. unfold fnv1a. eapply fold_fnv_subst_neq; eauto using fnv_offset_lt. Qed.

Lemma fnv1a_lt l : fnv1a l < two64.
Proof. apply fold_fnv_lt, fnv_offset_lt. Qed.

(* ------------------------------------------------------------------ *)
(* big-endian fields                                                   *)
(* ------------------------------------------------------------------ *)

Lemma be_bytes_length n v : length (be_bytes n v) = n.
Proof. induction n; cbn [be_bytes length]; congruence. Qed.

Lemma be_bytes_ok n v : bytes_ok (be_bytes n v) = true.
Proof.
  induction n; cbn [be_bytes]; [reflexivity|].
  apply bytes_ok_cons. split; [|exact IHn]. apply N.mod_lt. lia.
Qed.

Lemma fold_be_acc bs acc :
  fold_left (fun a b => a * 256 + b) bs acc = acc * 256 ^ lenN bs + be_val bs.
Proof.
  unfold be_val, lenN. revert acc. induction bs as [|b bs IH]; intro acc.
  - cbn. lia.
  - cbn [fold_left length]. rewrite IH, (IH (0 * 256 + b)).
    rewrite Nat2N.inj_succ, N.pow_succ_r'. lia.
Qed.

Lemma be_val_cons b bs : be_val (b :: bs) = b * 256 ^ lenN bs + be_val bs.
Proof. unfold be_val at 1. cbn [fold_left]. rewrite fold_be_acc. lia. Qed.

Lemma be_val_lt bs : bytes_ok bs = true -> be_val bs < 256 ^ lenN bs.
Proof.
  induction bs as [|b bs IH]; intro Hok.
  - cbn. lia.
  - apply bytes_ok_cons in Hok as [Hb Hok]. specialize (IH Hok).
    rewrite be_val_cons. unfold lenN in *. cbn [length]. rewrite Nat2N.inj_succ, N.pow_succ_r'.
    nia.
Qed.

Lemma be_val_inj a : forall b, length a = length b -> bytes_ok a = true -> bytes_ok b = true ->
  be_val a = be_val b -> a = b.
Proof.
  induction a as [|x a IH]; intros [|y b] Hl Ha Hb E; try discriminate; [reflexivity|].
  apply bytes_ok_cons in Ha as [Hx Ha]. apply bytes_ok_cons in Hb as [Hy Hb].
  cbn [length] in Hl. injection Hl as Hl.
  rewrite !be_val_cons in E.
  assert (La := be_val_lt a Ha). assert (Lb := be_val_lt b Hb).
  assert (Hlen : lenN a = lenN b) by (unfold lenN; now rewrite Hl).
  rewrite Hlen in *.
  set (P := 256 ^ lenN b) in *.
  assert (x = y) by nia. subst y.
  f_equal. apply IH; auto. lia.
Qed.

Lemma be_val_be_bytes n v : v < 256 ^ N.of_nat n -> be_val (be_bytes n v) = v.
Proof.
  revert v. induction n as [|n IH]; intros v Hv.
  - cbn in *. lia.
  - cbn [be_bytes]. rewrite be_val_cons. unfold lenN. rewrite be_bytes_length.
    rewrite Nat2N.inj_succ, N.pow_succ_r' in Hv.
    replace (2 ^ (8 * N.of_nat n)) with (256 ^ N.of_nat n)
      by (change 256 with (2 ^ 8); now rewrite <- N.pow_mul_r).
    set (P := 256 ^ N.of_nat n) in *.
    assert (HP : 0 < P) by (apply N.neq_0_lt_0, N.pow_nonzero; lia).
    rewrite (N.mod_small (v / P)) by (apply N.div_lt_upper_bound; lia).
    (* the tail only sees v mod P *)
    assert (T : forall m w, be_bytes m w = be_bytes m (w mod 256 ^ N.of_nat m)).
    { clear. induction m as [|m IHm]; intro w; [reflexivity|].
      cbn [be_bytes]. rewrite Nat2N.inj_succ, N.pow_succ_r'.
      replace (2 ^ (8 * N.of_nat m)) with (256 ^ N.of_nat m)
        by (change 256 with (2 ^ 8); now rewrite <- N.pow_mul_r).
      set (Q := 256 ^ N.of_nat m).
      assert (HQ : 0 < Q) by (apply N.neq_0_lt_0, N.pow_nonzero; lia).
      f_equal.
      - rewrite (N.mul_comm 256 Q), N.mod_mul_r by lia.
        rewrite (N.mul_comm Q), N.div_add by lia.
        rewrite (N.div_small (w mod Q)) by (apply N.mod_lt; lia).
        cbn [N.add]. now rewrite N.mod_mod by lia.
      - rewrite (IHm w), (IHm (w mod (256 * Q))). f_equal.
        rewrite (N.mul_comm 256 Q), N.mod_mul_r by lia.
        rewrite (N.mul_comm Q), N.mod_add by lia. now rewrite N.mod_mod by lia. }
    rewrite T, IH by (apply N.mod_lt; lia).
    rewrite N.mul_comm. symmetry. apply N.div_mod. lia.
Qed.

(* ------------------------------------------------------------------ *)
(* list surgery                                                        *)
(* ------------------------------------------------------------------ *)

Lemma firstn_app_len {A} n (a b : list A) : length a = n -> firstn n (a ++ b) = a.
Proof. intros <-. rewrite firstn_app, Nat.sub_diag, firstn_all. cbn. apply app_nil_r. Qed.

Lemma skipn_app_len {A} n (a b : list A) : length a = n -> skipn n (a ++ b) = b.
Proof. intros <-. rewrite skipn_app, Nat.sub_diag, skipn_all. reflexivity. Qed.

Lemma skipn_app_more {A} n m (a b : list A) : length a = n -> skipn (n + m) (a ++ b) = skipn m b.
Proof.
  intros <-. rewrite skipn_app. rewrite skipn_all2 by lia. cbn [app]. f_equal. lia.
Qed.

Lemma take_app n (a b : bytes) : length a = n -> take n (a ++ b) = Some (a, b).
Proof.
  intro Hl. unfold take. rewrite app_length.
  destruct (Nat.ltb_spec (length a + length b) n); [lia|].
  now rewrite firstn_app_len, skipn_app_len.
Qed.

Lemma take_some n s a b : take n s = Some (a, b) -> s = a ++ b /\ length a = n.
Proof.
  unfold take. destruct (Nat.ltb_spec (length s) n); [discriminate|].
  intro E. inversion E; subst. split; [symmetry; apply firstn_skipn|]. apply firstn_length_le. lia.
Qed.

Lemma take_none n s : take n s = None <-> (length s < n)%nat.
Proof. unfold take. destruct (Nat.ltb_spec (length s) n); split; try discriminate; try lia; auto. Qed.

Lemma subst_at_length i b l : length (subst_at i b l) = length l.
Proof. revert i; induction l as [|x l IH]; intros [|i]; cbn; auto. Qed.

Lemma subst_at_app_l i b l r : (i < length l)%nat -> subst_at i b (l ++ r) = subst_at i b l ++ r.
Proof.
  revert i; induction l as [|x l IH]; intros i Hi; cbn in Hi; [lia|].
  destruct i; cbn; [reflexivity|]. f_equal. apply IH. lia.
Qed.

Lemma subst_at_app_r i b l r : subst_at (length l + i) b (l ++ r) = l ++ subst_at i b r.
Proof. induction l as [|x l IH]; cbn; [reflexivity|]. now f_equal. Qed.

Lemma subst_at_ok i b l : b < 256 -> bytes_ok l = true -> bytes_ok (subst_at i b l) = true.
Proof.
  intro Hb. revert i; induction l as [|x l IH]; intros i Hok; [destruct i; exact Hok|].
  apply bytes_ok_cons in Hok as [Hx Hok]. destruct i; cbn [subst_at]; apply bytes_ok_cons; auto.
Qed.

Lemma subst_at_neq i b b' l : nth_error l i = Some b -> b' <> b -> subst_at i b' l <> l.
Proof.
  revert i; induction l as [|x l IH]; intros [|i] Hn Hne; try discriminate; cbn in *.
  - inversion Hn; subst. intro E; inversion E; congruence.
  - intro E; inversion E. eapply IH; eauto.
Qed.

Lemma nth_error_app_l {A} (l r : list A) i : (i < length l)%nat -> nth_error (l ++ r) i = nth_error l i.
Proof. intro. now apply nth_error_app1. Qed.

Lemma nth_error_app_r {A} (l r : list A) i : nth_error (l ++ r) (length l + i) = nth_error r i.
Proof. rewrite nth_error_app2 by lia. f_equal. lia. Qed.

Lemma be_val_single b : be_val [b] = b.
Proof. unfold be_val. cbn. lia. Qed.

(* ------------------------------------------------------------------ *)
(* framing                                                             *)
(* ------------------------------------------------------------------ *)

Definition header_fixed (p : packet) : bytes :=
  be_bytes 2 (p_proto p) ++ be_bytes 2 (p_sub p) ++ p_src p ++ [p_dest p; p_ttl p].

Lemma header_split p : header p = header_fixed p ++ be_bytes 4 (lenN (p_payload p)).
Proof. unfold header, header_fixed. now rewrite <- !app_assoc. Qed.

Record wf (p : packet) : Prop := {
  wf_proto : p_proto p < 65536;
  wf_sub : p_sub p < 65536;
  wf_src_len : length (p_src p) = 20%nat;
  wf_src_ok : bytes_ok (p_src p) = true;
  wf_dest : p_dest p < 256;
  wf_ttl : p_ttl p < 256;
  wf_payload_ok : bytes_ok (p_payload p) = true;
  wf_payload_len : lenN (p_payload p) <= max_payload;
  wf_hint : p_hint p < 64;
  wf_ext_len : lenN (p_ext p) < 1024;
  wf_ext_ok : bytes_ok (p_ext p) = true
}.

Lemma wf_packet_iff p : wf_packet p = true <-> wf p.
Proof.
  unfold wf_packet. rewrite !andb_true_iff, !N.ltb_lt, N.leb_le, Nat.eqb_eq.
  split; [intros [[[[[[[[[[? ?] ?] ?] ?] ?] ?] ?] ?] ?] ?]; constructor; assumption|].
  intros []. tauto.
Qed.

Lemma header_fixed_length p : wf p -> length (header_fixed p) = 26%nat.
Proof.
  intros W. unfold header_fixed. rewrite !app_length, !be_bytes_length, (wf_src_len _ W). reflexivity.
Qed.

Lemma header_length p : wf p -> length (header p) = 30%nat.
Proof. intro W. rewrite header_split, app_length, header_fixed_length, be_bytes_length; auto. Qed.

Lemma header_ok p : wf p -> bytes_ok (header p) = true.
Proof.
  intros W. unfold header. rewrite !bytes_ok_app, !be_bytes_ok, (wf_src_ok _ W).
  repeat split. apply bytes_ok_cons; split; [apply W|]. apply bytes_ok_cons; split; [apply W|reflexivity].
Qed.

Lemma payload_len_header p : wf p -> payload_len (header p) = lenN (p_payload p).
Proof.
  intro W. unfold payload_len. rewrite header_split, skipn_app_len by now apply header_fixed_length.
  apply be_val_be_bytes. pose proof (wf_payload_len _ W). unfold max_payload in *.
  change (256 ^ N.of_nat 4) with 4294967296. lia.
Qed.

Lemma ext_out_wf p : wf p -> ext_out p = p_ext p.
Proof.
  intro W. unfold ext_out. pose proof (wf_ext_len _ W). rewrite N.mod_small by assumption.
  unfold lenN. rewrite Nat2N.id. apply firstn_all.
Qed.

Lemma extinfo_lt p : wf p -> extinfo p < 65536.
Proof. intro W. unfold extinfo. pose proof (wf_hint _ W). pose proof (wf_ext_len _ W). lia. Qed.

Section FramingProofs.
  Variable H : bytes -> N.
  Hypothesis H_lt : forall x, H x < two64.

  Lemma footer_length p : length (footer H p) = 10%nat.
  Proof. unfold footer. now rewrite app_length, !be_bytes_length. Qed.

  Lemma ext_len_footer p : wf p -> ext_len (footer H p) = lenN (p_ext p).
  Proof.
    intro W. unfold ext_len, footer. rewrite skipn_app_len by apply be_bytes_length.
    rewrite be_val_be_bytes by (change (256 ^ N.of_nat 2) with 65536; now apply extinfo_lt).
    unfold extinfo. pose proof (wf_ext_len _ W). lia.
  Qed.

  (* one ReadFrom over a correctly framed group of bytes *)
  Lemma parse_one_frame h pl f ex rest :
    length h = 30%nat -> payload_len h = lenN pl -> lenN pl <= max_payload ->
    length f = 10%nat -> ext_len f = lenN ex ->
    parse_one H (h ++ pl ++ f ++ ex ++ rest) = assemble H h pl f ex rest.
  Proof using Type.
    clear H_lt. intros Hh Hpl Hmax Hf Hex. unfold parse_one, header_size, footer_size.
    rewrite take_app by assumption. rewrite Hpl.
    destruct (N.ltb_spec max_payload (lenN pl)); [lia|].
    unfold lenN at 1. rewrite Nat2N.id, take_app by reflexivity.
    rewrite take_app by assumption. rewrite Hex. unfold lenN at 1.
    rewrite Nat2N.id, take_app by reflexivity. reflexivity.
  Qed.

  Lemma assemble_encode {R} p (rest : R) : wf p ->
    assemble H (header p) (p_payload p) (footer H p) (ext_out p) rest = ROk p rest.
  Proof.
    intro W. unfold assemble.
    assert (Hh : be_val (firstn 8 (footer H p)) = pkt_hash H p).
    { unfold footer. rewrite firstn_app_len by apply be_bytes_length.
      apply be_val_be_bytes. change (256 ^ N.of_nat 8) with two64. apply H_lt. }
    rewrite Hh. unfold pkt_hash. rewrite N.eqb_refl. f_equal.
    destruct p as [proto sub src dest ttl payload hint ext].
    destruct W as [W1 W2 W3 W4 W5 W6 W7 W8 W9 W10 W11]. cbn [p_proto p_sub p_src p_dest p_ttl p_payload p_hint p_ext] in *.
    unfold header. cbn [p_proto p_sub p_src p_dest p_ttl p_payload p_hint p_ext].
    f_equal.
    - rewrite firstn_app_len by apply be_bytes_length. now apply be_val_be_bytes.
    - rewrite skipn_app_len by apply be_bytes_length.
      rewrite firstn_app_len by apply be_bytes_length. now apply be_val_be_bytes.
    - rewrite (skipn_app_more 2 2) by apply be_bytes_length.
      rewrite skipn_app_len by apply be_bytes_length. now rewrite firstn_app_len.
    - rewrite (skipn_app_more 2 22) by apply be_bytes_length.
      rewrite (skipn_app_more 2 20) by apply be_bytes_length.
      rewrite skipn_app_len by assumption. cbn [app firstn]. apply be_val_single.
    - rewrite (skipn_app_more 2 23) by apply be_bytes_length.
      rewrite (skipn_app_more 2 21) by apply be_bytes_length.
      rewrite (skipn_app_more 20 1) by assumption. cbn [app firstn skipn]. apply be_val_single.
    - unfold footer. rewrite skipn_app_len by apply be_bytes_length.
      rewrite be_val_be_bytes.
      + unfold extinfo; cbn [p_hint p_ext]. lia.
      + change (256 ^ N.of_nat 2) with 65536. unfold extinfo; cbn [p_hint p_ext]. lia.
    - unfold ext_out; cbn [p_ext]. rewrite N.mod_small by assumption.
      unfold lenN. rewrite Nat2N.id. apply firstn_all.
  Qed.

  Lemma parse_one_encode p rest : wf p -> parse_one H (encode H p ++ rest) = ROk p rest.
  Proof.
    intro W. unfold encode. rewrite <- !app_assoc.
    rewrite parse_one_frame.
    - now apply assemble_encode.
    - now apply header_length.
    - now apply payload_len_header.
    - apply W.
    - apply footer_length.
    - rewrite ext_out_wf by assumption. now apply ext_len_footer.
  Qed.
End FramingProofs.

(* ------------------------------------------------------------------ *)
(* the receive loop                                                    *)
(* ------------------------------------------------------------------ *)

Section StreamProofs.
  Variable H : bytes -> N.

  Lemma assemble_ok {R} h pl f ex (rest : R) p r :
    assemble H h pl f ex rest = ROk p r -> r = rest.
  Proof. unfold assemble. destruct (_ =? _); intro E; inversion E; reflexivity. Qed.

  (* a successfully read packet consumes at least header + footer *)
  Lemma parse_one_consumes s p rest :
    parse_one H s = ROk p rest -> (length rest + 40 <= length s)%nat.
  Proof.
    unfold parse_one, header_size, footer_size.
    destruct (take 30 s) as [[h s1]|] eqn:E1; [|discriminate].
    destruct (max_payload <? payload_len h); [discriminate|].
    destruct (take _ s1) as [[pl s2]|] eqn:E2; [|discriminate].
    destruct (take 10 s2) as [[f s3]|] eqn:E3; [|discriminate].
    destruct (take _ s3) as [[ex s4]|] eqn:E4; [|discriminate].
    intro E. apply assemble_ok in E. subst rest.
    apply take_some in E1 as [-> L1]. apply take_some in E2 as [-> L2].
    apply take_some in E3 as [-> L3]. apply take_some in E4 as [-> L4].
    rewrite !app_length. lia.
  Qed.

  Lemma parse_fuel_enough f1 : forall f2 s, (length s < f1)%nat -> (length s < f2)%nat ->
    parse_fuel H f1 s = parse_fuel H f2 s.
  Proof.
    induction f1 as [|f1 IH]; intros f2 s L1 L2; [lia|].
    destruct f2 as [|f2]; [lia|]. cbn [parse_fuel].
    destruct (parse_one H s) as [p rest| |] eqn:E; try reflexivity.
    apply parse_one_consumes in E. rewrite (IH f2 rest) by lia. reflexivity.
  Qed.

  Lemma parse_fuel_no_fuel_stop f : forall s, (length s < f)%nat -> snd (parse_fuel H f s) <> StopFuel.
  Proof.
    induction f as [|f IH]; intros s L; [lia|]. cbn [parse_fuel].
    destruct (parse_one H s) as [p rest| |] eqn:E; cbn; try discriminate.
    apply parse_one_consumes in E. specialize (IH rest ltac:(lia)).
    destruct (parse_fuel H f rest). exact IH.
  Qed.

  Lemma parse_stream_never_out_of_fuel s : snd (parse_stream H s) <> StopFuel.
  Proof. apply parse_fuel_no_fuel_stop. lia. Qed.

  (* unfolding one packet of the loop *)
  Lemma parse_stream_step s p rest :
    parse_one H s = ROk p rest ->
    parse_stream H s = (p :: fst (parse_stream H rest), snd (parse_stream H rest)).
  Proof.
    intro E. pose proof (parse_one_consumes _ _ _ E). unfold parse_stream.
    rewrite (parse_fuel_enough (S (length rest)) (length s) rest) by lia.
    cbn [parse_fuel]. rewrite E.
    destruct (parse_fuel H (length s) rest). reflexivity.
  Qed.

  Lemma parse_stream_eof s : parse_one H s = REof -> parse_stream H s = ([], StopEOF).
  Proof. intro E. unfold parse_stream. cbn [parse_fuel]. now rewrite E. Qed.

  Lemma parse_stream_bad s : parse_one H s = RBad -> parse_stream H s = ([], StopBad).
  Proof. intro E. unfold parse_stream. cbn [parse_fuel]. now rewrite E. Qed.

  Lemma parse_one_nil : parse_one H [] = REof.
  Proof. reflexivity. Qed.

  (* ---------------- chunked reader ---------------- *)

  Lemma read_n_spec r : forall n,
    match read_n r n with
    | Some (b, r') => take n (concat r) = Some (b, concat r')
    | None => take n (concat r) = None
    end.
  Proof.
    induction r as [|c r IH]; intros [|n]; cbn [read_n].
    - reflexivity.
    - reflexivity.
    - cbn [concat]. unfold take. cbn. reflexivity.
    - cbn [concat]. destruct (Nat.ltb_spec (length c) (S n)) as [L|L].
      + specialize (IH (S n - length c)%nat).
        destruct (read_n r (S n - length c)) as [[b r'']|].
        * apply take_some in IH as [E Lb]. rewrite E, app_assoc. apply take_app.
          rewrite app_length. lia.
        * apply take_none in IH. apply take_none. rewrite app_length. lia.
      + destruct (Nat.eqb_spec (length c) (S n)) as [E|E].
        * rewrite <- E, firstn_all. now apply take_app.
        * cbn [concat]. rewrite <- (firstn_skipn (S n) c) at 1. rewrite <- app_assoc.
          apply take_app. apply firstn_length_le. lia.
  Qed.

  Definition res_concat (x : step_res (list bytes)) : step_res bytes :=
    match x with ROk p r => ROk p (concat r) | REof => REof | RBad => RBad end.

  Lemma assemble_concat h pl f ex r :
    res_concat (assemble H h pl f ex r) = assemble H h pl f ex (concat r).
  Proof. unfold assemble. now destruct (_ =? _). Qed.

  Lemma parse_one_chunked_spec r : res_concat (parse_one_chunked H r) = parse_one H (concat r).
  Proof.
    unfold parse_one_chunked, parse_one.
    pose proof (read_n_spec r header_size) as S1.
    destruct (read_n r header_size) as [[h r1]|]; rewrite S1; [|reflexivity].
    destruct (max_payload <? payload_len h); [reflexivity|].
    pose proof (read_n_spec r1 (N.to_nat (payload_len h))) as S2.
    destruct (read_n r1 _) as [[pl r2]|]; rewrite S2; [|reflexivity].
    pose proof (read_n_spec r2 footer_size) as S3.
    destruct (read_n r2 footer_size) as [[f r3]|]; rewrite S3; [|reflexivity].
    pose proof (read_n_spec r3 (N.to_nat (ext_len f))) as S4.
    destruct (read_n r3 _) as [[ex r4]|]; rewrite S4; [|reflexivity].
    apply assemble_concat.
  Qed.

  Lemma parse_chunked_fuel_spec f : forall r, parse_chunked_fuel H f r = parse_fuel H f (concat r).
  Proof.
    induction f as [|f IH]; intro r; [reflexivity|]. cbn [parse_chunked_fuel parse_fuel].
    rewrite <- parse_one_chunked_spec.
    destruct (parse_one_chunked H r) as [p rest| |]; cbn [res_concat]; try reflexivity.
    now rewrite IH.
  Qed.

  Lemma chunking_irrelevant r : parse_chunked H r = parse_stream H (concat r).
  Proof. apply parse_chunked_fuel_spec. Qed.
  Hypothesis H_lt : forall x, H x < two64.

  (* what follows a sequence of well-formed packets is parsed after them *)
  Lemma parse_stream_prefix ps tail : Forall wf ps ->
    parse_stream H (concat (map (encode H) ps) ++ tail) =
    (ps ++ fst (parse_stream H tail), snd (parse_stream H tail)).
  Proof.
    induction 1 as [|p ps W _ IH]; cbn [map concat app].
    - now destruct (parse_stream H tail).
    - rewrite <- app_assoc.
      rewrite (parse_stream_step _ p (concat (map (encode H) ps) ++ tail))
        by now apply parse_one_encode.
      rewrite IH. reflexivity.
  Qed.

  Lemma stream_roundtrip ps : Forall wf ps ->
    parse_stream H (concat (map (encode H) ps)) = (ps, StopEOF).
  Proof.
    intro W. rewrite <- (app_nil_r (concat _)), parse_stream_prefix by assumption.
    rewrite parse_stream_eof by reflexivity. cbn. now rewrite app_nil_r.
  Qed.

End StreamProofs.

(* ------------------------------------------------------------------ *)
(* corruption                                                          *)
(* ------------------------------------------------------------------ *)

Lemma assemble_bad {R} H h pl f ex (rest : R) :
  H (h ++ pl) <> be_val (firstn 8 f) -> assemble H h pl f ex rest = RBad.
Proof. intro N. unfold assemble. destruct (N.eqb_spec (H (h ++ pl)) (be_val (firstn 8 f))); [contradiction|reflexivity]. Qed.

Lemma stored_hash p : be_val (firstn 8 (footer fnv1a p)) = fnv1a (header p ++ p_payload p).
Proof.
  unfold footer. rewrite firstn_app_len by apply be_bytes_length.
  apply be_val_be_bytes. change (256 ^ N.of_nat 8) with two64. apply fnv1a_lt.
Qed.

Lemma hashed_ok p : wf p -> bytes_ok (header p ++ p_payload p) = true.
Proof. intro W. apply bytes_ok_app. split; [now apply header_ok|apply W]. Qed.

(* a byte of the header other than the length field *)
Lemma corrupt_header p post i b b' : wf p -> (i < 26)%nat ->
  nth_error (encode fnv1a p) i = Some b -> b' < 256 -> b' <> b ->
  parse_one fnv1a (subst_at i b' (encode fnv1a p) ++ post) = RBad.
Proof.
  intros W Hi Hn Hb' Hne.
  pose proof (header_fixed_length p W) as L26. pose proof (header_length p W) as L30.
  unfold encode in *. rewrite header_split in Hn |- *. rewrite <- !app_assoc in Hn |- *.
  rewrite subst_at_app_l by lia. rewrite nth_error_app_l in Hn by lia.
  rewrite <- !app_assoc.
  rewrite (app_assoc (subst_at i b' (header_fixed p))).
  rewrite parse_one_frame.
  - apply assemble_bad. rewrite stored_hash.
    replace ((subst_at i b' (header_fixed p) ++ be_bytes 4 (lenN (p_payload p))) ++ p_payload p)
      with (subst_at i b' (header p ++ p_payload p)).
    + apply (fnv1a_subst_neq _ i b b'); auto using hashed_ok.
      rewrite header_split, <- app_assoc, nth_error_app_l by lia. exact Hn.
    + rewrite header_split, <- app_assoc, subst_at_app_l by lia. now rewrite app_assoc.
  - rewrite app_length, subst_at_length, be_bytes_length. lia.
  - unfold payload_len. rewrite skipn_app_len by (rewrite subst_at_length; lia).
    apply be_val_be_bytes. pose proof (wf_payload_len _ W). unfold max_payload in *.
    change (256 ^ N.of_nat 4) with 4294967296. lia.
  - apply W.
  - apply footer_length.
  - rewrite ext_out_wf by assumption. apply ext_len_footer; auto using fnv1a_lt.
Qed.

(* a byte of the payload *)
Lemma corrupt_payload p post j b b' : wf p -> (j < length (p_payload p))%nat ->
  nth_error (encode fnv1a p) (30 + j) = Some b -> b' < 256 -> b' <> b ->
  parse_one fnv1a (subst_at (30 + j) b' (encode fnv1a p) ++ post) = RBad.
Proof.
  intros W Hj Hn Hb' Hne.
  pose proof (header_length p W) as L30.
  unfold encode in *. rewrite <- L30 in Hn |- *.
  rewrite subst_at_app_r. rewrite nth_error_app_r in Hn.
  rewrite subst_at_app_l by lia. rewrite nth_error_app_l in Hn by lia.
  rewrite <- !app_assoc.
  rewrite parse_one_frame.
  - apply assemble_bad. rewrite stored_hash.
    rewrite <- subst_at_app_r.
    apply (fnv1a_subst_neq _ _ b b'); auto using hashed_ok.
    now rewrite nth_error_app_r.
  - exact L30.
  - rewrite payload_len_header by assumption. unfold lenN. now rewrite subst_at_length.
  - unfold lenN. rewrite subst_at_length. apply W.
  - apply footer_length.
  - rewrite ext_out_wf by assumption. apply ext_len_footer; auto using fnv1a_lt.
Qed.

(* a byte of the stored hash *)
Lemma corrupt_hash p post j b b' : wf p -> (j < 8)%nat ->
  nth_error (encode fnv1a p) (30 + length (p_payload p) + j) = Some b -> b' < 256 -> b' <> b ->
  parse_one fnv1a (subst_at (30 + length (p_payload p) + j) b' (encode fnv1a p) ++ post) = RBad.
Proof.
  intros W Hj Hn Hb' Hne.
  pose proof (header_length p W) as L30.
  unfold encode in *. rewrite app_assoc in Hn |- *.
  assert (LL : length (header p ++ p_payload p) = (30 + length (p_payload p))%nat)
    by (rewrite app_length; lia).
  rewrite <- LL in Hn |- *.
  rewrite subst_at_app_r. rewrite nth_error_app_r in Hn.
  unfold footer in Hn |- *. rewrite <- !app_assoc in Hn. rewrite <- !app_assoc.
  pose proof (be_bytes_length 8 (pkt_hash fnv1a p)) as L8.
  rewrite subst_at_app_l by lia. rewrite nth_error_app_l in Hn by lia.
  set (hv' := subst_at j b' (be_bytes 8 (pkt_hash fnv1a p))).
  rewrite <- !app_assoc. rewrite (app_assoc hv').
  assert (L8' : length hv' = 8%nat) by (unfold hv'; now rewrite subst_at_length).
  rewrite parse_one_frame.
  - apply assemble_bad. rewrite firstn_app_len by assumption.
    intro E. apply (subst_at_neq j b b' (be_bytes 8 (pkt_hash fnv1a p))); auto.
    apply be_val_inj.
    + fold hv'. now rewrite L8.
    + apply subst_at_ok; auto using be_bytes_ok.
    + apply be_bytes_ok.
    + fold hv'. rewrite <- E. symmetry. apply be_val_be_bytes.
      change (256 ^ N.of_nat 8) with two64. apply fnv1a_lt.
  - exact L30.
  - now apply payload_len_header.
  - apply W.
  - rewrite app_length, be_bytes_length. lia.
  - rewrite ext_out_wf by assumption. unfold ext_len. rewrite skipn_app_len by assumption.
    rewrite be_val_be_bytes by (change (256 ^ N.of_nat 2) with 65536; now apply extinfo_lt).
    unfold extinfo. pose proof (wf_ext_len _ W). lia.
Qed.

Lemma corrupt_covered p post i b b' : wf p -> covered p i = true ->
  nth_error (encode fnv1a p) i = Some b -> b' < 256 -> b' <> b ->
  parse_one fnv1a (subst_at i b' (encode fnv1a p) ++ post) = RBad.
Proof.
  intros W C Hn Hb' Hne. unfold covered in C.
  apply orb_true_iff in C as [C|C].
  - apply Nat.ltb_lt in C. eapply corrupt_header; eauto.
  - apply andb_true_iff in C as [C1 C2]. apply Nat.leb_le in C1. apply Nat.ltb_lt in C2.
    destruct (Nat.lt_ge_cases i (30 + length (p_payload p))) as [L|L].
    + replace i with (30 + (i - 30))%nat in * by lia. eapply corrupt_payload; eauto. lia.
    + replace i with (30 + length (p_payload p) + (i - 30 - length (p_payload p)))%nat in * by lia.
      eapply corrupt_hash; eauto. lia.
Qed.

Lemma single_byte_detected pre p post i b b' :
  Forall wf pre -> wf p -> covered p i = true ->
  nth_error (encode fnv1a p) i = Some b -> b' < 256 -> b' <> b ->
  parse_stream fnv1a (concat (map (encode fnv1a) pre) ++ subst_at i b' (encode fnv1a p) ++ post)
  = (pre, StopBad).
Proof.
  intros Wpre W C Hn Hb' Hne.
  rewrite parse_stream_prefix by auto using fnv1a_lt.
  rewrite parse_stream_bad by (eapply corrupt_covered; eauto).
  cbn. now rewrite app_nil_r.
Qed.

(* ------------------------------------------------------------------ *)
(* what the hash does NOT protect: the extension bytes                 *)
(* ------------------------------------------------------------------ *)

Definition with_ext (p : packet) (e : bytes) : packet :=
  {| p_proto := p_proto p; p_sub := p_sub p; p_src := p_src p; p_dest := p_dest p;
     p_ttl := p_ttl p; p_payload := p_payload p; p_hint := p_hint p; p_ext := e |}.

Lemma ext_byte_undetected p j b' :
  wf p -> (j < length (p_ext p))%nat -> b' < 256 ->
  parse_stream fnv1a (subst_at (40 + length (p_payload p) + j) b' (encode fnv1a p))
  = ([with_ext p (subst_at j b' (p_ext p))], StopEOF).
Proof.
  intros W Hj Hb'.
  set (p' := with_ext p (subst_at j b' (p_ext p))).
  assert (W' : wf p').
  { destruct W. constructor; cbn; auto.
    - unfold lenN. now rewrite subst_at_length.
    - now apply subst_at_ok. }
  assert (E : subst_at (40 + length (p_payload p) + j) b' (encode fnv1a p) = encode fnv1a p').
  { unfold encode. rewrite !(ext_out_wf _ W), !(ext_out_wf _ W').
    change (header p') with (header p). change (p_payload p') with (p_payload p).
    replace (footer fnv1a p') with (footer fnv1a p)
      by (unfold footer, extinfo, pkt_hash, lenN; cbn; now rewrite subst_at_length).
    rewrite !app_assoc.
    replace (40 + length (p_payload p) + j)%nat
      with (length ((header p ++ p_payload p) ++ footer fnv1a p) + j)%nat
      by (rewrite !app_length, header_length, footer_length by assumption; lia).
    now rewrite subst_at_app_r. }
  rewrite E. rewrite <- (stream_roundtrip fnv1a fnv1a_lt [p']) by (constructor; auto).
  cbn [map concat]. now rewrite app_nil_r.
Qed.

(* ------------------------------------------------------------------ *)
(* the run file evaluates with the fast hash                           *)
(* ------------------------------------------------------------------ *)

Lemma encode_fast p : encode fnv1a_fast p = encode fnv1a p.
Proof. unfold encode, footer, pkt_hash. now rewrite fnv1a_fast_eq. Qed.

Lemma parse_one_fast s : parse_one fnv1a_fast s = parse_one fnv1a s.
Proof.
  unfold parse_one.
  destruct (take header_size s) as [[h s1]|]; [|reflexivity].
  destruct (max_payload <? payload_len h); [reflexivity|].
  destruct (take _ s1) as [[pl s2]|]; [|reflexivity].
  destruct (take footer_size s2) as [[f s3]|]; [|reflexivity].
  destruct (take _ s3) as [[ex s4]|]; [|reflexivity].
  unfold assemble. now rewrite fnv1a_fast_eq.
Qed.

Lemma parse_fuel_fast f : forall s, parse_fuel fnv1a_fast f s = parse_fuel fnv1a f s.
Proof.
  induction f as [|f IH]; intro s; [reflexivity|]. cbn [parse_fuel].
  rewrite parse_one_fast. destruct (parse_one fnv1a s); try reflexivity. now rewrite IH.
Qed.

Lemma parse_chunked_fast r : parse_chunked fnv1a_fast r = parse_chunked fnv1a r.
Proof.
  rewrite !chunking_irrelevant. apply parse_fuel_fast.
Qed.

Lemma chunked_roundtrip ps chunks : Forall wf ps ->
  concat chunks = concat (map (encode fnv1a) ps) -> parse_chunked fnv1a chunks = (ps, StopEOF).
Proof. intros W E. rewrite chunking_irrelevant, E. exact (stream_roundtrip fnv1a fnv1a_lt ps W). Qed.

(* ------------------------------------------------------------------ *)
(* non-vacuity                                                         *)
(* ------------------------------------------------------------------ *)

Definition ex_packet : packet :=
  {| p_proto := 768; p_sub := 1; p_src := [1;2;3;4;5;6;7;8;9;10;11;12;13;14;15;16;17;18;19;20];
     p_dest := 0; p_ttl := 0; p_payload := [104;101;108;108;111]; p_hint := 1; p_ext := [9;8;7;6] |}.
Definition ex_packet2 : packet :=
  {| p_proto := 1024; p_sub := 65535; p_src := repeat 255 20;
     p_dest := 255; p_ttl := 1; p_payload := []; p_hint := 0; p_ext := [] |}.

Example ex_wf : wf ex_packet /\ wf ex_packet2.
Proof. split; apply wf_packet_iff; vm_compute; reflexivity. Qed.

Example ex_roundtrip :
  parse_stream fnv1a (encode fnv1a ex_packet ++ encode fnv1a ex_packet2) = ([ex_packet; ex_packet2], StopEOF).
Proof. vm_compute. reflexivity. Qed.

(* a chunking with boundaries inside the header, the footer and an empty chunk *)
Example ex_chunked :
  let s := encode fnv1a ex_packet ++ encode fnv1a ex_packet2 in
  parse_chunked fnv1a [firstn 7 s; []; firstn 30 (skipn 7 s); firstn 1 (skipn 37 s); skipn 38 s]
  = ([ex_packet; ex_packet2], StopEOF).
Proof. vm_compute. reflexivity. Qed.

(* a covered position with a different in-range byte exists: flipping the ttl byte *)
Example ex_corruption_hyps :
  covered ex_packet 25 = true /\ nth_error (encode fnv1a ex_packet) 25 = Some 0 /\ 7 < 256 /\ 7 <> 0.
Proof. repeat split; try reflexivity; lia. Qed.

Example ex_corruption_detected :
  parse_stream fnv1a (encode fnv1a ex_packet2 ++ subst_at 25 7 (encode fnv1a ex_packet) ++ encode fnv1a ex_packet2)
  = ([ex_packet2], StopBad).
Proof. vm_compute. reflexivity. Qed.

(* the length field is hashed but a change of it moves the frame: here the reader
   runs into the end of the stream instead of reporting a hash error *)
Example ex_length_byte_not_classified :
  parse_stream fnv1a (subst_at 29 200 (encode fnv1a ex_packet)) = ([], StopEOF).
Proof. vm_compute. reflexivity. Qed.

(* ------------------------------------------------------------------ *)
(* extensions beyond the 10-bit length field (relay hops accumulate ids) *)
(* ------------------------------------------------------------------ *)

Lemma be_bytes_mod m : forall w, be_bytes m w = be_bytes m (w mod 256 ^ N.of_nat m).
Proof.
  induction m as [|m IHm]; intro w; [reflexivity|].
  cbn [be_bytes]. rewrite Nat2N.inj_succ, N.pow_succ_r'.
  replace (2 ^ (8 * N.of_nat m)) with (256 ^ N.of_nat m)
    by (change 256 with (2 ^ 8); now rewrite <- N.pow_mul_r).
  set (Q := 256 ^ N.of_nat m).
  assert (HQ : 0 < Q) by (apply N.neq_0_lt_0, N.pow_nonzero; lia).
  f_equal.
  - rewrite (N.mul_comm 256 Q), N.mod_mul_r by lia.
    rewrite (N.mul_comm Q), N.div_add by lia.
    rewrite (N.div_small (w mod Q)) by (apply N.mod_lt; lia).
    cbn [N.add]. now rewrite N.mod_mod by lia.
  - rewrite (IHm w), (IHm (w mod (256 * Q))). f_equal.
    rewrite (N.mul_comm 256 Q), N.mod_mul_r by lia.
    rewrite (N.mul_comm Q), N.mod_add by lia. now rewrite N.mod_mod by lia.
Qed.

(* what WriteTo puts on the wire for a packet whose extension / hint exceed their fields:
   the packet with the extension cut to len mod 1024 bytes and the hint mod 64 *)
Definition norm_ext (p : packet) : packet :=
  {| p_proto := p_proto p; p_sub := p_sub p; p_src := p_src p; p_dest := p_dest p;
     p_ttl := p_ttl p; p_payload := p_payload p; p_hint := p_hint p mod 64; p_ext := ext_out p |}.

Lemma ext_out_length p : lenN (ext_out p) = lenN (p_ext p) mod 1024.
Proof.
  unfold ext_out, lenN. rewrite firstn_length.
  assert (N.of_nat (length (p_ext p)) mod 1024 <= N.of_nat (length (p_ext p))) by (apply N.mod_le; lia).
  lia.
Qed.

Lemma encode_norm_ext H p : encode H p = encode H (norm_ext p).
Proof.
  unfold encode, footer, pkt_hash. change (header (norm_ext p)) with (header p).
  change (p_payload (norm_ext p)) with (p_payload p). f_equal. f_equal. f_equal.
  - f_equal. rewrite (be_bytes_mod 2 (extinfo p)), (be_bytes_mod 2 (extinfo (norm_ext p))). f_equal.
    unfold extinfo. cbn [p_hint p_ext norm_ext]. rewrite ext_out_length.
    change (256 ^ N.of_nat 2) with 65536.
    pose proof (N.mod_lt (lenN (p_ext p)) 1024 ltac:(lia)).
    rewrite (N.mod_small (lenN (p_ext p) mod 1024) 1024) by lia. lia.
  - unfold ext_out at 2. cbn [p_ext norm_ext]. rewrite ext_out_length.
    rewrite N.mod_mod by lia. rewrite <- ext_out_length. unfold lenN. rewrite Nat2N.id.
    symmetry. apply firstn_all.
Qed.

(* framing stays intact whatever the size of the accumulated extension: the reader gets the
   cut packet and the rest of the stream is untouched *)
Lemma oversize_ext_frame H (H_lt : forall x, H x < two64) p rest :
  wf (norm_ext p) -> parse_one H (encode H p ++ rest) = ROk (norm_ext p) rest.
Proof. intro W. rewrite encode_norm_ext. now apply parse_one_encode. Qed.

Lemma oversize_ext_stream pre p post :
  Forall wf pre -> wf (norm_ext p) -> Forall wf post ->
  parse_stream fnv1a (concat (map (encode fnv1a) pre) ++ encode fnv1a p ++ concat (map (encode fnv1a) post))
  = (pre ++ norm_ext p :: post, StopEOF).
Proof.
  intros Wpre W Wpost.
  rewrite parse_stream_prefix by auto using fnv1a_lt.
  rewrite (parse_stream_step fnv1a _ (norm_ext p) (concat (map (encode fnv1a) post)))
    by (apply oversize_ext_frame; auto using fnv1a_lt).
  rewrite (stream_roundtrip fnv1a fnv1a_lt post Wpost). reflexivity.
Qed.
