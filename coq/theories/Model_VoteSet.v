(* Model_VoteSet.v — consensus/voteset.go: type voteSet with add,
   hasOverTwoThirds, getOverTwoThirdsRoundDecisionDigest / getOverTwoThirdsPartSetID,
   newVoteSet.  No proofs here (Proofs_VoteSet.v).

   A vote message is reduced to what voteSet reads:
     v_dec     abstract id of the round decision (BlockID, BlockPartSetIDAndNTSVoteCount,
               NTSVoteBases): two votes have the same id iff RoundDecisionDigest()
               returns the same bytes.  Id 0 is the nil vote (BlockPartSetIDAndNTSVoteCount
               is the nil pointer, so the part-set id handed out for it is nil).
     v_ts      Timestamp
     v_height, v_round, v_type   the fields compared by voteBase.Equal.
   Signatures are never looked at by voteSet. *)
From Goloop Require Import lib.Bytes.
Open Scope Z_scope.

Record vote := mkVote { v_dec : N; v_ts : Z; v_height : Z; v_round : Z; v_type : N }.

(* VoteMessage.EqualExceptSigs = voteBase.Equal && Timestamp equal *)
Definition vote_eqb (a b : vote) : bool :=
  (v_height a =? v_height b) && (v_round a =? v_round b) && (v_type a =? v_type b)%N
  && (v_dec a =? v_dec b)%N && (v_ts a =? v_ts b).

(* type counter: roundDecisionDigest (and the part-set id, a function of it), count *)
Record counter := mkCounter { c_dec : N; c_count : Z }.

Record voteset := mkVS {
  vs_msgs : list (option vote);      (* msgs []*VoteMessage, one slot per validator *)
  vs_max_index : Z;                  (* maxIndex: -1 = cache empty *)
  vs_round : Z;                      (* round *)
  vs_counters : list counter;        (* counters *)
  vs_count : Z                       (* count *)
}.

(* newVoteSet *)
Definition init (n : nat) : voteset :=
  {| vs_msgs := repeat None n; vs_max_index := -1; vs_round := -1;
     vs_counters := []; vs_count := 0 |}.

Definition nvals (s : voteset) : Z := Z.of_nat (length (vs_msgs s)).

(* The threshold test, literally the Go expression  c > n*2/3  (Go's / on int
   truncates: Z.quot).  Kept separate so that the generated kernel can replace it. *)
Definition over23 (c n : Z) : bool := c >? Z.quot (n * 2) 3.

(* hasOverTwoThirds: vs.count > len(vs.msgs)*2/3 *)
Definition has_over23 (s : voteset) : bool := over23 (vs_count s) (nvals s).

(* slice indexing with a Go int index: None = index out of range (panic) *)
Definition nth_z {A} (l : list A) (i : Z) : option A :=
  if i <? 0 then None else nth_error l (Z.to_nat i).

Fixpoint set_nth {A} (i : nat) (x : A) (l : list A) : list A :=
  match l, i with
  | [], _ => []
  | _ :: r, O => x :: r
  | y :: r, S k => y :: set_nth k x r
  end.

(* the scan of getOverTwoThirdsRoundDecisionDigest:
     for i, c := range vs.counters { if c.count > max { vs.maxIndex = i; max = c.count } } *)
Fixpoint scan (cs : list counter) (i : Z) (mi mx : Z) : Z * Z :=
  match cs with
  | [] => (mi, mx)
  | c :: r => if c_count c >? mx then scan r (i + 1) i (c_count c) else scan r (i + 1) mi mx
  end.

(* getOverTwoThirdsRoundDecisionDigest.  Result None = the Go code would panic
   (index out of range); Some (s', r): s' is the vote set afterwards (the cache
   field may have been filled), r = Some d when (digest of d, part-set id of d,
   true) is returned, r = None for (nil, nil, false). *)
Definition query (s : voteset) : option (voteset * option N) :=
  let mm :=
    if vs_max_index s <? 0 then Some (scan (vs_counters s) 0 (vs_max_index s) 0)
    else match nth_z (vs_counters s) (vs_max_index s) with
         | Some c => Some (vs_max_index s, c_count c)
         | None => None
         end in
  match mm with
  | None => None
  | Some (mi, mx) =>
      let s' := {| vs_msgs := vs_msgs s; vs_max_index := mi; vs_round := vs_round s;
                   vs_counters := vs_counters s; vs_count := vs_count s |} in
      if over23 mx (nvals s) then
        match nth_z (vs_counters s) mi with
        | Some c => Some (s', Some (c_dec c))
        | None => None
        end
      else Some (s', None)
  end.

(* what a caller sees *)
Definition over23_decision (s : voteset) : option (option N) := option_map snd (query s).

(* getOverTwoThirdsPartSetID: the part-set id is nil for the nil vote.
   Some (psid, ok) with psid = None for nil. *)
Definition psid_of (d : N) : option N := if (d =? 0)%N then None else Some d.
Definition over23_psid (s : voteset) : option (option N * bool) :=
  match over23_decision s with
  | None => None
  | Some None => Some (None, false)
  | Some (Some d) => Some (psid_of d, true)
  end.

(* first index whose counter carries digest d *)
Fixpoint find_idx (cs : list counter) (d : N) : option nat :=
  match cs with
  | [] => None
  | c :: r => if (c_dec c =? d)%N then Some O else option_map S (find_idx r d)
  end.

(* vs.counters[i] = vs.counters[last]; vs.counters = vs.counters[:last] *)
Definition swap_remove (cs : list counter) (i : nat) : list counter :=
  match rev cs with
  | [] => cs
  | l :: _ => removelast (set_nth i l cs)
  end.

(* the first loop of add (old vote's counter is decremented, removed at zero) *)
Definition dec_counter (cs : list counter) (d : N) : list counter :=
  match find_idx cs d with
  | None => cs
  | Some i =>
      match nth_error cs i with
      | None => cs
      | Some c =>
          let k := c_count c - 1 in
          if k =? 0 then swap_remove cs i
          else set_nth i {| c_dec := c_dec c; c_count := k |} cs
      end
  end.

(* the second loop of add (new vote's counter is incremented or appended) *)
Definition inc_counter (cs : list counter) (d : N) : list counter :=
  match find_idx cs d with
  | Some i =>
      match nth_error cs i with
      | None => cs
      | Some c => set_nth i {| c_dec := c_dec c; c_count := c_count c + 1 |} cs
      end
  | None => cs ++ [{| c_dec := d; c_count := 1 |}]
  end.

(* tail of add, from  vs.msgs[index] = v *)
Definition store (s : voteset) (index : nat) (v : vote) : voteset :=
  {| vs_msgs := set_nth index (Some v) (vs_msgs s);
     vs_max_index := -1;
     vs_round := v_round v;
     vs_counters := inc_counter (vs_counters s) (v_dec v);
     vs_count := vs_count s + 1 |}.

(* voteSet.add.  None = panic (index out of range). *)
Definition add (s : voteset) (index : nat) (v : vote) : option (voteset * bool) :=
  match nth_error (vs_msgs s) index with
  | None => None
  | Some None => Some (store s index v, true)
  | Some (Some o) =>
      if vote_eqb o v then Some (s, false)
      else
        match query s with
        | None => None
        | Some (s1, r) =>
            (* ok && rdd != nil && bytes.Equal(rdd, omsg.RoundDecisionDigest());
               a digest is a SHA3 sum, never nil *)
            if match r with Some rdd => (rdd =? v_dec o)%N | None => false end
            then Some (s1, false)
            else
              let s2 := {| vs_msgs := vs_msgs s1; vs_max_index := vs_max_index s1;
                           vs_round := vs_round s1;
                           vs_counters := dec_counter (vs_counters s1) (v_dec o);
                           vs_count := vs_count s1 - 1 |} in
              Some (store s2 index v, true)
        end
  end.

(* ---- histories ---- *)
Inductive op := OAdd (i : nat) (v : vote) | OQuery.

Definition step (os : option voteset) (o : op) : option voteset :=
  match os with
  | None => None
  | Some s =>
      match o with
      | OAdd i v => option_map fst (add s i v)
      | OQuery => option_map fst (query s)
      end
  end.

Definition run_from (s : voteset) (ops : list op) : option voteset := fold_left step ops (Some s).
Definition run (n : nat) (ops : list op) : option voteset := run_from (init n) ops.

(* ---- the independent recount (specification side) ---- *)
Definition holds (d : N) (m : option vote) : bool :=
  match m with Some v => (v_dec v =? d)%N | None => false end.
Definition occupied_slot (m : option vote) : bool :=
  match m with Some _ => true | None => false end.

Definition votes_for (s : voteset) (d : N) : Z := Z.of_nat (length (filter (holds d) (vs_msgs s))).
Definition occupied (s : voteset) : Z := Z.of_nat (length (filter occupied_slot (vs_msgs s))).

(* the count the code keeps for d: first counter with that digest, 0 if none *)
Fixpoint counter_of (cs : list counter) (d : N) : Z :=
  match cs with
  | [] => 0
  | c :: r => if (c_dec c =? d)%N then c_count c else counter_of r d
  end.
