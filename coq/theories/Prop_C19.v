(* Property C19 — Layered database writes are all-or-nothing.
   Only the property theorems; proofs are in Proofs_LayerDb.v.
   Histories h are arbitrary lists of op: set/delete/get/has through the layer, in any
   buckets, interleaved with flushes and with direct reads/writes of the underlying store;
   b0 is an arbitrary initial content of the underlying store. *)
From Goloop Require Import lib.Bytes Model_LayerDb Proofs_LayerDb.
From Coq Require Import Permutation.

(* refinement: every result of every operation equals the result of the two-map specification *)
Theorem C19_view_is_spec : forall b0 h,
  outs_of (init b0) h = snd (spec_run (spec_init (st_get b0)) h).
Proof. exact view_is_spec. Qed.
Print Assumptions C19_view_is_spec.

(* Flush(true): the underlying store becomes the layered view, key by key, and the view does not change *)
Theorem C19_commit : forall b0 h, let s := state_of (init b0) h in
  let s' := fst (step s (OFlush true)) in
  snd (step s (OFlush true)) = RUnit /\ flushed s' = true /\
  (forall k, st_get (base s') k = view s k) /\ (forall k, view s' k = view s k).
Proof. exact commit. Qed.
Print Assumptions C19_commit.

(* Flush(false): the underlying store is untouched; the layer is empty afterwards
   (in direct mode the call is refused and nothing changes) *)
Theorem C19_discard : forall b0 h, let s := state_of (init b0) h in
  let s' := fst (step s (OFlush false)) in
  base s' = base s /\
  (flushed s = false -> snd (step s (OFlush false)) = RUnit /\ forall k, view s' k = st_get (base s) k) /\
  (flushed s = true -> snd (step s (OFlush false)) = RErr /\ s' = s).
Proof. exact discard. Qed.
Print Assumptions C19_discard.

Theorem C19_reads_do_not_write : forall s o, is_read o = true -> fst (step s o) = s.
Proof. exact reads_do_not_write. Qed.
Print Assumptions C19_reads_do_not_write.

Theorem C19_layered_writes_keep_base : forall s o, flushed s = false ->
  match o with OSet _ _ _ | ODel _ _ => True | _ => False end -> base (fst (step s o)) = base s.
Proof. exact layered_writes_keep_base. Qed.
Print Assumptions C19_layered_writes_keep_base.

(* after Flush(true) the layer is a pass-through: writes land in the underlying store at once *)
Theorem C19_after_flush_passthrough : forall b0 h b k v, let s := state_of (init b0) h in flushed s = true ->
  items s = [] /\
  (forall k', view s k' = st_get (base s) k') /\
  (let s1 := fst (step s (OSet b k v)) in
     flushed s1 = true /\ st_get (base s1) (b, k) = Some (copyval v) /\
     forall k', k' <> (b, k) -> st_get (base s1) k' = st_get (base s) k') /\
  (let s2 := fst (step s (ODel b k)) in
     flushed s2 = true /\ st_get (base s2) (b, k) = None /\
     forall k', k' <> (b, k) -> st_get (base s2) k' = st_get (base s) k') /\
  fst (step s (OFlush true)) = s /\ fst (step s (OFlush false)) = s.
Proof. exact after_flush_passthrough. Qed.
Print Assumptions C19_after_flush_passthrough.

(* the order in which Flush(true) replays the (pairwise distinct) entries is immaterial *)
Theorem C19_replay_order : forall l l' s k, Permutation l l' -> NoDup (keys l) ->
  st_get (replay l s) k = st_get (replay l' s) k.
Proof. exact replay_order. Qed.
Print Assumptions C19_replay_order.
