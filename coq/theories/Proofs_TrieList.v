(* Proofs_TrieList.v — iteration: exactly the stored pairs, in strictly ascending
   nibble-lexicographic key order; Filter = the entries under the prefix. *)
From Coq Require Import Sorting.Sorted.
From Goloop Require Import lib.Bytes Model_RlpBytes Model_Trie Proofs_Trie Proofs_TrieMap.
From Coq Require Import ZifyBool ZifyN ZifyNat.
Open Scope N_scope.

Fixpoint lex_lt (a b : nibs) : Prop :=
  match a, b with
  | _, [] => False
  | [], _ :: _ => True
  | x :: a', y :: b' => x < y \/ (x = y /\ lex_lt a' b')
  end.

Lemma lex_lt_irrefl a : ~ lex_lt a a.
Proof. induction a; cbn; [tauto|]. intros [H|[_ H]]; [lia|auto]. Qed.

Lemma lex_lt_trans a b c : lex_lt a b -> lex_lt b c -> lex_lt a c.
Proof.
  revert b c; induction a as [|x a IH]; intros [|y b] [|z c]; cbn; try tauto.
  intros [H1|[E1 H1]] [H2|[E2 H2]]; subst; try (left; lia).
  right. split; [reflexivity|]. eapply IH; eauto.
Qed.

Lemma lex_lt_app p a b : lex_lt (p ++ a) (p ++ b) <-> lex_lt a b.
Proof.
  induction p as [|x p IH]; cbn; [tauto|]. split.
  - intros [H|[_ H]]; [lia|]. now apply IH.
  - intros H. right. split; [reflexivity|]. now apply IH.
Qed.

Lemma lex_lt_total a b : lex_lt a b \/ a = b \/ lex_lt b a.
Proof.
  revert b; induction a as [|x a IH]; intros [|y b]; cbn; try tauto.
  destruct (N.lt_trichotomy x y) as [H|[H|H]]; try tauto.
  subst. destruct (IH b) as [H|[H|H]]; try tauto. subst. tauto.
Qed.

(* ---------- the shape of to_list on a branch ---------- *)

Fixpoint tl_go (l : list node) (i : N) : list (nibs * bytes) :=
  match l with
  | [] => []
  | c :: t => addp [i] (to_list c) ++ tl_go t (i + 1)
  end.

Lemma to_list_branch cs bv : to_list (Branch cs bv) = optl [] bv ++ tl_go cs 0.
Proof. reflexivity. Qed.

Lemma in_addp p l k v : In (k, v) (addp p l) <-> exists r, k = p ++ r /\ In (r, v) l.
Proof.
  unfold addp. rewrite in_map_iff. split.
  - intros [[r v'] [E H]]. cbn in E. inversion E; subst. eauto.
  - intros [r [-> H]]. exists (r, v). auto.
Qed.

Lemma in_tl_go l : forall i0 k v,
  In (k, v) (tl_go l i0) <->
  exists i r, k = i :: r /\ i0 <= i /\ In (r, v) (to_list (child l (i - i0))).
Proof.
  induction l as [|c t IH]; intros i0 k v; cbn [tl_go].
  - split; [intros []|]. intros (i & r & _ & _ & H). exact H.
  - rewrite in_app_iff, in_addp, IH. split.
    + intros [(r & -> & H)|(i & r & -> & L & H)].
      * exists i0, r. repeat split; [lia|]. rewrite N.sub_diag. exact H.
      * exists i, r. repeat split; [lia|]. rewrite child_cons.
        destruct (i - i0 =? 0) eqn:F; [apply N.eqb_eq in F; lia|].
        replace (i - i0 - 1) with (i - (i0 + 1)) by lia. exact H.
    + intros (i & r & -> & L & H). rewrite child_cons in H.
      destruct (i - i0 =? 0) eqn:F.
      * apply N.eqb_eq in F. left. exists r. split; [|exact H]. cbn. f_equal. lia.
      * apply N.eqb_neq in F. right. exists i, r. repeat split; [lia|].
        replace (i - (i0 + 1)) with (i - i0 - 1) by lia. exact H.
Qed.

Theorem to_list_complete n : forall k v, In (k, v) (to_list n) <-> get n k = Some v.
Proof.
  induction n as [ | ks v0 | ks n' IH | cs bv IH] using node_ind'; intros k v.
  - cbn. split; [tauto|discriminate].
  - cbn [to_list In]. rewrite get_leaf. split.
    + intros [E|[]]. inversion E; subst. now rewrite bytes_eqb_refl.
    + destruct (bytes_eqb k ks) eqn:E; [|discriminate]. apply nibs_eqb_eq in E.
      intros H. inversion H; subst. now left.
  - cbn [to_list]. rewrite in_addp, get_ext. split.
    + intros (r & -> & H). rewrite strip_app. now apply IH.
    + destruct (strip ks k) as [r|] eqn:S; [|discriminate].
      intros H. exists r. split; [now apply strip_some|now apply IH].
  - rewrite to_list_branch, in_app_iff, in_tl_go. split.
    + intros [H|(i & r & -> & _ & H)].
      * destruct bv; cbn in H; [|tauto]. destruct H as [E|[]]. inversion E; subst. reflexivity.
      * rewrite N.sub_0_r in H. rewrite get_branch.
        destruct (Nat.lt_ge_cases (N.to_nat i) (length cs)) as [L|L].
        -- rewrite Forall_forall in IH. apply IH; [now apply child_in|exact H].
        -- rewrite child_out in H by lia. destruct H.
    + destruct k as [|i r].
      * cbn [get]. intros ->. left. cbn. now left.
      * rewrite get_branch. intros H. right. exists i, r. repeat split; [lia|].
        rewrite N.sub_0_r.
        destruct (Nat.lt_ge_cases (N.to_nat i) (length cs)) as [L|L].
        -- rewrite Forall_forall in IH. apply IH; [now apply child_in|exact H].
        -- rewrite child_out in H by lia. discriminate.
Qed.

(* ---------- order ---------- *)

Definition keys (n : node) : list nibs := map fst (to_list n).

Lemma map_fst_addp p l : map fst (addp p l) = map (app p) (map fst l).
Proof. unfold addp. rewrite !map_map. reflexivity. Qed.

Lemma sorted_map_app p l :
  StronglySorted lex_lt l -> StronglySorted lex_lt (map (app p) l).
Proof.
  induction 1 as [|a l S IH F]; cbn; constructor; [exact IH|].
  rewrite Forall_forall in *. intros x Hx. apply in_map_iff in Hx as [y [<- Hy]].
  apply lex_lt_app. now apply F.
Qed.

Lemma sorted_app l1 l2 :
  StronglySorted lex_lt l1 -> StronglySorted lex_lt l2 ->
  (forall a b, In a l1 -> In b l2 -> lex_lt a b) ->
  StronglySorted lex_lt (l1 ++ l2).
Proof.
  induction 1 as [|a l S IH F]; intros S2 H; cbn; [exact S2|].
  constructor.
  - apply IH; [exact S2|]. intros x y Hx Hy. apply H; [now right|exact Hy].
  - apply Forall_app. split; [exact F|]. apply Forall_forall. intros y Hy. apply H; [now left|exact Hy].
Qed.

Lemma keys_tl_go_head l : forall i0 k, In k (map fst (tl_go l i0)) -> exists i r, k = i :: r /\ i0 <= i.
Proof.
  intros i0 k H. apply in_map_iff in H as [[k' v] [E H]]. cbn in E. subst k'.
  apply in_tl_go in H as (i & r & -> & L & _). eauto.
Qed.

Theorem to_list_sorted n : StronglySorted lex_lt (keys n).
Proof.
  unfold keys.
  induction n as [ | ks v0 | ks n' IH | cs bv IH] using node_ind'.
  - constructor.
  - cbn. repeat constructor.
  - cbn [to_list]. rewrite map_fst_addp. now apply sorted_map_app.
  - rewrite to_list_branch, map_app. apply sorted_app.
    + destruct bv; cbn; repeat constructor.
    + generalize 0 as i0. induction cs as [|c t IHt]; intros i0; cbn [tl_go].
      * constructor.
      * inversion IH; subst. rewrite map_app. apply sorted_app.
        -- rewrite map_fst_addp. now apply sorted_map_app.
        -- now apply IHt.
        -- intros a b Ha Hb. rewrite map_fst_addp in Ha.
           apply in_map_iff in Ha as [ra [<- _]].
           apply keys_tl_go_head in Hb as (i & r & -> & L). cbn. left. lia.
    + intros a b Ha Hb. destruct bv; cbn in Ha; [|tauto]. destruct Ha as [<-|[]].
      apply keys_tl_go_head in Hb as (i & r & -> & _). exact I.
Qed.

(* two strictly sorted lists with the same members are equal *)
Lemma sorted_unique (l1 l2 : list nibs) :
  StronglySorted lex_lt l1 -> StronglySorted lex_lt l2 ->
  (forall x, In x l1 <-> In x l2) -> l1 = l2.
Proof.
  revert l2. induction l1 as [|a l1 IH]; intros l2 S1 S2 H.
  - destruct l2 as [|b l2]; [reflexivity|]. exfalso. apply (H b). now left.
  - destruct l2 as [|b l2]; [exfalso; apply (H a); now left|].
    inversion S1 as [|? ? S1' F1]; inversion S2 as [|? ? S2' F2]; subst.
    rewrite Forall_forall in F1, F2.
    assert (a = b).
    { destruct (proj1 (H a) (or_introl eq_refl)) as [E|Ha]; [auto|].
      destruct (proj2 (H b) (or_introl eq_refl)) as [E|Hb]; [auto|].
      exfalso. apply (lex_lt_irrefl a). eapply lex_lt_trans; [apply F1, Hb|apply F2, Ha]. }
    subst b. f_equal. apply IH; auto.
    intros x. split; intros Hx.
    + destruct (proj1 (H x) (or_intror Hx)) as [E|Hx']; [|exact Hx'].
      subst x. exfalso. apply (lex_lt_irrefl a). now apply F1.
    + destruct (proj2 (H x) (or_intror Hx)) as [E|Hx']; [|exact Hx'].
      subst x. exfalso. apply (lex_lt_irrefl a). now apply F2.
Qed.

(* ---------- Filter ---------- *)

Definition under (p : nibs) (kv : nibs * bytes) : bool := is_prefix p (fst kv).

Lemma is_prefix_nil k : is_prefix [] k = true.
Proof. destruct k; reflexivity. Qed.

Lemma is_prefix_app a p k : is_prefix (a ++ p) (a ++ k) = is_prefix p k.
Proof. induction a; cbn; [reflexivity|]. now rewrite N.eqb_refl. Qed.

Lemma is_prefix_app_r p r : is_prefix p (p ++ r) = true.
Proof. rewrite <- (app_nil_r p) at 1. rewrite is_prefix_app. apply is_prefix_nil. Qed.

Lemma is_prefix_long p x r : is_prefix (p ++ x :: r) p = false.
Proof. induction p; cbn; [reflexivity|]. now rewrite N.eqb_refl. Qed.

Lemma filter_all {A} (f : A -> bool) l : (forall x, In x l -> f x = true) -> List.filter f l = l.
Proof.
  induction l as [|a l IH]; intros H; cbn; [reflexivity|].
  rewrite H by now left. f_equal. apply IH. intros x Hx. apply H. now right.
Qed.

Lemma filter_none {A} (f : A -> bool) l : (forall x, In x l -> f x = false) -> List.filter f l = [].
Proof.
  induction l as [|a l IH]; intros H; cbn; [reflexivity|].
  rewrite H by now left. apply IH. intros x Hx. apply H. now right.
Qed.

Lemma filter_addp a p l :
  List.filter (under (a ++ p)) (addp a l) = addp a (List.filter (under p) l).
Proof.
  induction l as [|[k v] l IH]; [reflexivity|].
  unfold addp in *. cbn [map List.filter fst snd].
  assert (E : under (a ++ p) (a ++ k, v) = under p (k, v))
    by (unfold under; cbn [fst]; apply is_prefix_app).
  rewrite E. destruct (under p (k, v)); cbn [map fst snd]; rewrite IH; reflexivity.
Qed.

Lemma filter_branch_go cs i r :
  (fix go (l : list node) (j : N) : list (nibs * bytes) :=
     match l with
     | [] => []
     | c :: t => if j =? 0 then filter c r else go t (j - 1)
     end) cs i = filter (child cs i) r.
Proof.
  revert i. induction cs as [|c t IH]; intros i; cbn [child].
  - destruct r; reflexivity.
  - destruct (i =? 0); [reflexivity|apply IH].
Qed.

Lemma filter_nil n : filter n [] = to_list n.
Proof. destruct n; reflexivity. Qed.

Lemma filter_tl_go i r l : forall i0,
  List.filter (under (i :: r)) (tl_go l i0) =
  if i0 <=? i then addp [i] (List.filter (under r) (to_list (child l (i - i0)))) else [].
Proof.
  induction l as [|c t IH]; intros i0; cbn [tl_go].
  - cbn. destruct (i0 <=? i); reflexivity.
  - rewrite filter_app, IH, child_cons.
    destruct (i0 <=? i) eqn:L.
    + destruct (i - i0 =? 0) eqn:F.
      * apply N.eqb_eq in F. assert (i0 = i) by lia. subst i0.
        replace (i + 1 <=? i) with false by lia. rewrite app_nil_r.
        apply (filter_addp [i] r).
      * apply N.eqb_neq in F. replace (i0 + 1 <=? i) with true by lia.
        replace (i - (i0 + 1)) with (i - i0 - 1) by lia.
        rewrite filter_none; [reflexivity|].
        intros [k v] H. apply in_addp in H as (r' & -> & _). unfold under. cbn.
        replace (i =? i0) with false by lia. reflexivity.
    + replace (i0 + 1 <=? i) with false by lia. rewrite app_nil_r.
      apply filter_none. intros [k v] H. apply in_addp in H as (r' & -> & _). unfold under. cbn.
      replace (i =? i0) with false by lia. reflexivity.
Qed.

Theorem filter_spec n : forall p, filter n p = List.filter (under p) (to_list n).
Proof.
  induction n as [ | ks v0 | ks n' IH | cs bv IH] using node_ind'; intros p.
  - destruct p; reflexivity.
  - destruct p as [|i r]; [cbn; reflexivity|]. cbn [filter to_list List.filter]. unfold under. cbn [fst].
    destruct (is_prefix (i :: r) ks); reflexivity.
  - destruct p as [|i r].
    + rewrite filter_nil. symmetry. apply filter_all. intros x _. apply is_prefix_nil.
    + cbn [filter to_list]. destruct (cp (i :: r) ks) as [[c rp] rks] eqn:E.
      destruct (cp_spec _ _ _ _ _ E) as (Ep & -> & Hd). rewrite Ep.
      destruct rp as [|x rp].
      * symmetry. apply filter_all. intros [k v] H. apply in_addp in H as (r' & -> & _).
        unfold under. cbn [fst]. rewrite app_nil_r, <- app_assoc. apply is_prefix_app_r.
      * destruct rks as [|y rks].
        -- rewrite app_nil_r. rewrite IH. symmetry. apply filter_addp.
        -- symmetry. apply filter_none. intros [k v] H. apply in_addp in H as (r' & -> & _).
           unfold under. cbn [fst]. rewrite <- app_assoc, is_prefix_app. cbn.
           cbn in Hd. replace (x =? y) with false by lia. reflexivity.
  - destruct p as [|i r].
    + rewrite filter_nil. symmetry. apply filter_all. intros x _. apply is_prefix_nil.
    + cbn [filter]. rewrite filter_branch_go, to_list_branch, filter_app, filter_tl_go.
      replace (0 <=? i) with true by lia. rewrite N.sub_0_r.
      rewrite filter_none.
      * cbn [app]. f_equal.
        destruct (Nat.lt_ge_cases (N.to_nat i) (length cs)) as [L|L].
        -- rewrite Forall_forall in IH. apply IH. now apply child_in.
        -- rewrite child_out by lia. destruct r; reflexivity.
      * intros [k v] H. destruct bv; cbn in H; [|tauto]. destruct H as [E|[]]. inversion E; subst. reflexivity.
Qed.
