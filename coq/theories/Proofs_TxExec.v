(* Proofs_TxExec.v — lemmas about Model_TxExec for properties C15 and C16.
   Style: stdlib, lia. *)
From Coq Require Import List NArith ZArith Bool Lia.
From Coq Require Import ZifyBool ZifyN.
From Goloop Require Import Model_TxExec.
Import ListNotations.
Open Scope Z_scope.

(* ------------------------------------------------------------------ maps *)

Lemma upd_same {A} (f : N -> A) a v : upd f a v a = v.
Proof. unfold upd. now rewrite N.eqb_refl. Qed.

Lemma upd_other {A} (f : N -> A) a v x : x <> a -> upd f a v x = f x.
Proof. unfold upd. intro H. destruct (N.eqb_spec x a); congruence. Qed.

Lemma sum_on_upd_notin U b a v : ~ In a U -> sum_on U (upd b a v) = sum_on U b.
Proof.
  induction U as [|x U IH]; cbn; intro H; [reflexivity|].
  rewrite upd_other by (intro; subst; apply H; now left).
  rewrite IH; [reflexivity|]. intro; apply H; now right.
Qed.

Lemma sum_on_upd_in U b a v : NoDup U -> In a U -> sum_on U (upd b a v) = sum_on U b - b a + v.
Proof.
  induction U as [|x U IH]; cbn; intros ND Hin; [contradiction|].
  inversion ND as [|? ? Hx ND']; subst.
  destruct Hin as [->|Hin].
  - rewrite upd_same, sum_on_upd_notin by assumption. lia.
  - rewrite upd_other by (intro; subst; contradiction).
    rewrite IH by assumption. lia.
Qed.

Lemma sum_on_ext U b c : (forall a, In a U -> b a = c a) -> sum_on U b = sum_on U c.
Proof.
  induction U as [|x U IH]; cbn; intro H; [reflexivity|].
  rewrite H by now left. rewrite IH; [reflexivity|]. intros; apply H; now right.
Qed.

(* ------------------------------------------------------------------ frames *)

Lemma ok_true st : ok st = true <-> st = 0%N.
Proof. unfold ok. apply N.eqb_eq. Qed.
Lemma ok_false st : ok st = false <-> st <> 0%N.
Proof. unfold ok. apply N.eqb_neq. Qed.

Lemma deduct_snap f n : f_snap (snd (deduct f n)) = f_snap f.
Proof. unfold deduct. destruct (_ <? _); reflexivity. Qed.
Lemma deduct_logs f n : f_logs (snd (deduct f n)) = f_logs f.
Proof. unfold deduct. destruct (_ <? _); reflexivity. Qed.
Lemma deduct_btp f n : f_btp (snd (deduct f n)) = f_btp f.
Proof. unfold deduct. destruct (_ <? _); reflexivity. Qed.
Lemma deduct_limit f n : f_limit (snd (deduct f n)) = f_limit f.
Proof. unfold deduct. destruct (_ <? _); reflexivity. Qed.

Definition fr_ok (f : frame) : Prop := 0 <= f_used f <= f_limit f.

Lemma deduct_fr_ok f n : fr_ok f -> 0 <= n -> fr_ok (snd (deduct f n)).
Proof. unfold fr_ok, deduct. intros H Hn. destruct (Z.ltb_spec (f_limit f) (f_used f + n)); cbn; lia. Qed.

Lemma deduct_true f n : fst (deduct f n) = true -> f_used (snd (deduct f n)) = f_used f + n.
Proof. unfold deduct. destruct (_ <? _); cbn; congruence. Qed.

Lemma pop_into_state st cur f par :
  fst (pop_into st cur f par) = if ok st then cur else f_snap f.
Proof. reflexivity. Qed.

Lemma pop_into_snap st cur f par : f_snap (snd (pop_into st cur f par)) = f_snap par.
Proof. unfold pop_into. cbn. rewrite deduct_snap. destruct (ok st); reflexivity. Qed.

Lemma pop_into_limit st cur f par : f_limit (snd (pop_into st cur f par)) = f_limit par.
Proof. unfold pop_into. cbn. rewrite deduct_limit. destruct (ok st); reflexivity. Qed.

Lemma pop_into_fr_ok st cur f par : fr_ok f -> fr_ok par -> fr_ok (snd (pop_into st cur f par)).
Proof.
  intros Hf Hp. unfold pop_into. cbn. apply deduct_fr_ok; [|apply Hf].
  destruct (ok st); exact Hp.
Qed.

(* a failed frame's own state is irrelevant: popFrame resets to the snapshot *)
Lemma leave_k_fail_indep cl async k stk st cur cur' f :
  st <> 0%N -> leave_k cl async k stk st cur' f = leave_k cl async k stk st cur f.
Proof.
  intro H. apply ok_false in H. unfold leave_k, pop_into.
  destruct (async && _)%bool; [reflexivity|]. destruct stk; rewrite H; reflexivity.
Qed.

(* ------------------------------------------------------------------ generic induction over a script *)

Section RunInd.
  Variable p : params.
  Variable async : bool.
  (* I: invariant of (current state, current frame, ancestor frames); Q: wanted of the result *)
  Variable I : wstate -> frame -> list frame -> Prop.
  Variable Q : N * wstate * frame -> Prop.
  (* which account ids / step amounts the instructions may use *)
  Variable allowed : N -> Prop.
  Variable okn : Z -> Prop.

  Definition op_allowed (o : op) : Prop := forall a, In a (op_ids o) -> allowed a.

  Hypothesis Hscript : allowed (p_script p).
  Hypothesis Hokn_max : forall n, okn (Z.max 0 n).
  Hypothesis Hokn_call : okn (p_ccall p).

  Hypothesis Hroot : forall st cur f, I cur f [] -> Q (st, (if ok st then cur else f_snap f), f).
  (* the cleanUpFrames(target) exit *)
  Hypothesis Hcleanup : forall cur f stk, I cur f stk -> Q (StTimeout, root_snap f stk, root_frame f stk).
  Hypothesis Hpop : forall st cur f par stk,
      I cur f (par :: stk) -> I (fst (pop_into st cur f par)) (snd (pop_into st cur f par)) stk.
  Hypothesis Hset : forall cur f stk a k v, I cur f stk -> I (set_sto cur a k v) f stk.
  Hypothesis Hvals : forall cur f stk l, I cur f stk -> I (set_vals cur l) f stk.
  Hypothesis Hmove : forall cur f stk a b amt,
      allowed a -> allowed b -> I cur f stk -> 0 <= amt -> amt <= bal cur a -> I (move cur a b amt) f stk.
  Hypothesis Hlog : forall cur f stk l, I cur f stk -> I cur (add_log f l) stk.
  Hypothesis Hbtp : forall cur f stk m, I cur f stk -> I cur (add_btp f m) stk.
  Hypothesis Hdeduct : forall cur f stk n, okn n -> I cur f stk -> I cur (snd (deduct f n)) stk.
  Hypothesis Hpush : forall cur f stk, I cur f stk -> I cur (new_frame cur (avail f)) (f :: stk).
  Lemma unwind_Q : forall stk cur f, I cur f stk -> Q (unwind cur f stk).
  Proof.
    induction stk as [|par stk IH]; intros cur f HI; cbn [unwind].
    - apply (Hroot 0%N). exact HI.
    - apply IH. apply Hpop. exact HI.
  Qed.

  Lemma leave_k_Q k stk st cur f :
    (forall cur f, I cur f (tl stk) -> Q (k cur f (tl stk))) ->
    I cur f stk -> Q (leave_k root_snap async k stk st cur f).
  Proof.
    intros Hk HI. unfold leave_k. destruct (async && _)%bool; [apply (Hcleanup cur); exact HI|].
    destruct stk as [|par stk]; cbn [tl] in *.
    - apply Hroot. exact HI.
    - apply Hk. apply Hpop. exact HI.
  Qed.

  Lemma run_Q : forall ops cur f stk,
      Forall op_allowed ops -> I cur f stk -> Q (run p async ops cur f stk).
  Proof.
    induction ops as [|o rest IH]; intros cur f stk Hall HI.
    - cbn [run_gen]. apply unwind_Q. exact HI.
    - inversion Hall as [|? ? Ho Hrest]; subst.
      assert (IHk : forall stk cur f, I cur f stk -> Q (run p async rest cur f stk))
        by (intros; apply IH; assumption).
      cbn [run_gen]. cbv zeta.
      destruct o as [a k v|a b amt|id|id|n| |t amt|st| |v|v].
      + apply IHk. apply Hset. exact HI.
      + destruct (Z.ltb_spec amt 0).
        { apply leave_k_Q; [intros; apply IHk; assumption|exact HI]. }
        destruct (Z.ltb_spec (bal cur a) amt).
        { apply leave_k_Q; [intros; apply IHk; assumption|exact HI]. }
        apply IHk. apply Hmove; try assumption; apply Ho; cbn; auto.
      + apply IHk. apply Hlog. exact HI.
      + apply IHk. apply Hbtp. exact HI.
      + destruct (fst (deduct f (Z.max 0 n))) eqn:E.
        * apply IHk. apply Hdeduct; [apply Hokn_max|exact HI].
        * apply leave_k_Q; [intros; apply IHk; assumption|].
          apply Hdeduct; [apply Hokn_max|exact HI].
      + destruct (fst (deduct (new_frame cur (avail f)) (p_ccall p))) eqn:E.
        * apply IHk. apply Hdeduct; [apply Hokn_call|]. apply Hpush. exact HI.
        * apply leave_k_Q; [intros; apply IHk; assumption|].
          apply Hdeduct; [apply Hokn_call|]. apply Hpush. exact HI.
      + destruct (contract_form p t) eqn:Ec; [apply IHk; exact HI|].
        unfold xfer_call.
        assert (Hc : I cur (snd (deduct (new_frame cur (avail f)) (p_ccall p))) (f :: stk))
          by (apply Hdeduct; [apply Hokn_call|apply Hpush; exact HI]).
        assert (Hk : forall cur0 f0, I cur0 f0 (tl (f :: stk)) -> Q (run p async rest cur0 f0 (tl (f :: stk))))
          by (intros; apply IHk; assumption).
        destruct (fst (deduct (new_frame cur (avail f)) (p_ccall p))) eqn:E; cbn [fst snd].
        * unfold do_transfer.
          destruct (Z.ltb_spec amt 0); cbn [fst snd]; [apply leave_k_Q; assumption|].
          destruct (Z.ltb_spec (bal cur (p_script p)) amt); cbn [fst snd]; [apply leave_k_Q; assumption|].
          destruct (negb _); cbn [fst snd].
          -- rewrite (leave_k_fail_indep _ _ _ _ _ cur) by discriminate. apply leave_k_Q; assumption.
          -- assert (Hm : I (move cur (p_script p) t amt)
                            (snd (deduct (new_frame cur (avail f)) (p_ccall p))) (f :: stk)).
             { apply Hmove; try assumption. apply Ho; cbn; auto. }
             apply leave_k_Q; [assumption|].
             destruct (0 <? amt); cbn; [apply Hlog|]; exact Hm.
        * apply leave_k_Q; assumption.
      + apply leave_k_Q; [intros; apply IHk; assumption|exact HI].
      + apply leave_k_Q; [intros; apply IHk; assumption|exact HI].
      + destruct (_ || _)%bool; apply IHk; [|apply Hvals]; exact HI.
      + destruct (_ && _)%bool; apply IHk; [apply Hvals|]; exact HI.
  Qed.
End RunInd.

(* ------------------------------------------------------------------ transfers *)

Lemma do_transfer_spec p s a b v :
  (fst (do_transfer p s a b v) = 0%N /\ 0 <= v <= bal s a /\ snd (do_transfer p s a b v) = move s a b v)
  \/ fst (do_transfer p s a b v) <> 0%N.
Proof.
  unfold do_transfer.
  destruct (Z.ltb_spec v 0); [right; discriminate|].
  destruct (Z.ltb_spec (bal s a) v); [right; discriminate|].
  destruct (negb _); [right; discriminate|].
  left. cbn. repeat split; lia.
Qed.

Lemma bal_move_other s a b amt x : x <> a -> x <> b -> bal (move s a b amt) x = bal s x.
Proof. intros. unfold move, set_bal. cbn. now rewrite !upd_other. Qed.

Lemma bal_move_self s a amt : bal (move s a a amt) a = bal s a.
Proof. unfold move, set_bal. cbn. rewrite !upd_same. lia. Qed.

Lemma bal_move_from s a b amt : a <> b -> bal (move s a b amt) a = bal s a - amt.
Proof. intros. unfold move, set_bal. cbn. rewrite upd_other, upd_same by assumption. reflexivity. Qed.

Lemma bal_move_to s a b amt : a <> b -> bal (move s a b amt) b = bal s b + amt.
Proof.
  intros. unfold move, set_bal. cbn. rewrite upd_same, upd_other by congruence. reflexivity.
Qed.

Lemma sto_move s a b amt : sto (move s a b amt) = sto s.
Proof. reflexivity. Qed.

Lemma sum_on_move U s a b amt :
  NoDup U -> In a U -> In b U -> sum_on U (bal (move s a b amt)) = sum_on U (bal s).
Proof.
  intros ND Ha Hb. unfold move, set_bal. cbn [bal].
  rewrite sum_on_upd_in by assumption. rewrite sum_on_upd_in by assumption.
  destruct (N.eq_dec b a) as [->|Hne].
  - rewrite upd_same. lia.
  - rewrite upd_other by assumption. lia.
Qed.

(* ------------------------------------------------------------------ state predicates through a script *)

Section RunP.
  Variable p : params.
  Variable P : wstate -> Prop.
  Variable allowed : N -> Prop.
  Hypothesis Hscript : allowed (p_script p).
  Hypothesis Pset : forall s a k v, P s -> P (set_sto s a k v).
  Hypothesis Pvals : forall s l, P s -> P (set_vals s l).
  Hypothesis Pmove : forall s a b amt,
      allowed a -> allowed b -> P s -> 0 <= amt -> amt <= bal s a -> P (move s a b amt).

  Definition invP (cur : wstate) (f : frame) (stk : list frame) : Prop :=
    P cur /\ P (f_snap f) /\ Forall (fun g => P (f_snap g)) stk.

  Lemma root_snap_P : forall stk f, P (f_snap f) -> Forall (fun g => P (f_snap g)) stk -> P (root_snap f stk).
  Proof.
    induction stk as [|par stk IH]; intros f Hf Hs; cbn; [assumption|].
    inversion Hs; subst. apply IH; assumption.
  Qed.

  Lemma run_P async ops cur f stk :
    Forall (op_allowed allowed) ops -> invP cur f stk -> P (snd (fst (run p async ops cur f stk))).
  Proof.
    intros Hall HI.
    apply (run_Q p async invP (fun r => P (snd (fst r))) allowed (fun _ => True)).
    - exact Hscript.
    - intros; exact I.
    - exact I.
    - intros st c g (Hc & Hs & _). cbn. destruct (ok st); assumption.
    - intros c g stk0 (Hc & Hs & Hf). cbn. apply root_snap_P; assumption.
    - intros st c g par stk0 (Hc & Hs & Hf). inversion Hf; subst.
      repeat split.
      + rewrite pop_into_state. destruct (ok st); assumption.
      + rewrite pop_into_snap. assumption.
      + assumption.
    - intros c g stk0 a k v (Hc & Hs & Hf). repeat split; auto.
    - intros c g stk0 l (Hc & Hs & Hf). repeat split; auto.
    - intros c g stk0 a b amt Ha Hb (Hc & Hs & Hf) H0 H1. repeat split; auto.
    - intros c g stk0 l (Hc & Hs & Hf). repeat split; auto.
    - intros c g stk0 m (Hc & Hs & Hf). repeat split; auto.
    - intros c g stk0 n _ (Hc & Hs & Hf). repeat split; auto. now rewrite deduct_snap.
    - intros c g stk0 (Hc & Hs & Hf). repeat split; auto.
    - exact Hall.
    - exact HI.
  Qed.

  Lemma call_P t s av :
    allowed (t_from t) -> allowed (t_to t) -> Forall (op_allowed allowed) (t_ops t) ->
    P s -> P (snd (fst (call p t s av))).
  Proof.
    intros Hfrom Hto Hops Hs. unfold call_gen.
    assert (Hplain : P (snd (fst (plain_transfer p t s (new_frame s av))))).
    { unfold plain_transfer. cbn [fst snd].
      destruct (do_transfer_spec p s (t_from t) (t_to t) (t_value t)) as [(E & Hv & Es)|E].
      - rewrite E, Es. cbn. apply Pmove; auto; lia.
      - apply ok_false in E. rewrite E. assumption. }
    assert (Hscr : P (snd (fst (script_call p t s (new_frame s av))))).
    { unfold script_call_gen.
      destruct (fst (deduct (new_frame s av) (p_ccall p))); cbn [negb]; [|assumption].
      destruct (0 <? t_value t).
      - destruct (do_transfer_spec p s (t_from t) (t_to t) (t_value t)) as [(E & Hv & Es)|E].
        + rewrite E, Es. cbn [ok N.eqb]. apply run_P; [assumption|].
          repeat split; [apply Pmove; auto; lia| now rewrite deduct_snap | constructor].
        + apply ok_false in E. rewrite E. assumption.
      - cbn [fst snd ok N.eqb]. apply run_P; [assumption|].
        repeat split; [assumption| now rewrite deduct_snap | constructor]. }
    destruct (t_dt t); repeat match goal with |- context [if ?c then _ else _] => destruct c end;
      try assumption; cbn; assumption.
  Qed.

  Lemma do_execute_P t s :
    allowed (t_from t) -> allowed (t_to t) -> Forall (op_allowed allowed) (t_ops t) ->
    P s -> P (snd (fst (do_execute p t s))).
  Proof.
    intros. unfold do_execute_gen.
    repeat match goal with |- context [if ?c then _ else _] => destruct c end; try assumption.
    unfold after_call. cbn [fst snd]. apply call_P; assumption.
  Qed.
End RunP.

(* ------------------------------------------------------------------ failure restores the snapshot *)

Lemma root_snap_snap f g stk : f_snap f = f_snap g -> root_snap f stk = root_snap g stk.
Proof. destruct stk; cbn; auto. Qed.

Lemma run_failure_restores p async ops cur f stk :
  fst (fst (run p async ops cur f stk)) <> 0%N ->
  snd (fst (run p async ops cur f stk)) = root_snap f stk.
Proof.
  set (s0 := root_snap f stk).
  apply (run_Q p async (fun _ g stk0 => root_snap g stk0 = s0)
               (fun r => fst (fst r) <> 0%N -> snd (fst r) = s0) (fun _ => True) (fun _ => True)).
  - exact I.
  - intros; exact I.
  - exact I.
  - intros st c g Hg Hst. cbn in *. apply ok_false in Hst. rewrite Hst. exact Hg.
  - intros c g stk0 Hg _. exact Hg.
  - intros st c g par stk0 Hg. cbn in Hg. rewrite <- Hg. apply root_snap_snap, pop_into_snap.
  - intros c g stk0 a k v Hg. exact Hg.
  - intros c g stk0 l Hg. exact Hg.
  - intros c g stk0 a b amt _ _ Hg _ _. exact Hg.
  - intros c g stk0 l Hg. rewrite <- Hg. now apply root_snap_snap.
  - intros c g stk0 m Hg. rewrite <- Hg. now apply root_snap_snap.
  - intros c g stk0 n _ Hg. rewrite <- Hg. apply root_snap_snap, deduct_snap.
  - intros c g stk0 Hg. exact Hg.
  - apply Forall_forall. intros o _ a _. exact I.
  - reflexivity.
Qed.

Lemma call_failure_restores p t s av :
  fst (fst (call p t s av)) <> 0%N -> snd (fst (call p t s av)) = s.
Proof.
  unfold call_gen.
  assert (Hplain : fst (fst (plain_transfer p t s (new_frame s av))) <> 0%N ->
                   snd (fst (plain_transfer p t s (new_frame s av))) = s).
  { unfold plain_transfer. cbn [fst snd]. intro E. apply ok_false in E. now rewrite E. }
  assert (Hscr : fst (fst (script_call p t s (new_frame s av))) <> 0%N ->
                 snd (fst (script_call p t s (new_frame s av))) = s).
  { unfold script_call_gen.
    destruct (fst (deduct (new_frame s av) (p_ccall p))); cbn [negb]; [|reflexivity].
    destruct (ok (fst (if 0 <? t_value t then _ else _))); [|reflexivity].
    intro E. rewrite run_failure_restores by exact E. cbn. now rewrite deduct_snap. }
  destruct (t_dt t); repeat match goal with |- context [if ?c then _ else _] => destruct c end;
    try assumption; reflexivity.
Qed.

Lemma do_execute_failure_restores p t s :
  fst (fst (do_execute p t s)) <> 0%N -> snd (fst (do_execute p t s)) = s.
Proof.
  unfold do_execute_gen.
  repeat match goal with |- context [if ?c then _ else _] => destruct c end; try reflexivity.
  unfold after_call. cbn [fst snd]. apply call_failure_restores.
Qed.

(* ------------------------------------------------------------------ step accounting *)

Lemma root_frame_ok : forall stk f, fr_ok f -> Forall fr_ok stk -> fr_ok (root_frame f stk).
Proof.
  induction stk as [|par stk IH]; intros f Hf Hs; cbn; [assumption|].
  inversion Hs; subst. apply IH; assumption.
Qed.

Lemma run_fr_ok p async ops cur f stk :
  0 <= p_ccall p -> fr_ok f -> Forall fr_ok stk -> fr_ok (snd (run p async ops cur f stk)).
Proof.
  intros Hc Hf Hs.
  apply (run_Q p async (fun _ g stk0 => fr_ok g /\ Forall fr_ok stk0) (fun r => fr_ok (snd r))
               (fun _ => True) (fun n => 0 <= n)).
  - exact I.
  - intros; lia.
  - exact Hc.
  - intros st c g (Hg & _). exact Hg.
  - intros c g stk0 (Hg & Hf'). cbn. apply root_frame_ok; assumption.
  - intros st c g par stk0 (Hg & Hf'). inversion Hf'; subst. split; [|assumption].
    apply pop_into_fr_ok; assumption.
  - intros c g stk0 a k v Hg. exact Hg.
  - intros c g stk0 l Hg. exact Hg.
  - intros c g stk0 a b amt _ _ Hg _ _. exact Hg.
  - intros c g stk0 l Hg. exact Hg.
  - intros c g stk0 m Hg. exact Hg.
  - intros c g stk0 n Hn (Hg & Hf'). split; [|assumption]. apply deduct_fr_ok; assumption.
  - intros c g stk0 (Hg & Hf'). split; [|constructor; assumption].
    unfold fr_ok, new_frame, avail in *. cbn. lia.
  - apply Forall_forall. intros o _ a _. exact I.
  - split; assumption.
Qed.

Lemma call_fr_ok p t s av : 0 <= p_ccall p -> 0 <= av -> fr_ok (snd (call p t s av)).
Proof.
  intros Hc Hav.
  assert (H0 : fr_ok (new_frame s av)) by (unfold fr_ok; cbn; lia).
  assert (Hd : fr_ok (snd (deduct (new_frame s av) (p_ccall p)))) by (apply deduct_fr_ok; assumption).
  unfold call_gen, transfer_and_call, fail_with_call_steps, plain_transfer, script_call_gen.
  destruct (t_dt t); repeat match goal with |- context [if ?c then _ else _] => destruct c end;
    cbn [fst snd]; try assumption; apply run_fr_ok; auto.
Qed.

Record wf_params (p : params) : Prop := {
  wf_price : 0 <= p_price p; wf_cdefault : 0 <= p_cdefault p; wf_cinput : 0 <= p_cinput p;
  wf_ccall : 0 <= p_ccall p; wf_invoke : 0 <= p_invoke p }.

Record wf_tx (t : tx) : Prop := { wf_limit : 0 <= t_limit t; wf_datalen : 0 <= t_datalen t }.

Lemma tx_limit_nonneg p t : wf_params p -> wf_tx t -> 0 <= tx_limit p t.
Proof. intros [] []. unfold tx_limit. destruct (_ <? _); lia. Qed.

Lemma do_execute_fr_ok p t s :
  wf_params p -> wf_tx t ->
  fr_ok (snd (do_execute p t s)) /\ f_limit (snd (do_execute p t s)) = tx_limit p t.
Proof.
  intros Hp Ht. pose proof (tx_limit_nonneg p t Hp Ht) as HL. destruct Hp, Ht.
  assert (H0 : fr_ok (new_frame s (tx_limit p t))) by (unfold fr_ok; cbn; lia).
  assert (H1 : fr_ok (snd (deduct (new_frame s (tx_limit p t)) (p_cdefault p))))
    by (apply deduct_fr_ok; assumption).
  assert (H2 : fr_ok (snd (deduct (snd (deduct (new_frame s (tx_limit p t)) (p_cdefault p)))
                                  (p_cinput p * t_datalen t))))
    by (apply deduct_fr_ok; [assumption|nia]).
  unfold do_execute_gen.
  repeat match goal with |- context [if ?c then _ else _] => destruct c end; cbn [snd];
    rewrite ?deduct_limit; try (split; [assumption|reflexivity]).
  unfold after_call. cbn [fst snd].
  set (b2 := snd (deduct _ (p_cinput p * t_datalen t))) in *.
  set (r := call p t s (avail b2)).
  assert (Hcf : fr_ok (snd r)).
  { apply call_fr_ok; [assumption|]. unfold fr_ok, avail in *. lia. }
  assert (H3 : fr_ok (snd (pop_into (fst (fst r)) (snd (fst r)) (snd r) b2)))
    by (apply pop_into_fr_ok; assumption).
  assert (L3 : f_limit (snd (pop_into (fst (fst r)) (snd (fst r)) (snd r) b2)) = tx_limit p t).
  { rewrite pop_into_limit. unfold b2. now rewrite !deduct_limit. }
  destruct (N.eqb _ _); [|split; assumption].
  rewrite deduct_limit. split; [|assumption].
  apply deduct_fr_ok; [assumption|]. unfold fr_ok, avail in *. lia.
Qed.

(* ------------------------------------------------------------------ the out-of-balance loop *)

Lemma charge_loop_spec fuel wcs from used st cur price :
  let c := charge_loop fuel wcs from used st cur price (used * price) (bal cur from) in
  c_fee c = used * c_price c /\ c_bal c = bal (c_state c) from /\
  (c_price c = price \/ (c_price c = 0 /\ c_status c <> 0%N)) /\
  ((c_status c = st /\ c_state c = cur) \/ (c_status c <> 0%N /\ st = 0%N /\ c_state c = wcs)
   \/ (c_status c <> 0%N /\ st <> 0%N /\ c_state c = cur)) /\
  (c_ok c = true -> c_fee c <= c_bal c).
Proof.
  revert st cur price. induction fuel as [|k IH]; intros st cur price; cbn [charge_loop].
  - destruct (Z.ltb_spec (bal cur from) (used * price)); cbn; repeat split; auto; try lia; discriminate.
  - destruct (Z.ltb_spec (bal cur from) (used * price)).
    + destruct (ok st) eqn:Eok.
      * apply ok_true in Eok. subst st.
        specialize (IH StOutOfBalance wcs price). cbv zeta in IH.
        destruct IH as (A & B & C & D & E). repeat split; auto.
        right. left.
        destruct D as [(D1 & D2)|[(D1 & D2 & D3)|(D1 & D2 & D3)]].
        -- rewrite D1. repeat split; auto. discriminate.
        -- discriminate.
        -- repeat split; auto.
      * apply ok_false in Eok.
        specialize (IH StOutOfBalance cur 0). cbv zeta in IH. replace (used * 0) with 0 in IH by lia.
        destruct IH as (A & B & C & D & E). repeat split; auto.
        -- right. destruct C as [C|(C & C')]; [|split; assumption].
           split; [assumption|].
           destruct D as [(D1 & D2)|[(D1 & D2 & D3)|(D1 & D2 & D3)]]; try assumption.
           rewrite D1. discriminate.
        -- right. right.
           destruct D as [(D1 & D2)|[(D1 & D2 & D3)|(D1 & D2 & D3)]].
           ++ rewrite D1. repeat split; auto. discriminate.
           ++ discriminate.
           ++ repeat split; auto.
    + cbn. repeat split; auto; lia.
Qed.

Lemma charge_loop_terminates wcs from used st cur price :
  0 <= bal wcs from -> 0 <= bal cur from ->
  c_ok (charge_loop 3 wcs from used st cur price (used * price) (bal cur from)) = true.
Proof.
  intros Hw Hc. cbn [charge_loop].
  destruct (Z.ltb_spec (bal cur from) (used * price)); [|reflexivity].
  destruct (ok st).
  - destruct (Z.ltb_spec (bal wcs from) (used * price)); [|reflexivity].
    cbn [ok N.eqb StOutOfBalance]. destruct (Z.ltb_spec (bal wcs from) 0); [lia|reflexivity].
  - destruct (Z.ltb_spec (bal cur from) 0); [lia|reflexivity].
Qed.

(* ------------------------------------------------------------------ one transaction *)

Definition used_of (p : params) (t : tx) (s : wstate) : Z :=
  let u := f_used (snd (do_execute p t s)) in if u <? p_cdefault p then p_cdefault p else u.

Definition loop_of (p : params) (t : tx) (s : wstate) : charged :=
  charge_loop 3 s (t_from t) (used_of p t s) (fst (fst (do_execute p t s))) (snd (fst (do_execute p t s)))
              (p_price p) (used_of p t s * p_price p) (bal (snd (fst (do_execute p t s))) (t_from t)).

Lemma execute_unfold p t s :
  execute p t s =
  (mkR (c_status (loop_of p t s)) (used_of p t s) (c_price (loop_of p t s))
       (if ok (c_status (loop_of p t s)) then f_logs (snd (do_execute p t s)) else [])
       (if ok (c_status (loop_of p t s)) then f_btp (snd (do_execute p t s)) else [])
       (c_ok (loop_of p t s)),
   set_bal (c_state (loop_of p t s)) (t_from t) (c_bal (loop_of p t s) - c_fee (loop_of p t s))).
Proof. reflexivity. Qed.

(* the charge equation, Leibniz form *)
Lemma execute_charge p t s :
  snd (execute p t s) =
  charge_fee (if ok (r_status (fst (execute p t s))) then call_effect p t s else s)
             (t_from t) (fee_of (fst (execute p t s))).
Proof.
  rewrite execute_unfold. cbn [fst snd r_status fee_of r_used r_price].
  pose proof (charge_loop_spec 3 s (t_from t) (used_of p t s) (fst (fst (do_execute p t s)))
                               (snd (fst (do_execute p t s))) (p_price p)) as H.
  cbv zeta in H. fold (loop_of p t s) in H.
  destruct H as (Hfee & Hbal & _ & Hst & _).
  unfold charge_fee, call_effect. rewrite Hfee, Hbal.
  destruct Hst as [(E1 & E2)|[(E1 & E2 & E3)|(E1 & E2 & E3)]].
  - rewrite E2, E1. destruct (ok (fst (fst (do_execute p t s)))) eqn:Eok; [reflexivity|].
    apply ok_false in Eok. rewrite (do_execute_failure_restores p t s Eok). reflexivity.
  - apply ok_false in E1. rewrite E1, E3. reflexivity.
  - apply ok_false in E1. rewrite E1, E3. rewrite (do_execute_failure_restores p t s E2). reflexivity.
Qed.

Lemma failure_is_fee_only p t s :
  r_status (fst (execute p t s)) <> 0%N ->
  snd (execute p t s) = charge_fee s (t_from t) (fee_of (fst (execute p t s)))
  /\ r_logs (fst (execute p t s)) = [] /\ r_btp (fst (execute p t s)) = [].
Proof.
  intro H. split.
  - rewrite execute_charge. apply ok_false in H. now rewrite H.
  - rewrite execute_unfold in *. cbn [fst r_status r_logs r_btp] in *.
    apply ok_false in H. rewrite H. split; reflexivity.
Qed.

Lemma step_bounds p t s :
  wf_params p -> wf_tx t ->
  p_cdefault p <= r_used (fst (execute p t s)) <= Z.max (p_cdefault p) (tx_limit p t).
Proof.
  intros Hp Ht. rewrite execute_unfold. cbn [fst r_used]. unfold used_of.
  destruct (do_execute_fr_ok p t s Hp Ht) as ((H0 & H1) & HL). rewrite HL in H1.
  destruct (Z.ltb_spec (f_used (snd (do_execute p t s))) (p_cdefault p)); lia.
Qed.

Lemma step_bounds_prevalidated p t s :
  wf_params p -> wf_tx t -> p_cdefault p <= t_limit t ->
  p_cdefault p <= r_used (fst (execute p t s)) <= t_limit t.
Proof.
  intros Hp Ht Hl. pose proof (step_bounds p t s Hp Ht) as H.
  assert (tx_limit p t <= t_limit t) by (unfold tx_limit; destruct (Z.ltb_spec (p_invoke p) (t_limit t)); lia).
  lia.
Qed.

(* the receipt's price is the block's price, or 0 for an out-of-balance failure *)
Lemma receipt_price p t s :
  r_price (fst (execute p t s)) = p_price p
  \/ (r_price (fst (execute p t s)) = 0 /\ r_status (fst (execute p t s)) <> 0%N).
Proof.
  rewrite execute_unfold. cbn [fst r_price r_status].
  pose proof (charge_loop_spec 3 s (t_from t) (used_of p t s) (fst (fst (do_execute p t s)))
                               (snd (fst (do_execute p t s))) (p_price p)) as H.
  cbv zeta in H. fold (loop_of p t s) in H. tauto.
Qed.

(* a plain transfer (no data or a message) to an externally owned account *)
Definition plain (p : params) (t : tx) : Prop :=
  t_dt t <> DCall /\ contract_form p (t_to t) = false.

Lemma plain_effect p t s :
  plain p t -> fst (fst (do_execute p t s)) = 0%N ->
  call_effect p t s = move s (t_from t) (t_to t) (t_value t) /\ 0 <= t_value t <= bal s (t_from t).
Proof.
  intros (Hdt & Hto). unfold call_effect, do_execute_gen.
  repeat match goal with |- context [if ?c then _ else _] => destruct c end; try discriminate.
  unfold after_call, call_gen. cbn [fst snd]. rewrite Hto.
  assert (E : (match t_dt t with
               | DCall => if (t_to t =? p_script p)%N then script_call_gen root_snap p t s (new_frame s (avail (snd (deduct (snd (deduct (new_frame s (tx_limit p t)) (p_cdefault p))) (p_cinput p * t_datalen t)))))
                          else if 0 <? t_value t then transfer_and_call p t s (new_frame s (avail (snd (deduct (snd (deduct (new_frame s (tx_limit p t)) (p_cdefault p))) (p_cinput p * t_datalen t)))))
                          else fail_with_call_steps p s (new_frame s (avail (snd (deduct (snd (deduct (new_frame s (tx_limit p t)) (p_cdefault p))) (p_cinput p * t_datalen t))))) StInvalidParameter
               | _ => plain_transfer p t s (new_frame s (avail (snd (deduct (snd (deduct (new_frame s (tx_limit p t)) (p_cdefault p))) (p_cinput p * t_datalen t)))))
               end) = plain_transfer p t s (new_frame s (avail (snd (deduct (snd (deduct (new_frame s (tx_limit p t)) (p_cdefault p))) (p_cinput p * t_datalen t))))))
    by (destruct (t_dt t); congruence).
  rewrite E. unfold plain_transfer. cbn [fst snd]. intro Est.
  destruct (do_transfer_spec p s (t_from t) (t_to t) (t_value t)) as [(E1 & Hv & Es)|E1]; [|congruence].
  rewrite E1, Es. cbn. split; [reflexivity|lia].
Qed.

Lemma execute_status_ok p t s :
  r_status (fst (execute p t s)) = 0%N -> fst (fst (do_execute p t s)) = 0%N.
Proof.
  rewrite execute_unfold. cbn [fst r_status].
  pose proof (charge_loop_spec 3 s (t_from t) (used_of p t s) (fst (fst (do_execute p t s)))
                               (snd (fst (do_execute p t s))) (p_price p)) as H.
  cbv zeta in H. fold (loop_of p t s) in H. destruct H as (_ & _ & _ & Hst & _).
  intro E. destruct Hst as [(E1 & _)|[(E1 & _)|(E1 & _)]]; congruence.
Qed.

Lemma transfer_credit p t s :
  plain p t -> t_from t <> t_to t -> r_status (fst (execute p t s)) = 0%N ->
  let s' := snd (execute p t s) in
  let fee := fee_of (fst (execute p t s)) in
  bal s' (t_to t) = bal s (t_to t) + t_value t
  /\ bal s' (t_from t) = bal s (t_from t) - fee - t_value t
  /\ (forall x, x <> t_from t -> x <> t_to t -> bal s' x = bal s x)
  /\ sto s' = sto s /\ 0 <= t_value t.
Proof.
  intros Hpl Hne Hst. cbv zeta. rewrite execute_charge. rewrite Hst. cbn [ok N.eqb].
  destruct (plain_effect p t s Hpl (execute_status_ok p t s Hst)) as (E & Hv). rewrite E.
  unfold charge_fee, set_bal. cbn [bal sto]. repeat split.
  - rewrite upd_other by congruence. now apply bal_move_to.
  - rewrite upd_same. rewrite bal_move_from by assumption. lia.
  - intros x H1 H2. rewrite upd_other by assumption. now apply bal_move_other.
  - lia.
Qed.

(* ------------------------------------------------------------------ sums and signs, one transaction *)

Definition nonneg (s : wstate) : Prop := forall a, 0 <= bal s a.

Lemma op_allowed_incl (U : list N) ops :
  incl (flat_map op_ids ops) U -> Forall (op_allowed (fun a => In a U)) ops.
Proof.
  induction ops as [|o r IH]; intro H; constructor.
  - intros a Ha. apply H. cbn. apply in_or_app. now left.
  - apply IH. intros a Ha. apply H. cbn. apply in_or_app. now right.
Qed.

Lemma call_effect_sum p t s U :
  NoDup U -> incl (tx_ids p t) U -> sum_on U (bal (call_effect p t s)) = sum_on U (bal s).
Proof.
  intros ND Hin. unfold call_effect.
  apply (do_execute_P p (fun x => sum_on U (bal x) = sum_on U (bal s)) (fun a => In a U)).
  - apply Hin. cbn. auto.
  - intros. assumption.
  - intros. assumption.
  - intros x a b amt Ha Hb Hx _ _. rewrite sum_on_move; assumption.
  - apply Hin. cbn. auto.
  - apply Hin. cbn. auto.
  - apply op_allowed_incl. intros a Ha. apply Hin. cbn. auto.
  - reflexivity.
Qed.

Lemma execute_sum p t s U :
  NoDup U -> incl (tx_ids p t) U ->
  sum_on U (bal (snd (execute p t s))) = sum_on U (bal s) - fee_of (fst (execute p t s)).
Proof.
  intros ND Hin. rewrite execute_charge. unfold charge_fee, set_bal. cbn [bal].
  rewrite sum_on_upd_in; [|assumption|apply Hin; cbn; auto].
  destruct (ok _); [rewrite call_effect_sum by assumption|]; lia.
Qed.

Lemma move_nonneg s a b amt : nonneg s -> 0 <= amt -> amt <= bal s a -> nonneg (move s a b amt).
Proof.
  intros Hs H0 H1 x. unfold move, set_bal. cbn [bal]. unfold upd.
  pose proof (Hs a); pose proof (Hs b); pose proof (Hs x).
  destruct (N.eqb_spec x b), (N.eqb_spec x a), (N.eqb_spec b a); subst; try lia; congruence.
Qed.

Lemma call_effect_nonneg p t s : nonneg s -> nonneg (call_effect p t s).
Proof.
  intro Hs. unfold call_effect.
  apply (do_execute_P p nonneg (fun _ => True)); auto.
  - intros x a b amt _ _. apply move_nonneg.
  - apply Forall_forall. intros o _ a _. exact I.
Qed.

Lemma execute_nonneg p t s :
  nonneg s -> nonneg (snd (execute p t s)) /\ r_loop_ok (fst (execute p t s)) = true.
Proof.
  intro Hs.
  assert (Hok : c_ok (loop_of p t s) = true).
  { apply charge_loop_terminates; [apply Hs|]. apply (call_effect_nonneg p t s Hs). }
  split; [|rewrite execute_unfold; exact Hok].
  rewrite execute_unfold. cbn [snd].
  pose proof (charge_loop_spec 3 s (t_from t) (used_of p t s) (fst (fst (do_execute p t s)))
                               (snd (fst (do_execute p t s))) (p_price p)) as H.
  cbv zeta in H. fold (loop_of p t s) in H. destruct H as (_ & Hbal & _ & Hst & Hle).
  specialize (Hle Hok).
  assert (Hc : nonneg (c_state (loop_of p t s))).
  { destruct Hst as [(_ & E)|[(_ & _ & E)|(_ & _ & E)]]; rewrite E;
      try exact Hs; apply (call_effect_nonneg p t s Hs). }
  intro x. unfold set_bal. cbn [bal]. unfold upd. destruct (N.eqb x (t_from t)); [lia|apply Hc].
Qed.

Lemma fee_nonneg p t s : 0 <= p_price p -> 0 <= p_cdefault p -> 0 <= fee_of (fst (execute p t s)).
Proof.
  intros Hp Hd. unfold fee_of.
  assert (0 <= r_used (fst (execute p t s))).
  { rewrite execute_unfold. cbn [fst r_used]. unfold used_of.
    destruct (Z.ltb_spec (f_used (snd (do_execute p t s))) (p_cdefault p)); lia. }
  destruct (receipt_price p t s) as [E|(E & _)]; rewrite E; nia.
Qed.

(* ------------------------------------------------------------------ blocks *)

Lemma exec_txs_sum p txs : forall s U,
  NoDup U -> incl (flat_map (tx_ids p) txs) U ->
  sum_on U (bal (snd (exec_txs p txs s))) = sum_on U (bal s) - gathered (fst (exec_txs p txs s)).
Proof.
  induction txs as [|t r IH]; intros s U ND Hin; cbn [exec_txs fst snd gathered fold_right].
  - lia.
  - rewrite IH; [|assumption|
      intros a Ha; apply Hin; apply in_flat_map; apply in_flat_map in Ha;
      destruct Ha as (x & Hx & Hax); exists x; split; [now right|assumption]].
    rewrite execute_sum; [|assumption|
      intros a Ha; apply Hin; apply in_flat_map; exists t; split; [now left|assumption]].
    fold (gathered (fst (exec_txs p r (snd (execute p t s))))). lia.
Qed.

Lemma block_conservation p txs s U :
  NoDup U -> incl (block_ids p txs) U ->
  sum_on U (bal (snd (exec_block p txs s))) = sum_on U (bal s).
Proof.
  intros ND Hin. unfold exec_block. cbn [snd fst]. unfold set_bal. cbn [bal].
  rewrite sum_on_upd_in; [|assumption|apply Hin; unfold block_ids; now left].
  rewrite exec_txs_sum; [lia|assumption|intros a Ha; apply Hin; unfold block_ids; now right].
Qed.

Lemma exec_txs_nonneg p txs : forall s,
  0 <= p_price p -> 0 <= p_cdefault p -> nonneg s ->
  nonneg (snd (exec_txs p txs s)) /\ 0 <= gathered (fst (exec_txs p txs s))
  /\ Forall (fun r => r_loop_ok r = true) (fst (exec_txs p txs s)).
Proof.
  induction txs as [|t r IH]; intros s Hp Hd Hs; cbn [exec_txs fst snd gathered fold_right].
  - repeat split; [assumption|lia|constructor].
  - destruct (execute_nonneg p t s Hs) as (H1 & H2).
    destruct (IH _ Hp Hd H1) as (A & B & C).
    repeat split; [assumption| |constructor; assumption].
    fold (gathered (fst (exec_txs p r (snd (execute p t s))))).
    pose proof (fee_nonneg p t s Hp Hd). lia.
Qed.

Lemma block_nonneg p txs s :
  0 <= p_price p -> 0 <= p_cdefault p -> nonneg s -> nonneg (snd (exec_block p txs s)).
Proof.
  intros Hp Hd Hs. destruct (exec_txs_nonneg p txs s Hp Hd Hs) as (A & B & _).
  unfold exec_block. cbn [snd fst]. intro x. unfold set_bal. cbn [bal]. unfold upd.
  destruct (N.eqb x (p_treasury p)); [pose proof (A (p_treasury p)); lia|apply A].
Qed.

Lemma block_loops_terminate p txs s :
  0 <= p_price p -> 0 <= p_cdefault p -> nonneg s ->
  Forall (fun r => r_loop_ok r = true) (fst (exec_block p txs s)).
Proof. intros Hp Hd Hs. apply (exec_txs_nonneg p txs s Hp Hd Hs). Qed.

Lemma exec_txs_app p a : forall b s,
  exec_txs p (a ++ b) s =
  (fst (exec_txs p a s) ++ fst (exec_txs p b (snd (exec_txs p a s))),
   snd (exec_txs p b (snd (exec_txs p a s)))).
Proof.
  induction a as [|t a IH]; intros b s; cbn [app exec_txs fst snd].
  - now destruct (exec_txs p b s).
  - rewrite IH. reflexivity.
Qed.

(* a failing transaction anywhere in a block *)
Lemma failure_in_block p pre t s :
  let s0 := snd (exec_txs p pre s) in
  let r := fst (execute p t s0) in
  r_status r <> 0%N ->
  exec_txs p (pre ++ [t]) s = (fst (exec_txs p pre s) ++ [r], charge_fee s0 (t_from t) (fee_of r))
  /\ r_logs r = [] /\ r_btp r = [].
Proof.
  cbv zeta. intro H. destruct (failure_is_fee_only p t _ H) as (A & B & C).
  rewrite exec_txs_app. cbn [exec_txs fst snd]. rewrite A. auto.
Qed.

(* ------------------------------------------------------------------ non-vacuity *)

Definition ex_p : params := mkParams 10 100 2 25 1000000 false 4%N 5%N [6%N].

Definition ex_s : wstate :=
  mkW (fun a => if N.eqb a 0 then 1000000 else if N.eqb a 1 then 500000 else if N.eqb a 5 then 50 else 0)
      (fun a k => if (N.eqb a 1 && N.eqb k 0)%bool then 1%N else 0%N) [0%N].

Definition ex_U : list N := [0; 1; 2; 3; 4; 5; 6]%N.

(* a plain transfer that succeeds *)
Definition ex_xfer : tx := mkTx 0 1 1234 1000 DNone 0 false [].
(* a scripted call: storage write, balance move, log, BTP message, a nested frame that
   fails after moving money, then the root frame fails with status 32 *)
Definition ex_fail : tx :=
  mkTx 0 5 7 10000 DCall 150 false
       [OSet 1 1 77; OMove 1 2 100; OLog 5; OBtp 6; OXfer 3 3; OEnter; OMove 0 3 1; OExit 40; OBurn 50; OExit 32].
(* a scripted call that succeeds but leaves the sender unable to pay the fee *)
Definition ex_drain : tx := mkTx 0 5 0 10000 DCall 60 false [OMove 0 2 999000; OLog 5].
(* the transfer to a contract-form address without contract: debit, then InvalidParameter *)
Definition ex_bad : tx := mkTx 0 6 5 1000 DNone 0 false [].

Definition ex_block : list tx := [ex_xfer; ex_fail; ex_drain; ex_bad].

Example ex_wf_params : wf_params ex_p.
Proof. split; cbn; lia. Qed.
Example ex_wf_tx : wf_tx ex_fail /\ p_cdefault ex_p <= t_limit ex_fail.
Proof. split; [split|]; cbn; lia. Qed.
Example ex_nonneg : nonneg ex_s.
Proof. intro a. cbn. repeat destruct (N.eqb _ _); lia. Qed.
Example ex_universe : NoDup ex_U /\ incl (block_ids ex_p ex_block) ex_U.
Proof.
  split.
  - repeat constructor; cbn; intuition discriminate.
  - intros a Ha. cbn in Ha. cbn. intuition.
Qed.

Example ex_plain_success :
  plain ex_p ex_xfer /\ t_from ex_xfer <> t_to ex_xfer /\ r_status (fst (execute ex_p ex_xfer ex_s)) = 0%N
  /\ fee_of (fst (execute ex_p ex_xfer ex_s)) = 1000.
Proof. repeat split; try discriminate; vm_compute; reflexivity. Qed.

(* the failing script did mutate state before it failed, and still everything is undone *)
Example ex_failure_after_mutation :
  r_status (fst (execute ex_p ex_fail ex_s)) = 32%N
  /\ r_used (fst (execute ex_p ex_fail ex_s)) = 100 + 2 * 150 + 25 + 25 + 25 + 50
  /\ (let mid := snd (fst (run ex_p false [OSet 1 1 77; OMove 1 2 100; OXfer 3 3] ex_s (new_frame ex_s 1000) [])) in
      sto mid 1%N 1%N = 77%N /\ bal mid 2%N = 100 /\ bal mid 3%N = 3)
  /\ bal (snd (execute ex_p ex_fail ex_s)) 2%N = 0
  /\ bal (snd (execute ex_p ex_fail ex_s)) 0%N = 1000000 - 5250.
Proof. vm_compute. repeat split; reflexivity. Qed.

(* the out-of-balance rollback branch of Execute is reachable *)
Example ex_rollback_after_success :
  fst (fst (do_execute ex_p ex_drain ex_s)) = 0%N
  /\ r_status (fst (execute ex_p ex_drain ex_s)) = 11%N
  /\ r_price (fst (execute ex_p ex_drain ex_s)) = 10
  /\ bal (snd (execute ex_p ex_drain ex_s)) 2%N = 0.
Proof. vm_compute. repeat split; reflexivity. Qed.

(* ... and so is the price-zero branch *)
Example ex_price_zero :
  let t := mkTx 3 1 1 1000 DNone 0 false [] in
  let s := set_bal ex_s 3%N 10 in
  r_status (fst (execute ex_p t s)) = 11%N /\ r_price (fst (execute ex_p t s)) = 0
  /\ r_used (fst (execute ex_p t s)) = 100 /\ bal (snd (execute ex_p t s)) 3%N = 10.
Proof. vm_compute. repeat split; reflexivity. Qed.

Example ex_partial_debit_undone :
  r_status (fst (execute ex_p ex_bad ex_s)) = 6%N
  /\ bal (snd (execute ex_p ex_bad ex_s)) 0%N = 1000000 - 1250.
Proof. vm_compute. repeat split; reflexivity. Qed.

Example ex_block_result :
  map r_status (fst (exec_block ex_p ex_block ex_s)) = [0; 32; 11; 6]%N
  /\ sum_on ex_U (bal (snd (exec_block ex_p ex_block ex_s))) = 1500050
  /\ bal (snd (exec_block ex_p ex_block ex_s)) 4%N = 1000 + 5250 + 2450 + 1250.
Proof. vm_compute. repeat split; reflexivity. Qed.

(* ------------------------------------------------------------------ timeout while inter-calls are running *)

(* the cleanUpFrames path itself: a frame of an asynchronous call that ends with the
   Timeout status, at any depth, ends the whole call with Timeout, the world reset to the
   snapshot of the call's ROOT frame (not of the frame that timed out) *)
Lemma cleanup_resets_to_target k stk cur f :
  leave_k root_snap true k stk StTimeout cur f = (StTimeout, root_snap f stk, root_frame f stk).
Proof. reflexivity. Qed.

Lemma timeout_rollback_all_frames p async ops cur f stk :
  fst (fst (run p async ops cur f stk)) = StTimeout ->
  snd (fst (run p async ops cur f stk)) = root_snap f stk.
Proof. intro H. apply run_failure_restores. rewrite H. discriminate. Qed.

(* transaction level: a timeout at any nesting depth leaves only the fee, and the fee is
   the whole (capped) step limit *)
Lemma timeout_consumes_all p t s :
  wf_params p -> wf_tx t -> fst (fst (do_execute p t s)) = StTimeout ->
  f_used (snd (do_execute p t s)) = tx_limit p t.
Proof.
  intros Hp Ht. pose proof (tx_limit_nonneg p t Hp Ht) as HL. destruct Hp, Ht.
  unfold do_execute_gen.
  repeat match goal with |- context [if ?c then _ else _] => destruct c end; try discriminate.
  unfold after_call. cbn [fst snd]. intro E. rewrite E. cbn [N.eqb StTimeout Pos.eqb].
  set (b3 := snd (pop_into _ _ _ _)).
  assert (L3 : f_limit b3 = tx_limit p t).
  { unfold b3. rewrite pop_into_limit, !deduct_limit. reflexivity. }
  assert (H3 : fr_ok b3).
  { unfold b3. apply pop_into_fr_ok.
    - apply call_fr_ok; [assumption|].
      assert (fr_ok (snd (deduct (snd (deduct (new_frame s (tx_limit p t)) (p_cdefault p))) (p_cinput p * t_datalen t)))).
      { apply deduct_fr_ok; [apply deduct_fr_ok|nia]; [|assumption]. unfold fr_ok; cbn; lia. }
      unfold fr_ok, avail in *. lia.
    - apply deduct_fr_ok; [apply deduct_fr_ok|nia]; [|assumption]. unfold fr_ok; cbn; lia. }
  unfold fr_ok in H3. clearbody b3. unfold deduct, avail.
  destruct (Z.ltb_spec (f_limit b3) (f_used b3 + (f_limit b3 - f_used b3))); cbn; lia.
Qed.

(* depth 2 and depth 3: every frame mutates, the innermost one hangs / reports Timeout *)
Definition ex_timeout2 : tx :=
  mkTx 0 5 7 10000 DCall 100 true
       [OSet 1 1 77; OMove 1 2 100; OLog 5; OEnter; OSet 2 0 9; OMove 0 3 1; OHang; OLog 6].
Definition ex_timeout3 : tx :=
  mkTx 0 5 7 10000 DCall 100 true
       [OSet 1 1 77; OEnter; OMove 1 2 100; OBtp 3; OEnter; OSet 2 0 9; OXfer 3 3; OExit 12; OExit 0; OLog 6].

Example ex_timeout_nested :
  r_status (fst (execute ex_p ex_timeout2 ex_s)) = 12%N
  /\ r_used (fst (execute ex_p ex_timeout2 ex_s)) = 10000
  /\ sto (snd (execute ex_p ex_timeout2 ex_s)) 1%N 1%N = 0%N
  /\ bal (snd (execute ex_p ex_timeout2 ex_s)) 2%N = 0
  /\ r_status (fst (execute ex_p ex_timeout3 ex_s)) = 12%N
  /\ sto (snd (execute ex_p ex_timeout3 ex_s)) 1%N 1%N = 0%N
  /\ bal (snd (execute ex_p ex_timeout3 ex_s)) 2%N = 0
  /\ bal (snd (execute ex_p ex_timeout3 ex_s)) 0%N = 1000000 - 100000.
Proof. vm_compute. repeat split; reflexivity. Qed.

(* the same scripts run by synchronous nested calls: the callee's Timeout is an ordinary,
   caught failure of the callee's own frame and the transaction goes on *)
Example ex_timeout_sync_is_caught :
  let t := mkTx 0 5 7 10000 DCall 100 false (t_ops ex_timeout2) in
  r_status (fst (execute ex_p t ex_s)) = 0%N /\ sto (snd (execute ex_p t ex_s)) 1%N 1%N = 77%N
  /\ sto (snd (execute ex_p t ex_s)) 2%N 0%N = 0%N.
Proof. vm_compute. repeat split; reflexivity. Qed.

(* REFUTED variant: a cleanUpFrames that resets to the snapshot of the frame that was
   current when the clean-up started (inner_snap) keeps the outer frames' writes of a
   transaction reported as failed *)
Lemma inner_only_cleanup_refuted :
  exists p t s,
    r_status (fst (execute_gen inner_snap p t s)) <> 0%N /\
    snd (execute_gen inner_snap p t s)
    <> charge_fee s (t_from t) (fee_of (fst (execute_gen inner_snap p t s))).
Proof.
  exists ex_p, ex_timeout2, ex_s. split; [vm_compute; discriminate|].
  intro H. apply (f_equal (fun w => sto w 1%N 1%N)) in H. vm_compute in H. discriminate.
Qed.

(* ------------------------------------------------------------------ validators *)

Lemma failure_keeps_validators p t s :
  r_status (fst (execute p t s)) <> 0%N ->
  vals (snd (execute p t s)) = vals s
  /\ forall a, index_of a (vals (snd (execute p t s))) = index_of a (vals s).
Proof.
  intro H. destruct (failure_is_fee_only p t s H) as (E & _). rewrite E. split; reflexivity.
Qed.

(* a failed grant leaves no trace: the later successful grant appends the validator *)
Example ex_failed_grant_then_grant :
  let t1 := mkTx 0 5 0 10000 DCall 60 false [OGrant 3; OSet 1 1 7; OExit 32] in
  let t2 := mkTx 0 5 0 10000 DCall 60 false [OGrant 3] in
  let s1 := snd (execute ex_p t1 ex_s) in
  r_status (fst (execute ex_p t1 ex_s)) = 32%N /\ vals s1 = [0%N] /\ index_of 3%N (vals s1) = -1
  /\ r_status (fst (execute ex_p t2 s1)) = 0%N /\ vals (snd (execute ex_p t2 s1)) = [0%N; 3%N]
  /\ index_of 3%N (vals (snd (execute ex_p t2 s1))) = 1.
Proof. vm_compute. repeat split; reflexivity. Qed.
