(* Proofs_TxPool.v — lemmas about Model_TxPool (proposer's selection vs. block
   validation), for all pools, states, locator states and limits.
   Style: stdlib only. *)
From Goloop Require Import lib.Bytes Model_Locator Proofs_Locator Model_TxPool.
From Coq Require Import ZifyBool ZifyN ZifyNat.
Open Scope Z_scope.

(* ------------------------------------------------------------------ *)
(* A. small facts                                                      *)
(* ------------------------------------------------------------------ *)

Lemma subseq_nil_l {A} (l : list A) : subseq [] l.
Proof. induction l; constructor; assumption. Qed.

Lemma subseq_In {A} (l1 l2 : list A) : subseq l1 l2 -> forall x, In x l1 -> In x l2.
Proof.
  induction 1; intros y Hy; [destruct Hy| right; auto|].
  destruct Hy as [->|Hy]; [now left|right; auto].
Qed.

Lemma subseq_NoDup {A} (l1 l2 : list A) : subseq l1 l2 -> NoDup l2 -> NoDup l1.
Proof.
  induction 1; intro Hn; [constructor| |].
  - inversion Hn; subst. auto.
  - inversion Hn; subst. constructor; [|auto].
    intro Hx. apply H2. eapply subseq_In; eassumption.
Qed.

Lemma subseq_map {A B} (h : A -> B) (l1 l2 : list A) :
  subseq l1 l2 -> subseq (map h l1) (map h l2).
Proof. induction 1; cbn; constructor; assumption. Qed.

Lemma eff_bytes_pos mb : 0 < eff_bytes mb.
Proof. unfold eff_bytes. destruct (mb <=? 0) eqn:E; lia. Qed.

Lemma eff_count_pos mc : 0 < eff_count mc.
Proof. unfold eff_count. destruct (mc <=? 0) eqn:E; lia. Qed.

Lemma selected_stop pool : selected pool (map (fun _ => VStop) pool) = [].
Proof. induction pool as [|e r IH]; cbn; [reflexivity|exact IH]. Qed.

(* ------------------------------------------------------------------ *)
(* B. PreValidate                                                      *)
(* ------------------------------------------------------------------ *)

Lemma prevalidate_cases f b t :
  (prevalidate f b t = (cOk, apply_tx f b t) /\
   (x_grp t = true -> min_step f t <= x_step t) /\ charge f t <= b (x_from t))
  \/ (exists c, c <> cOk /\ prevalidate f b t = (c, b)).
Proof.
  unfold prevalidate.
  destruct (x_grp t && (x_step t <? min_step f t)) eqn:E1.
  - right. exists cStep. split; [discriminate|reflexivity].
  - destruct (b (x_from t) <? charge f t) eqn:E2.
    + right. exists cBalance. split; [discriminate|reflexivity].
    + left. split; [reflexivity|]. split; [|lia].
      intro Hg. rewrite Hg in E1. cbn in E1. lia.
Qed.

Lemma prevalidate_ok_inv f b t b' :
  prevalidate f b t = (cOk, b') ->
  b' = apply_tx f b t /\ (x_grp t = true -> min_step f t <= x_step t) /\
  charge f t <= b (x_from t).
Proof.
  intro H. destruct (prevalidate_cases f b t) as [(Hp & Hs & Hc)|(c & Hne & Hp)].
  - rewrite Hp in H. inversion H. auto.
  - rewrite Hp in H. inversion H. congruence.
Qed.

(* pointwise effect of a successful pre-check *)
Lemma apply_tx_at f b t a :
  apply_tx f b t a =
  b a - (if (x_from t =? a)%N then charge f t else 0)
      + (if (x_to t =? a)%N then x_value t else 0).
Proof.
  unfold apply_tx, bal_set.
  destruct (N.eqb_spec a (x_to t)) as [E2|E2]; destruct (N.eqb_spec (x_to t) a) as [E2'|E2'];
    try congruence;
    destruct (N.eqb_spec a (x_from t)) as [E1|E1]; destruct (N.eqb_spec (x_from t) a) as [E1'|E1'];
    try congruence;
    destruct (N.eqb_spec (x_to t) (x_from t)) as [E3|E3]; try congruence; subst;
    try rewrite E3; try lia.
Qed.

Lemma fold_working f : forall pre b a,
  fold_left (apply_tx f) pre b a = working f b pre a.
Proof.
  induction pre as [|u r IH]; intros b a; unfold working in *; cbn [fold_left debits credits].
  - lia.
  - rewrite IH, apply_tx_at. lia.
Qed.

(* ------------------------------------------------------------------ *)
(* C. the selection loop                                               *)
(* ------------------------------------------------------------------ *)

Section Loop.
Variable m : manager.
Variable f : fee.
Variables bts th maxB maxC : Z.

(* what every selected list looks like: each element passed the three checks
   in the working state left by the elements before it, inside the limits *)
Inductive good : balances -> Z -> Z -> list tx -> Prop :=
| good_nil b size cnt : good b size cnt []
| good_cons b size cnt t l :
    range_check bts th (x_ts t) = cOk ->
    manager_has m (x_grp t) (x_id t) (x_ts t) = false ->
    prevalidate f b t = (cOk, apply_tx f b t) ->
    size < maxB -> cnt < maxC -> size + x_size t <= maxB ->
    good (apply_tx f b t) (size + x_size t) (cnt + 1) l ->
    good b size cnt (t :: l).

Lemma cand_good : forall pool b size cnt,
  let sel := selected pool (cand_loop m f bts th maxB maxC pool b size cnt) in
  good b size cnt sel /\ subseq sel (map p_tx pool).
Proof.
  induction pool as [|e rest IH]; intros b size cnt.
  - cbn. split; constructor.
  - cbv zeta. cbn [cand_loop].
    destruct ((size <? maxB) && (cnt <? maxC)) eqn:EL.
    2:{ rewrite selected_stop. split; [constructor|apply subseq_nil_l]. }
    destruct (range_check bts th (x_ts (p_tx e)) =? cExpired)%N eqn:E1.
    { cbn [selected map]. destruct (IH b size cnt) as [Hg Hs]. split; [exact Hg|constructor; exact Hs]. }
    destruct (negb (range_check bts th (x_ts (p_tx e)) =? cOk)%N) eqn:E2.
    { cbn [selected map]. destruct (IH b size cnt) as [Hg Hs]. split; [exact Hg|constructor; exact Hs]. }
    destruct (manager_has m (x_grp (p_tx e)) (x_id (p_tx e)) (x_ts (p_tx e))) eqn:E3.
    { cbn [selected map]. destruct (IH b size cnt) as [Hg Hs]. split; [exact Hg|constructor; exact Hs]. }
    destruct (prevalidate_cases f b (p_tx e)) as [(Hp & _ & _)|(c & Hne & Hp)]; rewrite Hp.
    + cbn [negb N.eqb cOk].
      destruct (size + x_size (p_tx e) >? maxB) eqn:E4.
      { rewrite selected_stop. split; [constructor|apply subseq_nil_l]. }
      cbn [selected map].
      destruct (IH (apply_tx f b (p_tx e)) (size + x_size (p_tx e)) (cnt + 1)) as [Hg Hs].
      split; [|constructor; exact Hs].
      constructor; try assumption; try lia.
    + assert (Ec : negb (c =? cOk)%N = true).
      { apply negb_true_iff. now apply N.eqb_neq. }
      rewrite Ec. cbn [selected map].
      destruct (IH b size cnt) as [Hg Hs]. split; [exact Hg|constructor; exact Hs].
Qed.

Lemma good_validate b size cnt l : good b size cnt l -> validate_loop f bts th l b = cOk.
Proof.
  induction 1 as [|b size cnt t l Hw Hh Hp _ _ _ _ IH]; cbn [validate_loop]; [reflexivity|].
  rewrite Hw. cbn [negb N.eqb cOk]. rewrite Hp. cbn [negb N.eqb cOk]. exact IH.
Qed.

Lemma good_forall b size cnt l : good b size cnt l ->
  Forall (fun t => in_window bts th (x_ts t) /\
                   manager_has m (x_grp t) (x_id t) (x_ts t) = false) l.
Proof.
  induction 1 as [|b size cnt t l Hw Hh _ _ _ _ _ IH]; constructor; [|exact IH].
  split; [|exact Hh]. now apply window_iff.
Qed.

Lemma good_limits b size cnt l : good b size cnt l -> size <= maxB -> cnt <= maxC ->
  size + total_size l <= maxB /\ cnt + Z.of_nat (length l) <= maxC.
Proof.
  induction 1 as [|b size cnt t l _ _ _ H1 H2 H3 _ IH]; intros Hs Hc; cbn [total_size length].
  - lia.
  - destruct IH as [Ha Hb]; lia.
Qed.

Lemma good_prefix : forall pre b size cnt t post,
  good b size cnt (pre ++ t :: post) ->
  prevalidate f (fold_left (apply_tx f) pre b) t
  = (cOk, apply_tx f (fold_left (apply_tx f) pre b) t).
Proof.
  induction pre as [|u r IH]; intros b size cnt t post H; cbn [app fold_left] in *.
  - inversion H; subst. assumption.
  - inversion H; subst. eapply IH. eassumption.
Qed.

End Loop.

(* ------------------------------------------------------------------ *)
(* D. the validator's duplicate check                                  *)
(* ------------------------------------------------------------------ *)

(* tracker.Add(force = false) on a fresh tracker whose parent is the manager:
   same-list duplicate, else manager.Has with the tracker's group *)
Fixpoint dup_scan (m : manager) (g : bool) (txs : list tx) (acc : list N) : N :=
  match txs with
  | [] => 0%N
  | t :: r =>
      if mem (x_id t) acc then 1%N
      else if manager_has m g (x_id t) (x_ts t) then 1%N
      else dup_scan m g r (acc ++ [x_id t])
  end.

Lemma has_none_mgr v m l g id ts :
  has_from v m l None g id ts = Some (manager_has_v v m g id ts).
Proof. destruct l; reflexivity. Qed.

Lemma add_loop_scan st tk : t_parent tk = None -> forall txs acc cnt,
  snd (add_loop VCode st tk false (map (fun t => (x_id t, x_ts t)) txs) acc cnt)
  = dup_scan (s_mgr st) (t_grp tk) txs acc.
Proof.
  intros Hp. induction txs as [|t r IH]; intros acc cnt; cbn [map add_loop dup_scan]; [reflexivity|].
  destruct (mem (x_id t) acc); [reflexivity|].
  unfold parent_has_v. rewrite Hp, has_none_mgr. unfold manager_has.
  destruct (manager_has_v VCode (s_mgr st) (t_grp tk) (x_id t) (x_ts t)); [reflexivity|].
  apply IH.
Qed.

(* the agreement: when the proposer's parent block is finalized (its tracker is
   committed), the validator's lookup IS manager.Has — the function the pool
   calls — for every id and every timestamp, the window's top point included *)
Lemma parent_has_closed st p tp bts th st1 :
  get (s_trk st) p = Some tp -> t_open tp = false -> t_parent tp = None ->
  tracker_new st p bts th = Some st1 ->
  exists tk, get (s_trk st1) (length (s_trk st)) = Some tk /\
             t_grp tk = t_grp tp /\ t_ts tk = bts /\ t_th tk = th /\
             forall id ts, parent_has_v VCode st1 tk id ts
                           = Some (manager_has (s_mgr st) (t_grp tp) id ts).
Proof.
  intros Hg Ho Hp Hn. unfold tracker_new in Hn. rewrite Hg, Ho, Hp in Hn. cbn in Hn.
  inversion Hn; subst st1; clear Hn. cbn [s_trk s_mgr].
  eexists. split; [apply get_cons_eq|]. cbn. repeat split.
Qed.

Lemma record_ids_closed st p tp bts th txs :
  get (s_trk st) p = Some tp -> t_open tp = false -> t_parent tp = None ->
  record_ids st p bts th txs = Some (dup_scan (s_mgr st) (t_grp tp) txs []).
Proof.
  intros Hg Ho Hp. unfold record_ids, tracker_new. rewrite Hg, Ho, Hp. cbn [negb andb].
  unfold tracker_add, tracker_add_v. cbn [s_trk]. rewrite get_cons_eq. cbn [t_open negb t_ids].
  match goal with |- context [add_loop ?v ?s ?k ?fo ?l ?a ?c] =>
    pose proof (add_loop_scan s k eq_refl txs a c) as E;
    destruct (add_loop v s k fo l a c) as [[ids n] cls] end.
  cbn in E. now rewrite E.
Qed.

Lemma dup_scan_ok m g : forall txs acc,
  NoDup (acc ++ map x_id txs) ->
  Forall (fun t => manager_has m g (x_id t) (x_ts t) = false) txs ->
  dup_scan m g txs acc = 0%N.
Proof.
  induction txs as [|t r IH]; intros acc Hn Hf; cbn [dup_scan]; [reflexivity|].
  inversion Hf; subst. cbn [map] in Hn.
  assert (Hm : mem (x_id t) acc = false).
  { apply mem_false. intro Hin. apply NoDup_remove_2 in Hn. apply Hn.
    apply in_or_app. now left. }
  rewrite Hm, H1. apply IH; [|assumption].
  rewrite <- app_assoc. exact Hn.
Qed.

Lemma dup_scan_dup m g : forall txs acc,
  dup_scan m g txs acc = 0%N ->
  NoDup acc -> NoDup (acc ++ map x_id txs) /\
  Forall (fun t => manager_has m g (x_id t) (x_ts t) = false) txs.
Proof.
  induction txs as [|t r IH]; intros acc H Hn; cbn [dup_scan map] in *.
  - rewrite app_nil_r. split; [assumption|constructor].
  - destruct (mem (x_id t) acc) eqn:Em; [discriminate|].
    destruct (manager_has m g (x_id t) (x_ts t)) eqn:Eh; [discriminate|].
    apply mem_false in Em.
    destruct (IH (acc ++ [x_id t]) H) as [Ha Hb].
    { apply NoDup_snoc; assumption. }
    rewrite <- app_assoc in Ha. split; [exact Ha|constructor; assumption].
Qed.

(* ------------------------------------------------------------------ *)
(* E. the theorems                                                     *)
(* ------------------------------------------------------------------ *)

Definition parent_finalized (st : state) (p : nat) (g : bool) : Prop :=
  exists tp, get (s_trk st) p = Some tp /\ t_open tp = false /\ t_parent tp = None /\ t_grp tp = g.

Definition pool_ok (g : bool) (pool : list pelem) : Prop :=
  NoDup (map (fun e => x_id (p_tx e)) pool) /\ Forall (fun e => x_grp (p_tx e) = g) pool.

Lemma cand_good_top m f g ms bts maxB maxC pool b :
  good m f bts (threshold g ms) (eff_bytes maxB) (eff_count maxC) b 0 0
       (candidate m f g ms bts maxB maxC pool b)
  /\ subseq (candidate m f g ms bts maxB maxC pool b) (map p_tx pool).
Proof. unfold candidate, cand_verdicts. apply cand_good. Qed.

Lemma candidates_validate st p f g ms bts maxB maxC pool b :
  parent_finalized st p g -> pool_ok g pool ->
  validate_block st p f g ms bts (candidate (s_mgr st) f g ms bts maxB maxC pool b) b = Some cOk.
Proof.
  intros (tp & Hg & Ho & Hp & Hgr) [Hnd Hgrp].
  destruct (cand_good_top (s_mgr st) f g ms bts maxB maxC pool b) as [Hgood Hsub].
  unfold validate_block. rewrite (record_ids_closed st p tp _ _ _ Hg Ho Hp).
  rewrite dup_scan_ok.
  - cbn [N.eqb]. f_equal. eapply good_validate. exact Hgood.
  - cbn [app]. apply (subseq_NoDup _ (map x_id (map p_tx pool))).
    + apply subseq_map. exact Hsub.
    + rewrite map_map. exact Hnd.
  - pose proof (good_forall _ _ _ _ _ _ _ _ _ _ Hgood) as Hf.
    rewrite Forall_forall in *. intros t Ht. destruct (Hf t Ht) as [_ Hh].
    assert (Hin : In t (map p_tx pool)) by (eapply subseq_In; eassumption).
    apply in_map_iff in Hin. destruct Hin as (e & <- & He).
    rewrite Hgr. rewrite <- (Hgrp e He). exact Hh.
Qed.

(* the validator's duplicate check, characterised *)
Lemma validator_dup_check st p g bts th txs :
  parent_finalized st p g ->
  exists cls, record_ids st p bts th txs = Some cls /\
    (cls = 0%N <-> NoDup (map x_id txs) /\
                   Forall (fun t => manager_has (s_mgr st) g (x_id t) (x_ts t) = false) txs).
Proof.
  intros (tp & Hg & Ho & Hp & Hgr). eexists. split; [eapply record_ids_closed; eassumption|].
  rewrite Hgr. split.
  - intro H. apply (dup_scan_dup _ _ _ [] H). constructor.
  - intros [Hn Hf]. apply dup_scan_ok; assumption.
Qed.

Lemma has_agreement st p g bts th :
  parent_finalized st p g ->
  exists st1 tk, tracker_new st p bts th = Some st1 /\
    get (s_trk st1) (length (s_trk st)) = Some tk /\ t_grp tk = g /\
    forall id ts, parent_has_v VCode st1 tk id ts = Some (manager_has (s_mgr st) g id ts).
Proof.
  intros (tp & Hg & Ho & Hp & Hgr).
  assert (Hn : exists st1, tracker_new st p bts th = Some st1).
  { unfold tracker_new. rewrite Hg. eexists. reflexivity. }
  destruct Hn as [st1 Hn].
  destruct (parent_has_closed st p tp bts th st1 Hg Ho Hp Hn) as (tk & H1 & H2 & _ & _ & H5).
  exists st1, tk. rewrite <- Hgr. repeat split; assumption.
Qed.

Lemma selected_window_nothas m f g ms bts maxB maxC pool b t :
  In t (candidate m f g ms bts maxB maxC pool b) ->
  in_window bts (threshold g ms) (x_ts t) /\ manager_has m (x_grp t) (x_id t) (x_ts t) = false.
Proof.
  intro Hin. destruct (cand_good_top m f g ms bts maxB maxC pool b) as [Hgood _].
  pose proof (good_forall _ _ _ _ _ _ _ _ _ _ Hgood) as Hf.
  rewrite Forall_forall in Hf. exact (Hf t Hin).
Qed.

Lemma cumulative_balance m f g ms bts maxB maxC pool b pre t post :
  candidate m f g ms bts maxB maxC pool b = pre ++ t :: post ->
  charge f t <= working f b pre (x_from t) /\
  (x_grp t = true -> min_step f t <= x_step t).
Proof.
  intro E. destruct (cand_good_top m f g ms bts maxB maxC pool b) as [Hgood _].
  rewrite E in Hgood. apply good_prefix in Hgood.
  apply prevalidate_ok_inv in Hgood. destruct Hgood as (_ & Hs & Hc).
  rewrite fold_working in Hc. split; assumption.
Qed.

(* no working balance ever becomes negative *)
Lemma working_nonneg m f g ms bts maxB maxC pool b :
  (forall a, 0 <= b a) ->
  Forall (fun e => 0 <= x_value (p_tx e)) pool ->
  forall pre post, candidate m f g ms bts maxB maxC pool b = pre ++ post ->
  forall a, 0 <= working f b pre a.
Proof.
  intros Hb Hv pre. induction pre as [|u r IH] using rev_ind; intros post E a.
  - unfold working. cbn. specialize (Hb a). lia.
  - rewrite <- app_assoc in E. cbn [app] in E.
    pose proof (IH (u :: post) E) as Hr.
    destruct (cumulative_balance m f g ms bts maxB maxC pool b r u post E) as [Hc _].
    assert (Hval : 0 <= x_value u).
    { destruct (cand_good_top m f g ms bts maxB maxC pool b) as [_ Hsub].
      assert (Hin : In u (map p_tx pool)).
      { eapply subseq_In; [exact Hsub|]. rewrite E. apply in_or_app. right. now left. }
      apply in_map_iff in Hin. destruct Hin as (e & <- & He).
      rewrite Forall_forall in Hv. exact (Hv e He). }
    rewrite <- fold_working. rewrite fold_left_app. cbn [fold_left].
    rewrite apply_tx_at, !fold_working.
    specialize (Hr a).
    destruct (x_from u =? a)%N eqn:Ef; destruct (x_to u =? a)%N eqn:Et;
      try (apply N.eqb_eq in Ef; subst a); lia.
Qed.

Lemma within_limits m f g ms bts maxB maxC pool b :
  total_size (candidate m f g ms bts maxB maxC pool b) <= eff_bytes maxB /\
  Z.of_nat (length (candidate m f g ms bts maxB maxC pool b)) <= eff_count maxC.
Proof.
  destruct (cand_good_top m f g ms bts maxB maxC pool b) as [Hgood _].
  pose proof (eff_bytes_pos maxB). pose proof (eff_count_pos maxC).
  destruct (good_limits _ _ _ _ _ _ _ _ _ _ Hgood) as [Ha Hb]; lia.
Qed.

Lemma order_preserved m f g ms bts maxB maxC pool b :
  subseq (candidate m f g ms bts maxB maxC pool b) (map p_tx pool).
Proof. apply cand_good_top. Qed.

(* "has not been included before", semantically: in every locator state built
   by block validation (C11's hist_ok, full window), when the proposer builds
   on a finalized block no selected transaction is recorded in that block or
   in any of its ancestors *)
Lemma selected_not_on_chain tsof gof h :
  hist_ok tsof gof VCode in_window init h ->
  let st := run init h in
  forall p g f ms bts maxB maxC pool b t,
    parent_finalized st p g ->
    In t (candidate (s_mgr st) f g ms bts maxB maxC pool b) ->
    x_ts t = tsof (x_id t) -> x_grp t = g ->
    ~ In (x_id t) (chain_ids st p).
Proof.
  intros Hh st p g f ms bts maxB maxC pool b t (tp & Hg & Ho & Hp & Hgr) Hin Hts Hgt Hch.
  assert (Hv : sound_variant VCode) by (left; reflexivity).
  assert (Hinv : sinv tsof gof VCode false st).
  { apply (run_inv tsof gof VCode Hv false in_window h (win_ok_any VCode) init);
      [apply ginv_init|exact Hh]. }
  destruct (closed_chain tsof gof VCode false (s_trk st) (s_mgr st) Hinv (S p) (Some p) g (x_id t))
    as [Hm Hgo].
  - intros q Hq. inversion Hq. lia.
  - intros q tq Hq Htq. assert (q = p) by congruence. subst q.
    assert (tq = tp) by congruence. subst tq. exact Ho.
  - intros q tq Hq Htq. assert (q = p) by congruence. subst q.
    assert (tq = tp) by congruence. subst tq. exact Hgr.
  - exact Hch.
  - pose proof (manager_has_true tsof gof VCode Hv (s_mgr st) g (x_id t) Hm Hgo) as Ht.
    destruct (selected_window_nothas _ _ _ _ _ _ _ _ _ _ Hin) as [_ Hf].
    rewrite Hgt, Hts in Hf. unfold manager_has in Hf. congruence.
Qed.

(* ------------------------------------------------------------------ *)
(* F. witnesses                                                        *)
(* ------------------------------------------------------------------ *)

(* a locator state: two roots, block (1000000, th 50000) with transaction 7@990000,
   committed (finalized) — by validation (force = false) *)
Definition ex_hist : list op :=
  [ONewRoot false 0 300000000; ONewRoot true 0 300000000;
   ONew 1 1000000 50000; OAdd 2 [(7%N, 990000)] false; OCommit 2].
Definition ex_state : state := run init ex_hist.

Definition ex_fee : fee := {| f_price := 10; f_default := 100; f_input := 2 |}.
Definition ex_bal : balances := fun a => match a with 1%N => 5000 | 2%N => 100000 | _ => 0 end.

Definition mk (id : N) (from to : N) (value step cnt ts size : Z) : pelem :=
  {| p_tx := {| x_id := id; x_grp := true; x_from := from; x_to := to; x_value := value;
                x_step := step; x_cnt := cnt; x_ts := ts; x_size := size |};
     p_direct := true |}.

(* block timestamp 1020000, configured threshold 50 ms: window (970000, 1070000] *)
Definition ex_pool : list pelem :=
  [ mk 7 2 1 10 100 0 990000 130;       (* already committed            -> VHas     *)
    mk 8 2 1 10 100 0 970000 130;       (* ts = bts - th                -> VExpired *)
    mk 9 2 1 10 100 0 1070001 130;      (* ts = bts + th + 1            -> VFuture  *)
    mk 10 1 3 2000 100 0 1070000 130;   (* ts = bts + th, charge 3000   -> VSel     *)
    mk 11 1 3 1001 100 0 1000000 130;   (* 2000 left, charge 2001       -> VPre cBalance, kept (direct) *)
    mk 12 3 1 500 100 0 1000000 130;    (* account 3 owns 2000 by now   -> VSel     *)
    mk 13 2 1 0 99 0 1000000 130;       (* stepLimit < 100              -> VPre cStep, dropped *)
    mk 14 1 2 0 100 0 1000000 130;      (* 2000 + 500 received from 12  -> VSel     *)
    mk 15 2 1 1 100 0 1000000 130 ].    (* count limit 3 reached        -> VStop    *)

Example ex_parent : parent_finalized ex_state 2 true.
Proof. eexists. vm_compute. repeat split. Qed.

Example ex_pool_ok : pool_ok true ex_pool.
Proof.
  split; [apply nodupb_spec; vm_compute; reflexivity|].
  repeat constructor.
Qed.

Example ex_verdicts :
  cand_verdicts (s_mgr ex_state) ex_fee true 50 1020000 0 3 ex_pool ex_bal
  = [VHas; VExpired; VFuture; VSel; VPre cBalance false; VSel; VPre cStep true; VSel; VStop].
Proof. vm_compute. reflexivity. Qed.

Example ex_selected :
  map x_id (candidate (s_mgr ex_state) ex_fee true 50 1020000 0 3 ex_pool ex_bal)
  = [10%N; 12%N; 14%N].
Proof. vm_compute. reflexivity. Qed.

Example ex_validates :
  validate_block ex_state 2 ex_fee true 50 1020000
    (candidate (s_mgr ex_state) ex_fee true 50 1020000 0 3 ex_pool ex_bal) ex_bal = Some cOk.
Proof. vm_compute. reflexivity. Qed.

(* the validator is not trivially accepting: the same pool offered as a block is rejected *)
Example ex_rejects :
  validate_block ex_state 2 ex_fee true 50 1020000 (map p_tx ex_pool) ex_bal = Some cDup
  /\ validate_block ex_state 2 ex_fee true 50 1020000 (map p_tx (skipn 1 ex_pool)) ex_bal = Some cExpired
  /\ validate_block ex_state 2 ex_fee true 50 1020000 (map p_tx (skipn 3 ex_pool)) ex_bal = Some cBalance.
Proof. vm_compute. repeat split. Qed.

Definition ex_tsof (id : N) : Z :=
  match id with
  | 7%N => 990000 | 8%N => 970000 | 9%N => 1070001 | 10%N => 1070000 | _ => 1000000
  end.

Example ex_hist_ok : hist_ok ex_tsof (fun _ => true) VCode in_window init ex_hist.
Proof. unfold ex_hist. solve_valid. Qed.

(* the hypotheses of selected_not_on_chain are met by a selected transaction
   (10, at the top of the window) while the chain is not empty *)
Example ex_not_on_chain_hyps :
  hist_ok ex_tsof (fun _ => true) VCode in_window init ex_hist /\
  parent_finalized (run init ex_hist) 2 true /\
  chain_ids (run init ex_hist) 2 = [7%N] /\
  exists t, In t (candidate (s_mgr (run init ex_hist)) ex_fee true 50 1020000 0 3 ex_pool ex_bal) /\
            x_id t = 10%N /\ x_ts t = ex_tsof (x_id t) /\ x_grp t = true.
Proof.
  split; [exact ex_hist_ok|]. split; [exact ex_parent|]. split; [vm_compute; reflexivity|].
  eexists. split; [vm_compute; left; reflexivity|]. vm_compute. repeat split.
Qed.

(* the hypothesis of cumulative_balance with a non-empty prefix that charged
   the same sender: 14 is selected after 10 (both sent by account 1) and after
   12, which paid 500 to account 1: 5000 - 3000 + 500 = 2500 >= 1000 *)
Example ex_cumulative :
  let sel := candidate (s_mgr ex_state) ex_fee true 50 1020000 0 3 ex_pool ex_bal in
  let pre := firstn 2 sel in
  exists t, sel = pre ++ t :: [] /\
    x_id t = 14%N /\ debits ex_fee pre (x_from t) = 3000 /\
    working ex_fee ex_bal pre (x_from t) = 2500 /\ charge ex_fee t = 1000.
Proof.
  cbv zeta. eexists. split; [vm_compute; reflexivity|]. vm_compute. repeat split.
Qed.

Example ex_nonneg_hyps :
  (forall a, 0 <= ex_bal a) /\ Forall (fun e => 0 <= x_value (p_tx e)) ex_pool.
Proof.
  split.
  - intro a. unfold ex_bal. destruct a as [|[p|p|]]; try lia; destruct p; lia.
  - repeat constructor; cbn; lia.
Qed.

(* Without the hypothesis "the parent block is finalized" the statement fails:
   the pool consults only the manager (committed blocks), the validator also
   the uncommitted ancestors.  Same history without the Commit: transaction 7
   of the (uncommitted) parent block is still in the pool, is selected, and the
   proposed list is rejected as DuplicateTx. *)
Definition ex_hist_open : list op :=
  [ONewRoot false 0 300000000; ONewRoot true 0 300000000;
   ONew 1 1000000 50000; OAdd 2 [(7%N, 990000)] false].
Definition ex_state_open : state := run init ex_hist_open.

Lemma unfinalized_parent_refuted :
  exists st p f g ms bts maxB maxC pool b,
    pool_ok g pool /\
    (exists tp, get (s_trk st) p = Some tp /\ t_open tp = true /\ t_grp tp = g) /\
    validate_block st p f g ms bts (candidate (s_mgr st) f g ms bts maxB maxC pool b) b = Some cDup.
Proof.
  exists ex_state_open, 2%nat, ex_fee, true, 50, 1020000, 0, 0,
         [mk 7 2 1 10 100 0 990000 130], ex_bal.
  split; [split; [apply nodupb_spec; vm_compute; reflexivity|repeat constructor]|].
  split; [eexists; vm_compute; repeat split|].
  vm_compute. reflexivity.
Qed.
