(* Model_BlockCodec.v — executable model of the version-2 block codec
     block/blockv2.go          V2HeaderFormat / V2BodyFormat with their RLPEncodeSelf / RLPDecodeSelf,
                               blockV2._headerFormat, _bodyFormat, ID, MarshalHeader, MarshalBody, Marshal
     block/handlerv2.go        blockV2Handler.NewBlockDataFromReader (newTransactionListFromBSS, the
                               hash comparisons, newProposer)
     block/blockdatafactory.go blockDataFactory.NewBlockDataFromReader, block/version.go PeekVersion /
                               ReadVersion (io.ReadSeeker path)
   over the RLP model of property C23 (Model_Rlp: enc / dec, nested limit readers).
   No proofs in this file (Proofs_BlockCodec.v).

   What is outside the block package is a Section variable:
     H             crypto.SHA3Sum256
     list_root     TransactionList.Hash of the list built from the (canonical) transaction
                   bytes: the trie root of properties C17/C22; None = nil (empty list)
     tx_parse      ServiceManager.TransactionFromBytes followed by Transaction.Bytes:
                   None = error, Some c = the canonical bytes of the parsed transaction
     votes_parse   Chain.CommitVoteSetDecoder followed by CommitVoteSet.Bytes: None = nil set
     digest_filter btp.NewDigestFromBytes followed by NetworkSectionFilter().Bytes():
                   None = error, Some f = the filter bytes (None = nil)
     result_btp    service.BTPDigestHashFromResult: None = error, Some h = the BTPData field
     bloom_norm    txresult.NewLogsBloomFromCompressed followed by CompressedBytes (LZW: C25)
   Go's nil and empty byte slices are kept apart ([option bytes]); bytes.Equal does not
   tell them apart ([beq]). *)
From Goloop Require Import lib.Bytes Model_Address Model_Rlp.
Open Scope N_scope.

Definition flat (o : option bytes) : bytes := match o with Some b => b | None => [] end.
(* bytes.Equal *)
Definition beq (a b : option bytes) : bool := bytes_eqb (flat a) (flat b).

(* ------------------------------------------------------------------------- *)
(* the two format structs                                                     *)
(* ------------------------------------------------------------------------- *)

Record hfmt := {
  hf_version : Z;
  hf_height : Z;
  hf_timestamp : Z;
  hf_proposer : option bytes;
  hf_prev : option bytes;
  hf_votes_hash : option bytes;
  hf_next_validators_hash : option bytes;
  hf_patch_hash : option bytes;
  hf_normal_hash : option bytes;
  hf_logs_bloom : option bytes;
  hf_result : option bytes;
  hf_ns_filter : option bytes
}.

Record bfmt := {
  bf_patch : option (list (option bytes));     (* [][]byte: nil slice / elements *)
  bf_normal : option (list (option bytes));
  bf_votes : option bytes;
  bf_digest : option bytes
}.

(* V2HeaderFormat.RLPEncodeSelf: EncodeListOf of 11 fields, 12 when NSFilter is not nil *)
Definition hfmt_fields (h : hfmt) : list value :=
  [VInt (hf_version h); VInt (hf_height h); VInt (hf_timestamp h);
   VBytes (hf_proposer h); VBytes (hf_prev h); VBytes (hf_votes_hash h);
   VBytes (hf_next_validators_hash h); VBytes (hf_patch_hash h); VBytes (hf_normal_hash h);
   VBytes (hf_logs_bloom h); VBytes (hf_result h)]
  ++ match hf_ns_filter h with None => [] | Some f => [VBytes (Some f)] end.
Definition encode_hfmt (h : hfmt) : bytes := enc (VStruct (hfmt_fields h)).

Definition bss_value (l : option (list (option bytes))) : value :=
  VList (option_map (map VBytes) l).

(* V2BodyFormat.RLPEncodeSelf: 3 fields, 4 when BTPDigest is not nil *)
Definition bfmt_fields (b : bfmt) : list value :=
  [bss_value (bf_patch b); bss_value (bf_normal b); VBytes (bf_votes b)]
  ++ match bf_digest b with None => [] | Some d => [VBytes (Some d)] end.
Definition encode_bfmt (b : bfmt) : bytes := enc (VStruct (bfmt_fields b)).

(* ------------------------------------------------------------------------- *)
(* Decoder.DecodeMulti: decodeNullable of each object in turn                  *)
(* ------------------------------------------------------------------------- *)

Inductive mres :=
| MDone (l : list value) (s : st)     (* all objects decoded: (len(objs), nil) *)
| MEof (l : list value)               (* io.EOF at index length l: (length l, io.EOF) *)
| MErr.                               (* any other error *)

Definition mcons (x : value) (r : mres) : mres :=
  match r with
  | MDone l s => MDone (x :: l) s
  | MEof l => MEof (x :: l)
  | MErr => MErr
  end.

Fixpoint dec_multi (ts : list ty) (sh : bool) (mx : N) (v : bytes) (p : N) : mres :=
  match ts with
  | [] => MDone [] (v, p)
  | t :: ts' =>
      match dec t sh mx v p with
      | ROk x (v', p') => mcons x (dec_multi ts' sh mx v' p')
      | RNil (v', p') => mcons (zero t) (dec_multi ts' sh mx v' p')   (* decodeNullable *)
      | REof _ => MEof []
      | RErr => MErr
      | RFuel => MErr
      end
  end.

(* rlpCodec.NewDecoder on an io.Reader: maxSB = MaxSizeForBytes *)
Definition stream_mx : N := 1000000.

(* codec.Unmarshal(r, &x) for a DecodeSelfer of the shape
      d2 := d.DecodeList(); cnt, err := d2.DecodeMulti(fields...);
      if cnt == len(fields)-1 && err == io.EOF { last = nil; return nil }; return err
   followed by tryCustom's d.flush() (Close of the list reader: drains it, fails when the
   declared size exceeds the stream).  v = everything the stream can still deliver.
   Some (values, remaining stream) / None = error. *)
Definition dec_self_list (ts : list ty) (v : bytes) : option (list value * bytes) :=
  match read_list false v with
  | HOk sz r =>
      let cv := child_view sz r in
      let csh := child_short sz r in
      let cmx := N.min stream_mx sz in
      match dec_multi ts csh cmx cv 0 with
      | MDone l _ => if csh then None else Some (l, after_child sz r)
      | MEof l =>
          if Nat.eqb (S (length l)) (length ts)
          then (if csh then None else Some (l, after_child sz r))
          else None
      | MErr => None
      end
  | _ => None
  end.

Definition hdr_tys : list ty :=
  [TInt 64; TInt 64; TInt 64; TBytes; TBytes; TBytes; TBytes; TBytes; TBytes; TBytes; TBytes; TBytes].
Definition body_tys : list ty := [TList TBytes; TList TBytes; TBytes; TBytes].

Definition hfmt_of_values (l : list value) : option hfmt :=
  match l with
  | VInt a :: VInt b :: VInt c :: VBytes d :: VBytes e :: VBytes f :: VBytes g :: VBytes h
    :: VBytes i :: VBytes j :: VBytes k :: tl =>
      match tl with
      | [] => Some (Build_hfmt a b c d e f g h i j k None)
      | [VBytes n] => Some (Build_hfmt a b c d e f g h i j k n)
      | _ => None
      end
  | _ => None
  end.

Fixpoint bss_of_values (l : list value) : option (list (option bytes)) :=
  match l with
  | [] => Some []
  | VBytes b :: r => option_map (cons b) (bss_of_values r)
  | _ => None
  end.
Definition bss_of_value (x : value) : option (option (list (option bytes))) :=
  match x with
  | VList None => Some None
  | VList (Some l) => option_map Some (bss_of_values l)
  | _ => None
  end.

Definition bfmt_of_values (l : list value) : option bfmt :=
  match l with
  | p :: n :: VBytes v :: tl =>
      match bss_of_value p, bss_of_value n with
      | Some p', Some n' =>
          match tl with
          | [] => Some (Build_bfmt p' n' v None)
          | [VBytes d] => Some (Build_bfmt p' n' v d)
          | _ => None
          end
      | _, _ => None
      end
  | _ => None
  end.

(* v2Codec.Unmarshal(r, &headerFormat) / (r, &bodyFormat) *)
Definition dec_hfmt (v : bytes) : option (hfmt * bytes) :=
  match dec_self_list hdr_tys v with
  | Some (l, r) => option_map (fun h => (h, r)) (hfmt_of_values l)
  | None => None
  end.
Definition dec_bfmt (v : bytes) : option (bfmt * bytes) :=
  match dec_self_list body_tys v with
  | Some (l, r) => option_map (fun b => (b, r)) (bfmt_of_values l)
  | None => None
  end.

(* block.ReadVersion on a seekable reader (PeekVersion seeks back afterwards):
   DecodeList, then Decode(&version) — not nullable *)
Definition peek_version (v : bytes) : option Z :=
  match read_list false v with
  | HOk sz r =>
      match dec (TInt 64) (child_short sz r) (N.min stream_mx sz) (child_view sz r) 0 with
      | ROk (VInt z) _ => Some z
      | _ => None
      end
  | _ => None
  end.

(* newProposer and, on the way out, Address.Bytes *)
Definition norm_proposer (o : option bytes) : option (option bytes) :=
  match o with
  | None => Some None
  | Some b => option_map (fun a => Some (to_bytes a)) (Model_Address.of_bytes b)
  end.

(* BitSetFilterFromBytes(...).Bytes(): a filter without bytes is nil *)
Definition norm_filter (o : option bytes) : option bytes :=
  match o with
  | Some [] => None
  | _ => o
  end.

Fixpoint map_opt {A B} (f : A -> option B) (l : list A) : option (list B) :=
  match l with
  | [] => Some []
  | x :: r =>
      match f x, map_opt f r with
      | Some y, Some r' => Some (y :: r')
      | _, _ => None
      end
  end.

(* ------------------------------------------------------------------------- *)
(* the block                                                                  *)
(* ------------------------------------------------------------------------- *)

(* what a blockV2 is made of, as seen through module.BlockData *)
Record block := {
  b_height : Z;
  b_timestamp : Z;
  b_proposer : option bytes;             (* Proposer().Bytes(), None = no proposer *)
  b_prev : option bytes;
  b_logs_bloom : bytes;                  (* LogsBloom().CompressedBytes() *)
  b_result : option bytes;
  b_patch : list bytes;                  (* Bytes() of each patch transaction *)
  b_normal : list bytes;
  b_next_validators_hash : option bytes;
  b_votes : bytes;                       (* Votes().Bytes() *)
  b_ns_filter : option bytes;            (* NetworkSectionFilter().Bytes() *)
  b_digest : option bytes                (* BTPDigest().Bytes() *)
}.

Section Codec.
  Variable H : bytes -> bytes.
  Variable list_root : list bytes -> option bytes.
  Variable tx_parse : bytes -> option bytes.
  Variable votes_parse : option bytes -> option bytes.
  Variable digest_filter : bytes -> option (option bytes).
  Variable result_btp : option bytes -> option (option bytes).
  Variable bloom_norm : option bytes -> bytes.

  (* blockV2._headerFormat *)
  Definition header_of (b : block) : hfmt :=
    {| hf_version := 2;
       hf_height := b_height b;
       hf_timestamp := b_timestamp b;
       hf_proposer := b_proposer b;
       hf_prev := b_prev b;
       hf_votes_hash := Some (H (b_votes b));
       hf_next_validators_hash := b_next_validators_hash b;
       hf_patch_hash := list_root (b_patch b);
       hf_normal_hash := list_root (b_normal b);
       hf_logs_bloom := Some (b_logs_bloom b);
       hf_result := b_result b;
       hf_ns_filter := b_ns_filter b |}.

  (* bssFromTransactionList: appends to a nil slice *)
  Definition bss_of (l : list bytes) : option (list (option bytes)) :=
    match l with [] => None | _ => Some (map Some l) end.

  (* blockV2._bodyFormat *)
  Definition body_of (b : block) : bfmt :=
    {| bf_patch := bss_of (b_patch b);
       bf_normal := bss_of (b_normal b);
       bf_votes := Some (b_votes b);
       bf_digest := b_digest b |}.

  (* MarshalHeader, MarshalBody, Marshal, ID *)
  Definition encode_header (b : block) : bytes := encode_hfmt (header_of b).
  Definition encode_body (b : block) : bytes := encode_bfmt (body_of b).
  Definition encode (b : block) : bytes := encode_header b ++ encode_body b.
  Definition block_id (b : block) : bytes := H (encode_header b).

  (* newTransactionListFromBSS: every element must parse *)
  Definition parse_txs (l : option (list (option bytes))) : option (list bytes) :=
    match l with
    | None => Some []
    | Some l' => map_opt (fun o => tx_parse (flat o)) l'
    end.

  (* btp.NewDigestFromBytes: (Hash(), NetworkSectionFilter().Bytes()) *)
  Definition digest_info (d : option bytes) : option (option bytes * option bytes) :=
    match d with
    | None => Some (None, None)
    | Some x =>
        match digest_filter x with
        | None => None
        | Some f => Some (Some (H x), f)
        end
    end.

  (* blockV2Handler.NewBlockDataFromReader after the two Unmarshal calls *)
  Definition build (h : hfmt) (bf : bfmt) : option block :=
    match parse_txs (bf_patch bf) with
    | None => None
    | Some patches =>
    if negb (beq (list_root patches) (hf_patch_hash h)) then None else
    match parse_txs (bf_normal bf) with
    | None => None
    | Some normals =>
    if negb (beq (list_root normals) (hf_normal_hash h)) then None else
    match votes_parse (bf_votes bf) with
    | None => None
    | Some votes =>
    if negb (beq (Some (H votes)) (hf_votes_hash h)) then None else
    match digest_info (bf_digest bf) with
    | None => None
    | Some (dh, filter) =>
    match result_btp (hf_result h) with
    | None => None
    | Some rh =>
    if negb (beq rh dh) then None else
    if negb (beq (hf_ns_filter h) filter) then None else
    match norm_proposer (hf_proposer h) with
    | None => None
    | Some prop =>
        Some {| b_height := hf_height h;
                b_timestamp := hf_timestamp h;
                b_proposer := prop;
                b_prev := hf_prev h;
                b_logs_bloom := bloom_norm (hf_logs_bloom h);
                b_result := hf_result h;
                b_patch := patches;
                b_normal := normals;
                b_next_validators_hash := hf_next_validators_hash h;
                b_votes := votes;
                b_ns_filter := norm_filter (hf_ns_filter h);
                b_digest := bf_digest bf |}
    end end end end end end.

  (* blockDataFactory.NewBlockDataFromReader with the single version-2 handler:
     Some (block, what is left in the reader) / None = error.  Nothing checks that the
     reader is exhausted. *)
  Definition decode (bs : bytes) : option (block * bytes) :=
    match peek_version bs with
    | Some 2%Z =>
        match dec_hfmt bs with
        | Some (h, r1) =>
            match dec_bfmt r1 with
            | Some (bf, r2) => option_map (fun b => (b, r2)) (build h bf)
            | None => None
            end
        | None => None
        end
    | _ => None
    end.
End Codec.

(* ------------------------------------------------------------------------- *)
(* decidable equality (used by the run file)                                  *)
(* ------------------------------------------------------------------------- *)

Fixpoint bytes_list_eqb (a b : list bytes) : bool :=
  match a, b with
  | [], [] => true
  | x :: a', y :: b' => bytes_eqb x y && bytes_list_eqb a' b'
  | _, _ => false
  end.

Definition block_eqb (a b : block) : bool :=
  (b_height a =? b_height b)%Z && (b_timestamp a =? b_timestamp b)%Z &&
  opt_bytes_eqb (b_proposer a) (b_proposer b) && opt_bytes_eqb (b_prev a) (b_prev b) &&
  bytes_eqb (b_logs_bloom a) (b_logs_bloom b) && opt_bytes_eqb (b_result a) (b_result b) &&
  bytes_list_eqb (b_patch a) (b_patch b) && bytes_list_eqb (b_normal a) (b_normal b) &&
  opt_bytes_eqb (b_next_validators_hash a) (b_next_validators_hash b) &&
  bytes_eqb (b_votes a) (b_votes b) && opt_bytes_eqb (b_ns_filter a) (b_ns_filter b) &&
  opt_bytes_eqb (b_digest a) (b_digest b).
