(* Model_Wal.v — executable model of consensus/wal.go (walWriter, walReader) and
   of the recovery pattern of its callers in consensus/consensus.go
   (applyRoundWAL / applyLockWAL / applyCommitWAL followed by OpenForWrite).

   disk    : the segment files <id>_<n> as (index, bytes), kept in ascending
             index order (readWALInfo's min/max scan = first/last element);
   writer  : closed segments + the tail segment + bufio buffer (4096 bytes) +
             the length of the tail that is known durable (last fsync);
   crash   : keeps every synced byte and a prefix of the written-but-unsynced
             bytes of the tail file; the bufio buffer is lost;
   recover : ReadBytes loop over the MultiReader concatenation of all segments,
             CloseAndRepair on UnexpectedEOF / Corrupted, OpenWALForWrite on the
             highest remaining index.

   The checksum is a Section variable.  No proofs here (Proofs_Wal.v). *)
From Goloop Require Import lib.Bytes.
Open Scope N_scope.

Definition seg := (N * bytes)%type.          (* segment index, content *)
Definition disk := list seg.

Inductive rerr := REof | RUnexpected | RCorrupt | RFuel.
Inductive rres := ROk (payload rest : bytes) | RErr (e : rerr).

Inductive op :=
| Append (p : bytes)      (* WriteBytes *)
| Flush                   (* first half of Sync: bufio flushed into the file, fsync not
                             completed — a crash in the middle of Sync is Flush; Crash k *)
| Sync                    (* Sync: flush + fsync *)
| Shift                   (* Shift: sync, close tail, open tail+1 *)
| Crash (k : nat)         (* machine crash: k unsynced bytes of the tail survive *)
| Recover.                (* (Close if running;) read all, repair, reopen for append *)

Record state := {
  segs   : disk;          (* closed segments, ascending *)
  tidx   : N;             (* walWriter.tailIdx *)
  tail   : bytes;         (* content of the tail file as written (page cache view) *)
  buf    : bytes;         (* bufio.Writer buffer: accepted, not yet written *)
  synced : nat;           (* length of the tail file at the last fsync *)
  up     : bool           (* writer open (true) / machine down after a crash (false) *)
}.

Definition disk_of (st : state) : disk := segs st ++ [(tidx st, tail st)].

(* OpenWALForWrite in an empty directory: tailIdx = 0, creates <id>_0 *)
Definition init : state :=
  {| segs := []; tidx := 0; tail := []; buf := []; synced := 0%nat; up := true |}.

(* ---------- bufio.Writer.Write with a 4096-byte buffer ----------
   returns (bytes written through to the file, new buffer content):
     len p <= available           : copy into the buffer (a buffer that becomes
                                    exactly full is NOT flushed);
     buffer empty, p larger       : p goes directly to the file;
     otherwise                    : fill the buffer, flush it, then the rest is
                                    either copied (<= 4096) or written directly. *)
Definition bufsize : nat := 4096.

Definition bufio_write (b p : bytes) : bytes * bytes :=
  let avail := (bufsize - length b)%nat in
  if (length p <=? avail)%nat then ([], b ++ p)
  else match b with
       | [] => (p, [])
       | _ => let p1 := firstn avail p in
              let p2 := skipn avail p in
              if (length p2 <=? bufsize)%nat then (b ++ p1, p2) else (b ++ p1 ++ p2, [])
       end.

(* ---------- disk helpers ---------- *)
Definition stream (d : disk) : bytes := concat (map snd d).        (* io.MultiReader *)
Definition file_sizes (d : disk) : list N := map (fun sb => N.of_nat (length (snd sb))) d.
Definition head_idx (d : disk) : option N := match d with [] => None | (i, _) :: _ => Some i end.
Fixpoint split_last (d : disk) : option (disk * seg) :=
  match d with
  | [] => None
  | x :: r => match split_last r with
              | None => Some ([], x)
              | Some (r', l) => Some (x :: r', l)
              end
  end.

Definition truncate_file (d : disk) (idx n : N) : disk :=        (* os.Truncate(fileFor(id, idx), n) *)
  map (fun sb => if fst sb =? idx then (fst sb, firstn (N.to_nat n) (snd sb)) else sb) d.
(* for i := idx+1; i <= tailIdx; i++ { os.Remove(fileFor(id, i)) } *)
Definition remove_after (d : disk) (idx tl : N) : disk :=
  filter (fun sb => negb ((idx <? fst sb) && (fst sb <=? tl))) d.
(* pre-fix 2fcca30: the loop removed fileFor(id, idx) — the segment just kept — instead *)
Definition remove_wrong (d : disk) (idx tl : N) : disk :=
  if idx <? tl then filter (fun sb => negb (fst sb =? idx)) d else d.

Section Wal.
Variable crc : bytes -> N.                     (* crc32.Checksum(_, crc32c) *)

Definition crcw (p : bytes) : N := crc p mod 2 ^ 32.                 (* uint32 *)
Definition len32 (p : bytes) : N := N.of_nat (length p) mod 2 ^ 32.  (* uint32(payloadLen) *)
Definition be32 (v : N) : bytes := be_bytes 4 v.

(* walWriter.WriteBytes: frame = be32(crc) ++ be32(len) ++ payload *)
Definition frame (p : bytes) : bytes := be32 (crcw p) ++ be32 (len32 p) ++ p.
Definition frames (l : list bytes) : bytes := concat (map frame l).

(* ---------- walReader.ReadBytes on the remaining stream s ---------- *)
Definition read_one_gen (eofbug : bool) (s : bytes) : rres :=
  match s with
  | [] => RErr REof                                    (* ReadAtLeast read 0 bytes *)
  | _ =>
    if (length s <? 8)%nat then RErr RUnexpected       (* 1..7 header bytes *)
    else
      let c := be_val (firstn 4 s) in
      let n := be_val (firstn 4 (skipn 4 s)) in
      let rest := skipn 8 s in
      if N.of_nat (length rest) <? n then
        (* fewer than n payload bytes.  ReadAtLeast gives io.EOF when it read
           nothing and ErrUnexpectedEOF otherwise; since 9b02e11 the former is
           converted to ErrUnexpectedEOF *)
        match rest with
        | [] => RErr (if eofbug then REof else RUnexpected)
        | _ => RErr RUnexpected
        end
      else
        let p := firstn (N.to_nat n) rest in
        if crcw p =? c then ROk p (skipn (N.to_nat n) rest) else RErr RCorrupt
  end.

(* the caller's loop; third component = walReader.validOffset
   (+= int64(headerLen + payloadLen), the sum being a uint32) *)
Fixpoint read_all_gen (eofbug : bool) (fuel : nat) (s : bytes) : list bytes * rerr * N :=
  match fuel with
  | O => ([], RFuel, 0)
  | S f =>
    match read_one_gen eofbug s with
    | RErr e => ([], e, 0)
    | ROk p rest =>
      let '(ps, e, off) := read_all_gen eofbug f rest in
      (p :: ps, e, (8 + N.of_nat (length p)) mod 2 ^ 32 + off)
    end
  end.

Definition read_one := read_one_gen false.
Definition read_all := read_all_gen false.
Definition read_all_prefix_eofbug := read_all_gen true.      (* behaviour before 9b02e11 *)

Definition read_stream_gen (eofbug : bool) (s : bytes) := read_all_gen eofbug (S (length s)) s.
Definition read_stream := read_stream_gen false.

(* ---------- walReader.CloseAndRepair ---------- *)
Fixpoint repair_loop (wrongfile : bool) (d : disk) (tl left idx : N) (sizes : list N) : disk :=
  match sizes with
  | [] => d
  | s :: r =>
    if left <=? s then
      let d1 := if left <? s then truncate_file d idx left else d in
      if wrongfile then remove_wrong d1 idx tl else remove_after d1 idx tl
    else repair_loop wrongfile d tl (left - s) (idx + 1) r
  end.

Definition repair_gen (wrongfile : bool) (d : disk) (voff : N) : disk :=
  match head_idx d, split_last d with
  | Some h, Some (_, (t, _)) => repair_loop wrongfile d t voff h (file_sizes d)
  | _, _ => d
  end.
Definition repair := repair_gen false.
Definition repair_wrongfile := repair_gen true.               (* behaviour before 2fcca30 *)

(* applyXxxWAL: read until error; EOF = clean end; UnexpectedEOF/Corrupted => repair *)
Definition recover_disk_gen (eofbug wrongfile : bool) (d : disk) : list bytes * rerr * disk :=
  let '(recs, e, voff) := read_stream_gen eofbug (stream d) in
  (recs, e, match e with
            | RUnexpected | RCorrupt => repair_gen wrongfile d voff
            | REof | RFuel => d
            end).
Definition recover_disk := recover_disk_gen false false.

(* ---------- writer operations ---------- *)
Definition do_append (st : state) (p : bytes) : state :=
  let '(out, b') := bufio_write (buf st) (frame p) in
  {| segs := segs st; tidx := tidx st; tail := tail st ++ out; buf := b';
     synced := synced st; up := true |}.

Definition do_flush (st : state) : state :=             (* buf.Flush() *)
  {| segs := segs st; tidx := tidx st; tail := tail st ++ buf st; buf := [];
     synced := synced st; up := true |}.

Definition do_sync (st : state) : state :=              (* buf.Flush(); tail.Sync() *)
  {| segs := segs st; tidx := tidx st; tail := tail st ++ buf st; buf := [];
     synced := length (tail st ++ buf st); up := true |}.

Definition do_shift (st : state) : state :=
  let s1 := do_sync st in
  {| segs := segs s1 ++ [(tidx s1, tail s1)]; tidx := tidx s1 + 1; tail := []; buf := [];
     synced := 0%nat; up := true |}.

Definition do_crash (st : state) (k : nat) : state :=
  {| segs := segs st; tidx := tidx st; tail := firstn (synced st + k) (tail st); buf := [];
     synced := synced st; up := false |}.

(* OpenWALForWrite after the read: append to the highest existing index *)
Definition reopen (d : disk) : state :=
  match split_last d with
  | Some (ss, (i, b)) => {| segs := ss; tidx := i; tail := b; buf := []; synced := length b; up := true |}
  | None => init
  end.

Definition do_recover_gen (eofbug wrongfile : bool) (st : state) : state * (list bytes * rerr) :=
  let st0 := if up st then do_sync st else st in        (* graceful restart: Close() syncs *)
  let '(recs, e, d') := recover_disk_gen eofbug wrongfile (disk_of st0) in
  (reopen d', (recs, e)).
Definition do_recover := do_recover_gen false false.

Definition step_gen (eofbug wrongfile : bool) (st : state) (o : op) : state * option (list bytes * rerr) :=
  match o with
  | Append p => (if up st then do_append st p else st, None)
  | Flush => (if up st then do_flush st else st, None)
  | Sync => (if up st then do_sync st else st, None)
  | Shift => (if up st then do_shift st else st, None)
  | Crash k => (if up st then do_crash st k else st, None)
  | Recover => let '(st', out) := do_recover_gen eofbug wrongfile st in (st', Some out)
  end.
Definition step := step_gen false false.

(* run a history, collecting for every Recover what it returned and the files it left *)
Fixpoint exec_gen (eofbug wrongfile : bool) (st : state) (h : list op)
  : state * list (list bytes * rerr * disk) :=
  match h with
  | [] => (st, [])
  | o :: r =>
    let '(st', out) := step_gen eofbug wrongfile st o in
    let '(stf, outs) := exec_gen eofbug wrongfile st' r in
    (stf, match out with Some (recs, e) => (recs, e, disk_of st') :: outs | None => outs end)
  end.
Definition exec := exec_gen false false.

(* ---------- specification bookkeeping (what the property talks about) ----------
   logl : the logical log = records appended, in order, that have not been
          discarded by a recovery (a recovery that returns a prefix discards the
          rest for good; later appends follow the returned prefix);
   dur  : how many leading records of logl were covered by a completed
          Sync / Shift / Close or were returned by a recovery. *)
Record ghost := { logl : list bytes; dur : nat }.
Definition ginit : ghost := {| logl := []; dur := 0%nat |}.
Definition durable (g : ghost) : list bytes := firstn (dur g) (logl g).
(* what must survive a Recover issued now: a running writer is closed first *)
Definition must_survive (st : state) (g : ghost) : list bytes :=
  if up st then logl g else durable g.

Definition gstep (sg : state * ghost) (o : op) : state * ghost :=
  let '(st, g) := sg in
  let '(st', out) := step st o in
  (st', match o, out with
        | Append p, _ => if up st then {| logl := logl g ++ [p]; dur := dur g |} else g
        | Sync, _ | Shift, _ => if up st then {| logl := logl g; dur := length (logl g) |} else g
        | Crash _, _ | Flush, _ => g
        | Recover, Some (recs, _) => {| logl := recs; dur := length recs |}
        | Recover, None => g
        end).
Definition grun (sg : state * ghost) (h : list op) : state * ghost := fold_left gstep h sg.
Definition run (h : list op) : state * ghost := grun (init, ginit) h.

(* payloads for which uint32(len) and the uint32 sum headerLen+payloadLen are exact *)
Definition payload_ok (p : bytes) : Prop := N.of_nat (length p) + 8 < 2 ^ 32.
Definition op_ok (o : op) : Prop := match o with Append p => payload_ok p | _ => True end.
Definition hist_ok (h : list op) : Prop := Forall op_ok h.

End Wal.
