(* Model_TxPool.v — executable model of the proposer's transaction selection
   (service/transactionpool.go: TransactionPool.Candidate), of the balance /
   step pre-check it shares with block validation
   (service/transaction/transaction_v3.go: PreValidate) and of what a
   non-proposer does with a proposed transaction list
   (service/transition.go: ensureRecordTXIDsInLock + validateTxs).
   No proofs in this file.  Style: stdlib only.  The transaction-locator model
   of C11 (Model_Locator: window check, manager.Has, trackers) is imported, not
   repeated.

   Go name -> Coq name

     transactionV3.PreValidate(wc, update=true)     prevalidate (min_step, charge)
     TransactionTimestampThreshold(wc, group)       threshold
     TransactionPool.Candidate                      cand_loop, selected, candidate
         maxBytes <= 0 / maxCount <= 0 defaults     eff_bytes, eff_count
     ensureRecordTXIDsInLock (one group)            record_ids
     validateTxs                                    validate_loop
     doExecute, not-yet-validated branch            validate_block

   Representation.
   * A transaction is the record `tx`: its id (a number standing for the hash),
     its group (true = normal, false = patch: dataType "patch"), sender and
     recipient (account numbers), value, stepLimit, the number of bytes
     MeasureBytesOfData counts for its data field, its timestamp and the
     length of its serialised form.  All quantities are unbounded Z (big.Int
     and int64 in the code; nothing of the property is about width).
   * The world state a pre-check reads is a function account -> balance
     (an account that does not exist has balance 0 in the code as well) plus
     the fee parameters `fee` (step price, step cost "default", step cost
     "input").  The WORKING state is threaded through the loops exactly as the
     code threads the mutable WorldContext: a successful PreValidate(update =
     true) debits value + stepLimit*stepPrice from the sender and credits value
     to the recipient; a failing one changes nothing.
   * A pool is the list of its elements in iteration order (Front()..Next());
     an element carries the transaction and whether it was added directly
     (`e.ts != 0`).  How Add orders the list is not part of the property.
   * `verdict` is what Candidate decided for an element: it is observable on
     the implementation as (selected?, e.err class, removed from the pool?).
   * Result classes of validation: cOk, cExpired, cFuture (window), cDup
     (tracker.Add: DuplicateTx), cStep, cBalance (PreValidate), cState (tracker
     already used).  Version / network id / signature checks of validateTxs are
     outside the model: the pool admits only transactions that passed them
     (TransactionManager.VerifyTx), and they do not depend on the block.

   Not modelled: blocked accounts and CanAcceptTx of a callable recipient
   (PreValidate errors that need contract / account flags), the asynchronous
   removal goroutine (the model says WHICH elements are handed to
   dropTransactions), logging, metrics, the dropped-tx cache fed by
   AddDroppedTX (it only affects later Add calls), int overflow. *)
From Goloop Require Import lib.Bytes Model_Locator.
Open Scope Z_scope.

(* ---------- transactions, state ---------- *)

Record tx := { x_id : N; x_grp : bool;
               x_from : N; x_to : N;
               x_value : Z; x_step : Z; x_cnt : Z;
               x_ts : Z; x_size : Z }.

Record fee := { f_price : Z; f_default : Z; f_input : Z }.

Definition balances := N -> Z.

Definition bal_set (b : balances) (a : N) (v : Z) : balances :=
  fun x => if (x =? a)%N then v else b x.

(* result classes *)
Definition cOk : N := 0%N.
Definition cExpired : N := 1%N.   (* = range_check's Expired *)
Definition cFuture : N := 2%N.    (* = range_check's Future *)
Definition cDup : N := 3%N.
Definition cStep : N := 4%N.
Definition cBalance : N := 5%N.
Definition cState : N := 6%N.

(* ---------- PreValidate (transaction_v3.go) ---------- *)

(* StepsFor(default, 1) + StepsFor(input, cnt) *)
Definition min_step (f : fee) (t : tx) : Z := f_default f * 1 + f_input f * x_cnt t.

(* trans = stepLimit * stepPrice (+ value) *)
Definition charge (f : fee) (t : tx) : Z := x_step t * f_price f + x_value t.

(* the account states are shared objects: for from = to the credit reads the
   balance the debit has just written *)
Definition apply_tx (f : fee) (b : balances) (t : tx) : balances :=
  let b1 := bal_set b (x_from t) (b (x_from t) - charge f t) in
  bal_set b1 (x_to t) (b1 (x_to t) + x_value t).

Definition prevalidate (f : fee) (b : balances) (t : tx) : N * balances :=
  if x_grp t && (x_step t <? min_step f t) then (cStep, b)      (* not for dataType "patch" *)
  else if b (x_from t) <? charge f t then (cBalance, b)
  else (cOk, apply_tx f b t).

(* ---------- thresholds, limits ---------- *)

Definition default_th : Z := 300000000.   (* ConfigTXTimestampThresholdDefault, microseconds *)
Definition patch_th : Z := 60000000.      (* ConfigPatchTimestampThreshold *)

(* ms: the value of the system variable timestamp_threshold (milliseconds) *)
Definition threshold (g : bool) (ms : Z) : Z :=
  if g then (if ms * 1000 =? 0 then default_th else ms * 1000) else patch_th.

Definition eff_bytes (mb : Z) : Z := if mb <=? 0 then 1048576 else mb.   (* configDefaultMaxTxBytesInABlock *)
Definition eff_count (mc : Z) : Z := if mc <=? 0 then 1500 else mc.      (* configDefaultMaxTxCount *)

(* ---------- TransactionPool.Candidate ---------- *)

Record pelem := { p_tx : tx; p_direct : bool }.

Inductive verdict :=
| VSel                              (* appended to txs *)
| VExpired                          (* CheckTx: Expired -> e.err, dropped *)
| VFuture                           (* CheckTx: Future -> skipped, kept, no e.err *)
| VHas                              (* HasRecent -> e.err = AlreadyProcessed, dropped *)
| VPre (cls : N) (dropped : bool)   (* PreValidate failed -> e.err; dropped unless NotEnoughBalance on a direct tx *)
| VStop.                            (* the loop had ended (limits) or broke here (oversize) *)

(* the loop `for e := Front(); e != nil && txSize < maxBytes && len(txs) < maxCount; e = e.Next()` *)
Fixpoint cand_loop (m : manager) (f : fee) (bts th maxB maxC : Z)
         (pool : list pelem) (b : balances) (size cnt : Z) : list verdict :=
  match pool with
  | [] => []
  | e :: rest =>
      let t := p_tx e in
      if (size <? maxB) && (cnt <? maxC) then
        let w := range_check bts th (x_ts t) in
        if (w =? cExpired)%N then VExpired :: cand_loop m f bts th maxB maxC rest b size cnt
        else if negb (w =? cOk)%N then VFuture :: cand_loop m f bts th maxB maxC rest b size cnt
        else if manager_has m (x_grp t) (x_id t) (x_ts t)
        then VHas :: cand_loop m f bts th maxB maxC rest b size cnt
        else
          let '(c, b') := prevalidate f b t in
          if negb (c =? cOk)%N
          then VPre c (negb (c =? cBalance)%N || negb (p_direct e))
                 :: cand_loop m f bts th maxB maxC rest b size cnt
          else if size + x_size t >? maxB then map (fun _ => VStop) pool     (* break *)
          else VSel :: cand_loop m f bts th maxB maxC rest b' (size + x_size t) (cnt + 1)
      else map (fun _ => VStop) pool
  end.

Fixpoint selected (pool : list pelem) (vs : list verdict) : list tx :=
  match pool, vs with
  | e :: p, VSel :: v => p_tx e :: selected p v
  | _ :: p, _ :: v => selected p v
  | _, _ => []
  end.

(* the pool of group g, the world context of the proposed block (timestamp bts,
   configured threshold ms), the two limits *)
Definition cand_verdicts (m : manager) (f : fee) (g : bool) (ms bts maxB maxC : Z)
           (pool : list pelem) (b : balances) : list verdict :=
  cand_loop m f bts (threshold g ms) (eff_bytes maxB) (eff_count maxC) pool b 0 0.

Definition candidate (m : manager) (f : fee) (g : bool) (ms bts maxB maxC : Z)
           (pool : list pelem) (b : balances) : list tx :=
  selected pool (cand_verdicts m f g ms bts maxB maxC pool b).

(* ---------- validation by a non-proposer ---------- *)

(* ensureRecordTXIDsInLock for one group: the logger of the parent transition
   (tracker p) hands out a new logger for (block timestamp, threshold) and the
   list is added with force = false.  Result: the class of tracker.Add
   (0 ok, 1 DuplicateTx, 2 InvalidState); None: p does not exist *)
Definition record_ids (st : state) (p : nat) (bts th : Z) (txs : list tx) : option N :=
  match tracker_new st p bts th with
  | None => None
  | Some st1 =>
      match tracker_add st1 (length (s_trk st))
                        (map (fun t => (x_id t, x_ts t)) txs) false with
      | Some (_, _, cls) => Some cls
      | None => None
      end
  end.

(* validateTxs: window, then PreValidate(wc, true) on the shared world context *)
Fixpoint validate_loop (f : fee) (bts th : Z) (txs : list tx) (b : balances) : N :=
  match txs with
  | [] => cOk
  | t :: r =>
      let w := range_check bts th (x_ts t) in
      if negb (w =? cOk)%N then w
      else let '(c, b') := prevalidate f b t in
           if negb (c =? cOk)%N then c else validate_loop f bts th r b'
  end.

Definition validate_block (st : state) (p : nat) (f : fee) (g : bool) (ms bts : Z)
           (txs : list tx) (b : balances) : option N :=
  let th := threshold g ms in
  match record_ids st p bts th txs with
  | None => None
  | Some cls =>
      if (cls =? 0)%N then Some (validate_loop f bts th txs b)
      else if (cls =? 1)%N then Some cDup
      else Some cState
  end.

(* ---------- what the theorems talk about ---------- *)

(* the working balance of account a after the transactions `pre` were selected,
   as a closed formula: initial balance, minus what a was charged as a sender,
   plus the values a received *)
Fixpoint debits (f : fee) (pre : list tx) (a : N) : Z :=
  match pre with
  | [] => 0
  | u :: r => (if (x_from u =? a)%N then charge f u else 0) + debits f r a
  end.
Fixpoint credits (pre : list tx) (a : N) : Z :=
  match pre with
  | [] => 0
  | u :: r => (if (x_to u =? a)%N then x_value u else 0) + credits r a
  end.
Definition working (f : fee) (b : balances) (pre : list tx) (a : N) : Z :=
  b a - debits f pre a + credits pre a.

Fixpoint total_size (l : list tx) : Z :=
  match l with [] => 0 | t :: r => x_size t + total_size r end.

(* order: l1 is obtained from l2 by deleting elements *)
Inductive subseq {A} : list A -> list A -> Prop :=
| sub_nil : subseq [] []
| sub_skip x l1 l2 : subseq l1 l2 -> subseq l1 (x :: l2)
| sub_take x l1 l2 : subseq l1 l2 -> subseq (x :: l1) (x :: l2).
