(* Proofs_K_psidAppData.v -- consensus psidAppData (nid<<16 | ntsVoteCount)
   Split out of Proofs_Kernels.v: this file imports ONLY the generated kernel(s)
   gen/K_psidAppData.v, so an edit of another kernel's Go source cannot break it.
   Style: stdlib only; arithmetic closed by lia with the euclidean-division hook. *)
From Coq Require Import ZArith Bool String List Lia.
From Coq Require Import ZifyBool.
From Goloop Require Import lib.GoInt Proofs_K_tactics.
From Goloop.gen Require Import K_psidAppData.
Import ListNotations.
Local Open Scope Z_scope.

Ltac Zify.zify_post_hook ::= Z.to_euclidean_division_equations.

Lemma psidAppData_spec nid cnt :
  0 <= nid <= max_u32 -> 0 <= cnt <= max_u16 ->
  psidAppData nid cnt = nid * 65536 + cnt.
Proof.
  intros Hn Hc. unfold psidAppData.
  assert (Hs : Z.shiftl nid 16 = nid * 65536) by (rewrite shiftl_mul by lia; reflexivity).
  rewrite (wrap_u64_small (Z.shiftl nid 16)) by (rewrite Hs; lia).
  rewrite lor_shiftl_low by (change (2 ^ 16) with 65536; lia). reflexivity.
Qed.
