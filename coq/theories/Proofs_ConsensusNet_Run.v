(* Proofs_ConsensusNet_Run.v — the engine function [run] (every enterX / doSendVote
   / ReceiveVoteMessage of consensus.go) preserves the conjunction
     P s  :=  Inv s (C02 invariant) /\ InvD s (ghost decisions justified) /\ exists T, Sim s T
   i.e. every step of an engine of the network is a (possibly empty) sequence of
   actions of the abstract protocol whose guards hold on the soup.  Third
   induction over [run] after [run_inv] and [run_invD]; the case analysis is
   theirs, each primitive mutation additionally performs its abstract action
   (Proofs_ConsensusNet_Sim.v). *)
From Coq Require Import List ZArith NArith Bool Arith Lia.
From Goloop Require Import Model_ConsensusNode Proofs_ConsensusNode Proofs_ConsensusNode_C01
  Model_ConsensusNet Proofs_ConsensusNet_Link Proofs_ConsensusNet_LockWAL Proofs_ConsensusNet_Sim.
Import ListNotations.
Open Scope Z_scope.

Set Implicit Arguments.

Section RunP.
  Variable n : nat.
  Variable byz : nat -> bool.
  Variable blocks : list blk.
  Variable i : nat.
  Hypothesis Hi : (i < n)%nat.
  Hypothesis Hbyz : byz i = false.
  Local Notation own := (Z.of_nat i).
  Variable E : list vote.
  Hypothesis E_ok : forall v, In v E -> 0 <= v_from v < Z.of_nat n /\ 0 <= v_round v /\ v_from v <> own.
  Variable T0 : TM.state.
  Variable K0 : vote -> Prop.
  Hypothesis blocks_ok : forall x, In x blocks -> (1 <= b_parts x)%N.

  Local Notation Sim := (Sim n byz blocks i E T0 K0).
  Local Notation known := (known i E).

  Record P (s : st) : Prop := {
    p_inv : Inv own s;
    p_invd : InvD n s;
    p_sim : exists T, Sim s T
  }.

  Lemma P_fuse s : P s -> fuse s = None.
  Proof. intros [_ _ [T H]]. apply (sm_fuse H). Qed.

  Lemma fuse_unblown s : fuse s = None -> unblown s.
  Proof. intro F. unfold unblown, blown. rewrite F. reflexivity. Qed.

  Lemma P_unblown s : P s -> unblown s.
  Proof. intro H. apply fuse_unblown, P_fuse; auto. Qed.

  Lemma P_same s s' : neutral s s' -> dsame s s' -> ssame s s' -> P s -> P s'.
  Proof.
    intros N D S [HI HD [T HS]]. constructor.
    - eapply Inv_neutral; eauto.
    - eapply InvD_dsame; eauto.
    - exists T. eapply Sim_ssame; eauto.
  Qed.

  Ltac ss_setter := ss_plain.

  Lemma P_set_timer x s : P s -> P (set_timer x s).
  Proof. apply P_same; [apply nt_set_timer, neutral_refl|apply ds_set_timer, dsame_refl|ss_setter]. Qed.
  Lemma P_set_pol x s : P s -> P (set_pol x s).
  Proof. apply P_same; [apply nt_set_pol, neutral_refl|apply ds_set_pol, dsame_refl|ss_setter]. Qed.
  Lemma P_set_bpm x s : P s -> P (set_bpm x s).
  Proof. apply P_same; [apply nt_set_bpm, neutral_refl|apply ds_set_bpm, dsame_refl|ss_setter]. Qed.
  Lemma P_set_commit_round x s : P s -> P (set_commit_round x s).
  Proof. apply P_same; [apply nt_set_commit_round, neutral_refl|apply ds_set_commit_round, dsame_refl|ss_setter]. Qed.
  Lemma P_set_commit_req x s : P s -> P (set_commit_req x s).
  Proof. apply P_same; [apply nt_set_commit_req, neutral_refl|apply ds_set_commit_req, dsame_refl|ss_setter]. Qed.

  Definition pq (o : out) : bool := quiet o && not_final o && sim_quiet o.

  Lemma P_emit o s : pq o = true -> P s -> P (emit o s).
  Proof.
    intros Q H. unfold pq in Q. apply andb_true_iff in Q as [Q Q3]. apply andb_true_iff in Q as [Q1 Q2].
    pose proof (P_fuse H) as F. revert H. apply P_same.
    - apply neutral_emit; auto.
    - apply ds_emit; auto. apply dsame_refl.
    - apply ssame_emit; auto.
  Qed.

  Lemma P_fill_from_cache b s : P s -> P (fill_from_cache blocks b s).
  Proof.
    apply P_same; [apply nt_fill_from_cache, neutral_refl|apply ds_fill_from_cache, dsame_refl|apply ssame_fill_from_cache].
  Qed.

  Lemma P_set_cur x s : stp s <> SCommit -> P s -> P (set_cur x s).
  Proof.
    intros N [HI HD [T HS]]. constructor.
    - eapply Inv_neutral; [apply nt_set_cur, neutral_refl|auto].
    - apply InvD_set_cur; auto.
    - exists T. eapply Sim_ssame; [|exact HS]. ss_setter.
  Qed.

  Lemma P_set_by_psid b s : stp s <> SCommit -> P s -> P (set_by_psid b s).
  Proof. intros N H. unfold set_by_psid. destruct (bps_id_is _ _); auto. apply P_set_cur; auto. Qed.

  Lemma P_set_status x s : x <> Running -> P s -> P (set_status x s).
  Proof.
    intros N [HI HD [T HS]]. constructor.
    - eapply Inv_down; [| | |exact HI]; cbn; auto.
    - eapply InvD_dsame; [apply ds_set_status, dsame_refl|auto].
    - exists T. apply Sim_set_status; auto.
  Qed.

  Lemma P_panic s : P s -> P (panic s).
  Proof. apply P_set_status. discriminate. Qed.

  Lemma P_new_step t s : plain_step t -> t <> SCommit -> P s -> P (new_step t s).
  Proof.
    intros Pt N [HI HD [T HS]]. constructor.
    - apply Inv_new_step; auto.
    - apply InvD_new_step; auto.
    - exists T. apply Sim_new_step; auto.
  Qed.

  Lemma P_new_round r s : round s < r -> P s -> P (new_round r s).
  Proof.
    intros L [HI HD [T HS]]. constructor.
    - apply Inv_new_round; auto.
    - apply InvD_new_round; auto.
    - exists T. apply Sim_new_round; auto.
  Qed.

  Lemma P_send_proposal b pol s :
    P s -> status_ s = Running -> prop_ok s -> P (send_proposal n blocks b pol s).
  Proof.
    intros H R K. pose proof (P_fuse H) as F. destruct H as [HI HD [T HS]]. constructor.
    - apply Inv_send_proposal; auto.
    - eapply InvD_dsame; [apply ds_send_proposal, dsame_refl|auto].
    - exists T. apply Sim_send_proposal; auto.
  Qed.

  Lemma P_set_prop_req s :
    P s ->
    (status_ s = Running -> stp s = SPropose /\ forall b p, ~ In (RProposal (round s) b p) (wal_all (wal_r s))) ->
    P (set_prop_req (Some (round s)) s).
  Proof.
    intros [HI HD [T HS]] K. constructor.
    - apply Inv_set_prop_req; auto.
    - eapply InvD_dsame; [apply ds_set_prop_req, dsame_refl|auto].
    - exists T. eapply Sim_ssame; [|exact HS]. ss_setter.
  Qed.

  Lemma P_clear_prop_req s : P s -> P (set_prop_req None s).
  Proof.
    intros [HI HD [T HS]]. constructor.
    - apply Inv_clear_prop_req; auto.
    - eapply InvD_dsame; [apply ds_set_prop_req, dsame_refl|auto].
    - exists T. eapply Sim_ssame; [|exact HS]. ss_setter.
  Qed.

  Lemma P_set_imp_req s r b :
    P s -> r = round s -> locked s = None ->
    (status_ s = Running ->
     (4 <= step_code (stp s))%N /\
     forall v, In (RVote v) (wal_all (wal_r s)) -> v_from v = own -> ~ (v_round v = round s /\ v_type v = Prevote)) ->
    P (set_imp_req (Some (r, b)) s).
  Proof.
    intros [HI HD [T HS]] Er L K. constructor.
    - apply Inv_set_imp_req; auto.
    - apply InvD_set_imp_req; auto.
    - exists T. eapply Sim_ssame; [|exact HS]. ss_setter.
  Qed.

  Lemma P_clear_imp_req s : P s -> P (set_imp_req None s).
  Proof.
    intros [HI HD [T HS]]. constructor.
    - apply Inv_clear_imp_req; auto.
    - apply InvD_clear_imp_req; auto.
    - exists T. eapply Sim_ssame; [|exact HS]. ss_setter.
  Qed.

  (* votes of the engine's own vote sets are known *)
  Lemma votes_for_known s T r t u : Sim s T -> In (Some u) (votes_for n s r t) -> known s u.
  Proof. intros H Hu. apply (sm_hvs H). eapply hvs_for_in; eauto. Qed.

  Lemma P_emit_rvl l s :
    (P s -> forall v, In v l -> known s v) -> P s -> P (emit (OWrite WRound (RVoteList l)) s).
  Proof.
    intros K H. specialize (K H). destruct H as [HI HD [T HS]]. constructor.
    - eapply Inv_neutral; [apply neutral_emit; reflexivity|auto].
    - eapply InvD_dsame; [apply ds_emit; [reflexivity|apply dsame_refl]|auto].
    - exists T. apply Sim_write_r; auto.
  Qed.

  Lemma vs_list_known s T r t v : Sim s T -> In v (vs_list (votes_for n s r t)) -> known s v.
  Proof. intros H Hv. apply vs_list_in in Hv as [k Hk]. eapply votes_for_known; eauto. eapply nth_error_In; eauto. Qed.

  (* lock: memory, ghost log, lock WAL (written and synced) *)
  Lemma P_lock_log s b x :
    P s -> status_ s = Running -> (5 < step_code (stp s))%N ->
    vs_over23 (votes_for n s (round s) Prevote) = Some (Some b) -> bps_id x = Some b ->
    P (write_lock_wal blocks (votes_for n s (round s) Prevote) b
         (set_lock (round s) x (glog_add (GLock (round s) b (votes_for n s (round s) Prevote)) s))).
  Proof.
    intros [HI HD [T HS]] R L O X. constructor.
    - eapply Inv_neutral; [apply nt_write_lock_wal, nt_set_lock, nt_glog_add, neutral_refl|auto].
    - apply InvD_write_lock_wal.
      + intros v Hv. eapply vs_list_type; [apply hvs_for_wf, (d_hvs HD)|exact Hv].
      + apply InvD_lock_here; auto.
    - eapply Sim_lock_log; eauto.
      all: try (apply quorum_of_over23; auto; apply hvs_for_wf, (d_hvs HD)).
      all: try (intros u Hu; eapply votes_for_known; eauto).
  Qed.

  Lemma P_unlock_on s r w ev :
    P s -> status_ s = Running -> ev = hvs_for n (hvs s) r Prevote ->
    (forall l, locked s = Some l -> gev_ok n (GUnlock (locked_round s) (p_id l) r w ev)) ->
    P (unlock_on r w ev s).
  Proof.
    intros [HI HD [T HS]] R -> G. constructor.
    - eapply Inv_neutral; [apply nt_unlock_on, neutral_refl|auto].
    - apply InvD_unlock_on; auto.
    - eapply Sim_unlock_on; eauto. intros u Hu. apply (sm_hvs HS). eapply hvs_for_in; eauto.
  Qed.

  Lemma P_unlock_here s r w ev :
    P s -> status_ s = Running -> r = round s -> ev = hvs_for n (hvs s) r Prevote -> vs_over23 ev = Some w ->
    (forall l, locked s = Some l -> w <> Some (p_id l)) ->
    P (unlock_on r w ev s).
  Proof.
    intros H R -> -> O NE. apply P_unlock_on; auto.
    pose proof (p_invd H) as HD.
    intros l Hl. cbn [gev_ok]. split; [|split; [|split]].
    - apply (d_lk HD). congruence.
    - apply NE; auto.
    - apply hvs_for_wf. apply (d_hvs HD).
    - apply find_some_over in O. destruct (hvs_for_wf (round s) Prevote (d_hvs HD)) as [Ln _]. rewrite Ln in O. exact O.
  Qed.

  Lemma P_unlock_prevote s r d ev :
    P s -> status_ s = Running -> ev = hvs_for n (hvs s) r Prevote ->
    Z.ltb (locked_round s) r && match locked s with Some l => negb (dec_eqb (Some (p_id l)) d) | None => false end = true ->
    vs_over23 ev = Some d ->
    P (unlock_on r d ev s).
  Proof.
    intros H R -> C O. apply P_unlock_on; auto. pose proof (p_invd H) as HD.
    apply andb_true_iff in C as [C1 C2]. apply Z.ltb_lt in C1.
    intros l Hl. rewrite Hl in C2. cbn [gev_ok]. split; [lia|split; [|split]].
    - intro Eq. subst d. rewrite dec_eqb_refl in C2. discriminate.
    - apply hvs_for_wf. apply (d_hvs HD).
    - apply find_some_over in O. destruct (hvs_for_wf r Prevote (d_hvs HD)) as [Ln _]. rewrite Ln in O. exact O.
  Qed.

  Lemma P_recv s v added h :
    P s -> 0 <= v_from v -> hvs_add n (hvs s) (Z.to_nat (v_from v)) v = (added, h) -> known s v ->
    P (set_hvs h s).
  Proof.
    intros [HI HD [T HS]] Rg Ha K.
    assert (Eh : h = snd (hvs_add n (hvs s) (Z.to_nat (v_from v)) v)) by (rewrite Ha; reflexivity).
    constructor.
    - eapply Inv_neutral; [apply nt_set_hvs, neutral_refl|auto].
    - apply InvD_set_hvs; auto. rewrite Eh. apply hvs_add_wf; [apply (d_hvs HD)|]. rewrite Z2Nat.id; auto.
    - exists T. apply Sim_set_hvs; auto. intros u Hu. rewrite Eh in Hu. apply hvs_add_in in Hu as [->|Hu]; auto.
      apply (sm_hvs HS); auto.
  Qed.

  Lemma P_send_vote s t d :
    P s -> status_ s = Running -> vote_ok own s t -> gev_ok n (GVote (round s) t d (lock_of s)) ->
    let s' := send3 (own_vote own s t d) (glog_add (GVote (round s) t d (lock_of s)) s) in
    P s' /\ known s' (own_vote own s t d).
  Proof.
    intros H R V G s'. pose proof (P_fuse H) as F. destruct H as [HI HD [T HS]].
    destruct (Sim_send3 Hi Hbyz E_ok d HS HI R V G) as [HS' K]. split; [|exact K].
    constructor; auto.
    - subst s'. change (own_vote own s t d) with (own_vote own (glog_add (GVote (round s) t d (lock_of s)) s) t d).
      apply Inv_send3;
        [ eapply Inv_neutral; [apply nt_glog_add, neutral_refl|auto] | exact R
        | intros _; eapply vote_ok_neutral; [apply nt_glog_add, neutral_refl|auto] ].
    - subst s'. unfold send3.
      eapply InvD_dsame; [apply ds_emit; [reflexivity|]; apply ds_emit; [reflexivity|]; apply ds_emit; [reflexivity|]; apply dsame_refl|].
      apply InvD_glog_add; auto.
  Qed.

  Lemma P_finalize s b : P s -> stp s = SCommit -> bps_id (cur s) = Some b -> P (emit (OFinalize b) s).
  Proof.
    intros [HI HD [T HS]] St Cu. constructor.
    - eapply Inv_neutral; [apply neutral_emit; reflexivity|auto].
    - apply InvD_emit_finalize; auto.
    - eapply Sim_finalize; eauto.
  Qed.

  (* enterCommit up to the point where the current part set is the committed one *)
  Lemma P_enter_commit s r b :
    P s -> status_ s = Running -> status_ (new_step SCommit s) = Running ->
    quorum_ev n r Precommit (Some b) (votes_for n s r Precommit) ->
    let s0 := new_step SCommit s in
    let s1 := set_commit_round r s0 in
    let s2 := glog_add (GCommit b r (votes_for n s1 r Precommit)) s1 in
    let s3 := emit (OWrite WCommit (RVoteList (vs_list (votes_for n s2 r Precommit)))) s2 in
    let s4 := emit (OSync WCommit) s3 in
    P (set_by_psid b s4).
  Proof.
    intros H R R' Q s0 s1 s2 s3 s4. pose proof (P_fuse H) as F. destruct H as [HI HD [T HS]].
    assert (E0 : s0 = set_stp SCommit (set_timer false s)) by (apply new_step_ok; auto).
    assert (F2 : fuse s2 = None) by (subst s2 s1; rewrite E0; cbn; auto).
    assert (V1 : votes_for n s1 r Precommit = votes_for n s r Precommit) by (subst s1; rewrite E0; reflexivity).
    constructor.
    - eapply Inv_neutral; [apply nt_set_by_psid, nt_emit; [reflexivity|]; apply nt_emit; [reflexivity|];
                           apply nt_glog_add, nt_set_commit_round, neutral_refl|].
      apply Inv_new_step; auto. split; discriminate.
    - apply (@InvD_enter_commit n s1 r b).
      + subst s1. eapply InvDw_dsame; [apply ds_set_commit_round, dsame_refl|]. apply InvDw_new_step_commit; auto.
      + rewrite V1. exact Q.
      + apply ds_emit; [reflexivity|]. apply ds_emit; [reflexivity|]. apply dsame_refl.
    - exists T.
      eapply Sim_ssame; [apply ssame_set_by_psid|].
      apply Sim_emit; [reflexivity|].
      assert (HS2 : Sim s2 T).
      { subst s2. apply Sim_glog_add.
        + cbn [gev_votes]. rewrite V1. intros u Hu.
          assert (K : known s u) by (eapply votes_for_known; eauto).
          destruct K as [K|[r0 [t0 [d0 [k0 [K ->]]]]]]; [left; auto|right]. exists r0, t0, d0, k0. split; auto.
          subst s1. rewrite E0. exact K.
        + subst s1. rewrite E0. eapply Sim_ssame; [|exact HS]. ss_setter. }
      apply Sim_write_c; auto. cbn [rec_sub]. intros v Hv. eapply vs_list_known; eauto.
  Qed.

  (* ------------------------------------------------------------------ the induction over [run] *)

  Definition preS (a : act) (s : st) : Prop :=
    match a with
    | ARecvVote v => known s v
    | _ => True
    end.

  Record PRE (a : act) (s : st) : Prop := {
    pre_c : pre own a s;
    pre_d : preD n a s;
    pre_s : preS a s
  }.

  Lemma fuse_new_step t s : fuse (new_step t s) = fuse s.
  Proof. unfold new_step. cbn. destruct (valid_transition _ _); reflexivity. Qed.

  Lemma P_import_request s b :
    P s -> status_ s = Running -> status_ (new_step SPrevote s) = Running ->
    locked (new_step SPrevote s) = None ->
    P (set_imp_req (Some (round (new_step SPrevote s), b))
         (emit (OImportReq b false false) (new_step SPrevote s))).
  Proof.
    intros H R R' L. pose proof (P_fuse H) as F. destruct H as [HI HD [T HS]]. constructor.
    - apply Inv_import_request; auto.
    - apply InvD_set_imp_req.
      + autorewrite with frame. reflexivity.
      + autorewrite with frame. exact L.
      + eapply InvD_dsame; [apply ds_emit; [reflexivity|apply dsame_refl]|].
        apply InvD_new_step; [split; discriminate|discriminate|auto].
    - exists T. eapply Sim_ssame; [|apply Sim_new_step; exact HS].
      eapply ssame_trans; [apply (@ssame_emit (OImportReq b false false) (new_step SPrevote s)); [rewrite fuse_new_step; exact F|reflexivity]|].
      ss_setter.
  Qed.

  Lemma P_set_cur_same x s : bps_id x = bps_id (cur s) -> P s -> P (set_cur x s).
  Proof.
    intros N [HI HD [T HS]]. constructor.
    - eapply Inv_neutral; [apply nt_set_cur, neutral_refl|auto].
    - eapply InvD_dsame; [apply ds_set_cur_same; [exact N|apply dsame_refl]|auto].
    - exists T. eapply Sim_ssame; [|exact HS]. ss_setter.
  Qed.

  Lemma P_add_part b idx s : P s -> P (snd (add_part blocks b idx s)).
  Proof.
    apply P_same; [apply nt_add_part, neutral_refl|apply ds_add_part, dsame_refl|apply ssame_add_part].
  Qed.

  Lemma P_new_step_commit_down s :
    P s -> status_ s = Running -> status_ (new_step SCommit s) <> Running -> P (new_step SCommit s).
  Proof.
    intros [HI HD [T HS]] R NR. constructor.
    - apply Inv_new_step; auto. split; discriminate.
    - apply InvD_panic_new_step_commit; auto.
    - exists T. apply Sim_new_step; auto.
  Qed.

  Variable delay : bool.

  Ltac plet_step :=
    lazymatch goal with
    | |- P (let x := ?v in @?b x) =>
        let y := fresh "s" in let E := fresh "E" in
        remember v as y eqn:E; change (P (b y)); cbv beta
    end.

  Ltac andb_hyp :=
    match goal with
    | H : _ && _ = true |- _ => apply andb_true_iff in H; destruct H
    end.

  Ltac ppeel :=
    first
      [ assumption
      | apply P_panic
      | (apply P_set_status; [discriminate|])
      | apply P_set_timer | apply P_set_pol | apply P_set_bpm | apply P_set_commit_round | apply P_set_commit_req
      | apply P_fill_from_cache
      | apply P_emit_rvl
      | (apply P_emit; [reflexivity|])
      | (apply P_new_step; [split; discriminate|discriminate|]) ].

  Ltac pcrunch IH :=
    repeat match goal with
      | |- P (write_lock_wal _ _ _ _) => fail 1
      | |- P (let x := ?v in _) => plet_step
      | E : ?g = (fun _ => _) |- P (?g _) => rewrite E; cbv beta
      | |- P (run _ _ _ _ _ _ _) => apply IH
      | |- P (new_round _ _) => apply P_new_round; [ apply Z.ltb_lt; repeat andb_hyp; eauto | ]
      | |- P (if ?c then _ else _) => destruct c eqn:?
      | |- P (match ?x with _ => _ end) => destruct x eqn:?
      | E : ?y = _ |- P ?y => rewrite E
      | |- PRE _ _ => solve [constructor; exact I]
      | _ => ppeel
      end.

  Ltac neut :=
    repeat first
      [ apply neutral_refl
      | apply nt_write_lock_wal
      | apply nt_emit; [ reflexivity | ]
      | apply nt_unlock_on | apply nt_glog_add | apply nt_unlock | apply nt_set_lock | apply nt_set_by_psid
      | apply nt_set_timer | apply nt_set_cur | apply nt_set_hvs | apply nt_set_pol ].

  (* vote_ok for a state that is a neutral modification of [new_step (mstep_of t) s] *)
  Ltac vote_ok_tac HI R t :=
    subst;
    match goal with
    | |- vote_ok _ ?s' _ =>
        match s' with
        | context [new_step ?st ?s0] =>
            let N := fresh "N" in
            assert (N : neutral (new_step st s0) s') by neut;
            eapply vote_ok_neutral; [ exact N | ];
            apply (@vote_ok_new_step own s0 t);
            [ exact HI | exact R | cbn [mstep_of]; assumption
            | cbn [mstep_of]; apply fuse_unblown; rewrite fuse_new_step; assumption ]
        end
    end.

  Ltac norm R :=
    subst;
    repeat match goal with
           | H : status_ (new_step ?t ?s) = Running |- _ => rewrite (new_step_ok t s R H) in *
           end;
    repeat (autorewrite with frame in *; cbn [stp round locked locked_round hvs imp_req cur status_ glog
              set_stp set_timer set_cur set_lock set_pol set_hvs set_bpm set_commit_round set_commit_req
              set_prop_req set_imp_req set_status set_glog glog_add unlock panic lock_of votes_for] in *).

  Lemma run_P : forall f a s, P s -> PRE a s -> P (run n own blocks delay f a s).
  Proof.
    induction f as [|f IH]; intros a s HP HPRE.
    { cbn. destruct (status_ s); auto. apply P_panic; auto. }
    cbn beta iota delta [run]. fold (run n own blocks delay). destruct (status_ s) eqn:R; auto.
    pose proof (p_inv HP) as HI. pose proof (p_invd HP) as HD. pose proof (P_fuse HP) as F.
    destruct a.
    - (* AEnterPropose *)
      pcrunch IH.
      + apply P_set_cur; [norm R; discriminate|].
        subst s2. apply P_send_proposal.
        * subst s1 s0. pcrunch IH.
        * subst s1. cbn. exact Heqs1.
        * subst s1 s0. eapply prop_ok_neutral; [apply nt_set_timer, neutral_refl|].
          assert (U1 : unblown (new_step SPropose s)) by (apply fuse_unblown; rewrite fuse_new_step; auto).
          apply (proj1 (prop_ok_new_step HI R Heqs1 U1)).
      + apply P_set_prop_req.
        * subst s2 s1 s0. pcrunch IH.
        * intros R2. subst s2 s1 s0.
          assert (N2 : neutral (new_step SPropose s) (emit (OProposeReq false) (set_timer true (new_step SPropose s)))).
          { apply nt_emit; [reflexivity|]. apply nt_set_timer, neutral_refl. }
          assert (U1 : unblown (new_step SPropose s)) by (apply fuse_unblown; rewrite fuse_new_step; auto).
          destruct (prop_ok_new_step HI R Heqs1 U1) as [[K1 [K2 K3]] T].
          rewrite (nt_stp N2), (nt_round N2). split; auto.
          intros b p Hb. eapply K2. apply (nt_recs N2); eauto.
    - (* AEnterPrevote *)
      pcrunch IH.
      all: try solve [ constructor;
             [ cbn [pre]; intros _; vote_ok_tac HI R Prevote
             | cbn [preD]; unfold lock_of; autorewrite with frame;
               match goal with H : locked _ = _ |- _ => rewrite H end; cbn; auto
             | exact I ] ].
      all: subst s0; apply P_import_request; auto.
    - (* AEnterPrevoteWait *)
      pcrunch IH.
      all: intros [_ _ [T' HS']] v Hv; subst; eapply vs_list_known; eauto.
    - (* AEnterPrecommit *)
      assert (HP0 : status_ (new_step SPrecommit s) = Running -> P (new_step SPrecommit s))
        by (intros _; apply P_new_step; [split; discriminate|discriminate|auto]).
      pcrunch IH.
      all: try solve [ constructor;
             [ cbn [pre]; intros _; vote_ok_tac HI R Precommit
             | first [ cbn [preD gev_ok]; exact I
                     | subst; apply preD_precommit_lock; [ reflexivity | apply bps_id_of_is; assumption ]
                     | subst; apply preD_precommit_lock; [ reflexivity | apply bps_id_of_is; repeat andb_hyp; assumption ] ]
             | exact I ] ].
      all: try solve [ subst s3 s1; apply P_lock_log;
             [ apply HP0; reflexivity | exact Heqs1 | norm R; cbn; lia | assumption
             | apply bps_id_of_is; first [assumption | repeat andb_hyp; assumption] ] ].
      all: try solve [ apply P_unlock_here;
          [ subst s3; apply P_set_by_psid; [ norm R; discriminate | apply HP0; reflexivity ]
          | subst s3; autorewrite with frame; exact Heqs1
          | subst s3; autorewrite with frame; reflexivity
          | subst; unfold votes_for; autorewrite with frame; reflexivity
          | assumption
          | intros l Hl; subst s3; autorewrite with frame in Hl; eapply bps_id_is_false; eauto ] ].
      all: try solve [ apply P_unlock_here;
          [ apply HP0; reflexivity | exact Heqs1 | reflexivity | subst; reflexivity | assumption | intros; discriminate ] ].
    - (* AEnterPrecommitWait *)
      pcrunch IH.
      all: try solve [intros [_ _ [T' HS']] v Hv; subst; eapply vs_list_known; eauto].
      constructor; [exact I| |exact I].
      apply (@preD_commit n s0);
        [ apply p_invd; subst s0; pcrunch IH | subst s2; autorewrite with frame; reflexivity
        | subst s2 s1; unfold votes_for in Heqo; autorewrite with frame; exact Heqo ].
    - (* AEnterCommit *)
      pcrunch IH.
      all: try solve [ apply P_new_step_commit_down; auto; congruence ].
      all: try solve [ subst s4 s3 s2 s1 s0; apply P_enter_commit; auto; exact (pre_d HPRE) ].
      all: try solve [ constructor; [exact I| |exact I]; cbn [preD]; norm R; reflexivity
                     | constructor; [exact I| |exact I]; cbn [preD]; subst s6; destruct (cur_complete blocks s5); norm R; reflexivity ].
    - (* AEnterNewRound *)
      plet_step. destruct delay.
      + ppeel. subst s0. apply P_new_round; [lia|auto].
      + apply IH; [|constructor; exact I]. subst s0. apply P_new_round; [lia|auto].
    - (* ACommitNewHeight *)
      pcrunch IH.
      apply P_finalize; auto; [exact (pre_d HPRE)|rewrite Heqo; reflexivity].
    - (* ASendVote *)
      destruct (_ || _); auto.
      repeat plet_step. subst s4 s3 s2.
      change (P (run n own blocks delay f (ARecvVote s0) (send3 s0 s1))). subst s0 s1.
      destruct (@P_send_vote s t d HP R) as [A B].
      { apply (pre_c HPRE). apply fuse_unblown; auto. }
      { exact (pre_d HPRE). }
      apply IH; [exact A|]. constructor; [exact I|exact I|exact B].
    - (* ARecvVote *)
      destruct (_ || _) eqn:Hrange; auto.
      destruct (hvs_add n (hvs s) (Z.to_nat (v_from v)) v) as [added h] eqn:Hadd.
      destruct (negb added); auto.
      plet_step.
      assert (H0 : P s0).
      { subst s0. apply orb_false_iff in Hrange as [Hr _]. apply Z.ltb_ge in Hr.
        eapply P_recv; eauto. exact (pre_s HPRE). }
      assert (R0 : status_ s0 = Running) by (subst s0; exact R).
      clear HP HI HD F E0 Hadd HPRE.
      pcrunch IH.
      all: try solve [ constructor; [exact I| |exact I];
                       apply (@preD_commit n s0); [apply p_invd; exact H0|reflexivity|subst; unfold votes_for in *; congruence] ].
      all: try solve [ apply P_unlock_prevote; [ assumption | assumption | subst; reflexivity | assumption | congruence ] ].
      all: apply P_set_by_psid;
        [ subst s5; match goal with |- context [if ?c then _ else _] => destruct c end;
          autorewrite with frame; intro Hc; rewrite Hc in *; discriminate
        | subst s5; match goal with |- context [if ?c then _ else _] => destruct c eqn:? end;
          [ apply P_unlock_prevote; [ assumption | assumption | subst; reflexivity | assumption | congruence ] | assumption ] ].
  Qed.

  (* ------------------------------------------------------------------ the event handlers *)

  Ltac hp :=
    repeat match goal with
      | |- P (write_lock_wal _ _ _ _) => fail 1
      | |- P (let x := ?v in _) => plet_step
      | |- P (run _ _ _ _ _ _ _) => apply run_P
      | |- P (new_round _ _) => apply P_new_round; [ apply Z.ltb_lt; repeat andb_hyp; eauto | ]
      | |- P (if ?c then _ else _) => destruct c eqn:?
      | |- P (match ?x with _ => _ end) => destruct x eqn:?
      | E : ?y = _ |- P ?y => rewrite E
      | |- PRE _ _ => solve [constructor; exact I]
      | _ => ppeel
      end.

  Lemma P_recv_proposal curh r from pol b s : P s -> P (recv_proposal n own blocks delay curh r from pol b s).
  Proof.
    intro HP. cbv beta delta [recv_proposal].
    destruct (_ || _); auto. destruct (_ || _) eqn:C; auto.
    apply orb_false_iff in C as [_ C]. apply step_leb_commit_false in C.
    destruct (_ || _); auto. destruct (negb _); auto. destruct (cur s); auto.
    repeat plet_step.
    assert (H2 : P s2).
    { subst s2 s1 s0. ppeel. apply P_set_cur; [cbn; auto|]. repeat ppeel. }
    clear HP E0 E1 E2. hp.
  Qed.

  Lemma P_recv_part curh b idx s : P s -> P (recv_part n own blocks delay curh b idx s).
  Proof.
    intro HP. cbv beta delta [recv_part]. plet_step.
    assert (H0 : P s0) by (subst s0; destruct (existsb _ _); auto; repeat ppeel).
    clear E0 HP. destruct (negb curh); auto. destruct (cur s0); auto. destruct (bps_complete _ _); auto.
    assert (H1 : P (snd (add_part blocks b idx s0))) by (apply P_add_part; auto).
    destruct (add_part blocks b idx s0) as [added s1]. cbn in H1.
    hp. constructor; [exact I| |exact I]. cbn. apply andb_true_iff in Heqb2 as [A _]. apply step_eqb_true; auto.
  Qed.

  Lemma P_recv_vote curh v s : P s -> known s v -> P (recv_vote n own blocks delay curh v s).
  Proof.
    intros HP K. cbv beta delta [recv_vote]. destruct (negb curh); auto.
    apply run_P; auto. constructor; [exact I|exact I|exact K].
  Qed.

  Lemma P_timeout s : P s -> P (timeout n own blocks delay s).
  Proof. intro HP. cbv beta delta [timeout]. hp. Qed.

  Lemma P_commit_cb rr ok s : P s -> P (commit_cb blocks rr ok s).
  Proof.
    intro HP. cbv beta delta [commit_cb]. destruct (commit_req s); auto. destruct (negb _); auto.
    plet_step. assert (H0 : P s0) by (subst s0; repeat ppeel).
    destruct (negb _) eqn:C; auto. destruct (negb ok); [apply P_panic; auto|].
    apply negb_false_iff, andb_true_iff in C as [_ C]. apply step_eqb_true in C.
    destruct (cur s0) as [p|] eqn:Cu; [|apply P_panic; auto].
    plet_step. apply P_set_status; [discriminate|]. subst s1. apply P_finalize; cbn; auto.
    apply P_set_cur_same; auto. rewrite Cu; reflexivity.
  Qed.

  Lemma P_propose_cb rr ok b s :
    P s -> status_ s = Running -> P (propose_cb n own blocks delay rr ok b s).
  Proof.
    intros HP R. cbv beta delta [propose_cb]. destruct (prop_req s) as [r|] eqn:Q; auto.
    destruct (negb (Z.eqb r rr)); auto.
    pose proof (p_inv HP) as HI. pose proof (P_unblown HP) as U0.
    plet_step. assert (H0 : P s0) by (subst s0; apply P_clear_prop_req; auto).
    destruct (negb _) eqn:C; auto.
    destruct (negb ok); [apply run_P; auto; constructor; exact I|].
    repeat plet_step. apply run_P; [|constructor; exact I]. subst s2.
    apply negb_false_iff in C. apply andb_true_iff in C as [C1 C2]. apply Z.eqb_eq in C1.
    apply step_eqb_true in C2.
    apply P_set_cur; [subst s1; autorewrite with frame; rewrite C2; discriminate|].
    subst s1. apply P_send_proposal; auto.
    - subst s0. cbn. auto.
    - subst s0. cbn in *.
      destruct (inv_ctl HI R U0) as [_ _ _ cq]. destruct (cq _ Q) as [_ B].
      unfold prop_ok; cbn. rewrite C2. repeat split.
      + cbn; lia.
      + rewrite C1. apply B; auto.
      + discriminate.
  Qed.

  Lemma P_import_cb rr ok s :
    P s -> status_ s = Running -> P (import_cb n own blocks delay rr ok s).
  Proof.
    intros HP R. cbv beta delta [import_cb]. destruct (imp_req s) as [[r b]|] eqn:Q; auto.
    destruct (negb (Z.eqb r rr)); auto.
    pose proof (p_inv HP) as HI. pose proof (p_invd HP) as HD. pose proof (P_unblown HP) as U0.
    plet_step. assert (H0 : P s0) by (subst s0; apply P_clear_imp_req; auto).
    destruct (_ || _) eqn:C; auto.
    apply orb_false_iff in C as [C1 C2]. apply negb_false_iff, Z.eqb_eq in C1.
    assert (OK : forall s', neutral s0 s' -> step_leb (stp s') SPrevoteWait = true -> vote_ok own s' Prevote).
    { intros s' N L. eapply vote_ok_neutral; [exact N|].
      destruct (inv_ctl HI R U0) as [_ _ ci _]. destruct (ci _ _ Q) as [A B].
      rewrite (nt_stp N) in L. subst s0. cbn in *.
      unfold step_leb in L. apply N.leb_le in L. cbn in L.
      unfold vote_ok; cbn. repeat split.
      - unfold pos_le, pos in A; cbn in A. lia.
      - intros v Hv Ho [E1 E2]. eapply B; eauto. congruence.
      - intros _ b0 Hb. discriminate. }
    assert (NL : step_leb (stp s0) SPrevoteWait = true -> locked s0 = None).
    { intro L. destruct (d_imp HD Q) as [_ B]. subst s0. cbn in *.
      apply B; auto. unfold step_leb in L. apply N.leb_le in L. exact L. }
    pose proof (step_leb_commit_false _ C2) as NC.
    destruct ok.
    - plet_step.
      assert (N1 : neutral s0 s1) by (subst s1; destruct (_ && _); auto using neutral_refl, nt_set_cur).
      assert (H1 : P s1) by (subst s1; destruct (_ && _); auto; apply P_set_cur; auto).
      assert (S1 : stp s1 = stp s0 /\ locked s1 = locked s0) by (subst s1; destruct (_ && _); cbn; auto).
      destruct S1 as [S1 L1].
      destruct (step_leb (stp s1) SPrevoteWait) eqn:L; auto.
      destruct (cur s1); [|apply P_panic; auto].
      destruct (p_block b0); [|apply P_panic; auto].
      apply run_P; auto. constructor; [cbn; intro; apply OK; auto| |exact I].
      cbn [preD gev_ok]. unfold lock_of. rewrite L1, NL; cbn; auto. rewrite <- S1. exact L.
    - destruct (step_leb (stp s0) SPrevoteWait) eqn:L; auto.
      apply run_P; auto. constructor; [cbn; intro; apply OK; auto using neutral_refl| |exact I].
      cbn [preD gev_ok]. unfold lock_of. rewrite NL; cbn; auto.
  Qed.

  (* ------------------------------------------------------------------ one event *)

  Lemma P_k0 s v : P s -> K0 v -> known s v.
  Proof. intros [_ _ [T H]] K. apply (sm_k0 H); auto. Qed.

  Lemma P_set_outs s : P s -> P (set_outs [] None s).
  Proof.
    intros H. pose proof (P_fuse H) as F. pose proof (P_unblown H) as U. destruct H as [HI HD [T HS]]. constructor.
    - destruct HI as [d k c]. constructor; cbn; auto. intros R _. apply Ctl_set_outs; auto.
    - eapply InvD_dsame; [apply ds_set_outs, dsame_refl|auto].
    - exists T. eapply Sim_ssame; [|exact HS]. ss_plain.
  Qed.

  (* the votes an event carries for the current height were known when the event began *)
  Definition ev_k0 (e : event) : Prop :=
    match e with
    | EVote true v => K0 v
    | EVoteList l => forall c v, In (c, v) l -> c = true -> K0 v
    | _ => True
    end.

  Definition ev_plain (e : event) : bool :=
    match e with ECrash _ _ _ | ERestart => false | _ => true end.

  Lemma P_votelist l : forall s,
    P s -> (forall c v, In (c, v) l -> c = true -> K0 v) ->
    P (fold_left (fun s cv => recv_vote n own blocks delay (fst cv) (snd cv) s) l s).
  Proof.
    induction l as [|[c v] l IH]; intros s HP K; cbn [fold_left fst snd]; auto.
    apply IH; [|intros c0 v0 H0; apply K; right; auto].
    unfold recv_vote. destruct c; cbn [negb]; auto.
    apply run_P; auto. constructor; [exact I|exact I|]. cbn [preS]. apply P_k0; auto. apply (K true v); auto. left; auto.
  Qed.

  Lemma P_step_ev e s :
    P s -> ev_plain e = true -> ev_k0 e -> P (step_ev n own blocks delay e None s).
  Proof.
    intros HP Pl K. cbv beta delta [step_ev].
    set (s0 := set_outs [] None s).
    assert (H0 : P s0) by (subst s0; apply P_set_outs; auto).
    clearbody s0. cbv zeta.
    match goal with |- P (if blown ?x then _ else _) => set (s1 := x) end.
    assert (H1 : P s1).
    { subst s1. destruct e; try discriminate Pl; destruct (status_ s0) eqn:R; auto.
      - apply P_recv_proposal; auto.
      - apply P_recv_part; auto.
      - destruct curh; [apply P_recv_vote; auto; apply P_k0; auto|unfold recv_vote; cbn [negb]; auto].
      - apply P_votelist; auto.
      - apply P_timeout; auto.
      - apply P_propose_cb; auto.
      - apply P_import_cb; auto.
      - apply P_commit_cb; auto. }
    clearbody s1. unfold blown. rewrite (P_fuse H1). exact H1.
  Qed.

  (* ------------------------------------------------------------------ crash (between events) *)

  Lemma Forall_crash {A} (Q : A -> Prop) w k (f : wrec -> A) :
    Forall Q (map f (wal_all w)) -> Forall Q (map f (wal_all (wal_crash w k))).
  Proof.
    unfold wal_all, wal_crash. cbn. rewrite !map_app. intro F. apply Forall_app in F as [F1 F2].
    apply Forall_app. split; auto. rewrite Forall_forall in *. intros x Hx. apply F2.
    apply in_map_iff in Hx as [y [<- Hy]]. apply in_map. eapply In_firstn_incl; eauto.
  Qed.

  Lemma Forall_wal_crash (Q : wrec -> Prop) w k : Forall Q (wal_all w) -> Forall Q (wal_all (wal_crash w k)).
  Proof.
    intro F. pose proof (@Forall_crash wrec Q w k (fun x => x)) as G. rewrite !map_id in G. auto.
  Qed.

  Lemma P_crash kr kl kc s : P s -> P (crash kr kl kc s).
  Proof.
    intros [HI HD [T HS]]. constructor.
    - apply Inv_crash; auto.
    - apply InvD_crash; auto.
    - exists T. unfold crash. apply Sim_set_status; [discriminate|].
      assert (Sc : score s (set_wals (wal_crash (wal_r s) kr) (wal_crash (wal_l s) kl) (wal_crash (wal_c s) kc) s))
        by (constructor; cbn; auto; tauto).
      assert (Wl : wal_all (wal_crash (wal_l s) kl) = wal_all (wal_l s)).
      { unfold wal_all, wal_crash. cbn. rewrite (sm_lsync HS). destruct kl; reflexivity. }
      apply (Sim_score Sc HS); cbn [wal_r wal_l wal_c set_wals].
      + apply Forall_wal_crash. eapply Forall_rec_sub_mono; [|apply (sm_walr HS)]. intro v. apply known_score; auto.
      + apply Forall_wal_crash. eapply Forall_rec_sub_mono; [|apply (sm_walc HS)]. intro v. apply known_score; auto.
      + destruct (sm_shape HS) as [L [Sh LL]]. exists L. split; auto. rewrite Wl.
        eapply lockwal_shape_mono; [|exact Sh]. intro v. apply known_score; auto.
      + unfold wal_crash. cbn. rewrite (sm_lsync HS). destruct kl; reflexivity.
  Qed.

  (* ------------------------------------------------------------------ restart: the three WALs are replayed *)

  Hypothesis Hb3 : (3 * TM.countn byz n < n)%nat.

  (* no two conflicting polkas among the known votes: the abstract protocol has at most one per round *)
  Lemma known_unique s T :
    Sim s T ->
    forall r vs d vs' d',
      vs_wf n r Prevote vs -> vs_sub (known s) vs -> over23 (vs_count_dec vs d) n = true ->
      vs_wf n r Prevote vs' -> vs_sub (known s) vs' -> over23 (vs_count_dec vs' d') n = true -> d = d'.
  Proof.
    intros H r vs d vs' d' W S O W' S' O'.
    assert (Q : TM.polka n (TM.soup T) (Z.to_N r) d = true).
    { refine (sim_quorum (t:=Prevote) H (conj W O) _). apply known_vs_sub; auto. }
    assert (Q' : TM.polka n (TM.soup T) (Z.to_N r) d' = true).
    { refine (sim_quorum (t:=Prevote) H (conj W' O') _). apply known_vs_sub; auto. }
    exact (TP.one_polka_per_round n byz Hb3 T (Z.to_N r) d d' (sm_reach H) Q Q').
  Qed.

  Lemma shape_quorum (K : vote -> Prop) recs b r :
    lockwal_shape n blocks K recs (Some (b, r)) ->
    exists pv, quorum_ev n r Prevote (Some b) pv /\ vs_sub K pv.
  Proof.
    intro Sh. remember (Some (b, r)) as L eqn:EL. revert b r EL.
    induction Sh as [|recs L pv b0 r0 Sh IH Q Sp NP|recs L pv b0 r0 pre Sh IH Q Sp PR]; intros b r EL.
    - discriminate.
    - inversion EL; subst. eauto.
    - eauto.
  Qed.

  Lemma hvs_sub_has (K : vote -> Prop) h : hvs_sub K h -> forall u, hvs_has h u -> K u.
  Proof.
    intros S u [r [p [Hp [Hu|Hu]]]]; destruct (S r p Hp) as [A B]; apply In_nth_error in Hu as [k Hk]; eauto.
  Qed.

  Lemma restart_s0_inv s s0 ok L :
    Inv own s -> InvD n s -> restart_s0 n own blocks s = (s0, ok, L) ->
    Inv own s0 /\ InvD n s0 /\ 0 <= round s0 /\ fuse s0 = fuse s.
  Proof.
    intros HI HD E1. unfold restart_s0 in E1.
    set (wr := wal_recover (wal_r s)) in *. set (wl := wal_recover (wal_l s)) in *. set (wc := wal_recover (wal_c s)) in *.
    destruct (fold_left (apply_round_rec n own) (w_synced wr) _) as [[h rs] ok'] eqn:F1.
    destruct (fold_left (apply_lock_rec n blocks) (w_synced wl) _) as [[[h2 rs2] bp] last] eqn:F2.
    destruct (fold_left (apply_commit_rec n) (w_synced wc) _) as [h3 rs3] eqn:F3.
    inversion E1; subst s0 ok L; clear E1.
    assert (Ho : 0 <= own < Z.of_nat n) by lia.
    pose proof (fold_round_covers n Ho (w_synced wr) ([], (0, SNewHeight), true)) as Cov.
    cbv zeta in Cov. rewrite F1 in Cov. cbn [fst snd] in Cov. destruct Cov as [Cv Cp].
    pose proof (fold_round_mono n own (w_synced wr) ([], (0, SNewHeight), true)) as M1. rewrite F1 in M1. cbn [fst snd] in M1.
    pose proof (fold_lock_mono n blocks (w_synced wl) (h, rs, None, None)) as M2. rewrite F2 in M2. cbn [fst snd] in M2.
    pose proof (fold_commit_mono n (w_synced wc) (h2, rs2)) as M3. rewrite F3 in M3. cbn [fst snd] in M3.
    assert (M : pos_le (pcode rs) (pcode rs3)) by (eapply pos_le_trans; eauto).
    destruct (@fold_round_inv n own (w_synced wr) ([], (0, SNewHeight), true) (hvs_wf_nil n)) as [W1 S1].
    { unfold restorable; cbn; auto. }
    rewrite F1 in W1, S1. cbn [fst snd] in W1, S1.
    assert (LW : Forall lockrec_ok (w_synced wl)) by (subst wl; cbn; apply (d_lockwal HD)).
    assert (A2 : lock_acc_ok n (h2, rs2, bp, last)).
    { rewrite <- F2. apply fold_lock_inv; auto. apply lock_acc_ok_intro; auto; intros; discriminate. }
    destruct A2 as [W2 [S2 [_ L2]]].
    destruct (@fold_commit_inv n (w_synced wc) (h2, rs2) W2 S2) as [W3 S3].
    rewrite F3 in W3, S3. cbn [fst snd] in W3, S3.
    split; [|split; [|split]].
    - destruct HI as [d k c]. constructor; cbn.
      + intros m Hm. subst wr. cbn. unfold wal_all. apply in_or_app; left; auto.
      + auto.
      + intros _ _.
        assert (WI : forall x, In x (wal_all wr) -> In x (w_synced wr)).
        { subst wr. unfold wal_all. cbn. intros x Hx. rewrite app_nil_r in Hx. exact Hx. }
        constructor; cbn -[wal_all]; unfold pos; cbn -[wal_all].
        * intros v Hv Hov. apply WI in Hv. eapply pos_le_trans; [apply Cv; auto|exact M].
        * intros r b p Hr. apply WI in Hr. eapply pos_le_trans; [eapply Cp; eauto|exact M].
        * intros; discriminate.
        * intros; discriminate.
    - apply pos_le_fst in M3. cbn [fst pcode] in M3.
      destruct HD as [hh l k i0 c d lw]. constructor; cbn; auto.
      + destruct last as [[b lr]|]; cbn; [|intro H; contradiction].
        intros _. specialize (L2 _ _ eq_refl). lia.
      + intros; discriminate.
      + intro Ec. exfalso. eapply restorable_not_commit; eauto.
      + subst wl. unfold wal_all. cbn. rewrite app_nil_r. exact lw.
    - cbn. apply pos_le_fst in M1, M2, M3. cbn [fst pcode] in M1, M2, M3. lia.
    - reflexivity.
  Qed.

  Lemma wal_all_recover w : wal_all (wal_recover w) = wal_all w.
  Proof. unfold wal_all, wal_recover. cbn. apply app_nil_r. Qed.

  Lemma P_restart_s0 s :
    P s -> exists s0 ok L, restart_s0 n own blocks s = (s0, ok, L) /\ P s0.
  Proof.
    intros [HI HD [T HS]].
    destruct (fold_left (apply_round_rec n own) (wal_all (wal_r s)) ([], (0, SNewHeight), true)) as [[h rs] ok] eqn:FR.
    assert (Hh : hvs_sub (known s) h).
    { pose proof (@fold_round_sub n own (known s) (wal_all (wal_r s)) ([], (0, SNewHeight), true) (sm_walr HS) (hvs_sub_nil (known s))) as X.
      rewrite FR in X. exact X. }
    destruct (sm_shape HS) as [L [Sh LL]].
    destruct (restart_s0_lock own (known_unique HS) s FR Hh Sh)
      as [s0 [E0 [R0 [Lr0 [Lk0 [Cu0 [Lo0 [W0 [S0 [Wl0 [Wr0 [Wc0 [Se0 [Gl0 [De0 _]]]]]]]]]]]]]]].
    destruct (restart_s0_inv HI HD E0) as [HI0 [HD0 [Rd0 Fu0]]].
    exists s0, ok, L. split; auto. constructor; auto.
    assert (KE : forall v, known s0 v <-> known s v).
    { intro v. unfold Proofs_ConsensusNet_Sim.known, sent_vote. rewrite Se0. tauto. }
    assert (CO : TM.correct n byz i = true) by (apply correct_i; auto).
    (* the abstract lock becomes the restored lock *)
    assert (LS : TM.lock_safe n (TM.soup T) i (convL L) = true).
    { destruct LL as [LL|LL].
      - apply (TP.lock_safe_unlocked n byz Hb3 T i (convL L) (sm_reach HS) CO LL).
      - rewrite <- LL. apply (TP.lock_safe_same n byz Hb3 T i (sm_reach HS) CO). }
    pose proof (tm_setlock n byz i Hi Hbyz T _ LS) as St.
    exists (TM.set_lock T i (convL L)).
    constructor.
    - eapply TP.reachable_step; [apply (sm_reach HS)|exact St].
    - apply frame_set_lock, (sm_frame HS).
    - intro m. cbn [TM.set_lock TM.soup]. rewrite (sm_soup HS). split; intros [v [K C]]; exists v; split; auto; apply KE; auto.
    - intros _. cbn. rewrite upd_same, Lo0. destruct L as [[b r]|]; reflexivity.
    - intros lr b. cbn. rewrite upd_same. intro El.
      destruct L as [[b0 r0]|]; [|discriminate]. cbn in El. inversion El; subst.
      destruct (shape_quorum Sh) as [pv [Q Sp]].
      eapply (sim_quorum (t:=Prevote)); eauto. apply known_vs_sub; auto.
    - intros u Hu. apply KE. eapply hvs_sub_has; [apply S0, (sm_walc HS)|exact Hu].
    - rewrite Gl0. intros e u He Hu. apply KE. eapply (sm_glog HS); eauto.
    - rewrite De0. cbn. apply (sm_dec HS).
    - exact Rd0.
    - rewrite Se0. apply (sm_sent HS).
    - rewrite Fu0. apply (sm_fuse HS).
    - intros v Hv. apply KE. apply (sm_k0 HS); auto.
    - rewrite Wr0, wal_all_recover. eapply Forall_rec_sub_mono; [|apply (sm_walr HS)]. intro v; apply KE.
    - rewrite Wc0, wal_all_recover. eapply Forall_rec_sub_mono; [|apply (sm_walc HS)]. intro v; apply KE.
    - exists L. split.
      + rewrite Wl0, wal_all_recover. eapply lockwal_shape_mono; [|exact Sh]. intro v; apply KE.
      + right. cbn. rewrite upd_same. reflexivity.
    - rewrite Wl0. reflexivity.
  Qed.

  Lemma P_restart s : P s -> P (restart n own blocks delay s).
  Proof.
    intro HP. destruct (P_restart_s0 HP) as [s0 [ok [L [E0 HP0]]]].
    rewrite restart_decomp, E0. unfold restart_fin.
    destruct (negb ok); [apply P_panic; auto|].
    assert (D : P (start_dispatch n own blocks delay s0)).
    { unfold start_dispatch. destruct (stp s0); auto.
      - destruct (Z.eqb (round s0) 0).
        + apply run_P; [|constructor; exact I]. apply P_new_step; [split; discriminate|discriminate|auto].
        + apply run_P; [auto|constructor; exact I].
      - apply run_P; [auto|constructor; exact I].
      - destruct (vs_has23 _); auto. apply run_P; [auto|constructor; exact I].
      - destruct (vs_has23 _); auto. apply run_P; [auto|constructor; exact I]. }
    destruct L as [[b lr]|]; auto.
    destruct (negb (decodable blocks b)); auto. apply P_panic; auto.
  Qed.

  (* ------------------------------------------------------------------ one event, crashes between events allowed *)

  Lemma P_step_ev_any e s :
    P s -> ev_k0 e -> P (step_ev n own blocks delay e None s).
  Proof.
    intros HP K. destruct (ev_plain e) eqn:Pl; [apply P_step_ev; auto|].
    cbv beta delta [step_ev].
    set (s0 := set_outs [] None s).
    assert (H0 : P s0) by (subst s0; apply P_set_outs; auto).
    clearbody s0. cbv zeta.
    match goal with |- P (if blown ?x then _ else _) => set (s1 := x) end.
    assert (H1 : P s1).
    { subst s1. destruct e; try discriminate Pl.
      - destruct (status_ s0); auto; apply P_crash; auto.
      - destruct (status_ s0); auto. apply P_restart; auto. }
    clearbody s1. unfold blown. rewrite (P_fuse H1). exact H1.
  Qed.

End RunP.
