(* Property C15 — Transaction fees and transfers conserve ICX.
   This file holds only the property theorems; proofs are in Proofs_TxExec.v.
   Model: Model_TxExec.v (transactionhandler.Execute, transition.doExecute on the
   basic platform, no fee sharing / deposits). *)
From Coq Require Import List NArith ZArith.
From Goloop Require Import Model_TxExec Proofs_TxExec.
Import ListNotations.
Open Scope Z_scope.

(* the sender is charged exactly stepUsed * stepPrice of the receipt, on top of the
   effect of the call when the transaction succeeded, and on top of nothing otherwise *)
Theorem C15_charge_exact : forall p t s,
  snd (execute p t s) =
  charge_fee (if ok (r_status (fst (execute p t s))) then call_effect p t s else s)
             (t_from t) (r_used (fst (execute p t s)) * r_price (fst (execute p t s))).
Proof. exact execute_charge. Qed.
Print Assumptions C15_charge_exact.

(* the receipt's step price is the chain's, or 0 when the transaction failed out of balance *)
Theorem C15_receipt_price : forall p t s,
  r_price (fst (execute p t s)) = p_price p
  \/ (r_price (fst (execute p t s)) = 0 /\ r_status (fst (execute p t s)) <> 0%N).
Proof. exact receipt_price. Qed.
Print Assumptions C15_receipt_price.

(* minimum charge <= stepUsed <= step limit (capped by the invoke limit; a limit below the
   minimum charge is charged the minimum) *)
Theorem C15_step_bounds : forall p t s, wf_params p -> wf_tx t ->
  p_cdefault p <= r_used (fst (execute p t s)) <= Z.max (p_cdefault p) (tx_limit p t).
Proof. exact step_bounds. Qed.
Print Assumptions C15_step_bounds.

(* ... hence within [minimum charge, stepLimit] for every transaction PreValidate admits *)
Theorem C15_step_bounds_prevalidated : forall p t s, wf_params p -> wf_tx t ->
  p_cdefault p <= t_limit t ->
  p_cdefault p <= r_used (fst (execute p t s)) <= t_limit t.
Proof. exact step_bounds_prevalidated. Qed.
Print Assumptions C15_step_bounds_prevalidated.

(* a successful plain transfer: recipient +value, sender -fee -value, nobody else, no storage *)
Theorem C15_transfer_credit : forall p t s,
  plain p t -> t_from t <> t_to t -> r_status (fst (execute p t s)) = 0%N ->
  let s' := snd (execute p t s) in
  let fee := fee_of (fst (execute p t s)) in
  bal s' (t_to t) = bal s (t_to t) + t_value t
  /\ bal s' (t_from t) = bal s (t_from t) - fee - t_value t
  /\ (forall x, x <> t_from t -> x <> t_to t -> bal s' x = bal s x)
  /\ sto s' = sto s /\ 0 <= t_value t.
Proof. exact transfer_credit. Qed.
Print Assumptions C15_transfer_credit.

(* one transaction removes exactly its fee from the sum of all balances *)
Theorem C15_tx_sum : forall p t s U, NoDup U -> incl (tx_ids p t) U ->
  sum_on U (bal (snd (execute p t s))) = sum_on U (bal s) - fee_of (fst (execute p t s)).
Proof. exact execute_sum. Qed.
Print Assumptions C15_tx_sum.

(* a block (treasury credit included) leaves the sum of all balances unchanged *)
Theorem C15_conservation : forall p b s U, NoDup U -> incl (block_ids p b) U ->
  sum_on U (bal (snd (exec_block p b s))) = sum_on U (bal s).
Proof. exact block_conservation. Qed.
Print Assumptions C15_conservation.

(* no balance ever becomes negative *)
Theorem C15_nonneg : forall p b s, 0 <= p_price p -> 0 <= p_cdefault p ->
  nonneg s -> nonneg (snd (exec_block p b s)).
Proof. exact block_nonneg. Qed.
Print Assumptions C15_nonneg.

Theorem C15_tx_nonneg : forall p t s, nonneg s ->
  nonneg (snd (execute p t s)) /\ r_loop_ok (fst (execute p t s)) = true.
Proof. exact execute_nonneg. Qed.
Print Assumptions C15_tx_nonneg.

(* the out-of-balance loop of Execute terminates for every transaction of every block *)
Theorem C15_fee_loop_terminates : forall p b s, 0 <= p_price p -> 0 <= p_cdefault p ->
  nonneg s -> Forall (fun r => r_loop_ok r = true) (fst (exec_block p b s)).
Proof. exact block_loops_terminate. Qed.
Print Assumptions C15_fee_loop_terminates.
