(* Proofs_K_ntmPartIndexOutOfRange.v -- btp/ntm secp256k1ProofContext.VerifyPart: index range test
   Split out of Proofs_Kernels.v: this file imports ONLY the generated kernel(s)
   gen/K_ntmPartIndexOutOfRange.v, so an edit of another kernel's Go source cannot break it.
   Style: stdlib only; arithmetic closed by lia with the euclidean-division hook. *)
From Coq Require Import ZArith Bool String List Lia.
From Coq Require Import ZifyBool.
From Goloop Require Import lib.GoInt Proofs_K_tactics.
From Goloop.gen Require Import K_ntmPartIndexOutOfRange.
Import ListNotations.
Local Open Scope Z_scope.

Ltac Zify.zify_post_hook ::= Z.to_euclidean_division_equations.

(* VerifyPart rejects a proof part whose index is outside [0, len(Validators)) *)
Lemma ntmPartIndexOutOfRange_spec idx n :
  ntmPartIndexOutOfRange idx n = false <-> 0 <= idx < n.
Proof. unfold ntmPartIndexOutOfRange. kernel_lia. Qed.

Lemma ntmPartIndexOutOfRange_params_ok :
  ntmPartIndexOutOfRange_params = ["epp.Index"; "len(pc.Validators)"]%string.
Proof. reflexivity. Qed.
