(* Proofs_Locator.v — lemmas about Model_Locator (property C11).
   Style: stdlib only. *)
From Goloop Require Import lib.Bytes Model_Locator.
From Coq Require Import ZifyBool ZifyN ZifyNat.
Open Scope Z_scope.

(* ------------------------------------------------------------------ *)
(* A. small facts                                                      *)
(* ------------------------------------------------------------------ *)

Lemma mem_In x l : mem x l = true <-> In x l.
Proof.
  unfold mem. rewrite existsb_exists. split.
  - intros [y [Hy He]]. apply N.eqb_eq in He. now subst.
  - intro H. exists x. split; [assumption|apply N.eqb_refl].
Qed.

Lemma mem_false x l : mem x l = false <-> ~ In x l.
Proof.
  rewrite <- mem_In. destruct (mem x l); split; intro H; congruence.
Qed.

Lemma In_remove_all x xs l : In x (remove_all xs l) <-> In x l /\ ~ In x xs.
Proof.
  unfold remove_all. rewrite filter_In. rewrite negb_true_iff, mem_false. tauto.
Qed.

Lemma NoDup_app_intro {A} (a b : list A) :
  NoDup a -> NoDup b -> (forall x, In x a -> ~ In x b) -> NoDup (a ++ b).
Proof.
  induction a as [|x a IH]; cbn; intros Ha Hb Hd; [assumption|].
  inversion Ha; subst. constructor.
  - rewrite in_app_iff. intros [H|H]; [tauto|]. apply (Hd x); auto.
  - apply IH; auto.
Qed.

Lemma NoDup_snoc {A} (a : list A) x : NoDup a -> ~ In x a -> NoDup (a ++ [x]).
Proof.
  intros Ha Hx. apply NoDup_app_intro; auto.
  - constructor; [intros []|constructor].
  - intros y Hy [<-|[]]. contradiction.
Qed.

(* ------------------------------------------------------------------ *)
(* F. the window check                                                 *)
(* ------------------------------------------------------------------ *)

Lemma window_iff bts th ts : range_check bts th ts = 0%N <-> in_window bts th ts.
Proof.
  unfold range_check, check_ts, in_window.
  destruct (ts <=? bts - th) eqn:E1; [split; [discriminate|lia]|].
  destruct (ts >? bts + th) eqn:E2; [split; [discriminate|lia]|].
  split; [lia|reflexivity].
Qed.

Lemma window_classes bts th ts :
  (range_check bts th ts = 1%N <-> ts <= bts - th) /\
  (range_check bts th ts = 2%N <-> (bts - th < ts /\ bts + th < ts)).
Proof.
  unfold range_check, check_ts.
  destruct (ts <=? bts - th) eqn:E1; destruct (ts >? bts + th) eqn:E2;
    split; split; intro H; try discriminate; try reflexivity; try lia.
Qed.

(* ------------------------------------------------------------------ *)
(* B. the manager                                                      *)
(* ------------------------------------------------------------------ *)

Definition sound_variant (v : variant) : Prop := v = VCode \/ v = VStrict.

Lemma sound_early v : sound_variant v -> early_false v = false.
Proof. intros [->| ->]; reflexivity. Qed.

Lemma sound_skip v l ts : sound_variant v -> db_skip v l ts = true -> l < ts.
Proof. intros [->| ->]; unfold db_skip; lia. Qed.

Section Inv.
Variable tsof : N -> Z.
Variable gof : N -> bool.
Variable v : variant.
Hypothesis Hv : sound_variant v.

(* what the manager knows about an id that was committed *)
Definition minv (m : manager) (X : N) : Prop :=
  In X (m_db m) /\ (In X (m_locs m) \/ tsof X <= c_max (cache_of m (gof X))).

Definition list_ok (g : bool) (P : txlist) : Prop :=
  forall Y, In Y (l_ids P) -> tsof Y <= l_ts P + l_th P /\ gof Y = g /\ l_ts P <> 0.

Definition cinv (m : manager) : Prop :=
  forall g P, In P (c_lists (cache_of m g)) -> list_ok g P.

Lemma manager_has_true m g X :
  minv m X -> gof X = g -> manager_has_v v m g X (tsof X) = true.
Proof.
  intros [Hdb Hl] Hg. unfold manager_has_v.
  destruct (mem X (m_locs m)) eqn:E; [reflexivity|].
  apply mem_false in E. destruct Hl as [Hl|Hl]; [contradiction|].
  destruct (db_skip v (c_max (cache_of m g)) (tsof X)) eqn:E2.
  - apply sound_skip in E2; [|exact Hv]. subst g. lia.
  - now apply mem_In.
Qed.

(* the eviction loop: an id leaves m.locators only under a bound >= its timestamp *)
Lemma evict_spec g listMin ls : forall locs mx ls' locs' mx',
  (forall P, In P ls -> list_ok g P) ->
  evict listMin ls locs mx = (ls', locs', mx') ->
  mx <= mx' /\
  (forall P, In P ls' -> In P ls) /\
  (forall X, In X locs' -> In X locs) /\
  (forall X, In X locs -> In X locs' \/ (gof X = g /\ tsof X <= mx')).
Proof.
  induction ls as [|p rest IH]; cbn [evict]; intros locs mx ls' locs' mx' Hok E.
  - inversion E; subst. repeat split; auto; lia.
  - destruct (l_ts p + l_th p >? listMin) eqn:Eg.
    + inversion E; subst. repeat split; auto; lia.
    + apply IH in E; [|intros P HP; apply Hok; now right].
      destruct E as (Hmx & Hls & Hsub & Hkeep).
      assert (Hmx0 : mx <= mx') by
        (destruct (negb (l_ts p =? 0) && (mx <? l_ts p + l_th p)) eqn:Eu; lia).
      repeat split; auto.
      * intros P HP. right. now apply Hls.
      * intros X HX. apply Hsub in HX. apply In_remove_all in HX. tauto.
      * intros X HX.
        destruct (mem X (l_ids p)) eqn:Em.
        -- apply mem_In in Em. right.
           destruct (Hok p (or_introl eq_refl) X Em) as (Hts & Hg & Hz).
           split; [assumption|].
           destruct (negb (l_ts p =? 0) && (mx <? l_ts p + l_th p)) eqn:Eu; lia.
        -- apply mem_false in Em. apply Hkeep. apply In_remove_all. tauto.
Qed.

Lemma cache_of_set_same m g c : cache_of (set_cache m g c) g = c.
Proof. destruct g; reflexivity. Qed.
Lemma cache_of_set_other m g c : cache_of (set_cache m g c) (negb g) = cache_of m (negb g).
Proof. destruct g; reflexivity. Qed.
Lemma locs_set m g c : m_locs (set_cache m g c) = m_locs m.
Proof. destruct g; reflexivity. Qed.
Lemma db_set m g c : m_db (set_cache m g c) = m_db m.
Proof. destruct g; reflexivity. Qed.

Lemma cache_of_blank m over g :
  cache_of {| m_locs := m_locs m; m_cp := blank_cache over (m_cp m);
              m_cn := blank_cache over (m_cn m); m_db := m_db m |} g
  = blank_cache over (cache_of m g).
Proof. destruct g; reflexivity. Qed.

Lemma blank_ok g over P : list_ok g P -> list_ok g (blank_list over P).
Proof.
  intros H Y HY. cbn in HY. apply In_remove_all in HY. destruct HY as [HY _].
  apply H in HY. exact HY.
Qed.

(* one commitTracker + flush *)
Lemma commit_list_inv m L :
  cinv m -> list_ok (l_grp L) L ->
  let m' := commit_list m L in
  cinv m' /\ (forall X, minv m X -> minv m' X) /\ (forall Y, In Y (l_ids L) -> minv m' Y).
Proof.
  intros Hc HL. unfold commit_list, add_list_and_clear_old.
  set (over := filter (fun k => mem k (m_locs m)) (l_ids L)).
  set (locs1 := m_locs m ++ filter (fun k => negb (mem k (m_locs m))) (l_ids L)).
  set (m1 := {| m_locs := locs1; m_cp := blank_cache over (m_cp m);
                m_cn := blank_cache over (m_cn m); m_db := m_db m ++ l_ids L |}).
  assert (Hc1 : forall g, cache_of m1 g = blank_cache over (cache_of m g)) by (destruct g; reflexivity).
  set (g := l_grp L).
  destruct (evict (l_ts L - l_th L) (c_lists (cache_of m1 g)) (m_locs m1) (c_max (cache_of m1 g)))
    as [[ls locs'] mx] eqn:E.
  assert (Hok1 : forall P, In P (c_lists (cache_of m1 g)) -> list_ok g P).
  { intros P HP. rewrite Hc1 in HP. cbn in HP. apply in_map_iff in HP.
    destruct HP as [P0 [<- HP0]]. apply blank_ok. now apply Hc. }
  destruct (evict_spec g _ _ _ _ _ _ _ Hok1 E) as (Hmx & Hls & Hsub & Hkeep).
  cbn [m_locs m_cp m_cn m_db m1] in *.
  set (mm := {| m_locs := locs'; m_cp := blank_cache over (m_cp m);
                m_cn := blank_cache over (m_cn m); m_db := m_db m ++ l_ids L |}).
  set (cnew := {| c_lists := ls ++ [L]; c_max := mx |}).
  assert (Hcache : forall g', cache_of (set_cache mm g cnew) g' =
                              if Bool.eqb g' g then cnew else blank_cache over (cache_of m g')).
  { intros g'. destruct g, g'; reflexivity. }
  assert (Hmaxmono : forall g', c_max (cache_of m g') <= c_max (cache_of (set_cache mm g cnew) g')).
  { intros g'. rewrite Hcache. destruct (Bool.eqb g' g) eqn:Eb.
    - apply Bool.eqb_prop in Eb. subst g'. cbn. rewrite Hc1 in Hmx. cbn in Hmx. exact Hmx.
    - cbn. lia. }
  (* an id in locs1 stays, or is bounded *)
  assert (Hstay : forall X, In X locs1 ->
            In X locs' \/ tsof X <= c_max (cache_of (set_cache mm g cnew) (gof X))).
  { intros X HX. destruct (Hkeep X HX) as [H|[Hg Hts]]; [now left|right].
    rewrite Hcache, Hg, Bool.eqb_reflx. cbn. exact Hts. }
  split; [|split].
  - (* cinv *)
    intros g' P HP. rewrite Hcache in HP. destruct (Bool.eqb g' g) eqn:Eb.
    + apply Bool.eqb_prop in Eb. subst g'. cbn in HP. apply in_app_iff in HP.
      destruct HP as [HP|[<-|[]]]; [|exact HL].
      apply Hok1. now apply Hls.
    + cbn in HP. apply in_map_iff in HP. destruct HP as [P0 [<- HP0]].
      apply blank_ok. now apply Hc.
  - (* monotone *)
    intros X [Hdb Hl]. split.
    + rewrite db_set. cbn. apply in_app_iff. now left.
    + rewrite locs_set. cbn. destruct Hl as [Hl|Hl].
      * apply Hstay. unfold locs1. apply in_app_iff. now left.
      * right. specialize (Hmaxmono (gof X)). lia.
  - (* the ids of L *)
    intros Y HY. split.
    + rewrite db_set. cbn. apply in_app_iff. now right.
    + rewrite locs_set. cbn. apply Hstay. unfold locs1. apply in_app_iff.
      destruct (mem Y (m_locs m)) eqn:Em.
      * left. now apply mem_In.
      * right. apply filter_In. split; [assumption|]. now rewrite Em.
Qed.

Lemma commit_fold_inv js : forall m,
  cinv m -> (forall L, In L js -> list_ok (l_grp L) L) ->
  let m' := fold_left commit_list js m in
  cinv m' /\ (forall X, minv m X -> minv m' X) /\
  (forall L Y, In L js -> In Y (l_ids L) -> minv m' Y).
Proof.
  induction js as [|L js IH]; cbn [fold_left]; intros m Hc Hok.
  - split; [exact Hc|split; [auto|]]. intros L0 Y0 [].
  - destruct (commit_list_inv m L Hc (Hok L (or_introl eq_refl))) as (Hc1 & Hm1 & Hl1).
    destruct (IH (commit_list m L) Hc1 (fun L' H => Hok L' (or_intror H))) as (Hc2 & Hm2 & Hl2).
    split; [exact Hc2|split].
    + intros X HX. apply Hm2. now apply Hm1.
    + intros L' Y [<-|HL'] HY; [apply Hm2; now apply Hl1|now apply (Hl2 L')].
Qed.

End Inv.

(* ------------------------------------------------------------------ *)
(* C. the tracker store                                                *)
(* ------------------------------------------------------------------ *)

Lemma get_lt l : forall k tk, get l k = Some tk -> (k < length l)%nat.
Proof.
  induction l as [|t0 rest IH]; cbn; intros k tk H; [discriminate|].
  destruct (Nat.eqb_spec k (length rest)); [lia|]. apply IH in H. lia.
Qed.

Lemma get_In l : forall k tk, get l k = Some tk -> In tk l.
Proof.
  induction l as [|t0 rest IH]; cbn; intros k tk H; [discriminate|].
  destruct (Nat.eqb_spec k (length rest)); [inversion H; now left|right; eauto].
Qed.

Lemma get_some l : forall k, (k < length l)%nat -> exists tk, get l k = Some tk.
Proof.
  induction l as [|t0 rest IH]; cbn; intros k H; [lia|].
  destruct (Nat.eqb_spec k (length rest)); [eauto|]. apply IH. lia.
Qed.

Lemma get_cons_ne t0 l k : k <> length l -> get (t0 :: l) k = get l k.
Proof. intro H. cbn. destruct (Nat.eqb_spec k (length l)); congruence. Qed.

Lemma get_cons_eq t0 l : get (t0 :: l) (length l) = Some t0.
Proof. cbn. now rewrite Nat.eqb_refl. Qed.

Lemma upd_length l k f : length (upd l k f) = length l.
Proof.
  induction l as [|t0 rest IH]; cbn; [reflexivity|].
  destruct (Nat.eqb k (length rest)); cbn; congruence.
Qed.

Lemma get_upd l t f : forall k,
  get (upd l t f) k = if Nat.eqb k t then option_map f (get l k) else get l k.
Proof.
  induction l as [|t0 rest IH]; intros k; cbn.
  - now destruct (Nat.eqb k t).
  - destruct (Nat.eqb_spec t (length rest)) as [->|Hne]; cbn.
    + destruct (Nat.eqb_spec k (length rest)); reflexivity.
    + rewrite upd_length. destruct (Nat.eqb_spec k (length rest)) as [->|Hk].
      * destruct (Nat.eqb_spec (length rest) t); [congruence|reflexivity].
      * apply IH.
Qed.

Lemma chain_cons_ne t0 l cur :
  (forall p, cur = Some p -> p <> length l) -> chain_from (t0 :: l) cur = chain_from l cur.
Proof.
  destruct cur as [p|]; intro H; cbn; [|now destruct l].
  destruct (Nat.eqb_spec p (length l)); [exfalso; now apply (H p)|reflexivity].
Qed.

Lemma chain_none l : forall k, get l k = None -> chain_from l (Some k) = [].
Proof.
  induction l as [|t0 rest IH]; cbn; intros k H; [reflexivity|].
  destruct (Nat.eqb_spec k (length rest)); [discriminate|auto].
Qed.

Lemma chain_unfold l : forall k tk,
  get l k = Some tk -> (forall p, t_gparent tk = Some p -> (p < k)%nat) ->
  chain_from l (Some k) = t_ids tk ++ chain_from l (t_gparent tk).
Proof.
  induction l as [|t0 rest IH]; intros k tk H Hb; [discriminate|].
  cbn in H. cbn [chain_from]. destruct (Nat.eqb_spec k (length rest)) as [->|Hne].
  - assert (t0 = tk) by congruence. subst t0. f_equal. symmetry. apply chain_cons_ne.
    intros p Hp. apply Hb in Hp. lia.
  - rewrite (IH k tk H Hb). f_equal. symmetry. apply chain_cons_ne.
    intros p Hp. apply Hb in Hp. apply get_lt in H. lia.
Qed.

Lemma has_cons_ne v m t0 l cur g id ts :
  (forall p, cur = Some p -> p <> length l) ->
  has_from v m (t0 :: l) cur g id ts = has_from v m l cur g id ts.
Proof.
  destruct cur as [p|]; intro H; cbn; [|now destruct l].
  destruct (Nat.eqb_spec p (length l)); [exfalso; now apply (H p)|reflexivity].
Qed.

Lemma has_none v m l : forall k g id ts, get l k = None -> has_from v m l (Some k) g id ts = None.
Proof.
  induction l as [|t0 rest IH]; cbn; intros k g id ts H; [reflexivity|].
  destruct (Nat.eqb_spec k (length rest)); [discriminate|auto].
Qed.

Lemma has_unfold v m l : forall k tk g id ts,
  get l k = Some tk -> (forall p, t_parent tk = Some p -> (p < k)%nat) ->
  has_from v m l (Some k) g id ts =
    if skip_own v ts (t_ts tk + t_th tk) then
      if early_false v then Some false
      else has_from v m l (t_parent tk) (t_grp tk) id ts
    else if t_open tk && mem id (t_ids tk) then Some true
    else has_from v m l (t_parent tk) (t_grp tk) id ts.
Proof.
  induction l as [|t0 rest IH]; intros k tk g id ts H Hb; [discriminate|].
  assert (Hp : has_from v m (t0 :: rest) (t_parent tk) (t_grp tk) id ts
               = has_from v m rest (t_parent tk) (t_grp tk) id ts).
  { apply has_cons_ne. intros p Hp. apply Hb in Hp. apply get_lt in H. cbn in H. lia. }
  rewrite Hp. clear Hp.
  cbn in H. cbn [has_from]. destruct (Nat.eqb_spec k (length rest)) as [->|Hne].
  - assert (t0 = tk) by congruence. subst t0. reflexivity.
  - apply (IH k tk g id ts H Hb).
Qed.

(* no tracker was created from t *)
Definition leaf (l : list tracker) (t : nat) : Prop :=
  forall tk, In tk l -> t_gparent tk <> Some t.

Lemma chain_upd_leaf l t f : leaf l t -> forall cur, cur <> Some t ->
  chain_from (upd l t f) cur = chain_from l cur.
Proof.
  induction l as [|t0 rest IH]; intros Hl cur Hc; [reflexivity|].
  assert (Hl' : leaf rest t) by (intros x Hx; apply Hl; now right).
  destruct cur as [c|]; [|cbn; now destruct (Nat.eqb t (length rest))].
  cbn [upd]. destruct (Nat.eqb_spec t (length rest)) as [Ht|Ht].
  - cbn [chain_from]. destruct (Nat.eqb_spec c (length rest)); [congruence|reflexivity].
  - cbn [chain_from]. rewrite upd_length.
    destruct (Nat.eqb_spec c (length rest)).
    + f_equal. apply IH; [assumption|]. apply Hl. now left.
    + apply IH; assumption.
Qed.

(* --- Commit --- *)

Fixpoint on_path (l : list tracker) (cur : option nat) (k : nat) : bool :=
  match cur with
  | None => false
  | Some c =>
      match l with
      | [] => false
      | tk :: rest =>
          if Nat.eqb c (length rest) then Nat.eqb k c || on_path rest (t_parent tk) k
          else on_path rest cur k
      end
  end.

Lemma cw_length l : forall cur, length (fst (commit_walk l cur)) = length l.
Proof.
  induction l as [|t0 rest IH]; intros [c|]; cbn; try reflexivity.
  destruct (Nat.eqb c (length rest)).
  - specialize (IH (t_parent t0)). destruct (commit_walk rest (t_parent t0)). cbn in *. congruence.
  - specialize (IH (Some c)). destruct (commit_walk rest (Some c)). cbn in *. congruence.
Qed.

Lemma on_path_lt l : forall cur k, on_path l cur k = true -> (k < length l)%nat.
Proof.
  induction l as [|t0 rest IH]; intros [c|] k; cbn; try discriminate.
  destruct (Nat.eqb_spec c (length rest)).
  - intro H. apply orb_true_iff in H. destruct H as [H|H].
    + apply Nat.eqb_eq in H. lia.
    + apply IH in H. lia.
  - intro H. apply IH in H. lia.
Qed.

Lemma cw_get l : forall cur k,
  get (fst (commit_walk l cur)) k =
  option_map (fun tk => if on_path l cur k then close tk else tk) (get l k).
Proof.
  induction l as [|t0 rest IH]; intros cur k.
  { destruct cur; reflexivity. }
  destruct cur as [c|].
  2:{ cbn [commit_walk on_path fst]. now destruct (get (t0 :: rest) k). }
  cbn [commit_walk on_path].
  destruct (Nat.eqb_spec c (length rest)) as [->|Hc].
  - pose proof (IH (t_parent t0) k) as IHk. pose proof (cw_length rest (t_parent t0)) as Hlen.
    destruct (commit_walk rest (t_parent t0)) as [rest' js]. cbn [fst] in *.
    cbn [get]. rewrite Hlen.
    destruct (Nat.eqb_spec k (length rest)) as [->|Hk]; [reflexivity|].
    rewrite IHk. cbn [orb]. reflexivity.
  - pose proof (IH (Some c) k) as IHk. pose proof (cw_length rest (Some c)) as Hlen.
    destruct (commit_walk rest (Some c)) as [rest' js]. cbn [fst] in *.
    cbn [get]. rewrite Hlen.
    destruct (Nat.eqb_spec k (length rest)) as [->|Hk].
    + cbn. destruct (on_path rest (Some c) (length rest)) eqn:E; [|reflexivity].
      apply on_path_lt in E. lia.
    + exact IHk.
Qed.

Lemma cw_chain l : forall c cur, chain_from (fst (commit_walk l c)) cur = chain_from l cur.
Proof.
  induction l as [|t0 rest IH]; intros [c|] cur; cbn [commit_walk fst]; try reflexivity.
  - now destruct cur.
  - destruct (Nat.eqb c (length rest)).
    + pose proof (IH (t_parent t0)) as IHc. pose proof (cw_length rest (t_parent t0)) as Hlen.
      destruct (commit_walk rest (t_parent t0)) as [rest' js]. cbn [fst] in *.
      destruct cur as [k|]; [|reflexivity]. cbn [chain_from]. rewrite Hlen.
      destruct (Nat.eqb k (length rest)); cbn; now rewrite IHc.
    + pose proof (IH (Some c)) as IHc. pose proof (cw_length rest (Some c)) as Hlen.
      destruct (commit_walk rest (Some c)) as [rest' js]. cbn [fst] in *.
      destruct cur as [k|]; [|reflexivity]. cbn [chain_from]. rewrite Hlen.
      destruct (Nat.eqb k (length rest)); now rewrite IHc.
Qed.

Lemma on_path_start l : forall t tk, get l t = Some tk -> on_path l (Some t) t = true.
Proof.
  induction l as [|t0 rest IH]; intros t tk H; [discriminate|].
  cbn in *. destruct (Nat.eqb_spec t (length rest)).
  - now rewrite Nat.eqb_refl.
  - eauto.
Qed.

Lemma on_path_cons_ne t0 l cur k :
  (forall p, cur = Some p -> p <> length l) -> on_path (t0 :: l) cur k = on_path l cur k.
Proof.
  destruct cur as [p|]; intro H; cbn; [|now destruct l].
  destruct (Nat.eqb_spec p (length l)); [exfalso; now apply (H p)|reflexivity].
Qed.

(* the path follows parent pointers *)
Lemma on_path_parent l : forall cur k tk p,
  on_path l cur k = true -> get l k = Some tk -> t_parent tk = Some p ->
  (forall c, cur = Some c -> forall tc q, get l c = Some tc -> t_parent tc = Some q -> (q < c)%nat) ->
  (forall tk' q, In tk' l -> True) ->
  (p < k)%nat ->
  on_path l cur p = true.
Proof.
Abort.
